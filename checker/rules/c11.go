package rules

import (
	"go/ast"
	"go/types"
	"strings"

	"verif/checker/fw"
)

const (
	inboundGo  = "v2/pkg/engine/resolve/inbound_request_singleflight.go"
	subgraphGo = "v2/pkg/engine/resolve/subgraph_request_singleflight.go"
	loaderGo   = "v2/pkg/engine/resolve/loader.go"
	lkShard    = "resolve.requestShard.mu"
)

func init() {
	Registry["C11"] = Spec{
		Pkgs: map[string][]string{"v2": {"resolve", "plan"}},
		Run:  runC11,
		Thorough: func(r *fw.Run) {
			workspaceWhoMayCall(r, []wsCallRule{
				{Rule: "C11-T1", What: "the single-flight tables are driven only from package resolve (GetOrCreate / FinishOk / FinishErr / GetOrCreateItem / Finish)", Callees: []string{"resolve:InboundRequestSingleFlight.GetOrCreate", "resolve:InboundRequestSingleFlight.FinishOk", "resolve:InboundRequestSingleFlight.FinishErr", "resolve:SubgraphRequestSingleFlight.GetOrCreateItem", "resolve:SubgraphRequestSingleFlight.Finish"}, Allowed: []string{"resolve:"}, Why: "the in-flight tables are manipulated from another package: the exactly-once Finish discipline the resolver keeps (C11-R1) says nothing about that caller — followers wedge or the wake-up channel is closed twice", Expected: 9},
			})
		},
		Explanation: "Decides the structural half of 'de-duplication never wedges or crashes and shares only identical queries': on every path of the two coalescing call sites the leader finishes exactly once (zero ⇒ followers wedge, two ⇒ close of closed channel); " +
			"every field followers read is written before the wake-up close, and a publish decision that reads the follower counter is atomic with follower registration; shared records are written only on the leader path and shared buffers are never index-stored/appended; " +
			"both keys derive from all their documented components; sharing is dominated by the query-only eligibility tests; every wait on a shared record can also leave through the participant's own context; " +
			"and (context provenance) whether a follower can return the leader's cancellation verbatim. It does not decide byte equality of what participants receive.",
		Mutants: []Mutant{
			{Name: "single-flight leader no longer stores its error in the shared item (the retired seed C07-21)", File: "v2/pkg/engine/resolve/loader.go", Rule: "C11-R14", Key: "Loader.loadByContext/leader-publishes-error",
				Old: "\t\titem.err = err\n\t\t// the leader's own context ended", New: "\t\t// the leader's own context ended"},
			{Name: "the request extensions are left out of the inbound key again (reverts the F79 fix)", File: inboundGo, Rule: "C11-R13", Key: "Context.Extensions/fed-to-the-inbound-key",
				Old: "\t_, _ = h.Write(ctx.Extensions)\n", New: ""},
			{Name: "the inbound leader no longer finishes its request when it panics (reverts the F64 fix)", File: resolveGo, Rule: "C11-R12", Key: "Resolver.ArenaResolveGraphQLResponse/leader-finish-survives-panic",
				Old: "\t\t\t\tdefault:\n\t\t\t\t\tr.inboundRequestSingleFlight.FinishPanicked(inflight, fmt.Errorf(\"the leader of a de-duplicated request panicked: %v\", p))\n", New: "\t\t\t\tdefault:\n\t\t\t\t\t_ = fmt.Errorf(\"the leader of a de-duplicated request panicked: %v\", p)\n"},
			{Name: "the subgraph leader finishes its item only on its return paths (positive control of the panic rule)", File: loaderGo, Rule: "C11-R12", Key: "Loader.loadByContext/leader-finish-survives-panic",
				Old: "\tdefer l.singleFlight.Finish(item)\n\n\t// Perform the actual load\n\terr := l.loadByContextDirect(ctx, source, headers, input, res)\n", New: "\t// Perform the actual load\n\terr := l.loadByContextDirect(ctx, source, headers, input, res)\n\tdefer l.singleFlight.Finish(item)\n"},
			{Name: "a fetch is a mutation only below a root type called Mutation (seeded change C11-13)", File: "v2/pkg/engine/plan/path_builder_visitor.go", Rule: "C11-R11", Key: "pathBuilderVisitor.resolveRootFieldOperationType/Mutation-from-schema-root",
				Old: "\tif typeName == c.definition.Index.MutationTypeName.String() {\n", New: "\tif typeName == string(ast.DefaultMutationTypeName) {\n"},
			{Name: "subgraph leader no longer records whether its own context had ended (reverts part of the F54 fix)", File: "v2/pkg/engine/resolve/loader.go", Rule: "C11-R10", Key: "subgraph/Loader.loadByContext/leader-records-its-context-state",
				Old: "\t\titem.leaderGone = ctx.Err() != nil\n", New: ""},
			{Name: "inbound follower returns the shared error without asking whether the leader was gone (reverts part of the F54 fix)", File: "v2/pkg/engine/resolve/inbound_request_singleflight.go", Rule: "C11-R10", Key: "inbound/InboundRequestSingleFlight.GetOrCreate/follower-returns-shared-error-only-after-testing-the-record",
				Old: "if leaderCancelled(ctx.ctx, request.Err) || (request.leaderGone && ctx.ctx.Err() == nil) {", New: "if leaderCancelled(ctx.ctx, request.Err) {"},
			{Name: "leader publishes a re-formatted error (seeded change C11-22)", File: "v2/pkg/engine/resolve/loader.go", Rule: "C11-R9", Key: "Loader.loadByContext/shared-error-keeps-chain",
				Old: "\t\titem.err = err\n\t\t// the leader's own context ended", New: "\t\titem.err = fmt.Errorf(\"shared subgraph request failed: %v\", err)\n\t\t// the leader's own context ended"},
			{Name: "FinishErr skips the wake-up when no follower is counted (seeded change C11-12)", File: "v2/pkg/engine/resolve/inbound_request_singleflight.go", Rule: "C11-R2", Key: "InboundRequestSingleFlight.FinishErr/every-exit-wakes-waiters",
				Old: "\tshard.m.Delete(req.ID)\n\treq.Err = err\n\treq.leaderGone = req.leaderCtx", New: "\tshard.m.Delete(req.ID)\n\tif !req.HasFollowers() {\n\t\treturn\n\t}\n\treq.Err = err\n\treq.leaderGone = req.leaderCtx"},
			{Name: "leader's client write error shared with the followers (seeded change C11-11)", File: resolveGo, Rule: "C11-R8", Key: "ArenaResolveGraphQLResponse/finish-err-not-from-client-write",
				Old: "\tresp.ResponseWriteDuration = time.Since(responseWriteStart)\n\t// Extract data from the leader's context", New: "\tresp.ResponseWriteDuration = time.Since(responseWriteStart)\n\tif err != nil {\n\t\tr.inboundRequestSingleFlight.FinishErr(inflight, err)\n\t\tr.responseBufferPool.Release(responseArena)\n\t\treturn resp, err\n\t}\n\t// Extract data from the leader's context"},
			{Name: "failed subgraph loads stay in the in-flight table (seeded change C07-13)", File: "v2/pkg/engine/resolve/subgraph_request_singleflight.go", Rule: "C11-R2", Key: "SubgraphRequestSingleFlight.Finish/removed-before-close",
				Old: "\tshard.items.Delete(item.SFKey)\n\tclose(item.loaded)\n", New: "\tif len(item.response) == 0 {\n\t\tclose(item.loaded)\n\t\treturn\n\t}\n\tshard.items.Delete(item.SFKey)\n\tclose(item.loaded)\n"},
			{Name: "FinishOk also called on the write-error path (double finish)", File: resolveGo, Rule: "C11-R1", Key: "ArenaResolveGraphQLResponse",
				Old: "\tr.inboundRequestSingleFlight.FinishOk(inflight, buf.Bytes())\n", New: "\tif err != nil {\n\t\tr.inboundRequestSingleFlight.FinishErr(inflight, err)\n\t}\n\tr.inboundRequestSingleFlight.FinishOk(inflight, buf.Bytes())\n"},
			{Name: "subgraph leader finishes explicitly only on success (defer removed)", File: loaderGo, Rule: "C11-R1", Key: "loadByContext",
				Old: "\tdefer l.singleFlight.Finish(item)\n\n\t// Perform the actual load\n\terr := l.loadByContextDirect(ctx, source, headers, input, res)\n\tif err != nil {\n\t\titem.err = err\n\t\t// the leader's own context ended (its client went away, or its deadline passed):\n\t\t// the error is the leader's, the followers load on their own\n\t\titem.leaderGone = ctx.Err() != nil\n\t\treturn err\n\t}\n",
				New: "\t// Perform the actual load\n\terr := l.loadByContextDirect(ctx, source, headers, input, res)\n\tif err != nil {\n\t\titem.err = err\n\t\t// the leader's own context ended (its client went away, or its deadline passed):\n\t\t// the error is the leader's, the followers load on their own\n\t\titem.leaderGone = ctx.Err() != nil\n\t\treturn err\n\t}\n\tdefer l.singleFlight.Finish(item)\n"},
			{Name: "follower registered outside the shard critical section", File: inboundGo, Rule: "C11-R2", Key: "GetOrCreate",
				Old: "\t\trequest.AddFollower()\n\t}\n\tshard.mu.Unlock()\n\tif shared {\n", New: "\t}\n\tshard.mu.Unlock()\n\tif shared {\n\t\trequest.AddFollower()\n"},
			{Name: "FinishErr closes Done before storing the error", File: inboundGo, Rule: "C11-R2", Key: "FinishErr",
				Old: "\treq.Err = err\n\treq.leaderGone = req.leaderCtx != nil && req.leaderCtx.Err() != nil\n\tclose(req.Done)", New: "\treq.leaderGone = req.leaderCtx != nil && req.leaderCtx.Err() != nil\n\tclose(req.Done)\n\treq.Err = err"},
			{Name: "variables hash dropped from the inbound key", File: inboundGo, Rule: "C11-R4", Key: "VariablesHash",
				Old: "binary.LittleEndian.PutUint64(b[8:16], ctx.VariablesHash)", New: "binary.LittleEndian.PutUint64(b[8:16], 0)"},
			{Name: "headers hash dropped from the subgraph single-flight key", File: subgraphGo, Rule: "C11-R4", Key: "extraKey",
				Old: "\t\tbinary.LittleEndian.PutUint64(buf[0:8], extraKey)\n\t\t_, _ = h.Write(buf[:])", New: "\t\tbinary.LittleEndian.PutUint64(buf[0:8], extraKey)"},
			{Name: "mutations become eligible for subgraph single flight", File: loaderGo, Rule: "C11-R5", Key: "singleFlightAllowed",
				Old: "\tif info.OperationType == ast.OperationTypeQuery {\n\t\treturn true\n\t}\n\treturn false\n}\n\nfunc (l *Loader) loadByContext", New: "\tif info.OperationType != ast.OperationTypeSubscription {\n\t\treturn true\n\t}\n\treturn false\n}\n\nfunc (l *Loader) loadByContext"},
			{Name: "follower waits for the leader without watching its own context", File: loaderGo, Rule: "C11-R6", Key: "loadByContext",
				Old: "\t\tselect {\n\t\tcase <-item.loaded:\n\t\tcase <-ctx.Done():\n\t\t\treturn ctx.Err()\n\t\t}\n", New: "\t\t<-item.loaded\n"},
			{Name: "subgraph follower returns the leader's cancellation verbatim", File: loaderGo, Rule: "C11-R7", Key: "loadByContext",
				Old: "\t\t\tif leaderCancelled(ctx, item.err) || (item.leaderGone && ctx.Err() == nil) {", New: "\t\t\tif false && (leaderCancelled(ctx, item.err) || (item.leaderGone && ctx.Err() == nil)) {"},
			{Name: "follower patches the shared response in place", File: loaderGo, Rule: "C11-R3", Key: "shared-buffer",
				Old: "\t\tres.out = item.response\n", New: "\t\tres.out = item.response\n\t\tif len(res.out) > 0 {\n\t\t\tres.out[0] = '{'\n\t\t}\n"},
		},
	}
}

func runC11(r *fw.Run) {
	defer c11LeaderWriteErrorIsNotShared(r)
	defer c11SubgraphLeaderPublishesOutcome(r)
	defer c11OperationTypeFromSchemaRoots(r)
	defer c11LeaderFinishSurvivesPanic(r)
	defer c11InboundKeyCoversLateInjections(r)
	defer c11SharedErrorKeepsItsChain(r)
	defer c11LeaderContextErrorsRecognised(r)
	p := r.Prog
	pk := p.Pkg("resolve")
	if pk == nil {
		r.Error("package resolve not loaded")
		return
	}
	info := pk.TypesInfo

	// ---- R1 leader finishes exactly once -----------------------------------------------------
	r.Rule("C11-R1", "from the return of GetOrCreate / GetOrCreateItem every path to an exit passes exactly one Finish (FinishOk|FinishErr, resp. Finish), except the error and follower edges")
	if fi := p.Func("resolve", "Resolver.ArenaResolveGraphQLResponse"); fi == nil {
		r.Error("C11-R1: Resolver.ArenaResolveGraphQLResponse not found")
	} else {
		var errObj, reqObj types.Object
		// Functions that can only fail for a request whose context carries an authorizer: every return of a non-nil error is
		// dominated by a non-nil test of a Context field of an authorizer interface type. Such a request is never
		// de-duplicated (C14-R6: no record is shared where an authorizer field is non-nil), so on the error edge of such a call
		// the record is nil and finishing it is a no-op: the exit may finish 0 or 1 times.
		authDependent := map[*types.Func]bool{}
		for _, cand := range p.Funcs("resolve") {
			sig := cand.Obj.Type().(*types.Signature)
			if sig.Results().Len() != 1 || sig.Results().At(0).Type().String() != "error" {
				continue
			}
			cinfo := cand.Info()
			nErr, allGuarded := 0, true
			cin := fw.NewInterp(cand)
			cin.H = fw.Hooks{
				Lit: func(l *ast.FuncLit, ctx fw.LitCtx, st *fw.State) fw.LitMode { return fw.LitSkip },
				Cond: func(e ast.Expr, branch bool, st *fw.State) {
					a := fw.Atom(cinfo, e, branch)
					if a.Kind != "NonNil" {
						return
					}
					if fv, _ := fw.Field(cinfo, a.X); fv != nil && strings.HasSuffix(fw.RecvName(fv.Type()), "Authorizer") && fw.IsFieldSel(cinfo, a.X, "resolve", "Context", fv.Name()) {
						st.Set("has-authorizer")
					}
				},
				Exit: func(ret *ast.ReturnStmt, lit *ast.FuncLit, st *fw.State) {
					if lit != nil || ret == nil || !cin.Final() || len(ret.Results) != 1 {
						return
					}
					if id, isID := ast.Unparen(ret.Results[0]).(*ast.Ident); isID && cinfo.Uses[id] == types.Universe.Lookup("nil") {
						return
					}
					nErr++
					if !st.Must("has-authorizer") {
						allGuarded = false
					}
				},
			}
			cin.Run(nil)
			if nErr > 0 && allGuarded {
				authDependent[cand.Obj] = true
			}
		}
		in := fw.NewInterp(fi)
		nExit := 0
		in.H = fw.Hooks{
			Lit: func(l *ast.FuncLit, ctx fw.LitCtx, st *fw.State) fw.LitMode {
				if ctx.Deferred {
					return fw.LitOnce
				}
				return fw.LitSkip
			},
			Node: func(n ast.Node, st *fw.State) {
				switch x := n.(type) {
				case *ast.AssignStmt:
					if len(x.Rhs) == 1 {
						if c, ok := ast.Unparen(x.Rhs[0]).(*ast.CallExpr); ok && fw.CallIs(info, c, "resolve", "InboundRequestSingleFlight.GetOrCreate") && len(x.Lhs) == 2 {
							reqObj, errObj = fw.RootObj(info, x.Lhs[0]), fw.RootObj(info, x.Lhs[1])
							st.Set("acquired")
							st.Set("err-fresh")
							return
						}
					}
					for _, l := range x.Lhs {
						if errObj != nil && fw.RootObj(info, l) == errObj {
							st.Kill("err-fresh")
							st.Kill("err-auth")
							if len(x.Rhs) == 1 {
								if c, ok := ast.Unparen(x.Rhs[0]).(*ast.CallExpr); ok && authDependent[fw.Callee(info, c)] {
									st.Set("err-auth")
								}
							}
						}
					}
				case *ast.CallExpr:
					if fw.CallIs(info, x, "resolve", "InboundRequestSingleFlight.FinishOk") || fw.CallIs(info, x, "resolve", "InboundRequestSingleFlight.FinishErr") {
						if len(x.Args) > 0 && fw.RootObj(info, x.Args[0]) == reqObj {
							st.Inc("finish")
						}
					}
				}
			},
			Cond: func(e ast.Expr, branch bool, st *fw.State) {
				if x, eq, ok := fw.NilCheck(info, e); ok {
					if errObj != nil && fw.RootObj(info, x) == errObj && st.Must("err-fresh") && eq != branch {
						st.Set("exempt") // GetOrCreate failed: there is no record to finish
					}
					if errObj != nil && fw.RootObj(info, x) == errObj && st.Must("err-auth") && eq != branch {
						st.Set("optional") // only a request with an authorizer fails here, and such a request has no record
					}
					if fw.IsFieldSel(info, x, "resolve", "InflightRequest", "Data") && fw.RootObj(info, x) == reqObj && eq != branch {
						st.Set("exempt") // follower edge: Data != nil
					}
				}
			},
			Exit: func(ret *ast.ReturnStmt, lit *ast.FuncLit, st *fw.State) {
				if lit != nil || !in.Final() || !st.May("acquired") {
					return
				}
				nExit++
				pos := fi.Decl.End()
				if ret != nil {
					pos = ret.Pos()
				}
				c := st.Get("finish")
				ok := st.Must("exempt") && c.Max == 0 || (!st.May("exempt") && c == fw.Cnt{Min: 1, Max: 1}) || (st.Must("optional") && !st.May("exempt") && c.Max <= 1)
				why := "the leader reaches this exit having finished the shared record " + cntStr(c) + " times: 0 ⇒ followers block until their own context ends (wedge); 2 ⇒ close of a closed channel (process panic)"
				r.Check(ok, "C11-R1", fi.Name()+"/exit-finish-once", p.Pos(pos), "exit of ArenaResolveGraphQLResponse: FinishOk/FinishErr exactly once", why)
			},
		}
		in.Run(nil)
		r.Expect("C11-R1", "exits of ArenaResolveGraphQLResponse after GetOrCreate", nExit, 7)
	}
	checkLoadByContextFinish(r, "C11-R1")

	// ---- R2 publish before close ------------------------------------------------------------
	r.Rule("C11-R2", "every field followers read after the wake-up is written before the channel is closed; a publish decision that reads the follower counter is atomic (same critical section) with map removal, and follower registration with map lookup")
	type closeSpec struct {
		fn       string
		chanT    string
		chanF    string
		must     []string // fields of chanT that must be written before close on all paths
		optional string   // field whose write may be conditional on HasFollowers under the shard lock
	}
	for _, cs := range []closeSpec{
		{"InboundRequestSingleFlight.FinishErr", "InflightRequest", "Done", []string{"Err"}, ""},
		{"InboundRequestSingleFlight.FinishOk", "InflightRequest", "Done", nil, "Data"},
	} {
		fi := p.Func("resolve", cs.fn)
		if fi == nil {
			r.Error("C11-R2: %s not found", cs.fn)
			continue
		}
		la := fw.NewLockAnalysis(p)
		la.Funcs = []*fw.FuncInfo{fi}
		nClose := 0
		in := fw.NewInterp(fi)
		in.H = fw.Hooks{
			Node: func(n ast.Node, st *fw.State) {
				if c, ok := n.(*ast.CallExpr); ok {
					if op, ok := fw.LockOpOf(info, c); ok {
						fw.ApplyLockOp(op, st)
						return
					}
					if fw.CallIs(info, c, "resolve", "InflightRequest.HasFollowers") {
						if fw.Held(st, lkShard, false) && st.Must("under:"+lkShard+":deleted") {
							st.Set("counter-read-atomic")
						} else {
							st.Set("counter-read-racy")
						}
					}
					if fn := fw.Callee(info, c); fn != nil && fw.FuncName(fn) == "Map.Delete" && fn.Pkg().Path() == "sync" {
						if fw.Held(st, lkShard, false) {
							st.Set("under:" + lkShard + ":deleted")
						}
					}
					if fw.Builtin(info, c) == "close" && len(c.Args) == 1 && fw.IsFieldSel(info, c.Args[0], "resolve", cs.chanT, cs.chanF) && in.Final() {
						nClose++
						for _, f := range cs.must {
							r.Check(st.Must("wrote:"+f), "C11-R2", fi.Name()+"/publish-before-close:"+f, p.Pos(c.Pos()), cs.chanT+"."+f+" written before close("+cs.chanF+") in "+fi.Name(),
								"the channel is closed on a path that has not yet stored "+f+": a woken follower reads the zero value (takes a failed request for a successful one)")
						}
						if cs.optional != "" {
							uncond := st.Must("wrote:" + cs.optional)
							atomic := !st.May("counter-read-racy") && st.May("counter-read-atomic")
							r.Check(uncond || atomic, "C11-R2", fi.Name()+"/publish-before-close:"+cs.optional, p.Pos(c.Pos()), cs.chanT+"."+cs.optional+" published before close("+cs.chanF+"), or skipped only on an atomic 'no followers' decision",
								"Data is published only if HasFollowers(), and that read is not in the shard critical section that removed the entry: a follower between LoadOrStore and AddFollower is woken with Data==nil, is taken for a leader by the caller and closes the closed channel (panic)")
						}
					}
				}
				for _, t := range fw.WriteTargets(info, n) {
					if v, sel := fw.Field(info, t); v != nil {
						if _, tn := fw.FieldOwner(info, sel); tn == cs.chanT {
							st.Set("wrote:" + v.Name())
						}
					}
				}
			},
		}
		in.Run(nil)
		r.Expect("C11-R2", "close("+cs.chanF+") in "+cs.fn, nClose, 1)
	}
	checkRemovedBeforeClose(r, "C11-R2", true)
	// follower side of the atomicity: LoadOrStore and AddFollower in one critical section
	if fi := p.Func("resolve", "InboundRequestSingleFlight.GetOrCreate"); fi == nil {
		r.Error("C11-R2: GetOrCreate not found")
	} else {
		n := 0
		in := fw.NewInterp(fi)
		in.H = fw.Hooks{
			Node: func(nd ast.Node, st *fw.State) {
				c, ok := nd.(*ast.CallExpr)
				if !ok {
					return
				}
				if op, ok := fw.LockOpOf(info, c); ok {
					fw.ApplyLockOp(op, st)
					return
				}
				if fn := fw.Callee(info, c); fn != nil && fn.Pkg() != nil && fn.Pkg().Path() == "sync" && fw.FuncName(fn) == "Map.LoadOrStore" {
					if fw.Held(st, lkShard, false) {
						st.Set("under:" + lkShard + ":looked-up")
					}
				}
				if fw.CallIs(info, c, "resolve", "InflightRequest.AddFollower") && in.Final() {
					n++
					r.Check(st.Must("under:"+lkShard+":looked-up"), "C11-R2", fi.Name()+"/register-follower-atomically", p.Pos(c.Pos()), "AddFollower in the same shard critical section as the LoadOrStore that found the leader",
						"the follower is counted after the critical section of its lookup ended (or there is none): the leader can delete the entry and read a zero follower count in between, skip publishing Data and wake this follower without data")
				}
			},
		}
		in.Run(nil)
		r.Expect("C11-R2", "AddFollower calls in GetOrCreate", n, 1)
	}
	// subgraph single flight: the writes of the shared item happen on the leader path with Finish deferred
	r.Rule("C11-R3", "shared records are written only by the leader path and before Finish closes the channel, and shared response buffers are never index-stored, appended to or copied into")
	sfFields := map[string]bool{"response": true, "err": true, "statusCode": true, "responseHeaders": true}
	nW := 0
	for _, fi := range p.Funcs("resolve") {
		touches := false
		fw.WalkAll(fi.Decl.Body, func(n ast.Node) bool {
			for _, t := range fw.WriteTargets(info, n) {
				if v, sel := fw.Field(info, t); v != nil {
					if _, tn := fw.FieldOwner(info, sel); tn == "SingleFlightItem" && sfFields[v.Name()] {
						touches = true
					}
				}
			}
			return true
		})
		if !touches {
			continue
		}
		in := fw.NewInterp(fi)
		var sharedObj types.Object
		in.H = fw.Hooks{
			Node: func(n ast.Node, st *fw.State) {
				if x, ok := n.(*ast.AssignStmt); ok && len(x.Rhs) == 1 && len(x.Lhs) == 2 {
					if c, ok := ast.Unparen(x.Rhs[0]).(*ast.CallExpr); ok && fw.CallIs(info, c, "resolve", "SubgraphRequestSingleFlight.GetOrCreateItem") {
						sharedObj = fw.RootObj(info, x.Lhs[1])
					}
				}
				if c, ok := n.(*ast.CallExpr); ok && fw.CallIs(info, c, "resolve", "SubgraphRequestSingleFlight.Finish") {
					st.Set("finished")
				}
				if !in.Final() {
					return
				}
				for _, t := range fw.WriteTargets(info, n) {
					if v, sel := fw.Field(info, t); v != nil {
						if _, tn := fw.FieldOwner(info, sel); tn == "SingleFlightItem" && sfFields[v.Name()] {
							nW++
							r.Check(!st.May("finished") && !st.May("follower"), "C11-R3", fi.Name()+"/leader-writes:"+v.Name(), p.Pos(t.Pos()), "write of SingleFlightItem."+v.Name()+" in "+fi.Name(),
								"the shared item is written after Finish(item) closed the channel, or on a path a follower can take: followers read it concurrently after the wake-up")
						}
					}
				}
			},
			Cond: func(e ast.Expr, branch bool, st *fw.State) {
				if id, ok := ast.Unparen(e).(*ast.Ident); ok && sharedObj != nil && info.Uses[id] == sharedObj && branch {
					st.Set("follower")
				}
			},
		}
		in.Run(nil)
	}
	r.Expect("C11-R3", "writes of shared SingleFlightItem fields", nW, 4)
	// the same for InflightRequest: Data/Err only in FinishOk/FinishErr, SharedData only before FinishOk
	nIW := 0
	fw.EachNode(p.Funcs("resolve"), func(fi *fw.FuncInfo, n ast.Node, stack []ast.Node) {
		for _, t := range fw.WriteTargets(info, n) {
			v, sel := fw.Field(info, t)
			if v == nil {
				continue
			}
			if _, tn := fw.FieldOwner(info, sel); tn != "InflightRequest" {
				continue
			}
			switch v.Name() {
			case "Data", "Err":
				nIW++
				r.Check(strings.HasPrefix(fi.Name(), "InboundRequestSingleFlight.Finish"), "C11-R3", fi.Name()+"/inflight-write:"+v.Name(), p.Pos(t.Pos()), "write of InflightRequest."+v.Name()+" in "+fi.Name(),
					"InflightRequest."+v.Name()+" may only be written by FinishOk/FinishErr, before the close of Done")
			case "SharedData":
				nIW++
				// must be followed by FinishOk in the same function (checked by order: a FinishOk call after it on all paths)
				ok := mustFollow(fi, n, func(c *ast.CallExpr) bool {
					return fw.CallIs(info, c, "resolve", "InboundRequestSingleFlight.FinishOk")
				})
				r.Check(ok, "C11-R3", fi.Name()+"/inflight-write:SharedData", p.Pos(t.Pos()), "InflightRequest.SharedData is set before FinishOk on every path",
					"SharedData is written on a path where FinishOk (the close of Done) does not follow, i.e. possibly after followers were woken")
			}
		}
	})
	r.Expect("C11-R3", "writes of InflightRequest.Data/Err/SharedData", nIW, 3)
	// shared buffers never mutated in place
	nBuf, nBad := 0, 0
	isShared := func(e ast.Expr) bool {
		return fw.IsFieldSel(info, e, "resolve", "SingleFlightItem", "response") || fw.IsFieldSel(info, e, "resolve", "InflightRequest", "Data") || fw.IsFieldSel(info, e, "resolve", "result", "out")
	}
	fw.EachNode(p.Funcs("resolve"), func(fi *fw.FuncInfo, n ast.Node, stack []ast.Node) {
		if sel, ok := n.(*ast.SelectorExpr); ok && isShared(sel) {
			nBuf++
		}
		bad := func(pos ast.Node, how string) {
			nBad++
			r.Fail("C11-R3", fw.StackLabel(fi, stack)+"/shared-buffer-mutated", p.Pos(pos.Pos()), "shared response buffer "+how+" in "+fi.Name(),
				"a buffer that single-flight participants alias (result.out / SingleFlightItem.response / InflightRequest.Data) is modified in place: other participants observe a later-mutated buffer")
		}
		switch x := n.(type) {
		case *ast.AssignStmt:
			for _, l := range x.Lhs {
				switch y := ast.Unparen(l).(type) {
				case *ast.IndexExpr:
					if isShared(y.X) {
						bad(l, "index-stored")
					}
				}
			}
			for _, rh := range x.Rhs {
				if c, ok := ast.Unparen(rh).(*ast.CallExpr); ok && fw.Builtin(info, c) == "append" && len(c.Args) > 0 && isShared(c.Args[0]) {
					bad(c, "appended to")
				}
			}
		case *ast.CallExpr:
			if fw.Builtin(info, x) == "copy" && len(x.Args) == 2 {
				dst := x.Args[0]
				if s, ok := ast.Unparen(dst).(*ast.SliceExpr); ok {
					dst = s.X
				}
				if isShared(dst) {
					// copying INTO a freshly made req.Data inside FinishOk is the publication itself
					if fi.Name() == "InboundRequestSingleFlight.FinishOk" && fw.IsFieldSel(info, dst, "resolve", "InflightRequest", "Data") {
						return
					}
					bad(x, "copied into")
				}
			}
		}
	})
	if nBad == 0 {
		r.Pass("C11-R3", "resolve/shared-buffer", "-", "no in-place mutation among the uses of result.out / SingleFlightItem.response / InflightRequest.Data", true)
	}
	r.Expect("C11-R3", "uses of shared buffers", nBuf, 26)

	// ---- R4 keys -------------------------------------------------------------------------------
	r.Rule("C11-R4", "the inbound key derives from Request.ID, VariablesHash and SubgraphHeadersBuilder.HashAll(); the subgraph key from DataSourceID, the request input and the forwarded-headers hash")
	if fi := p.Func("resolve", "InboundRequestSingleFlight.GetOrCreate"); fi != nil {
		d := fw.NewDeriver(fi)
		n := 0
		fw.WalkAll(fi.Decl.Body, func(nd ast.Node) bool {
			c, ok := nd.(*ast.CallExpr)
			if !ok {
				return true
			}
			fn := fw.Callee(info, c)
			if fn == nil || fn.Pkg() == nil || fn.Pkg().Path() != "sync" || fw.FuncName(fn) != "Map.LoadOrStore" {
				return true
			}
			n++
			key := c.Args[0]
			for _, src := range []struct {
				name string
				pred func(ast.Expr) bool
				why  string
			}{
				{"Request.ID", d.IsField("resolve", "Request", "ID"), "requests for different operations would share one execution"},
				{"VariablesHash", d.IsField("resolve", "Context", "VariablesHash"), "requests with different variables would receive each other's response"},
				{"HashAll", d.IsCallTo("resolve", "SubgraphHeadersBuilder.HashAll"), "requests with different forwarded headers (e.g. Authorization) would receive each other's response"},
			} {
				r.Check(d.Derives(key, src.pred), "C11-R4", fi.Name()+"/key<-"+src.name, p.Pos(c.Pos()), "inbound single-flight key derives from "+src.name,
					"the LoadOrStore key does not depend on "+src.name+": "+src.why)
			}
			return true
		})
		r.Expect("C11-R4", "LoadOrStore in GetOrCreate", n, 1)
	} else {
		r.Error("C11-R4: GetOrCreate not found")
	}
	// the optional headers component is skipped only when there is no headers builder / no hash (path rule)
	if fi := p.Func("resolve", "InboundRequestSingleFlight.GetOrCreate"); fi != nil {
		isLoadOrStore := func(c *ast.CallExpr) bool {
			fn := fw.Callee(info, c)
			return fn != nil && fn.Pkg() != nil && fn.Pkg().Path() == "sync" && fw.FuncName(fn) == "Map.LoadOrStore"
		}
		ok, n := componentOnEveryPath(fi, isLoadOrStore,
			func(a fw.CondAtom) bool {
				return a.Kind == "Nil" && fw.IsFieldSel(info, a.X, "resolve", "Context", "SubgraphHeadersBuilder")
			},
			func(nd ast.Node) bool {
				as, isAs := nd.(*ast.AssignStmt)
				return isAs && len(as.Rhs) == 1 && mentionsCall(info, as.Rhs[0], "resolve", "SubgraphHeadersBuilder.HashAll")
			})
		r.Expect("C11-R4", "key lookup sites for the headers path rule", n, 1)
		r.Check(ok, "C11-R4", fi.Name()+"/headers-hash-on-every-path", fi.Pos(), "the inbound key takes HashAll() on every path on which a SubgraphHeadersBuilder exists",
			"a path reaches the key lookup with a headers builder present but without HashAll() having been taken (extra condition on the headers component): requests that differ only in forwarded headers are shared")
	}
	if fi := p.Func("resolve", "SubgraphRequestSingleFlight.computeSFKey"); fi != nil {
		d0 := fw.NewDeriver(fi)
		isSum := func(c *ast.CallExpr) bool {
			fn := fw.Callee(info, c)
			return fn != nil && fn.Name() == "Sum64"
		}
		ok, n := componentOnEveryPath(fi, isSum,
			func(a fw.CondAtom) bool {
				if a.Kind != "Eq" {
					return false
				}
				v, isC := fw.ConstVal(info, a.Y)
				return isC && v == "0" && d0.ParamAt(3)(ast.Unparen(a.X))
			},
			func(nd ast.Node) bool {
				c, isC := nd.(*ast.CallExpr)
				if !isC {
					return false
				}
				fn := fw.Callee(info, c)
				return fn != nil && (fn.Name() == "Write" || fn.Name() == "WriteString") && len(c.Args) == 1 && d0.Derives(c.Args[0], d0.ParamAt(3))
			})
		r.Expect("C11-R4", "Sum64 in computeSFKey", n, 1)
		r.Check(ok, "C11-R4", fi.Name()+"/headers-hash-on-every-path", fi.Pos(), "the subgraph key is fed the headers hash on every path on which it is non-zero",
			"a path reaches Sum64 with a non-zero headers hash that was not written into the digest: subgraph requests that differ only in forwarded headers are coalesced")
	}
	if fi := p.Func("resolve", "SubgraphRequestSingleFlight.computeSFKey"); fi != nil {
		d := fw.NewDeriver(fi)
		n := 0
		fw.WalkAll(fi.Decl.Body, func(nd ast.Node) bool {
			ret, ok := nd.(*ast.ReturnStmt)
			if !ok || len(ret.Results) != 1 {
				return true
			}
			n++
			for _, src := range []struct {
				name string
				pred func(ast.Expr) bool
			}{
				{"DataSourceID", d.IsField("resolve", "FetchInfo", "DataSourceID")},
				{"input", d.ParamAt(2)},
				{"extraKey", d.ParamAt(3)},
			} {
				r.Check(d.Derives(ret.Results[0], src.pred), "C11-R4", fi.Name()+"/key<-"+src.name, p.Pos(ret.Pos()), "subgraph single-flight key derives from "+src.name,
					"the returned key does not depend on "+src.name+": different subgraph requests would be coalesced and one participant receives another request's response")
			}
			return true
		})
		r.Expect("C11-R4", "returns of computeSFKey", n, 1)
	} else {
		r.Error("C11-R4: computeSFKey not found")
	}
	// plumbing: GetOrCreateItem → computeKeys → computeSFKey pass the three components through; loadByContext passes the headers hash
	type passThrough struct {
		fn, callee string
		args       map[int]int // callee arg index -> own param index
	}
	for _, pt := range []passThrough{
		{"SubgraphRequestSingleFlight.GetOrCreateItem", "SubgraphRequestSingleFlight.computeKeys", map[int]int{0: 0, 1: 1, 2: 2}},
		{"SubgraphRequestSingleFlight.computeKeys", "SubgraphRequestSingleFlight.computeSFKey", map[int]int{1: 0, 2: 1, 3: 2}},
	} {
		fi := p.Func("resolve", pt.fn)
		if fi == nil {
			r.Error("C11-R4: %s not found", pt.fn)
			continue
		}
		d := fw.NewDeriver(fi)
		n := 0
		fw.WalkAll(fi.Decl.Body, func(nd ast.Node) bool {
			c, ok := nd.(*ast.CallExpr)
			if !ok || !fw.CallIs(info, c, "resolve", pt.callee) {
				return true
			}
			n++
			for ai, pi := range pt.args {
				r.Check(ai < len(c.Args) && d.Derives(c.Args[ai], d.ParamAt(pi)), "C11-R4", fi.Name()+"/pass:"+itoa(ai), p.Pos(c.Pos()), "argument "+itoa(ai)+" of "+pt.callee+" is parameter "+itoa(pi)+" of "+pt.fn,
					"a key component is not passed through to the key computation")
			}
			return true
		})
		r.Expect("C11-R4", "call of "+pt.callee, n, 1)
	}
	if fi := p.Func("resolve", "Loader.loadByContext"); fi != nil {
		d := fw.NewDeriver(fi)
		n := 0
		fw.WalkAll(fi.Decl.Body, func(nd ast.Node) bool {
			c, ok := nd.(*ast.CallExpr)
			if !ok || !fw.CallIs(info, c, "resolve", "SubgraphRequestSingleFlight.GetOrCreateItem") {
				return true
			}
			n++
			r.Check(d.Derives(c.Args[1], d.ParamAt(3)), "C11-R4", fi.Name()+"/item-key<-input", p.Pos(c.Pos()), "GetOrCreateItem is keyed by the request input", "the single-flight key is not computed from the bytes that are sent")
			r.Check(d.Derives(c.Args[2], d.IsCallTo("resolve", "Loader.headersForSubgraphRequest")), "C11-R4", fi.Name()+"/item-key<-headers", p.Pos(c.Pos()), "GetOrCreateItem is keyed by the forwarded-headers hash",
				"the extra key is not the hash returned with the headers that are sent: requests that differ only in forwarded headers are coalesced")
			return true
		})
		r.Expect("C11-R4", "GetOrCreateItem call", n, 1)
		// and the headers that are sent are the ones that were hashed
		fw.WalkAll(fi.Decl.Body, func(nd ast.Node) bool {
			c, ok := nd.(*ast.CallExpr)
			if ok && fw.CallIs(info, c, "resolve", "Loader.loadByContextDirect") {
				r.Check(d.Derives(c.Args[2], d.IsCallTo("resolve", "Loader.headersForSubgraphRequest")), "C11-R4", fi.Name()+"/sent-headers=hashed-headers", p.Pos(c.Pos()),
					"headers passed to the load come from the same call that produced the hashed key", "the headers sent are not the ones whose hash is in the key")
			}
			return true
		})
	}
	if fi := p.Func("resolve", "Loader.headersForSubgraphRequest"); fi != nil {
		ok := false
		fw.WalkAll(fi.Decl.Body, func(nd ast.Node) bool {
			if ret, isRet := nd.(*ast.ReturnStmt); isRet && len(ret.Results) == 1 {
				if c, isCall := ast.Unparen(ret.Results[0]).(*ast.CallExpr); isCall && fw.CallIs(info, c, "resolve", "Context.HeadersForSubgraphRequest") {
					ok = true
				}
			}
			return true
		})
		r.Check(ok, "C11-R4", fi.Name()+"/source", fi.Pos(), "headersForSubgraphRequest returns Context.HeadersForSubgraphRequest(...) (headers and their hash from one call)", "headers and hash no longer come from one call")
	}

	// ---- R5 eligibility ---------------------------------------------------------------------------
	r.Rule("C11-R5", "sharing is reached only for queries: LoadOrStore/GetOrCreateItem are dominated by the eligibility tests, which return true only under OperationType == Query")
	for _, spec := range []struct {
		fn     string
		isSite func(*ast.CallExpr) bool
		guards map[string]func(e ast.Expr, branch bool) bool
	}{
		{"InboundRequestSingleFlight.GetOrCreate",
			func(c *ast.CallExpr) bool {
				fn := fw.Callee(info, c)
				return fn != nil && fn.Pkg() != nil && fn.Pkg().Path() == "sync" && fw.FuncName(fn) == "Map.LoadOrStore"
			},
			map[string]func(e ast.Expr, branch bool) bool{
				"SingleFlightAllowed()": func(e ast.Expr, branch bool) bool {
					c, ok := ast.Unparen(e).(*ast.CallExpr)
					return ok && branch && fw.CallIs(info, c, "resolve", "GraphQLResponse.SingleFlightAllowed")
				},
				"!DisableInboundRequestDeduplication": func(e ast.Expr, branch bool) bool {
					return !branch && fw.IsFieldSel(info, e, "resolve", "ExecutionOptions", "DisableInboundRequestDeduplication")
				},
			}},
		{"Loader.loadByContext",
			func(c *ast.CallExpr) bool {
				return fw.CallIs(info, c, "resolve", "SubgraphRequestSingleFlight.GetOrCreateItem")
			},
			map[string]func(e ast.Expr, branch bool) bool{
				"singleFlightAllowed()": func(e ast.Expr, branch bool) bool {
					c, ok := ast.Unparen(e).(*ast.CallExpr)
					return ok && branch && fw.CallIs(info, c, "resolve", "Loader.singleFlightAllowed")
				},
			}},
	} {
		fi := p.Func("resolve", spec.fn)
		if fi == nil {
			r.Error("C11-R5: %s not found", spec.fn)
			continue
		}
		n := 0
		in := fw.NewInterp(fi)
		in.H = fw.Hooks{
			Cond: func(e ast.Expr, branch bool, st *fw.State) {
				for name, g := range spec.guards {
					if g(e, branch) {
						st.Set("g:" + name)
					}
				}
			},
			Node: func(nd ast.Node, st *fw.State) {
				c, ok := nd.(*ast.CallExpr)
				if !ok || !in.Final() || !spec.isSite(c) {
					return
				}
				n++
				for name := range spec.guards {
					r.Check(st.Must("g:"+name), "C11-R5", fi.Name()+"/guard:"+name, p.Pos(c.Pos()), "sharing site in "+fi.Name()+" is dominated by "+name,
						"the shared record is looked up on a path that did not pass "+name+": mutations/subscriptions (or requests that opted out) would be coalesced")
				}
			},
		}
		in.Run(nil)
		r.Expect("C11-R5", "sharing site in "+spec.fn, n, 1)
	}
	for _, fn := range []string{"GraphQLResponse.SingleFlightAllowed", "Loader.singleFlightAllowed"} {
		fi := p.Func("resolve", fn)
		if fi == nil {
			r.Error("C11-R5: %s not found", fn)
			continue
		}
		n := 0
		in := fw.NewInterp(fi)
		in.H = fw.Hooks{
			Cond: func(e ast.Expr, branch bool, st *fw.State) {
				if isOpTypeQueryTest(info, e, branch) {
					st.Set("is-query")
				}
				if fn == "Loader.singleFlightAllowed" && !branch && fw.IsFieldSel(info, e, "resolve", "ExecutionOptions", "DisableSubgraphRequestDeduplication") {
					st.Set("not-disabled")
				}
			},
			Exit: func(ret *ast.ReturnStmt, lit *ast.FuncLit, st *fw.State) {
				if ret == nil || !in.Final() || len(ret.Results) != 1 {
					return
				}
				v, isConst := fw.ConstVal(info, ret.Results[0])
				if isConst && v == "false" {
					return
				}
				n++
				ok := st.Must("is-query") && (fn != "Loader.singleFlightAllowed" || st.Must("not-disabled"))
				r.Check(ok, "C11-R5", fi.Name()+"/returns-true-only-for-query", p.Pos(ret.Pos()), fn+" can return true only after OperationType == OperationTypeQuery held",
					"a non-false return is reachable without the operation type having been tested equal to Query (and the opt-out flag false): non-idempotent operations become shareable")
			},
		}
		in.Run(nil)
		r.Expect("C11-R5", "non-false returns of "+fn, n, 1)
	}

	// ---- R6 followers can always leave ---------------------------------------------------------------
	r.Rule("C11-R6", "every receive from InflightRequest.Done / SingleFlightItem.loaded is an arm of a select that also has a <-ctx.Done() arm (or a default arm: a poll does not wait)")
	nRecv := 0
	fw.EachNode(p.Funcs("resolve"), func(fi *fw.FuncInfo, n ast.Node, stack []ast.Node) {
		u, ok := n.(*ast.UnaryExpr)
		if !ok || u.Op.String() != "<-" {
			return
		}
		if !fw.IsFieldSel(info, u.X, "resolve", "InflightRequest", "Done") && !fw.IsFieldSel(info, u.X, "resolve", "SingleFlightItem", "loaded") {
			return
		}
		nRecv++
		okSel := false
		for i := len(stack) - 1; i >= 0; i-- {
			if cc, isCC := stack[i].(*ast.CommClause); isCC && i > 0 {
				if sel, isSel := stack[i-2].(*ast.SelectStmt); isSel {
					_ = cc
					for _, cl := range sel.Body.List {
						comm := cl.(*ast.CommClause).Comm
						if comm == nil {
							okSel = true // a select with a default arm does not wait at all (a poll of "already finished?")
						}
						if es, isES := comm.(*ast.ExprStmt); isES {
							if ru, isU := ast.Unparen(es.X).(*ast.UnaryExpr); isU {
								if c, isC := ast.Unparen(ru.X).(*ast.CallExpr); isC {
									if fnn := fw.Callee(info, c); fnn != nil && fnn.Pkg() != nil && fnn.Pkg().Path() == "context" && fnn.Name() == "Done" {
										okSel = true
									}
								}
							}
						}
					}
				}
				break
			}
		}
		r.Check(okSel, "C11-R6", fw.StackLabel(fi, stack)+"/wait-with-ctx", p.Pos(u.Pos()), "wait for the leader in "+fi.Name()+" can also end through the participant's own context",
			"bare receive from the shared record's channel: a follower whose client went away (or whose leader never finishes) blocks for ever")
	})
	r.Expect("C11-R6", "receives from Done/loaded", nRecv, 2)

	// ---- R7 context provenance ----------------------------------------------------------------------
	r.Rule("C11-R7", "one participant's cancellation is not another's error: the shared work runs under a context detached from the leader's, or followers do not return a shared context error verbatim")
	for _, spec := range []struct {
		fn, key string
		// follower returns shared error: return statement whose result selects this field
		typ, field string
	}{
		{"Loader.loadByContext", "subgraph", "SingleFlightItem", "err"},
		{"InboundRequestSingleFlight.GetOrCreate", "inbound", "InflightRequest", "Err"},
	} {
		fi := p.Func("resolve", spec.fn)
		if fi == nil {
			r.Error("C11-R7: %s not found", spec.fn)
			continue
		}
		n := 0
		in := fw.NewInterp(fi)
		in.H = fw.Hooks{
			Cond: func(e ast.Expr, branch bool, st *fw.State) {
				// errors.Is(x.err, context.Canceled|DeadlineExceeded) false, or a ctx-error classification helper
				if c, ok := ast.Unparen(e).(*ast.CallExpr); ok && !branch {
					takesShared := false
					for _, a := range c.Args {
						if fw.IsFieldSel(info, a, "resolve", spec.typ, spec.field) {
							takesShared = true
						}
					}
					if takesShared && classifiesCancellation(p, fw.Callee(info, c)) {
						st.Set("not-ctx-error")
					}
				}
			},
			Exit: func(ret *ast.ReturnStmt, lit *ast.FuncLit, st *fw.State) {
				if ret == nil || !in.Final() {
					return
				}
				for _, res := range ret.Results {
					if fw.IsFieldSel(info, res, "resolve", spec.typ, spec.field) {
						n++
						detached := sharedWorkDetached(p, spec.key)
						r.Check(detached || st.Must("not-ctx-error"), "C11-R7", fi.Name()+"/follower-returns-shared-error", p.Pos(ret.Pos()), "follower in "+fi.Name()+" returns the shared error",
							"the shared work runs under the leader's own request context and the follower returns the leader's error verbatim: when the leader's client disconnects, every follower fails with context.Canceled although its own client is still there")
					}
				}
			},
		}
		in.Run(nil)
		r.Expect("C11-R7", "follower error returns in "+spec.fn, n, 1)
	}
}

// classifiesCancellation: fn is errors.Is, or a function of package resolve whose body compares
// against context.Canceled (a classification helper such as leaderCancelled).
func classifiesCancellation(p *fw.Prog, fn *types.Func) bool {
	if fn == nil || fn.Pkg() == nil {
		return false
	}
	if fn.Name() == "Is" && (fn.Pkg().Path() == "errors" || fn.Pkg().Path() == "github.com/pkg/errors") {
		return true
	}
	fi := p.FuncOf(fn)
	if fi == nil {
		return false
	}
	found := false
	fw.WalkAll(fi.Decl.Body, func(n ast.Node) bool {
		if sel, ok := n.(*ast.SelectorExpr); ok {
			if v, ok := fi.Info().Uses[sel.Sel].(*types.Var); ok && v.Pkg() != nil && v.Pkg().Path() == "context" && v.Name() == "Canceled" {
				found = true
			}
		}
		return true
	})
	return found
}

// checkLoadByContextFinish: from the return of GetOrCreateItem every exit of loadByContext passes
// Finish(item) exactly once on the leader path and never on the follower path (shared by C11-R1, C07-R6).
func checkLoadByContextFinish(r *fw.Run, rule string) {
	p := r.Prog
	info := p.Pkg("resolve").TypesInfo
	if fi := p.Func("resolve", "Loader.loadByContext"); fi == nil {
		r.Error("%s: Loader.loadByContext not found", rule)
	} else {
		var sharedObj, itemObj types.Object
		in := fw.NewInterp(fi)
		nExit := 0
		in.H = fw.Hooks{
			Node: func(n ast.Node, st *fw.State) {
				switch x := n.(type) {
				case *ast.AssignStmt:
					if len(x.Rhs) == 1 && len(x.Lhs) == 2 {
						if c, ok := ast.Unparen(x.Rhs[0]).(*ast.CallExpr); ok && fw.CallIs(info, c, "resolve", "SubgraphRequestSingleFlight.GetOrCreateItem") {
							itemObj, sharedObj = fw.RootObj(info, x.Lhs[0]), fw.RootObj(info, x.Lhs[1])
							st.Set("acquired")
						}
					}
				case *ast.CallExpr:
					if fw.CallIs(info, x, "resolve", "SubgraphRequestSingleFlight.Finish") && len(x.Args) == 1 && fw.RootObj(info, x.Args[0]) == itemObj {
						st.Inc("finish")
					}
				case *ast.DeferStmt:
					if fw.CallIs(info, x.Call, "resolve", "SubgraphRequestSingleFlight.Finish") {
						st.Set("finish-deferred")
					}
				}
			},
			Cond: func(e ast.Expr, branch bool, st *fw.State) {
				if id, ok := ast.Unparen(e).(*ast.Ident); ok && sharedObj != nil && info.Uses[id] == sharedObj && branch {
					st.Set("exempt") // follower
				}
			},
			Exit: func(ret *ast.ReturnStmt, lit *ast.FuncLit, st *fw.State) {
				if lit != nil || !in.Final() || !st.May("acquired") {
					return
				}
				nExit++
				pos := fi.Decl.End()
				if ret != nil {
					pos = ret.Pos()
				}
				c := st.Get("finish")
				ok := st.Must("exempt") && c.Max == 0 || (!st.May("exempt") && c == fw.Cnt{Min: 1, Max: 1})
				r.Check(ok, rule, fi.Name()+"/exit-finish-once", p.Pos(pos), "exit of loadByContext: leader calls Finish(item) exactly once, follower never",
					"Finish(item) runs "+cntStr(c)+" times on a path to this exit (leader: 0 ⇒ followers wedge, 2 ⇒ close of closed channel; follower: any ⇒ it closes the leader's channel)")
			},
		}
		in.Run(nil)
		r.Expect(rule, "exits of loadByContext after GetOrCreateItem", nExit, 4)
	}

}

// componentOnEveryPath: every path to a site either passed an exempting atom (component legitimately
// absent) or executed a contributing event. Returns the verdict and the number of sites seen.
func componentOnEveryPath(fi *fw.FuncInfo, site func(*ast.CallExpr) bool, exempt func(fw.CondAtom) bool, contributes func(ast.Node) bool) (bool, int) {
	info := fi.Info()
	ok, n := true, 0
	in := fw.NewInterp(fi)
	in.H = fw.Hooks{
		Cond: func(e ast.Expr, branch bool, st *fw.State) {
			if exempt(fw.Atom(info, e, branch)) {
				st.Set("component-ok")
			}
		},
		Node: func(nd ast.Node, st *fw.State) {
			if contributes(nd) {
				st.Set("component-ok")
			}
			if c, isC := nd.(*ast.CallExpr); isC && in.Final() && site(c) {
				n++
				if !st.Must("component-ok") {
					ok = false
				}
			}
		},
	}
	in.Run(nil)
	return ok, n
}

func cntStr(c fw.Cnt) string {
	if c.Min == c.Max {
		return itoa(int(c.Min))
	}
	return itoa(int(c.Min)) + ".." + itoa(int(c.Max)) + "(2=more)"
}

func itoa(n int) string {
	if n == 0 {
		return "0"
	}
	neg := n < 0
	if neg {
		n = -n
	}
	s := ""
	for n > 0 {
		s = string(rune('0'+n%10)) + s
		n /= 10
	}
	if neg {
		s = "-" + s
	}
	return s
}

// mustFollow: on every path from node `from` to an exit of fi a call satisfying pred occurs.
func mustFollow(fi *fw.FuncInfo, from ast.Node, pred func(*ast.CallExpr) bool) bool {
	ok := true
	seen := false
	in := fw.NewInterp(fi)
	in.H = fw.Hooks{
		Lit: func(l *ast.FuncLit, ctx fw.LitCtx, st *fw.State) fw.LitMode {
			if ctx.Deferred {
				return fw.LitOnce
			}
			return fw.LitSkip
		},
		Node: func(n ast.Node, st *fw.State) {
			if n == from {
				st.Set("pending")
				seen = true
			}
			if c, isC := n.(*ast.CallExpr); isC && pred(c) {
				st.Kill("pending")
			}
		},
		Exit: func(ret *ast.ReturnStmt, lit *ast.FuncLit, st *fw.State) {
			if lit == nil && in.Final() && st.May("pending") {
				ok = false
			}
		},
	}
	in.Run(nil)
	return ok && seen
}

// isOpTypeQueryTest: e is `X.OperationType == ast.OperationTypeQuery` with outcome true (or != with false).
func isOpTypeQueryTest(info *types.Info, e ast.Expr, branch bool) bool {
	b, ok := ast.Unparen(e).(*ast.BinaryExpr)
	if !ok {
		return false
	}
	var other ast.Expr
	switch {
	case isOpTypeField(info, b.X):
		other = b.Y
	case isOpTypeField(info, b.Y):
		other = b.X
	default:
		return false
	}
	c := fw.ConstObj(info, other)
	if c == nil || c.Name() != "OperationTypeQuery" || c.Pkg().Path() != fw.PkgPath("ast") {
		return false
	}
	return (b.Op.String() == "==" && branch) || (b.Op.String() == "!=" && !branch)
}

func isOpTypeField(info *types.Info, e ast.Expr) bool {
	v, _ := fw.Field(info, e)
	return v != nil && v.Name() == "OperationType"
}

// sharedWorkDetached reports whether the context under which the shared work of a coalescing
// site runs passed a detaching call (xcontext.Detach / context.WithoutCancel / Background).
func sharedWorkDetached(p *fw.Prog, which string) bool {
	info := p.Pkg("resolve").TypesInfo
	isDetach := func(e ast.Expr) bool {
		c, ok := e.(*ast.CallExpr)
		if !ok {
			return false
		}
		fn := fw.Callee(info, c)
		if fn == nil || fn.Pkg() == nil {
			return false
		}
		return (strings.HasSuffix(fn.Pkg().Path(), "/internal/xcontext") && fn.Name() == "Detach") || (fn.Pkg().Path() == "context" && (fn.Name() == "WithoutCancel" || fn.Name() == "Background"))
	}
	switch which {
	case "subgraph":
		fi := p.Func("resolve", "Loader.loadByContext")
		if fi == nil {
			return false
		}
		d := fw.NewDeriver(fi)
		det := false
		fw.WalkAll(fi.Decl.Body, func(n ast.Node) bool {
			if c, ok := n.(*ast.CallExpr); ok && fw.CallIs(info, c, "resolve", "Loader.loadByContextDirect") {
				// the leader's call is the one after the deferred Finish; any call whose ctx is detached counts
				if d.Derives(c.Args[0], isDetach) {
					det = true
				}
			}
			return true
		})
		return det
	case "inbound":
		// the leader resolves under ctx.ctx of its own request in ArenaResolveGraphQLResponse
		fi := p.Func("resolve", "Resolver.ArenaResolveGraphQLResponse")
		if fi == nil {
			return false
		}
		d := fw.NewDeriver(fi)
		det := false
		fw.WalkAll(fi.Decl.Body, func(n ast.Node) bool {
			if c, ok := n.(*ast.CallExpr); ok && fw.CallIs(info, c, "resolve", "Loader.LoadGraphQLResponseData") {
				if d.Derives(c.Args[0], isDetach) {
					det = true
				}
			}
			return true
		})
		return det
	}
	return false
}

// checkRemovedBeforeClose: the entry leaves the in-flight table before the wake-up, on every path (added after a seeded
// change: Finish returned early for failed loads without Delete — every later identical request became the follower of a
// finished item). inbound=false restricts the rule to the subgraph single flight (C07: a failed fetch must not poison later requests).
func checkRemovedBeforeClose(r *fw.Run, rule string, inbound bool) {
	p := r.Prog
	info := p.Pkg("resolve").TypesInfo
	specs := []struct{ fn, chanT, chanF string }{
		{"SubgraphRequestSingleFlight.Finish", "SingleFlightItem", "loaded"},
	}
	if inbound {
		specs = append(specs, struct{ fn, chanT, chanF string }{"InboundRequestSingleFlight.FinishErr", "InflightRequest", "Done"},
			struct{ fn, chanT, chanF string }{"InboundRequestSingleFlight.FinishOk", "InflightRequest", "Done"})
	}
	for _, cs := range specs {
		fi := p.Func("resolve", cs.fn)
		if fi == nil {
			r.Error("%s: %s not found", rule, cs.fn)
			continue
		}
		nClose := 0
		in := fw.NewInterp(fi)
		in.H = fw.Hooks{
			Node: func(n ast.Node, st *fw.State) {
				c, ok := n.(*ast.CallExpr)
				if !ok {
					return
				}
				if fn := fw.Callee(info, c); fn != nil && fn.Pkg() != nil && fn.Pkg().Path() == "sync" && (fw.FuncName(fn) == "Map.Delete" || fw.FuncName(fn) == "Map.LoadAndDelete" || fw.FuncName(fn) == "Map.CompareAndDelete") {
					st.Set("removed")
				}
				if fw.Builtin(info, c) == "delete" {
					st.Set("removed")
				}
				if fw.Builtin(info, c) == "close" && len(c.Args) == 1 && fw.IsFieldSel(info, c.Args[0], "resolve", cs.chanT, cs.chanF) {
					st.Inc("closed")
				}
				if fw.Builtin(info, c) == "close" && len(c.Args) == 1 && fw.IsFieldSel(info, c.Args[0], "resolve", cs.chanT, cs.chanF) && in.Final() {
					nClose++
					r.Check(st.Must("removed"), rule, fi.Name()+"/removed-before-close", p.Pos(c.Pos()), "the in-flight entry is removed from the table before close("+cs.chanF+") on every path of "+fi.Name(),
						"the wake-up channel is closed on a path that left the finished entry in the in-flight table: every later identical request finds it, becomes a follower of work that is already over, and gets the old result (for a failed leader: the old error, and the subgraph is never asked again)")
				}
			},
		}
		// every exit wakes the waiters exactly once; only the guard for a nil request may leave without
		nExit := 0
		in.H.Cond = func(e ast.Expr, branch bool, st *fw.State) {
			if _, eq, ok := fw.NilCheck(info, e); ok && eq == branch {
				st.Set("nil-request")
			}
		}
		in.H.Exit = func(ret *ast.ReturnStmt, lit *ast.FuncLit, st *fw.State) {
			if lit != nil || st.Must("nil-request") {
				return
			}
			nExit++
			pos := fi.Decl.End()
			if ret != nil {
				pos = ret.Pos()
			}
			r.Check(st.Get("closed") == fw.Cnt{Min: 1, Max: 1}, rule, fi.Name()+"/every-exit-wakes-waiters#"+itoa(nExit), p.Pos(pos), "exit of "+fi.Name()+" has closed "+cs.chanF+" exactly once",
				"an exit leaves the wake-up channel open (or closes it twice): a follower that registered — or is just registering: the follower counter is only a hint outside the shard lock — waits until its own context ends (a wedged request), resp. the process panics on the second close")
		}
		in.Run(nil)
		r.Expect(rule, "close("+cs.chanF+") in "+cs.fn+" (removal)", nClose, 1)
	}
}

// c11LeaderWriteErrorIsNotShared (R8, added after a seeded change finished the in-flight request with the leader's write
// error): the error handed to FinishErr is an error of the shared work, never the result of writing the response to the
// leader's own client. The shared work succeeded; a leader whose connection broke must not fail the followers.
func c11LeaderWriteErrorIsNotShared(r *fw.Run) {
	p := r.Prog
	r.Rule("C11-R8", "the error handed to InboundRequestSingleFlight.FinishErr never is the result of writing the response to the leader's own client (writer parameter): a leader whose connection broke does not fail its followers")
	fi := p.Func("resolve", "Resolver.ArenaResolveGraphQLResponse")
	if fi == nil {
		r.Error("C11-R8: Resolver.ArenaResolveGraphQLResponse not found")
		return
	}
	info := fi.Info()
	sig := fi.Obj.Type().(*types.Signature)
	var writer types.Object
	for i := 0; i < sig.Params().Len(); i++ {
		if t := sig.Params().At(i).Type(); strings.HasSuffix(t.String(), "io.Writer") {
			writer = sig.Params().At(i)
		}
	}
	if writer == nil {
		r.Error("C11-R8: no io.Writer parameter in ArenaResolveGraphQLResponse")
		return
	}
	fromWriter := func(e ast.Expr) bool {
		c, ok := ast.Unparen(e).(*ast.CallExpr)
		if !ok {
			return false
		}
		sel, ok := ast.Unparen(c.Fun).(*ast.SelectorExpr)
		return ok && fw.RootObj(info, sel.X) == writer
	}
	n := 0
	in := fw.NewInterp(fi)
	in.H = fw.Hooks{
		Lit: func(l *ast.FuncLit, ctx fw.LitCtx, st *fw.State) fw.LitMode {
			if ctx.Deferred {
				return fw.LitOnce
			}
			return fw.LitSkip
		},
		Node: func(nd ast.Node, st *fw.State) {
			switch x := nd.(type) {
			case *ast.AssignStmt:
				// which error variables currently hold the result of a write to the client
				for i, l := range x.Lhs {
					o := fw.RootObj(info, l)
					if o == nil {
						continue
					}
					if t := info.TypeOf(l); t == nil || t.String() != "error" {
						continue
					}
					rhs := x.Rhs[0]
					if i < len(x.Rhs) {
						rhs = x.Rhs[i]
					}
					if fromWriter(rhs) {
						st.Set("client-write-error:" + o.Name())
					} else {
						st.Kill("client-write-error:" + o.Name())
					}
				}
			case *ast.CallExpr:
				if fw.CallIs(info, x, "resolve", "InboundRequestSingleFlight.FinishErr") && len(x.Args) == 2 && in.Final() {
					n++
					bad := fromWriter(x.Args[1])
					if o := fw.RootObj(info, x.Args[1]); o != nil && st.May("client-write-error:"+o.Name()) {
						bad = true
					}
					r.Check(!bad, "C11-R8", fi.Name()+"/finish-err-not-from-client-write#"+itoa(n), p.Pos(x.Pos()), "FinishErr receives an error of the shared work",
						"the in-flight request is finished with the error of writing to the leader's own client: every follower fails with the leader's connection error (e.g. io.ErrClosedPipe) although the shared work succeeded and their own connections are fine")
				}
			}
		},
	}
	in.Run(nil)
	r.Expect("C11-R8", "FinishErr calls in ArenaResolveGraphQLResponse", n, 3)
}

// c11SharedErrorKeepsItsChain (R9): a follower of the subgraph single flight decides what the leader's failure means for
// itself by inspecting the shared error with errors.Is (leaderCancelled: a leader whose own client went away is not a
// failure of the follower, which then loads on its own). That works only if the value the leader publishes in
// SingleFlightItem.err is the error itself or a wrapper that keeps the chain (%w, errors.WithStack). A re-formatted error
// (fmt.Errorf("…: %v", err)) cuts the chain: the leader's client disconnect becomes the follower's "Failed to fetch from
// Subgraph" response.
func c11SharedErrorKeepsItsChain(r *fw.Run) {
	p := r.Prog
	r.Rule("C11-R9", "the error a single-flight leader publishes in SingleFlightItem.err is the error value itself or a chain-preserving wrapper (fmt.Errorf with %w, errors.WithStack / Wrap): followers classify it with errors.Is")
	n := 0
	for _, fi := range p.Funcs("resolve") {
		info := fi.Info()
		fw.WalkAll(fi.Decl.Body, func(nd ast.Node) bool {
			as, ok := nd.(*ast.AssignStmt)
			if !ok || len(as.Lhs) != len(as.Rhs) {
				return true
			}
			for i, l := range as.Lhs {
				if !fw.IsFieldSel(info, l, "resolve", "SingleFlightItem", "err") {
					continue
				}
				n++
				rhs := ast.Unparen(as.Rhs[i])
				okChain := false
				switch x := rhs.(type) {
				case *ast.Ident:
					okChain = true // the error itself (or nil)
				case *ast.CallExpr:
					fn := fw.Callee(info, x)
					switch {
					case fn != nil && fn.Pkg() != nil && fn.Pkg().Path() == "fmt" && fn.Name() == "Errorf" && len(x.Args) > 0:
						if f, isC := fw.ConstVal(info, x.Args[0]); isC && strings.Contains(f, "%w") {
							okChain = true
						}
					case fn != nil && fn.Pkg() != nil && strings.HasSuffix(fn.Pkg().Path(), "/errors") && (fn.Name() == "WithStack" || fn.Name() == "Wrap" || fn.Name() == "Wrapf" || fn.Name() == "WithMessage"):
						okChain = true
					case fn != nil && fn.Pkg() != nil && fn.Pkg().Path() == "errors" && fn.Name() == "Join":
						okChain = true
					}
				}
				r.Check(okChain, "C11-R9", fi.Name()+"/shared-error-keeps-chain#"+itoa(n), p.Pos(as.Pos()), "the value stored in SingleFlightItem.err in "+fi.Name()+" keeps the error chain",
					"the leader publishes a re-formatted error: errors.Is(item.err, context.Canceled) is false for every follower, so a leader whose own client disconnected fails its healthy followers with 'Failed to fetch from Subgraph' instead of letting them load on their own")
			}
			return true
		})
	}
	r.Expect("C11-R9", "writes of SingleFlightItem.err", n, 1)
}

// c11LeaderContextErrorsRecognised (R10): err(r) != ctx_err(r') — a follower must never be failed with the context error
// of another request. A request's context ends by cancellation or by deadline, and the error value alone cannot tell the
// leader's own deadline from a failure of the shared work (an HTTP client timeout is a DeadlineExceeded too). Both
// single-flight layers therefore let the leader record the state of its OWN context in the shared record when it finishes
// with an error, before the followers are woken; and a follower returns the shared error only after a test of that record
// (when the leader was gone and the follower's context is alive, it does the work itself). Round 3 first demanded that
// the classifying helper also recognise DeadlineExceeded; that repair contradicted an existing test (a follower must
// receive FinishErr(DeadlineExceeded) of a leader whose context is alive) and was recorded as a known finding — the
// record/test formulation satisfies both and replaced it.
func c11LeaderContextErrorsRecognised(r *fw.Run) {
	p := r.Prog
	r.Rule("C11-R10", "in both single-flight layers the leader records the state of its own context in the shared record when it finishes with an error, before the wake-up, and a follower returns the shared error only after a test of that record")
	type layer struct {
		name, recType, errField, doneField string
		writers, readers                   []string
	}
	layers := []layer{
		{"subgraph", "SingleFlightItem", "err", "loaded", []string{"Loader.loadByContext"}, []string{"Loader.loadByContext"}},
		{"inbound", "InflightRequest", "Err", "Done", []string{"InboundRequestSingleFlight.FinishErr"}, []string{"InboundRequestSingleFlight.GetOrCreate"}},
	}
	for _, ly := range layers {
		// the record fields written from "<a context>.Err()" in a writer
		record := map[*types.Var]bool{}
		for _, wn := range ly.writers {
			fi := p.Func("resolve", wn)
			if fi == nil {
				r.Error("C11-R10: %s not found", wn)
				continue
			}
			info := fi.Info()
			in := fw.NewInterp(fi)
			nErrWrites := 0
			in.H = fw.Hooks{Node: func(nd ast.Node, st *fw.State) {
				as, ok := nd.(*ast.AssignStmt)
				if !ok || len(as.Lhs) != len(as.Rhs) {
					return
				}
				for i, l := range as.Lhs {
					fv, sel := fw.Field(info, l)
					if fv == nil {
						continue
					}
					if _, tn := fw.FieldOwner(info, sel); tn != ly.recType {
						continue
					}
					mentionsCtxErr := false
					fw.WalkAll(as.Rhs[i], func(n ast.Node) bool {
						if c, isCall := n.(*ast.CallExpr); isCall {
							if s2, isSel := ast.Unparen(c.Fun).(*ast.SelectorExpr); isSel && s2.Sel.Name == "Err" {
								if tv, okT := info.Types[s2.X]; okT && fw.TypeIs(tv.Type, "context", "Context") {
									mentionsCtxErr = true
								}
							}
						}
						return true
					})
					if mentionsCtxErr {
						record[fv] = true
						st.Set("recorded")
					}
					// the error is published: from here to the wake-up the record must be written too; check at function exit
					if fv.Name() == ly.errField && in.Final() {
						nErrWrites++
					}
				}
			}, Exit: func(ret *ast.ReturnStmt, lit *ast.FuncLit, st *fw.State) {}}
			end := in.Run(nil)
			_ = end
			r.Check(len(record) > 0, "C11-R10", ly.name+"/"+wn+"/leader-records-its-context-state", fi.Pos(), "the leader of the "+ly.name+" single flight records the state of its own context in the shared "+ly.recType+" where it publishes its error",
				"the shared record carries the error but not whether the leader's own context had ended: a follower cannot tell the leader's deadline from a failure of the shared work and answers with the leader's context error — a follower with a later deadline (or none) fails because another client's deadline passed")
			r.Expect("C11-R10", "writes of the shared error in "+wn, nErrWrites, 1)
		}
		for _, rn := range ly.readers {
			fi := p.Func("resolve", rn)
			if fi == nil {
				r.Error("C11-R10: %s not found", rn)
				continue
			}
			info := fi.Info()
			n := 0
			in := fw.NewInterp(fi)
			in.H = fw.Hooks{
				Cond: func(e ast.Expr, branch bool, st *fw.State) {
					fw.WalkAll(e, func(m ast.Node) bool {
						if sel, ok := m.(*ast.SelectorExpr); ok {
							if fv, _ := fw.Field(info, sel); fv != nil && record[fv] {
								st.Set("record-tested")
							}
						}
						return true
					})
				},
				Exit: func(ret *ast.ReturnStmt, lit *ast.FuncLit, st *fw.State) {
					if lit != nil || ret == nil || !in.Final() {
						return
					}
					for _, res := range ret.Results {
						fv, sel := fw.Field(info, res)
						if fv == nil || fv.Name() != ly.errField {
							continue
						}
						if _, tn := fw.FieldOwner(info, sel); tn != ly.recType {
							continue
						}
						n++
						r.Check(st.Must("record-tested"), "C11-R10", ly.name+"/"+rn+"/follower-returns-shared-error-only-after-testing-the-record#"+itoa(n), p.Pos(ret.Pos()), "the follower returns the shared error only after a test of the leader's recorded context state",
							"the follower hands the shared error on without asking whether the leader itself was gone: a leader whose own deadline passed fails a follower that has a later deadline or none")
					}
				},
			}
			in.Run(nil)
			r.Expect("C11-R10", "returns of the shared error in "+rn, n, 1)
		}
	}
}

// c11OperationTypeFromSchemaRoots (R11): only queries are de-duplicated; whether a fetch is a query is recorded by the
// planner in FetchInfo.OperationType from the type the fetch's root fields belong to. A schema may call its roots anything
// (schema { mutation: Writes }), so a function of the planner that classifies a type name as mutation / subscription
// returns those operation types only under an equality of the type name with the schema's own root type name
// (ast.Index.MutationTypeName / SubscriptionTypeName); comparing with the default names classifies the fields of a renamed
// mutation root as queries, and two identical mutations in flight are executed once.
func c11OperationTypeFromSchemaRoots(r *fw.Run) {
	p := r.Prog
	r.Rule("C11-R11", "the planner classifies a root type as mutation / subscription only under an equality with the schema's own root type name (ast.Index.<Op>TypeName), never with a default name")
	n := 0
	for _, fi := range p.Funcs("plan") {
		sig := fi.Obj.Type().(*types.Signature)
		if sig.Results().Len() != 1 || !fw.TypeIs(sig.Results().At(0).Type(), "ast", "OperationType") || sig.Params().Len() != 1 || !isNameType(sig.Params().At(0).Type()) {
			continue
		}
		info := fi.Info()
		param := sig.Params().At(0)
		mentionsIndex := func(e ast.Expr, op string) bool {
			found := false
			ast.Inspect(e, func(m ast.Node) bool {
				if sel, ok := m.(*ast.SelectorExpr); ok && fw.IsFieldSel(info, sel, "ast", "Index", op+"TypeName") {
					found = true
				}
				return true
			})
			return found
		}
		mentionsParam := func(e ast.Expr) bool {
			found := false
			ast.Inspect(e, func(m ast.Node) bool {
				if id, ok := m.(*ast.Ident); ok && info.Uses[id] == param {
					found = true
				}
				return true
			})
			return found
		}
		in := fw.NewInterp(fi)
		in.H = fw.Hooks{
			Cond: func(e ast.Expr, branch bool, st *fw.State) {
				op, leaves := fw.NNF(info, e, branch)
				if op != "atom" && op != "and" {
					return
				}
				for _, a := range leaves {
					for _, o := range []string{"Mutation", "Subscription"} {
						if a.Kind == "Eq" && ((mentionsParam(a.X) && mentionsIndex(a.Y, o)) || (mentionsParam(a.Y) && mentionsIndex(a.X, o))) {
							st.Set("is-root:" + o)
						}
						if a.Kind == "True" {
							// bytes.Equal(typeName, index.MutationTypeName)
							if c, isCall := ast.Unparen(a.X).(*ast.CallExpr); isCall && len(c.Args) == 2 {
								if (mentionsParam(c.Args[0]) && mentionsIndex(c.Args[1], o)) || (mentionsParam(c.Args[1]) && mentionsIndex(c.Args[0], o)) {
									st.Set("is-root:" + o)
								}
							}
						}
					}
				}
			},
			Case: func(tag ast.Expr, vals []ast.Expr, match bool, st *fw.State) {
				if !match || !mentionsParam(tag) {
					return
				}
				for _, o := range []string{"Mutation", "Subscription"} {
					all := len(vals) > 0
					for _, v := range vals {
						if !mentionsIndex(v, o) {
							all = false
						}
					}
					if all {
						st.Set("is-root:" + o)
					}
				}
			},
			Exit: func(ret *ast.ReturnStmt, lit *ast.FuncLit, st *fw.State) {
				if lit != nil || ret == nil || !in.Final() || len(ret.Results) != 1 {
					return
				}
				for _, o := range []string{"Mutation", "Subscription"} {
					if c := fw.ConstObj(info, ret.Results[0]); c != nil && c.Name() == "OperationType"+o {
						n++
						r.Check(st.Must("is-root:"+o), "C11-R11", fi.Name()+"/"+o+"-from-schema-root", p.Pos(ret.Pos()), fi.Name()+" returns OperationType"+o+" only where the type name equals the schema's "+o+" root type name",
							"OperationType"+o+" is decided without comparing the type name with ast.Index."+o+"TypeName: with a renamed root type (schema { "+strings.ToLower(o)+": Writes }) the fetch is classified as a query, and the single flight shares one execution between two identical "+strings.ToLower(o)+"s")
					}
				}
			},
		}
		in.Run(nil)
	}
	r.Expect("C11-R11", "classifications of a root type as mutation / subscription in the planner", n, 2)
}

// c11LeaderFinishSurvivesPanic (R12): between becoming the leader and finishing, a leader runs code it does not control —
// data sources, transports, hooks, authorizers, renderers, the client's writer. Servers recover a panic per request, so the
// process lives on; but a leader that left by a panic without finishing leaves its followers waiting and its entry in the
// table, where it captures every later identical request ("poisons the key"). In every function that acquires a
// single-flight record (GetOrCreate / GetOrCreateItem) a deferred call that reaches a Finish* method of that single flight
// (directly, or inside a deferred literal — typically under recover() != nil) is registered on the leader path before the
// first call that dispatches dynamically (interface method, function value) or enters the engine (methods of Loader /
// Resolvable / FieldAuthorization). Calls on the follower branch (the edge on which the record is known to be shared) are
// not the leader's.
func c11LeaderFinishSurvivesPanic(r *fw.Run) {
	p := r.Prog
	r.Rule("C11-R12", "in every function that acquires a single-flight record, a deferred call reaching Finish* of that single flight is registered on the leader path before the first dynamically dispatched call or call into the engine: a leader that panics still releases its followers and its table entry")
	isSF := func(fn *types.Func, names ...string) bool {
		if fn == nil {
			return false
		}
		sig, _ := fn.Type().(*types.Signature)
		if sig == nil || sig.Recv() == nil {
			return false
		}
		rn := fw.RecvName(sig.Recv().Type())
		if rn != "InboundRequestSingleFlight" && rn != "SubgraphRequestSingleFlight" {
			return false
		}
		for _, n := range names {
			if fn.Name() == n || (strings.HasSuffix(n, "*") && strings.HasPrefix(fn.Name(), strings.TrimSuffix(n, "*"))) {
				return true
			}
		}
		return false
	}
	n := 0
	for _, fi := range p.Funcs("resolve") {
		info := fi.Info()
		var acq *ast.CallExpr
		var recVar, sharedVar types.Object
		fw.WalkAll(fi.Decl.Body, func(nd ast.Node) bool {
			as, ok := nd.(*ast.AssignStmt)
			if !ok || len(as.Rhs) != 1 {
				return true
			}
			if c, isCall := ast.Unparen(as.Rhs[0]).(*ast.CallExpr); isCall && isSF(fw.Callee(info, c), "GetOrCreate", "GetOrCreateItem") {
				acq = c
				if id, isID := as.Lhs[0].(*ast.Ident); isID {
					recVar = info.ObjectOf(id)
				}
				if len(as.Lhs) == 2 {
					if id, isID := as.Lhs[1].(*ast.Ident); isID && types.Identical(info.TypeOf(id), types.Typ[types.Bool]) {
						sharedVar = info.ObjectOf(id)
					}
				}
			}
			return true
		})
		if acq == nil || isSF(fi.Obj, "GetOrCreate", "GetOrCreateItem") {
			continue
		}
		n++
		reachesFinish := func(d *ast.DeferStmt) bool {
			found := false
			fw.WalkAll(d.Call, func(nd ast.Node) bool {
				if c, ok := nd.(*ast.CallExpr); ok && isSF(fw.Callee(info, c), "Finish*") {
					found = true
				}
				return true
			})
			return found
		}
		risky := func(c *ast.CallExpr) bool {
			if fw.Builtin(info, c) != "" {
				return false
			}
			fn := fw.Callee(info, c)
			if fn == nil {
				// a call of a function value (field, variable, parameter); conversions have no callee either
				if tv, ok := info.Types[c.Fun]; ok && tv.IsType() {
					return false
				}
				return true
			}
			sig, _ := fn.Type().(*types.Signature)
			if sig == nil || sig.Recv() == nil {
				return false
			}
			if _, isIface := sig.Recv().Type().Underlying().(*types.Interface); isIface {
				return true
			}
			switch fw.RecvName(sig.Recv().Type()) {
			case "Loader", "Resolvable", "FieldAuthorization":
				return true
			}
			return false
		}
		bad := ""
		in := fw.NewInterp(fi)
		in.H = fw.Hooks{
			Lit: func(l *ast.FuncLit, ctx fw.LitCtx, st *fw.State) fw.LitMode { return fw.LitSkip },
			Cond: func(e ast.Expr, branch bool, st *fw.State) {
				op, leaves := fw.NNF(info, e, branch)
				if op != "atom" && op != "and" {
					return
				}
				for _, a := range leaves {
					// shared == true, or record.Data != nil: this participant is a follower
					if id, isID := ast.Unparen(a.X).(*ast.Ident); isID && a.Kind == "True" && sharedVar != nil && info.ObjectOf(id) == sharedVar {
						st.Set("follower")
					}
					if a.Kind == "NonNil" {
						if sel, isSel := ast.Unparen(a.X).(*ast.SelectorExpr); isSel {
							if id, isID := ast.Unparen(sel.X).(*ast.Ident); isID && recVar != nil && info.ObjectOf(id) == recVar {
								st.Set("follower")
							}
						}
					}
				}
			},
			Node: func(nd ast.Node, st *fw.State) {
				switch x := nd.(type) {
				case *ast.DeferStmt:
					if reachesFinish(x) {
						st.Set("panic-safe")
					}
				case *ast.CallExpr:
					if x == acq {
						st.Set("acquired")
						return
					}
					if !in.Final() || !st.Must("acquired") || st.May("follower") || st.Must("panic-safe") || bad != "" {
						return
					}
					if risky(x) {
						bad = p.Pos(x.Pos())
					}
				}
			},
		}
		in.Run(nil)
		r.Check(bad == "", "C11-R12", fi.Name()+"/leader-finish-survives-panic", p.Pos(acq.Pos()), "the leader in "+fi.Name()+" has registered a deferred finish before it runs code that can panic",
			"the call at "+bad+" runs on the leader path before any deferred call that reaches Finish*: if it panics (user-supplied data source, hook, authorizer, writer) the record is never finished — the followers wait until their own contexts end and the entry stays in the table, so every later identical request becomes a follower of a leader that no longer exists")
	}
	r.Expect("C11-R12", "functions that acquire a single-flight record", n, 2)
}

// c11InboundKeyCoversLateInjections (R13): a follower of the inbound single flight receives the leader's bytes. Whatever
// of the client's request reaches the subgraphs changes the answer, so it has to be in the sharing key. The loader puts
// fields of resolve.Context into every subgraph request body on its way out (jsonparser.Set(input, ctx.F, …)); each such
// field is written into the hash that the inbound key is taken from (the same set of fields as C16-R9 uses for the
// entity cache key).
func c11InboundKeyCoversLateInjections(r *fw.Run) {
	p := r.Prog
	r.Rule("C11-R13", "every resolve.Context field that the loader injects into subgraph request bodies (jsonparser.Set(input, ctx.F, …)) is written into the hash of the inbound single-flight key")
	injected := map[string]string{}
	for _, fi := range p.Funcs("resolve") {
		if !strings.HasPrefix(fi.Name(), "Loader.") {
			continue
		}
		info := fi.Info()
		fw.WalkAll(fi.Decl.Body, func(nd ast.Node) bool {
			c, ok := nd.(*ast.CallExpr)
			if !ok || len(c.Args) < 2 {
				return true
			}
			if fn := fw.Callee(info, c); fn != nil && fn.Name() == "Set" && fn.Pkg() != nil && strings.HasSuffix(fn.Pkg().Path(), "/jsonparser") {
				if fv, _ := fw.Field(info, c.Args[1]); fv != nil && fw.IsFieldSel(info, c.Args[1], "resolve", "Context", fv.Name()) {
					injected[fv.Name()] = p.Pos(c.Pos())
				}
			}
			return true
		})
	}
	fi := p.Func("resolve", "InboundRequestSingleFlight.GetOrCreate")
	if fi == nil {
		r.Error("C11-R13: InboundRequestSingleFlight.GetOrCreate not found")
		return
	}
	info := fi.Info()
	hashed := map[string]bool{}
	fw.WalkAll(fi.Decl.Body, func(nd ast.Node) bool {
		c, ok := nd.(*ast.CallExpr)
		if !ok {
			return true
		}
		if fn := fw.Callee(info, c); fn == nil || !strings.HasPrefix(fn.Name(), "Write") {
			return true
		}
		for _, a := range c.Args {
			if fv, _ := fw.Field(info, a); fv != nil && fw.IsFieldSel(info, a, "resolve", "Context", fv.Name()) {
				hashed[fv.Name()] = true
			}
		}
		return true
	})
	n := 0
	for f, where := range injected {
		n++
		r.Check(hashed[f], "C11-R13", "Context."+f+"/fed-to-the-inbound-key", where, "Context."+f+", which the loader sends to the subgraphs ("+where+"), is written into the hash of the inbound key",
			"Context."+f+" reaches every subgraph request but is not part of the inbound single-flight key: of two concurrent client requests that differ only in it the follower receives the leader's answer (`{\"tenant\":\"B\"}` is answered with the data of tenant A)")
	}
	r.Expect("C11-R13", "Context fields injected into subgraph requests", n, 1)
}

// c11SubgraphLeaderPublishesOutcome (R14): requests de-duplicated by the subgraph single flight share the leader's outcome. After
// the leader has arranged the wake-up (defer singleFlight.Finish(item)), every exit must have published what the followers
// read after the wake-up: an exit that returns an error has assigned item.err, an exit that returns nil has assigned
// item.response. A follower of a leader that forgot item.err sees neither error nor response and renders "Failed to fetch
// …, Reason: empty response" where on its own it would have rendered the failure of the shared work: other bytes than it
// would have received alone. (The rule was C07-R9 until F95: then an empty response was not recorded as a failed fetch and
// the dependants were sent with null representations; that consequence is gone, the C11 one is not.)
func c11SubgraphLeaderPublishesOutcome(r *fw.Run) {
	p := r.Prog
	r.Rule("C11-R14", "after the single-flight leader has deferred Finish(item), every exit that returns an error has assigned item.err and every exit that returns nil has assigned item.response (what the followers read after the wake-up)")
	fi := p.Func("resolve", "Loader.loadByContext")
	if fi == nil {
		r.Error("C11-R14: Loader.loadByContext not found")
		return
	}
	info := fi.Info()
	n := 0
	in := fw.NewInterp(fi)
	in.H = fw.Hooks{
		Node: func(nd ast.Node, st *fw.State) {
			if d, ok := nd.(*ast.DeferStmt); ok && fw.CallIs(info, d.Call, "resolve", "SubgraphRequestSingleFlight.Finish") {
				st.Set("leader")
			}
			for _, t := range fw.WriteTargets(info, nd) {
				if fw.IsFieldSel(info, t, "resolve", "SingleFlightItem", "err") {
					st.Set("published-err")
				}
				if fw.IsFieldSel(info, t, "resolve", "SingleFlightItem", "response") {
					st.Set("published-response")
				}
			}
		},
		Exit: func(ret *ast.ReturnStmt, lit *ast.FuncLit, st *fw.State) {
			if lit != nil || ret == nil || !in.Final() || !st.Must("leader") || len(ret.Results) != 1 {
				return
			}
			n++
			if id, ok := ast.Unparen(ret.Results[0]).(*ast.Ident); ok && id.Name == "nil" && info.Uses[id] == types.Universe.Lookup("nil") {
				r.Check(st.Must("published-response"), "C11-R14", "Loader.loadByContext/leader-publishes-response#"+itoa(n), p.Pos(ret.Pos()), "the leader's success exit has assigned item.response",
					"the leader returns success without having stored the response in the shared item: its followers wake up with an empty response")
				return
			}
			r.Check(st.Must("published-err"), "C11-R14", "Loader.loadByContext/leader-publishes-error#"+itoa(n), p.Pos(ret.Pos()), "the leader's error exit has assigned item.err",
				"the leader returns an error without having stored it in the shared item: its followers wake up with neither an error nor a response and report an empty response instead of the failure of the shared work — not the bytes they would have received on their own")
		},
	}
	in.Run(nil)
	r.Expect("C11-R14", "exits of the single-flight leader", n, 2)
}
