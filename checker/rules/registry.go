// Package rules holds the rule tables: one file per property, each rule an instance of an
// engine of package fw at type-resolved anchors of /repo.
package rules

import "verif/checker/fw"

// Spec describes the check of one property.
type Spec struct {
	// Pkgs are the packages (aliases) loaded with syntax in the quick tier, keyed by module dir.
	Pkgs        map[string][]string
	Run         func(r *fw.Run)
	Thorough    func(r *fw.Run)
	Explanation string
	// Mutants are the positive controls of the thorough tier: one-construct edits applied in
	// memory (packages overlay) that must type-check and make the named rule fire.
	Mutants []Mutant
}

// Mutant is a seeded one-construct change used to test that a rule fires (never written to disk).
type Mutant struct {
	Name string
	File string // path relative to the repo root
	Old  string // text that must occur exactly once in File
	New  string
	Rule string // rule expected to report a violation
	Key  string // substring expected in the key of a failing obligation ("" = any)
	// Also: further single-occurrence replacements in the same file, applied with the first (a change that only
	// compiles when two places change together, e.g. a callback and its registration)
	Also [][2]string
}

var modPrefix = map[string]string{"v2": fw.V2Prefix, "execution": fw.ExecPrefix}

// Patterns turns the alias lists into go list patterns per module.
func (s Spec) Patterns(tier string) map[string][]string {
	out := map[string][]string{}
	for mod, as := range s.Pkgs {
		for _, a := range as {
			out[mod] = append(out[mod], fw.PkgPath(a))
		}
	}
	return out
}

// Registry maps property ids to their checks.
var Registry = map[string]Spec{}
