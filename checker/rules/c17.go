package rules

import (
	"go/ast"
	"go/token"
	"go/types"
	"sort"
	"strconv"
	"strings"

	"golang.org/x/tools/go/packages"

	"verif/checker/fw"
)

const (
	c17GeneratorGo   = "v2/pkg/introspection/generator.go"
	c17ConverterGo   = "v2/pkg/introspection/converter.go"
	c17ModelGo       = "v2/pkg/introspection/introspection.go"
	c17FactoryGo     = "v2/pkg/engine/datasource/introspection_datasource/config_factory.go"
	c17PlannerGo     = "v2/pkg/engine/datasource/introspection_datasource/planner.go"
	c17InputGo       = "v2/pkg/engine/datasource/introspection_datasource/input.go"
	c17WalkerGo      = "v2/pkg/astvisitor/visitor.go"
	c17PlanVisitorGo = "v2/pkg/engine/plan/visitor.go"
)

func init() {
	Registry["C17"] = Spec{
		Pkgs: map[string][]string{"v2": {"introspection", "introspds", "astvisitor", "plan", "astimport", "ast"}},
		Run:  runC17,
		Explanation: "Decides the structural slice of 'introspection describes exactly the schema': every callback the generator's visitor (and the introspection datasource planner) implements is registered with the walker, and the walker's registration methods really store and dispatch every callback they promise; " +
			"the kind dispatches are total and agree with each other (converter arms for every named __TypeKind and every wrapper kind, the generator's type-reference function produces every kind and gives a reference the kind its definition is declared with, every []InputValue collection of the model is fed under the node kind of its owner, every root operation type is recorded); " +
			"generator and converter agree on the data model (every serialised field the generator writes is read by the converter and vice versa, globally and per type kind); every declared type is handed to the function that fills Schema.Types, which also fills the __type(name:) index; " +
			"the datasource announces exactly the JSON fields the model serialises per __typename; the planner's input keys are the keys Source.Load decodes; the planner's includeDeprecated filter covers every collection whose elements carry isDeprecated and reads the key the model writes. " +
			"It does not decide the round trip toSDL(fromIntrospection(generate(S))) ~ S nor the engine's answers as values.",
		Mutants: []Mutant{
			{Name: "the kind of a referenced type is left at its zero value unless the first indexed node is an enum (the shape of the defect repaired as F99)", File: "v2/pkg/introspection/generator.go", Rule: "C17-R20", Key: "introspectionVisitor.TypeRef/assigned-before-read:typeKind",
				Old: "\t\ttypeKind, exists := typeKindOfNamedType(nodes)\n\t\tif !exists {\n\t\t\treturn TypeRef{TypeName: \"__Type\"}\n\t\t}\n", New: "\t\tvar typeKind __TypeKind\n\t\tif len(nodes) > 0 && nodes[0].Kind == ast.NodeKindEnumTypeDefinition {\n\t\t\ttypeKind = ENUM\n\t\t}\n"},
			{Name: "the generator no longer enters object type extensions (reverts part of the F65 fix)", File: "v2/pkg/introspection/generator.go", Rule: "C17-R19", Key: "FieldDefinition-under-ObjectTypeExtension",
				Old: "func (i *introspectionVisitor) EnterObjectTypeExtension(ref int) {\n\ti.enterType(i.definition.ObjectTypeExtensionNameString(ref), OBJECT)\n", New: "func (i *introspectionVisitor) EnterObjectTypeExtension(ref int) {\n"},
			{Name: "number defaults are read through the sign-dropping accessor (seeded change C17-2)", File: "v2/pkg/introspection/generator.go", Rule: "C17-R15", Key: "introspectionVisitor.EnterInputValueDefinition/partial-value-accessor-under-kind-test",
				Old: "\t\tprintedValue, err := i.definition.PrintValueBytes(value, nil)\n\t\tif err != nil {\n\t\t\ti.StopWithInternalErr(err)\n\t\t\treturn\n\t\t}\n\t\tprintedStr := unsafebytes.BytesToString(printedValue)\n", New: "\t\tprintedValue, err := i.definition.PrintValueBytes(value, nil)\n\t\tif err != nil {\n\t\t\ti.StopWithInternalErr(err)\n\t\t\treturn\n\t\t}\n\t\tprintedStr := unsafebytes.BytesToString(printedValue)\n\t\tif value.Kind == ast.ValueKindInteger || value.Kind == ast.ValueKindFloat {\n\t\t\tprintedStr = i.definition.ValueContentString(value)\n\t\t}\n"},
			{Name: "a schema without mutation root loses its subscription root on import (seeded change C17-12)", File: "v2/pkg/ast/ast_root_operation_type_definition.go", Rule: "C17-R18", Key: "Document.ImportRootOperationTypeDefinitions/subscriptionTypeName-imported-or-absent",
				Old: "\tif mutationTypeName != \"\" {\n\t\trefs = append(refs, d.ImportRootOperationTypeDefinition(mutationTypeName, OperationTypeMutation))\n\t}\n", New: "\tif mutationTypeName == \"\" {\n\t\treturn refs\n\t}\n\trefs = append(refs, d.ImportRootOperationTypeDefinition(mutationTypeName, OperationTypeMutation))\n"},
			{Name: "the converter re-uses one directive-ref slice for all enum values (seeded change C17-1)", File: "v2/pkg/introspection/converter.go", Rule: "C17-R17", Key: "JsonConverter.importEnum/scratch-slice-does-not-escape:directiveRefs",
				Old: "\tfor i := range valueRefs {\n\t\tvar directiveRefs []int\n", New: "\tvar directiveRefs []int\n\tfor i := range valueRefs {\n\t\tdirectiveRefs = directiveRefs[:0]\n"},
			{Name: "deprecation reason read without a kind test (reverts part of the F47 fix)", File: "v2/pkg/introspection/generator.go", Rule: "C17-R15", Key: "introspectionVisitor.deprecationReason/partial-value-accessor-under-kind-test",
				Old: "\t\tif argValue.Kind != ast.ValueKindString {\n\t\t\treturn nil\n\t\t}\n", New: ""},
			{Name: "includeDeprecated looked up once per cached plan (seeded change C17-21, without the sync import)", File: "v2/pkg/engine/plan/visitor.go", Rule: "C17-R13", Key: "Visitor.resolveSkipArrayItem/plan-closure-is-stateless",
				Old: "\t\treturn func(ctx *resolve.Context, itemValue *astjson.Value) bool {\n\t\t\tshouldIncludeDeprecated := false\n\n\t\t\tif includeDeprecatedVariableName != \"\" {\n",
				New: "\t\tshouldIncludeDeprecated, looked := false, false\n\t\treturn func(ctx *resolve.Context, itemValue *astjson.Value) bool {\n\t\t\tif !looked && includeDeprecatedVariableName != \"\" {\n\t\t\t\tlooked = true\n"},
			{Name: "value importer loses null (seeded change C17-22)", File: "v2/pkg/astimport/astimport.go", Rule: "C17-R12", Key: "Importer.importValueWithRename/value-kinds",
				Old: "\tcase ast.ValueKindNull:\n\t\t// empty case\n\n", New: ""},
			{Name: "introspection responses encoded into a buffer kept on the shared Source (seeded change C17-11)", File: "v2/pkg/engine/datasource/introspection_datasource/source.go", Rule: "C17-R11", Key: "Source.Load/never-writes-the-shared-source",
				Old: "\tif req.RequestType == TypeRequestType {\n\t\treturn s.singleTypeBytes(req.TypeName)\n\t}\n", New: "\ts.introspectionData = s.introspectionData\n\tif req.RequestType == TypeRequestType {\n\t\treturn s.singleTypeBytes(req.TypeName)\n\t}\n"},
			// R1
			{Name: "union member registration lost in a merge", File: c17GeneratorGo, Rule: "C17-R1", Key: "introspectionVisitor.EnterUnionMemberType",
				Old: "\twalker.RegisterEnterUnionMemberTypeVisitor(&visitor)\n", New: ""},
			{Name: "enum type definition registered for Enter only", File: c17GeneratorGo, Rule: "C17-R1", Key: "introspectionVisitor.LeaveEnumTypeDefinition",
				Old: "\twalker.RegisterEnumTypeDefinitionVisitor(&visitor)\n", New: "\twalker.RegisterEnterEnumTypeDefinitionVisitor(&visitor)\n"},
			{Name: "enum value registration dropped", File: c17GeneratorGo, Rule: "C17-R1", Key: "introspectionVisitor.LeaveEnumValueDefinition",
				Old: "\n\twalker.RegisterLeaveEnumValueDefinitionVisitor(&visitor)\n", New: "\n"},
			{Name: "document visitor registered for Enter only (root types never resolved)", File: c17GeneratorGo, Rule: "C17-R1", Key: "introspectionVisitor.LeaveDocument",
				Old: "\twalker.RegisterDocumentVisitor(&visitor)\n", New: "\twalker.RegisterEnterDocumentVisitor(&visitor)\n"},
			{Name: "datasource planner no longer registers its field callback", File: c17PlannerGo, Rule: "C17-R1", Key: "Planner.EnterField",
				Old: "\tvisitor.Walker.RegisterEnterFieldVisitor(p)\n", New: ""},
			// R2
			{Name: "converter drops the UNION arm", File: c17ConverterGo, Rule: "C17-R2", Key: "importFullType/arm:UNION",
				Old: "\tcase UNION:\n\t\terr = j.importUnion(fullType)\n", New: ""},
			{Name: "converter drops the NON_NULL wrapper arm", File: c17ConverterGo, Rule: "C17-R2", Key: "importType/arm:NONNULL",
				Old: "\tcase NONNULL:\n\t\treturn j.doc.AddNonNullType(j.importType(*typeRef.OfType))\n", New: ""},
			{Name: "converter imports a list as non-null", File: c17ConverterGo, Rule: "C17-R2", Key: "importType/wraps:LIST",
				Old: "\t\treturn j.doc.AddListType(j.importType(*typeRef.OfType))", New: "\t\treturn j.doc.AddNonNullType(j.importType(*typeRef.OfType))"},
			{Name: "type references to unions get no kind", File: c17GeneratorGo, Rule: "C17-R2", Key: "TypeRef/produces:UNION",
				Old: "\t\tcase ast.NodeKindUnionTypeDefinition, ast.NodeKindUnionTypeExtension:\n\t\t\treturn UNION, true\n", New: ""},
			{Name: "references to interfaces are typed OBJECT", File: c17GeneratorGo, Rule: "C17-R2", Key: "TypeRef/ref-kind:InterfaceTypeDefinition",
				Old: "\t\tcase ast.NodeKindInterfaceTypeDefinition, ast.NodeKindInterfaceTypeExtension:\n\t\t\treturn INTERFACE, true\n", New: "\t\tcase ast.NodeKindInterfaceTypeDefinition, ast.NodeKindInterfaceTypeExtension:\n\t\t\treturn OBJECT, true\n"},
			{Name: "directive arguments not collected", File: c17GeneratorGo, Rule: "C17-R2", Key: "sink:Directive.Args",
				Old: "\tcase ast.NodeKindDirectiveDefinition:\n\t\ti.currentDirective.Args = append(i.currentDirective.Args, inputValue)\n", New: ""},
			{Name: "field arguments filed under the input object", File: c17GeneratorGo, Rule: "C17-R2", Key: "sink:Field.Args",
				Old: "\tcase ast.NodeKindInputObjectTypeDefinition, ast.NodeKindInputObjectTypeExtension:\n\t\ti.currentType.InputFields = append(i.currentType.InputFields, inputValue)\n\tcase ast.NodeKindFieldDefinition:\n",
				New: "\tcase ast.NodeKindFieldDefinition:\n\t\ti.currentType.InputFields = append(i.currentType.InputFields, inputValue)\n\tcase ast.NodeKindInputObjectTypeDefinition, ast.NodeKindInputObjectTypeExtension:\n"},
			{Name: "subscription root type not recorded", File: c17GeneratorGo, Rule: "C17-R2", Key: "root:OperationTypeSubscription",
				Old: "\tcase ast.OperationTypeSubscription:\n\t\ti.subscriptionTypeName = i.definition.Input.ByteSliceString(i.definition.RootOperationTypeDefinitions[ref].NamedType.Name)\n", New: ""},
			// R3
			{Name: "converter ignores enum value deprecation", File: c17ConverterGo, Rule: "C17-R3", Key: "EnumValue.IsDeprecated/read-by-converter",
				Old: "\t\tif fullType.EnumValues[i].IsDeprecated {\n\t\t\tdirectiveRefs = append(directiveRefs, j.importDeprecatedDirective(fullType.EnumValues[i].DeprecationReason))\n\t\t}\n", New: ""},
			{Name: "generator no longer records enum value descriptions", File: c17GeneratorGo, Rule: "C17-R3", Key: "EnumValue.Description/written-by-generator",
				Old: "\t\tDescription: i.definition.EnumValueDefinitionDescriptionString(ref),\n", New: ""},
			{Name: "generator never flags deprecated fields", File: c17GeneratorGo, Rule: "C17-R3", Key: "Field.IsDeprecated/written-by-generator",
				Old: "\t\t\ti.currentField.IsDeprecated = true\n", New: ""},
			// R4
			{Name: "object import forgets the implemented interfaces", File: c17ConverterGo, Rule: "C17-R4", Key: "OBJECT/Interfaces",
				Old: "\tiRefs := make([]int, len(fullType.Interfaces))\n\tfor i := range iRefs {\n\t\tiRefs[i] = j.importType(fullType.Interfaces[i])\n\t}\n\n\tj.doc.ImportObjectTypeDefinition(", New: "\tvar iRefs []int\n\n\tj.doc.ImportObjectTypeDefinition("},
			{Name: "enum import forgets the description", File: c17ConverterGo, Rule: "C17-R4", Key: "ENUM/Description",
				Old: "\tj.doc.ImportEnumTypeDefinition(\n\t\tfullType.Name,\n\t\tfullType.Description,\n", New: "\tj.doc.ImportEnumTypeDefinition(\n\t\tfullType.Name,\n\t\t\"\",\n"},
			{Name: "input object import forgets the description", File: c17ConverterGo, Rule: "C17-R4", Key: "INPUTOBJECT/Description",
				Old: "\t\tfullType.Description,\n\t\targRefs)", New: "\t\t\"\",\n\t\targRefs)"},
			// R5
			{Name: "datasource does not announce __Directive.isRepeatable", File: c17FactoryGo, Rule: "C17-R5", Key: "__Directive/isRepeatable",
				Old: "[]string{\"name\", \"description\", \"locations\", \"args\", \"isRepeatable\", \"__typename\"}", New: "[]string{\"name\", \"description\", \"locations\", \"args\", \"__typename\"}"},
			{Name: "JSON name of specifiedByURL drifts from the announced field", File: c17ModelGo, Rule: "C17-R5", Key: "__Type/specifiedByURL",
				Old: "`json:\"specifiedByURL,omitempty\"`", New: "`json:\"specifiedByUrl,omitempty\"`"},
			// R6
			{Name: "scalars appended to types without the name index", File: c17GeneratorGo, Rule: "C17-R6", Key: "EnterScalarTypeDefinition",
				Old: "\ti.data.Schema.AddType(typeDefinition)\n", New: "\ti.data.Schema.Types = append(i.data.Schema.Types, typeDefinition)\n"},
			// R7
			{Name: "walker's enum composite registration forgets Leave", File: c17WalkerGo, Rule: "C17-R7", Key: "Walker.RegisterEnumTypeDefinitionVisitor",
				Old: "\tw.RegisterEnterEnumTypeDefinitionVisitor(visitor)\n\tw.RegisterLeaveEnumTypeDefinitionVisitor(visitor)\n", New: "\tw.RegisterEnterEnumTypeDefinitionVisitor(visitor)\n"},
			{Name: "walker never dispatches LeaveDirectiveDefinition", File: c17WalkerGo, Rule: "C17-R7", Key: "dispatch:LeaveDirectiveDefinition",
				Old: "\t\t\tw.visitors.leaveDirectiveDefinition[i].LeaveDirectiveDefinition(ref)\n", New: "\t\t\t_ = w.visitors.leaveDirectiveDefinition[i]\n"},
			// R8
			{Name: "decoder's key for the type name drifts from the planner's input", File: c17InputGo, Rule: "C17-R8", Key: "type_name",
				Old: "`json:\"type_name\"`", New: "`json:\"typeName\"`"},
			{Name: "__type requests carry no type name", File: c17InputGo, Rule: "C17-R8", Key: "TypeName",
				Old: "\t\tbuf.Write(comma)\n\t\tbuf.Write(typeNameField)\n", New: ""},
			// R9
			{Name: "union types declared but never added to the schema", File: c17GeneratorGo, Rule: "C17-R9", Key: "UnionTypeDefinition/committed",
				Old: "func (i *introspectionVisitor) LeaveUnionTypeDefinition(ref int) {\n\ti.leaveType()\n",
				New: "func (i *introspectionVisitor) LeaveUnionTypeDefinition(ref int) {\n"},
			{Name: "scalars declared but never added to the schema", File: c17GeneratorGo, Rule: "C17-R9", Key: "ScalarTypeDefinition/committed",
				Old: "\ti.data.Schema.AddType(typeDefinition)\n", New: ""},
			// R10
			{Name: "includeDeprecated no longer evaluated for input fields", File: c17PlanVisitorGo, Rule: "C17-R10", Key: "__Type/inputFields/filtered",
				Old: "\t\tcase \"fields\", \"enumValues\", \"inputFields\":\n", New: "\t\tcase \"fields\", \"enumValues\":\n"},
			{Name: "includeDeprecated no longer evaluated for directive arguments", File: c17PlanVisitorGo, Rule: "C17-R10", Key: "__Directive/args/filtered",
				Old: "\tcase \"__Directive\", \"__Field\":\n", New: "\tcase \"__Field\":\n"},
			{Name: "deprecation filter reads another JSON key than the model writes", File: c17PlanVisitorGo, Rule: "C17-R10", Key: "filter-key",
				Old: "itemValue.GetBool(\"isDeprecated\")", New: "itemValue.GetBool(\"deprecated\")"},
			{Name: "input values serialise their deprecation flag under another key", File: c17ModelGo, Rule: "C17-R10", Key: "InputValue/filter-key",
				Old: "\tDefaultValue      *string `json:\"defaultValue\"`\n\tIsDeprecated      bool    `json:\"isDeprecated\"`\n", New: "\tDefaultValue      *string `json:\"defaultValue\"`\n\tIsDeprecated      bool    `json:\"deprecated\"`\n"},
		},
	}
}

// c17Import finds the type-checked package `alias` among the direct imports of pk.
func c17Import(pk *packages.Package, alias string) *types.Package {
	path := fw.PkgPath(alias)
	for _, im := range pk.Types.Imports() {
		if im.Path() == path {
			return im
		}
	}
	return nil
}

// c17Model computes the data model: the named struct types of package introspection reachable from Data.
func c17Model(p *fw.Prog) map[string]*types.Named {
	out := map[string]*types.Named{}
	root := p.Named("introspection", "Data")
	if root == nil {
		return out
	}
	var visit func(t types.Type)
	visit = func(t types.Type) {
		switch u := types.Unalias(t).(type) {
		case *types.Pointer:
			visit(u.Elem())
		case *types.Slice:
			visit(u.Elem())
		case *types.Array:
			visit(u.Elem())
		case *types.Map:
			visit(u.Elem())
		case *types.Named:
			st, ok := u.Underlying().(*types.Struct)
			if !ok || u.Obj().Pkg() != root.Obj().Pkg() || out[u.Obj().Name()] != nil {
				return
			}
			out[u.Obj().Name()] = u
			for i := 0; i < st.NumFields(); i++ {
				visit(st.Field(i).Type())
			}
		}
	}
	visit(root)
	return out
}

func c17Keys(m map[string]bool) []string {
	out := make([]string, 0, len(m))
	for k := range m {
		out = append(out, k)
	}
	sort.Strings(out)
	return out
}

// c17KindConsts lists the __TypeKind constants an expression/statement mentions.
func c17KindConsts(info *types.Info, n ast.Node, kindT types.Type) map[string]bool {
	out := map[string]bool{}
	fw.WalkAll(n, func(m ast.Node) bool {
		if id, ok := m.(*ast.Ident); ok {
			if c, ok := info.Uses[id].(*types.Const); ok && types.Identical(c.Type(), kindT) {
				out[c.Name()] = true
			}
		}
		return true
	})
	return out
}

// c17ReportsError: a default arm that makes the failure visible (assigns or returns a non-nil error value).
func c17ReportsError(info *types.Info, cc *ast.CaseClause) bool {
	if cc == nil {
		return false
	}
	errT := types.Universe.Lookup("error").Type()
	found := false
	isErrVal := func(e ast.Expr) bool {
		if id, ok := ast.Unparen(e).(*ast.Ident); ok {
			if _, isNil := info.Uses[id].(*types.Nil); isNil {
				return false
			}
		}
		t := info.TypeOf(e)
		return t != nil && (types.Identical(t, errT) || types.Implements(t, errT.Underlying().(*types.Interface)))
	}
	for _, s := range cc.Body {
		fw.WalkAll(s, func(n ast.Node) bool {
			switch x := n.(type) {
			case *ast.ReturnStmt:
				for _, e := range x.Results {
					if isErrVal(e) {
						found = true
					}
				}
			case *ast.AssignStmt:
				for i, l := range x.Lhs {
					if lt := info.TypeOf(l); lt != nil && types.Identical(lt, errT) && i < len(x.Rhs) && isErrVal(x.Rhs[i]) {
						found = true
					}
				}
			}
			return true
		})
	}
	return found
}

func runC17(r *fw.Run) {
	defer c17SourceIsReadOnly(r)
	defer c17TemplatePlaceholdersNotInsideStrings(r)
	defer c17ZeroValuedKindsAreAssignedBeforeRead(r)
	defer func() {
		r.Rule("C17-R15", "the introspection generator calls the partial value accessors (ast.Document.ValueContentBytes/String, which panic for five of the nine value kinds) only after a test of the value's kind that admits their domain")
		partialValueAccessorsGuarded(r, "C17-R15", []string{"introspection"}, 2)
		r.Rule("C17-R16", "in the introspection generator and the value importer the converter uses, the ref of an ast.Value is handed to an accessor of kind K (doc.<K>Value…(v.Ref), doc.<K>Values[v.Ref]) only where v.Kind is known to be K")
		n := kindRefAgreement(r, "C17-R16", []string{"introspection", "astimport"}, nil)
		r.Expect("C17-R16", "kind-specific uses of a value's ref", n, 8)
		c17EveryRootTypeImportedOrAbsent(r)
		c17GeneratorContextComplete(r)
		r.Rule("C17-R17", "a scratch slice that a loop of the introspection converter / generator re-uses (v = v[:0] per iteration) is never stored or handed to a retaining parameter inside that loop")
		nSS := scratchSliceDoesNotEscape(r, "C17-R17", []string{"introspection", "astimport", "ast"})
		if nSS == 0 {
			r.Pass("C17-R17", "no-reused-scratch-slices", "", "no loop of the introspection packages re-uses a truncated scratch slice (nothing to decide; the seeded mutant is the positive control)", false)
		}
	}()
	defer c17PlanClosuresAreStateless(r)
	defer func() {
		// the converter imports default values into the SDL document through astimport: a value kind without an arm (the default
		// arm only prints a note and yields ValueKindUnknown) is converted to nothing — `max: Int = null` prints as `max: Int = `
		r.Rule("C17-R12", "the value importer the JSON→SDL converter uses (astimport.Importer.importValueWithRename) has an arm for every ast.ValueKind (its default arm does not fail, it yields an unknown value)")
		valueKindCoverageIn(r, "C17-R12", "astimport", []string{"Importer.importValueWithRename"})
	}()
	p := r.Prog
	pk := p.Pkg("introspection")
	ds := p.Pkg("introspds")
	if pk == nil || ds == nil {
		r.Error("packages introspection / introspection_datasource not loaded")
		return
	}
	info := pk.TypesInfo
	model := c17Model(p)
	owners := map[string]bool{}
	for n := range model {
		owners[n] = true
	}
	if len(model) == 0 {
		r.Error("C17: data model (introspection.Data) not found")
		return
	}
	kindNamed := p.Named("introspection", "__TypeKind")
	if kindNamed == nil || model["FullType"] == nil || model["TypeRef"] == nil || model["Schema"] == nil {
		r.Error("C17: anchor types __TypeKind / FullType / TypeRef / Schema not found")
		return
	}
	var kindT types.Type = kindNamed
	allKinds := fw.ConstNames(pk.Types, kindT)

	// ---- R1 visitor wiring -------------------------------------------------------------------------
	r.Rule("C17-R1", "every callback (astvisitor Enter…/Leave… method, by name and signature) implemented by a visitor type of the introspection generator / datasource planner is registered with the walker somewhere in its package")
	var genRoots, allGen []*fw.FuncInfo
	visitorTypes := map[string]bool{}
	nCb, nSites := 0, 0
	for _, alias := range []string{"introspection", "introspds"} {
		rep := fw.VisitorWiringReport(p, alias)
		if rep.Universe == 0 {
			r.Error("C17-R1: the callback universe of package astvisitor is empty as seen from %s (package no longer imports astvisitor?)", alias)
			continue
		}
		for _, pos := range rep.Unresolved {
			r.Error("C17-R1: registration at %s passes a value without a concrete named type; what it registers cannot be decided", p.Pos(pos))
		}
		nSites += len(rep.Sites)
		base := alias
		for _, is := range append(append([]fw.WiringIssue{}, rep.Issues...), rep.Unregistered...) {
			nCb++
			if alias == "introspection" {
				visitorTypes[is.Type] = true
			}
			contributes := ""
			if fi := p.Func(alias, is.Type+"."+is.Method); fi != nil {
				w := fw.ModelFieldUses(fw.StaticCallClosure(p, []*fw.FuncInfo{fi}), "introspection", owners).Writes
				ws := map[string]bool{}
				for k := range w {
					if !strings.HasSuffix(k, ".TypeName") {
						ws[k] = true
					}
				}
				if len(ws) > 0 {
					contributes = " — what it contributes (" + strings.Join(c17Keys(ws), ", ") + ") is missing from the generated introspection data for every schema"
				} else if alias == "introspds" {
					contributes = " — the planner never learns its root field: ConfigureFetch stops every introspection query with 'introspection root field is not set'"
				} else {
					contributes = " — the visitor state it maintains (current element, root type names) is never updated, so what the later callbacks derive from it is missing or stale"
				}
			}
			r.Check(is.Registered, "C17-R1", base+"."+is.Type+"."+is.Method+"/registered", p.Pos(is.Pos), is.Type+"."+is.Method+" is registered with the walker",
				"the method has the name and signature of an astvisitor callback and a non-empty body, but no registration call of the package hands a "+is.Type+" to an interface containing "+is.Method+": the walker never invokes it"+contributes)
		}
	}
	r.Expect("C17-R1", "implemented callbacks of visitor types", nCb, 24)
	r.Expect("C17-R1", "registration calls", nSites, 16)
	for _, fi := range p.Funcs("introspection") {
		if i := strings.IndexByte(fi.Name(), '.'); i > 0 && visitorTypes[fi.Name()[:i]] {
			genRoots = append(genRoots, fi)
		}
	}
	allGen = fw.StaticCallClosure(p, genRoots)
	convNamed := p.Named("introspection", "JsonConverter")
	var convRoots []*fw.FuncInfo
	if convNamed != nil {
		for _, fi := range p.Funcs("introspection") {
			if strings.HasPrefix(fi.Name(), "JsonConverter.") {
				convRoots = append(convRoots, fi)
			}
		}
	}
	allConv := fw.StaticCallClosure(p, convRoots)
	if len(genRoots) == 0 || len(convRoots) == 0 {
		r.Error("C17: generator visitor methods (%d) / JsonConverter methods (%d) not found", len(genRoots), len(convRoots))
		return
	}

	// ---- R2 kind dispatches ------------------------------------------------------------------------
	r.Rule("C17-R2", "kind dispatches are total and agree: the converter has an arm for every named __TypeKind and every wrapper kind (LIST→AddListType, NONNULL→AddNonNullType); the generator's type-reference function produces every kind, gives a reference the kind its definition is declared with and wraps List/NonNull as LIST/NONNULL; every []InputValue collection of the model is fed under the node kind of its owner")
	c17Kinds(r, pk, info, kindT, allKinds, allGen, allConv)

	// ---- R3 / R4 data-model agreement --------------------------------------------------------------
	c17ModelAgreement(r, pk, model, owners, kindT, allGen, allConv)

	// ---- R5 datasource child nodes = JSON names ----------------------------------------------------
	c17AnnouncedFields(r, pk, ds, model)

	// ---- R6 types list and name index ---------------------------------------------------------------
	c17TypeIndex(r, pk)

	// ---- R7 the walker's own wiring ------------------------------------------------------------------
	c17Walker(r)

	// ---- R8 planner input keys = decoder keys -----------------------------------------------------------
	c17InputKeys(r, ds)

	// ---- R9 declared types are committed ------------------------------------------------------------------
	c17Committed(r, pk, allGen)

	// ---- R10 includeDeprecated filter -------------------------------------------------------------------------
	c17IncludeDeprecated(r, pk, model)
}

// c17Kinds implements C17-R2.
func c17Kinds(r *fw.Run, pk *packages.Package, info *types.Info, kindT types.Type, allKinds []string, allGen, allConv []*fw.FuncInfo) {
	p := r.Prog
	astPkg := c17Import(pk, "ast")
	if astPkg == nil {
		r.Error("C17-R2: package introspection does not import pkg/ast")
		return
	}
	// wrapper kinds: the kinds the generator emits together with OfType
	wrappers := map[string]bool{}
	for _, fi := range allGen {
		fw.WalkAll(fi.Decl.Body, func(n ast.Node) bool {
			cl, ok := n.(*ast.CompositeLit)
			if !ok || !fw.TypeIs(info.TypeOf(cl), "introspection", "TypeRef") {
				return true
			}
			var kind *types.Const
			hasOf := false
			for _, el := range cl.Elts {
				if kv, ok := el.(*ast.KeyValueExpr); ok {
					if id, ok := kv.Key.(*ast.Ident); ok {
						switch id.Name {
						case "Kind":
							kind = fw.ConstObj(info, kv.Value)
						case "OfType":
							hasOf = true
						}
					}
				}
			}
			if kind != nil && hasOf {
				wrappers[kind.Name()] = true
			}
			return true
		})
	}
	r.Expect("C17-R2", "wrapper kinds (TypeRef literals with OfType)", len(wrappers), 2)
	var named []string
	for _, k := range allKinds {
		if !wrappers[k] {
			named = append(named, k)
		}
	}
	r.Expect("C17-R2", "named __TypeKind constants", len(named), 6)

	// (a) converter: switch over FullType.Kind covers the named kinds; (b) switch over TypeRef.Kind covers the wrappers
	adder := map[string]string{"LIST": "Document.AddListType", "NONNULL": "Document.AddNonNullType"} // frozen: GraphQL wrapping types ↔ ast constructors
	nFull, nRef := 0, 0
	for _, fi := range allConv {
		fw.WalkAll(fi.Decl.Body, func(n ast.Node) bool {
			sw, ok := n.(*ast.SwitchStmt)
			if !ok || sw.Tag == nil {
				return true
			}
			isFull := fw.IsFieldSel(info, sw.Tag, "introspection", "FullType", "Kind")
			isRef := fw.IsFieldSel(info, sw.Tag, "introspection", "TypeRef", "Kind")
			if !isFull && !isRef {
				return true
			}
			arms := map[string]*ast.CaseClause{}
			var def *ast.CaseClause
			for _, c := range sw.Body.List {
				cc := c.(*ast.CaseClause)
				if cc.List == nil {
					def = cc
				}
				for _, e := range cc.List {
					if k := fw.ConstObj(info, e); k != nil {
						arms[k.Name()] = cc
					}
				}
			}
			loud := c17ReportsError(info, def)
			if isFull {
				nFull++
				for _, k := range named {
					r.Check(arms[k] != nil || loud, "C17-R2", fi.Name()+"/arm:"+k, p.Pos(sw.Pos()), "the FullType.Kind dispatch in "+fi.Name()+" handles "+k,
						"no arm for "+k+" and no default that reports an error: every "+k+" type of the introspection result is silently left out of the converted schema document (fields referring to it then name an undefined type)")
				}
			}
			if isRef {
				nRef++
				for _, k := range c17Keys(wrappers) {
					r.Check(arms[k] != nil || loud, "C17-R2", fi.Name()+"/arm:"+k, p.Pos(sw.Pos()), "the TypeRef.Kind dispatch in "+fi.Name()+" handles wrapper kind "+k,
						"no arm for "+k+": a "+k+" reference falls through to the named-type path and dereferences TypeRef.Name, which is null for wrapper types (nil-pointer panic on any schema with a list / non-null type)")
					if cc := arms[k]; cc != nil && adder[k] != "" {
						okAdd, other := false, false
						for _, s := range cc.Body {
							fw.WalkAll(s, func(m ast.Node) bool {
								if c, ok := m.(*ast.CallExpr); ok {
									for kk, a := range adder {
										if fw.CallIs(info, c, "ast", a) {
											if kk == k {
												okAdd = true
											} else {
												other = true
											}
										}
									}
								}
								return true
							})
						}
						r.Check(okAdd && !other, "C17-R2", fi.Name()+"/wraps:"+k, p.Pos(cc.Pos()), "the "+k+" arm of "+fi.Name()+" builds the type with ast."+adder[k],
							"the "+k+" arm does not (only) call "+adder[k]+": [T] and T! are confused in the converted schema — every wrapped field / argument type is mis-typed")
					}
				}
			}
			return true
		})
	}
	r.Expect("C17-R2", "converter dispatches over FullType.Kind", nFull, 1)
	r.Expect("C17-R2", "converter dispatches over TypeRef.Kind", nRef, 1)

	// (c)(d)(e) generator: the function(s) that build TypeRef values from an ast type reference
	declared := map[string]string{} // "ObjectTypeDefinition" -> kind constant assigned to FullType.Kind in Enter<that>
	declPos := map[string]token.Pos{}
	for _, fi := range allGen {
		nm := fi.Name()
		i := strings.Index(nm, ".Enter")
		if i < 0 {
			continue
		}
		node := nm[i+len(".Enter"):]
		fw.WalkAll(fi.Decl.Body, func(n ast.Node) bool {
			switch x := n.(type) {
			case *ast.CallExpr:
				if k, _, viaHelper := c17KindViaHelper(p, info, x); viaHelper {
					declared[node], declPos[node] = k, x.Pos()
				}
			case *ast.AssignStmt:
				for j, l := range x.Lhs {
					if j < len(x.Rhs) && fw.IsFieldSel(info, l, "introspection", "FullType", "Kind") {
						if c := fw.ConstObj(info, x.Rhs[j]); c != nil {
							declared[node], declPos[node] = c.Name(), x.Pos()
						}
					}
				}
			case *ast.CompositeLit:
				if fw.TypeIs(info.TypeOf(x), "introspection", "FullType") {
					for _, el := range x.Elts {
						if kv, ok := el.(*ast.KeyValueExpr); ok {
							if id, ok := kv.Key.(*ast.Ident); ok && id.Name == "Kind" {
								if c := fw.ConstObj(info, kv.Value); c != nil {
									declared[node], declPos[node] = c.Name(), kv.Pos()
								}
							}
						}
					}
				}
			}
			return true
		})
	}
	r.Expect("C17-R2", "visitor callbacks that declare a FullType kind", len(declared), 6)
	nodeKindT, typeKindT := astPkg.Scope().Lookup("NodeKind"), astPkg.Scope().Lookup("TypeKind")
	if nodeKindT == nil || typeKindT == nil {
		r.Error("C17-R2: ast.NodeKind / ast.TypeKind not found")
		return
	}
	wrapOf := map[string]string{"TypeKindList": "LIST", "TypeKindNonNull": "NONNULL"} // frozen: ast wrapping type kinds ↔ introspection wrapper kinds
	nRefFn := 0
	for _, fi := range allGen {
		sig := fi.Obj.Type().(*types.Signature)
		if sig.Results().Len() != 1 || !fw.TypeIs(sig.Results().At(0).Type(), "introspection", "TypeRef") || sig.Params().Len() == 0 {
			continue
		}
		if _, isPtr := sig.Results().At(0).Type().(*types.Pointer); isPtr {
			continue
		}
		nRefFn++
		// the function together with the helpers it calls (a kind table extracted into a helper is still found)
		refClosure := fw.StaticCallClosure(p, []*fw.FuncInfo{fi})
		produced := map[string]bool{}
		for _, cf := range refClosure {
			for k := range c17KindConsts(info, cf.Decl.Body, kindT) {
				produced[k] = true
			}
		}
		for _, k := range allKinds {
			what := "a named type of kind " + k
			if wrappers[k] {
				what = "a " + k + " wrapper"
			}
			r.Check(produced[k], "C17-R2", fi.Name()+"/produces:"+k, fi.Pos(), fi.Name()+" can produce kind "+k,
				"no path of "+fi.Name()+" yields "+k+": a field, argument or input field whose type is "+what+" is reported with the zero kind (SCALAR) or without its wrapper — mis-typed for every schema that uses such a type")
		}
		nodeArms := map[string]map[string]bool{} // NodeKind constant -> kinds mentioned in its arm
		typeArms := map[string]map[string]bool{}
		for _, cf := range refClosure {
			fw.WalkAll(cf.Decl.Body, func(n ast.Node) bool {
				sw, ok := n.(*ast.SwitchStmt)
				if !ok || sw.Tag == nil {
					return true
				}
				tt := info.TypeOf(sw.Tag)
				var into map[string]map[string]bool
				isNode := false
				switch {
				case tt != nil && types.Identical(tt, nodeKindT.Type()):
					into, isNode = nodeArms, true
				case tt != nil && types.Identical(tt, typeKindT.Type()):
					into = typeArms
				default:
					return true
				}
				for _, c := range sw.Body.List {
					cc := c.(*ast.CaseClause)
					ks := map[string]bool{}
					for _, s := range cc.Body {
						if isNode {
							for k := range c17KindConsts(info, s, kindT) {
								ks[k] = true
							}
							continue
						}
						// in the wrapping-kind switch only the kinds of TypeRef literals that carry OfType count
						// (the named arm contains the whole node-kind switch)
						fw.WalkAll(s, func(m ast.Node) bool {
							if inner, ok := m.(*ast.SwitchStmt); ok && inner != sw {
								return false
							}
							if cl, ok := m.(*ast.CompositeLit); ok && fw.TypeIs(info.TypeOf(cl), "introspection", "TypeRef") {
								for _, el := range cl.Elts {
									if kv, ok := el.(*ast.KeyValueExpr); ok {
										if id, ok := kv.Key.(*ast.Ident); ok && id.Name == "Kind" {
											if c := fw.ConstObj(info, kv.Value); c != nil {
												ks[c.Name()] = true
											}
										}
									}
								}
							}
							return true
						})
					}
					for _, e := range cc.List {
						if k := fw.ConstObj(info, e); k != nil {
							into[k.Name()] = ks
						}
					}
				}
				return true
			})
		}
		for _, node := range c17Keys(func() map[string]bool {
			m := map[string]bool{}
			for k := range declared {
				m[k] = true
			}
			return m
		}()) {
			want := declared[node]
			if astPkg.Scope().Lookup("NodeKind"+node) == nil {
				r.Error("C17-R2: no ast.NodeKind%s for callback Enter%s", node, node)
				continue
			}
			got := nodeArms["NodeKind"+node]
			ok := len(got) == 1 && got[want]
			r.Check(ok, "C17-R2", fi.Name()+"/ref-kind:"+node, p.Pos(declPos[node]), "references to a "+node+" get kind "+want+", the kind Enter"+node+" declares",
				"Enter"+node+" declares the type with kind "+want+" but the NodeKind"+node+" arm of "+fi.Name()+" yields ["+strings.Join(c17Keys(got), ",")+"]: __type(name).kind and field.type.kind disagree for the same type; the converter then imports references under the wrong kind")
		}
		for _, tk := range []string{"TypeKindList", "TypeKindNonNull"} {
			got := typeArms[tk]
			ok := len(got) == 1 && got[wrapOf[tk]]
			r.Check(ok, "C17-R2", fi.Name()+"/wraps:"+wrapOf[tk], fi.Pos(), "the ast."+tk+" arm of "+fi.Name()+" emits a "+wrapOf[tk]+" wrapper",
				"the ast."+tk+" arm yields ["+strings.Join(c17Keys(got), ",")+"] instead of "+wrapOf[tk]+": list-ness / nullability of every wrapped type is reported wrongly")
		}
	}
	r.Expect("C17-R2", "generator functions building TypeRef from an ast type", nRefFn, 1)

	// (f) every []InputValue collection of the model is appended to, under the node kind of its owner
	ownerKind := map[string]string{"FullType": "NodeKindInputObjectTypeDefinition", "Field": "NodeKindFieldDefinition", "Directive": "NodeKindDirectiveDefinition"} // frozen: where input values occur in SDL
	type sink struct {
		pos  token.Pos
		arms map[string]bool
		fn   string
	}
	sinks := map[string]*sink{}
	fw.EachNode(allGen, func(fi *fw.FuncInfo, n ast.Node, stack []ast.Node) {
		as, ok := n.(*ast.AssignStmt)
		if !ok || len(as.Lhs) != 1 || len(as.Rhs) != 1 {
			return
		}
		c, ok := ast.Unparen(as.Rhs[0]).(*ast.CallExpr)
		if !ok || fw.Builtin(info, c) != "append" || len(c.Args) < 2 {
			return
		}
		v, sel := fw.Field(info, as.Lhs[0])
		if v == nil {
			return
		}
		sl, ok := v.Type().Underlying().(*types.Slice)
		if !ok || !fw.TypeIs(sl.Elem(), "introspection", "InputValue") {
			return
		}
		if _, isPtr := sl.Elem().(*types.Pointer); isPtr {
			return
		}
		_, owner := fw.FieldOwner(info, sel)
		key := owner + "." + v.Name()
		s := sinks[key]
		if s == nil {
			s = &sink{pos: as.Pos(), arms: map[string]bool{}, fn: fi.Name()}
			sinks[key] = s
		}
		for i := len(stack) - 1; i >= 0; i-- {
			if cc, ok := stack[i].(*ast.CaseClause); ok {
				for _, e := range cc.List {
					if k := fw.ConstObj(info, e); k != nil && types.Identical(k.Type(), nodeKindT.Type()) {
						s.arms[k.Name()] = true
					}
				}
				break
			}
		}
	})
	nColl := 0
	for _, tn := range []string{"Directive", "Field", "FullType"} {
		nt := p.Named("introspection", tn)
		if nt == nil {
			continue
		}
		st := nt.Underlying().(*types.Struct)
		for i := 0; i < st.NumFields(); i++ {
			sl, ok := st.Field(i).Type().Underlying().(*types.Slice)
			if !ok || !fw.TypeIs(sl.Elem(), "introspection", "InputValue") {
				continue
			}
			nColl++
			key := tn + "." + st.Field(i).Name()
			s := sinks[key]
			pos, fn := st.Field(i).Pos(), "the generator"
			var arms []string
			if s != nil {
				pos, fn, arms = s.pos, s.fn, c17Keys(s.arms)
			}
			// the owner's kind, and the extension of that kind (whose members belong to the same owner), nothing else
			ok = s != nil && s.arms[ownerKind[tn]]
			if s != nil {
				for a := range s.arms {
					if a != ownerKind[tn] && a != strings.Replace(ownerKind[tn], "Definition", "Extension", 1) {
						ok = false
					}
				}
			}
			r.Check(ok, "C17-R2", "input-values/sink:"+key, p.Pos(pos), "input values whose parent is a "+strings.TrimPrefix(ownerKind[tn], "NodeKind")+" are appended to "+key+" by "+fn,
				key+" is appended to under ancestor kinds ["+strings.Join(arms, ",")+"], expected "+ownerKind[tn]+" (and at most its extension kind): arguments / input fields are missing from, or filed under the wrong owner in, the introspection data of every schema that has them")
		}
	}
	r.Expect("C17-R2", "[]InputValue collections of the model", nColl, 3)

	// (g) the root operation types: the generator's dispatch over ast.OperationType has an arm for every
	// operation type (frozen exception: OperationTypeUnknown is the zero value the parser never stores)
	opT := astPkg.Scope().Lookup("OperationType")
	if opT == nil {
		r.Error("C17-R2: ast.OperationType not found")
		return
	}
	var ops []string
	for _, k := range fw.ConstNames(astPkg, opT.Type()) {
		if k != "OperationTypeUnknown" {
			ops = append(ops, k)
		}
	}
	nOp := 0
	for _, fi := range allGen {
		for _, sw := range fw.ConstSwitches(fi, opT.Type()) {
			nOp++
			for _, k := range ops {
				r.Check(sw.Covered[k], "C17-R2", fi.Name()+"/root:"+k, p.Pos(sw.Stmt.Pos()), "the root operation type dispatch in "+fi.Name()+" handles "+k,
					"no arm for "+k+": the schema's root type for that operation is never recorded, __schema."+strings.ToLower(strings.TrimPrefix(k, "OperationType"))+"Type is null (for the query type: the zero FullType) although the schema defines it")
			}
		}
	}
	r.Expect("C17-R2", "generator dispatches over ast.OperationType", nOp, 1)
}

// c17Loss says, for the diagnosis only, what the SDL loses when a model field is not imported.
var c17Loss = map[string]string{
	"Directive.IsRepeatable":       " — `repeatable` disappears from directive definitions",
	"FullType.SpecifiedByURL":      " — @specifiedBy(url:) disappears from custom scalars",
	"InputValue.IsDeprecated":      " — @deprecated disappears from arguments and input fields",
	"InputValue.DeprecationReason": " — the reason of @deprecated on arguments and input fields is lost",
	"Schema.Description":           " — the schema description is dropped",
	"FullType.Interfaces":          " — `implements` clauses disappear",
}

// c17ModelAgreement implements C17-R3 (global writer/reader agreement) and C17-R4 (per type kind).
func c17ModelAgreement(r *fw.Run, pk *packages.Package, model map[string]*types.Named, owners map[string]bool, kindT types.Type, allGen, allConv []*fw.FuncInfo) {
	p := r.Prog
	info := pk.TypesInfo
	r.Rule("C17-R3", "generator and converter agree on the data model: every serialised field of Data/Schema/FullType/TypeRef/Field/InputValue/EnumValue/Directive that the generator writes is read by the converter, and every field the converter reads is written by the generator")
	gen := fw.ModelFieldUses(allGen, "introspection", owners)
	conv := fw.ModelFieldUses(allConv, "introspection", owners)
	// frozen exceptions, one symbol each
	exemptRead := map[string]string{}
	for tn, nt := range model {
		st := nt.Underlying().(*types.Struct)
		for i := 0; i < st.NumFields(); i++ {
			if tag := st.Tag(i); strings.Contains(tag, `json:"__typename"`) {
				exemptRead[tn+"."+st.Field(i).Name()] = "JSON discriminator (__typename) served to clients by the datasource; SDL has no counterpart"
			}
		}
	}
	n := 0
	var names []string
	for tn := range model {
		names = append(names, tn)
	}
	sort.Strings(names)
	for _, tn := range names {
		st := model[tn].Underlying().(*types.Struct)
		js, _ := fw.JSONKeysOfStruct(st)
		serialised := map[string]bool{}
		for _, f := range js {
			serialised[f] = true
		}
		for i := 0; i < st.NumFields(); i++ {
			f := st.Field(i)
			if !serialised[f.Name()] {
				continue // not part of the JSON model (unexported index)
			}
			key := tn + "." + f.Name()
			w, rd := gen.Writes[key], conv.Reads[key]
			if len(w) == 0 && len(rd) == 0 {
				r.Fail("C17-R3", key+"/used", p.Pos(f.Pos()), "model field "+key+" is used", "the field is serialised but neither written by the generator nor read by the converter: dead part of the model")
				n++
				continue
			}
			if len(w) > 0 {
				n++
				if why, ok := exemptRead[key]; ok {
					r.Pass("C17-R3", key+"/read-by-converter", p.Pos(w[0]), key+" written by the generator (exempt from being read: "+why+")", false)
				} else {
					r.Check(len(rd) > 0, "C17-R3", key+"/read-by-converter", p.Pos(w[0]), key+", written by the generator, is read by the converter",
						"the generator records "+key+" but no function of JsonConverter reads it: converting the introspection result back to a schema document loses this information"+c17Loss[key]+" (the round trip is not the identity for schemas that use it)")
				}
			}
			if len(rd) > 0 {
				n++
				r.Check(len(w) > 0, "C17-R3", key+"/written-by-generator", p.Pos(rd[0]), key+", read by the converter, is written by the generator",
					"the converter builds the schema document from "+key+" but the generator never sets it: the zero value is served to introspection queries and imported (information present in the schema is missing from its introspection)")
			}
		}
	}
	r.Expect("C17-R3", "written/read obligations over model fields", n, 82)

	r.Rule("C17-R4", "per type kind: every FullType field that the generator's Enter…TypeDefinition callback of kind K writes is read in the converter's arm for K (or the functions it calls)")
	// generator: callback -> kind, fields written in that callback's own body
	type kindW struct {
		fn     *fw.FuncInfo
		writes map[string][]token.Pos
	}
	byKind := map[string]*kindW{}
	fullOnly := map[string]bool{"FullType": true}
	// a helper that stores its kind parameter in FullType.Kind (enterType(name, kind)): parameter index, and what it writes
	kindParam := map[*fw.FuncInfo]int{}
	for _, fi := range allGen {
		sig := fi.Obj.Type().(*types.Signature)
		for i := 0; i < sig.Params().Len(); i++ {
			if !types.Identical(sig.Params().At(i).Type(), kindT) {
				continue
			}
			fw.WalkAll(fi.Decl.Body, func(n ast.Node) bool {
				if as, ok := n.(*ast.AssignStmt); ok {
					for j, l := range as.Lhs {
						if j < len(as.Rhs) && fw.IsFieldSel(info, l, "introspection", "FullType", "Kind") {
							if id, isID := ast.Unparen(as.Rhs[j]).(*ast.Ident); isID && info.Uses[id] == sig.Params().At(i) {
								kindParam[fi] = i
							}
						}
					}
				}
				return true
			})
		}
	}
	for _, fi := range allGen {
		var kind string
		var helper *fw.FuncInfo
		fw.WalkAll(fi.Decl.Body, func(n ast.Node) bool {
			if as, ok := n.(*ast.AssignStmt); ok {
				for j, l := range as.Lhs {
					if j < len(as.Rhs) && fw.IsFieldSel(info, l, "introspection", "FullType", "Kind") {
						if c := fw.ConstObj(info, as.Rhs[j]); c != nil && types.Identical(c.Type(), kindT) {
							kind = c.Name()
						}
					}
				}
			}
			if call, ok := n.(*ast.CallExpr); ok {
				if callee := p.FuncOf(fw.Callee(info, call)); callee != nil {
					if i, isHelper := kindParam[callee]; isHelper && i < len(call.Args) {
						if c := fw.ConstObj(info, call.Args[i]); c != nil && types.Identical(c.Type(), kindT) {
							kind, helper = c.Name(), callee
						}
					}
				}
			}
			return true
		})
		if kind == "" {
			continue
		}
		fns := []*fw.FuncInfo{fi}
		if helper != nil {
			fns = append(fns, helper)
		}
		writes := fw.ModelFieldUses(fns, "introspection", fullOnly).Writes
		// a kind is declared by its definition callback and, since extensions are entered too, by its extension callback:
		// what either of them records has to be read back
		if kw := byKind[kind]; kw != nil {
			for f, ps := range writes {
				kw.writes[f] = append(kw.writes[f], ps...)
			}
			if strings.Contains(fi.Name(), "Definition") {
				kw.fn = fi
			}
		} else {
			byKind[kind] = &kindW{fi, writes}
		}
	}
	r.Expect("C17-R4", "kind-declaring generator callbacks", len(byKind), 6)
	exemptKind := map[string]string{
		"INTERFACE/PossibleTypes": "derivable: the implementing object types carry the interface in their own Interfaces list, which the OBJECT arm imports",
	}
	nArm := 0
	for _, fi := range allConv {
		fw.WalkAll(fi.Decl.Body, func(nd ast.Node) bool {
			sw, ok := nd.(*ast.SwitchStmt)
			if !ok || sw.Tag == nil || !fw.IsFieldSel(info, sw.Tag, "introspection", "FullType", "Kind") {
				return true
			}
			for _, c := range sw.Body.List {
				cc := c.(*ast.CaseClause)
				reads := map[string]bool{"FullType.Kind": true} // the dispatch itself
				var callees []*fw.FuncInfo
				for _, s := range cc.Body {
					for k := range fw.ModelFieldUsesIn(info, s, "introspection", fullOnly).Reads {
						reads[k] = true
					}
					fw.WalkAll(s, func(m ast.Node) bool {
						if call, ok := m.(*ast.CallExpr); ok {
							if cf := p.FuncOf(fw.Callee(info, call)); cf != nil {
								callees = append(callees, cf)
							}
						}
						return true
					})
				}
				for k := range fw.ModelFieldUses(fw.StaticCallClosure(p, callees), "introspection", fullOnly).Reads {
					reads[k] = true
				}
				for _, e := range cc.List {
					k := fw.ConstObj(info, e)
					if k == nil || byKind[k.Name()] == nil {
						continue
					}
					kw := byKind[k.Name()]
					for _, f := range c17Keys(func() map[string]bool {
						m := map[string]bool{}
						for f := range kw.writes {
							m[f] = true
						}
						return m
					}()) {
						fname := strings.TrimPrefix(f, "FullType.")
						key := k.Name() + "/" + fname
						if len(conv.Reads[f]) == 0 {
							continue // not read anywhere: reported once by C17-R3
						}
						nArm++
						if why, ok := exemptKind[key]; ok {
							r.Pass("C17-R4", key, p.Pos(kw.writes[f][0]), f+" of a "+k.Name()+" type (exempt: "+why+")", false)
							continue
						}
						r.Check(reads[f], "C17-R4", key, p.Pos(kw.writes[f][0]), kw.fn.Name()+" writes "+f+"; the "+k.Name()+" arm of "+fi.Name()+" reads it",
							kw.fn.Name()+" records "+f+" for types of kind "+k.Name()+", but the converter's "+k.Name()+" arm never reads it: the information is dropped when the introspection result is converted back (e.g. the interfaces an interface implements, a description)")
					}
				}
			}
			return true
		})
	}
	r.Expect("C17-R4", "per-kind field obligations", nArm, 21)
}

// c17Typenames maps every model struct that has a json:"__typename" discriminator to the constant(s)
// the package stores in that field (FullType and TypeRef both say "__Type").
func c17Typenames(p *fw.Prog, pk *packages.Package, model map[string]*types.Named) map[string]map[string]bool {
	// struct -> __typename constant(s), from the values given to the field tagged json:"__typename"
	info := pk.TypesInfo
	tnField := map[string]string{} // struct -> name of its discriminator field
	for tn, nt := range model {
		st := nt.Underlying().(*types.Struct)
		for i := 0; i < st.NumFields(); i++ {
			if strings.Contains(st.Tag(i), `json:"__typename"`) {
				tnField[tn] = st.Field(i).Name()
			}
		}
	}
	typename := map[string]map[string]bool{} // struct -> constants
	note := func(owner, val string) {
		if typename[owner] == nil {
			typename[owner] = map[string]bool{}
		}
		typename[owner][val] = true
	}
	for _, fi := range p.Funcs("introspection") {
		fw.WalkAll(fi.Decl.Body, func(n ast.Node) bool {
			switch x := n.(type) {
			case *ast.CompositeLit:
				nt, _ := types.Unalias(info.TypeOf(x)).(*types.Named)
				if nt == nil || tnField[nt.Obj().Name()] == "" || nt.Obj().Pkg() != pk.Types {
					return true
				}
				for _, el := range x.Elts {
					if kv, ok := el.(*ast.KeyValueExpr); ok {
						if id, ok := kv.Key.(*ast.Ident); ok && id.Name == tnField[nt.Obj().Name()] {
							if v, ok := fw.ConstVal(info, kv.Value); ok {
								note(nt.Obj().Name(), strings.Trim(v, `"`))
							}
						}
					}
				}
			case *ast.AssignStmt:
				for j, l := range x.Lhs {
					if v, sel := fw.Field(info, l); v != nil && j < len(x.Rhs) {
						_, owner := fw.FieldOwner(info, sel)
						if tnField[owner] == v.Name() {
							if cv, ok := fw.ConstVal(info, x.Rhs[j]); ok {
								note(owner, strings.Trim(cv, `"`))
							}
						}
					}
				}
			}
			return true
		})
	}
	return typename
}

// c17AnnouncedFields implements C17-R5.
func c17AnnouncedFields(r *fw.Run, pk, ds *packages.Package, model map[string]*types.Named) {
	p := r.Prog
	r.Rule("C17-R5", "per __typename, the field names the introspection datasource announces as child nodes are exactly the JSON keys the model structs with that __typename serialise")
	typename := c17Typenames(p, pk, model)
	serial := map[string]map[string]bool{} // __typename -> JSON keys
	nStruct := 0
	for owner, vals := range typename {
		js, ok := fw.JSONKeysOfStruct(model[owner].Underlying().(*types.Struct))
		if !ok {
			r.Error("C17-R5: model struct %s embeds a struct; JSON flattening is not modelled", owner)
		}
		nStruct++
		for v := range vals {
			if serial[v] == nil {
				serial[v] = map[string]bool{}
			}
			for k := range js {
				serial[v][k] = true
			}
		}
	}
	r.Expect("C17-R5", "model structs with a __typename discriminator", nStruct, 7)
	// datasource: plan.TypeField literals with a constant TypeName
	dinfo := ds.TypesInfo
	announced := map[string]map[string]bool{}
	annPos := map[string]token.Pos{}
	for _, fi := range p.Funcs("introspds") {
		fw.WalkAll(fi.Decl.Body, func(n ast.Node) bool {
			cl, ok := n.(*ast.CompositeLit)
			if !ok {
				return true
			}
			t := dinfo.TypeOf(cl)
			if t == nil || !fw.TypeIs(t, "plan", "TypeField") {
				return true
			}
			var tname string
			var fields []string
			constName := false
			for _, el := range cl.Elts {
				kv, ok := el.(*ast.KeyValueExpr)
				if !ok {
					continue
				}
				id, _ := kv.Key.(*ast.Ident)
				if id == nil {
					continue
				}
				switch id.Name {
				case "TypeName":
					if v, ok := fw.ConstVal(dinfo, kv.Value); ok {
						tname, constName = strings.Trim(v, `"`), true
					}
				case "FieldNames":
					if fl, ok := ast.Unparen(kv.Value).(*ast.CompositeLit); ok {
						for _, fe := range fl.Elts {
							if v, ok := fw.ConstVal(dinfo, fe); ok {
								fields = append(fields, strings.Trim(v, `"`))
							}
						}
					}
				}
			}
			if !constName {
				return true // the root node: the query type's name is computed
			}
			if announced[tname] == nil {
				announced[tname] = map[string]bool{}
				annPos[tname] = cl.Pos()
			}
			for _, f := range fields {
				announced[tname][f] = true
			}
			return true
		})
	}
	r.Expect("C17-R5", "child-node declarations with a constant type name", len(announced), 6)
	n := 0
	all := map[string]bool{}
	for t := range serial {
		all[t] = true
	}
	for t := range announced {
		all[t] = true
	}
	for _, t := range c17Keys(all) {
		s, a := serial[t], announced[t]
		if a == nil {
			n++
			r.Fail("C17-R5", t+"/announced", "-", "introspection type "+t+" is announced by the datasource", "the model serialises objects with __typename "+t+" but the datasource declares no child node for it: the planner cannot plan any selection on "+t)
			continue
		}
		if s == nil {
			n++
			r.Fail("C17-R5", t+"/serialised", p.Pos(annPos[t]), "introspection type "+t+" exists in the model", "the datasource announces child node "+t+" but no model struct carries that __typename")
			continue
		}
		fields := map[string]bool{}
		for f := range s {
			fields[f] = true
		}
		for f := range a {
			fields[f] = true
		}
		for _, f := range c17Keys(fields) {
			n++
			detail := ""
			switch {
			case s[f] && !a[f]:
				detail = "the generated data carries \"" + f + "\" on " + t + " but the datasource does not announce it: a query selecting " + t + "." + f + " cannot be planned on the introspection datasource (planning error / field missing from the answer)"
			case a[f] && !s[f]:
				detail = "the datasource announces " + t + "." + f + " but no model struct serialises a key \"" + f + "\": the engine answers null (or a non-null error) for a field the schema defines"
			}
			r.Check(s[f] && a[f], "C17-R5", t+"/"+f, p.Pos(annPos[t]), t+"."+f+" is both serialised by the model and announced by the datasource", detail)
		}
	}
	r.Expect("C17-R5", "announced/serialised field pairs", n, 43)
}

// c17TypeIndex implements C17-R6.
func c17TypeIndex(r *fw.Run, pk *packages.Package) {
	p := r.Prog
	info := pk.TypesInfo
	r.Rule("C17-R6", "__schema.types and the __type(name:) index are filled together: every function that appends to Schema.Types also stores the same element in the map Schema.TypeByName looks names up in")
	// the index: the map-typed field of Schema that TypeByName indexes
	lookup := p.Func("introspection", "Schema.TypeByName")
	if lookup == nil {
		r.Error("C17-R6: Schema.TypeByName not found")
		return
	}
	var indexField *types.Var
	scans := false
	fw.WalkAll(lookup.Decl.Body, func(nd ast.Node) bool {
		switch x := nd.(type) {
		case *ast.IndexExpr:
			if v, sel := fw.Field(info, x.X); v != nil {
				if _, isMap := v.Type().Underlying().(*types.Map); isMap {
					if _, owner := fw.FieldOwner(info, sel); owner == "Schema" {
						indexField = v
					}
				}
			}
		case *ast.RangeStmt:
			if fw.IsFieldSel(info, x.X, "introspection", "Schema", "Types") {
				scans = true
			}
		}
		return true
	})
	if indexField == nil {
		if scans {
			r.Pass("C17-R6", "Schema.TypeByName/scans-types", lookup.Pos(), "TypeByName searches Schema.Types itself (no separate index to keep in step)", false)
		} else {
			r.Error("C17-R6: Schema.TypeByName neither indexes a map field of Schema nor ranges over Schema.Types; the lookup changed shape")
		}
		return
	}
	n := 0
	for _, fi := range p.Funcs("introspection") {
		var stores []*ast.AssignStmt
		indexed := map[string]bool{} // ExprKey of the values stored into the index
		fw.WalkAll(fi.Decl.Body, func(nd ast.Node) bool {
			as, ok := nd.(*ast.AssignStmt)
			if !ok || len(as.Lhs) != 1 || len(as.Rhs) != 1 {
				return true
			}
			if fw.IsFieldSel(info, as.Lhs[0], "introspection", "Schema", "Types") {
				c, isCall := ast.Unparen(as.Rhs[0]).(*ast.CallExpr)
				if !(isCall && fw.Builtin(info, c) == "make") {
					stores = append(stores, as)
				}
			}
			if ix, ok := ast.Unparen(as.Lhs[0]).(*ast.IndexExpr); ok {
				if v, _ := fw.Field(info, ix.X); v == indexField {
					indexed[fw.ExprKey(info, as.Rhs[0])] = true
				}
			}
			return true
		})
		for _, as := range stores {
			n++
			ok := false
			if c, isCall := ast.Unparen(as.Rhs[0]).(*ast.CallExpr); isCall && fw.Builtin(info, c) == "append" && len(c.Args) == 2 {
				ok = indexed[fw.ExprKey(info, c.Args[1])]
			}
			r.Check(ok, "C17-R6", fi.Name()+"/types-and-index", p.Pos(as.Pos()), fi.Name()+" stores the appended type in Schema."+indexField.Name()+" as well",
				fi.Name()+" adds a type to Schema.Types without indexing it by name: __schema{types} lists the type but __type(name:) answers null for it, and LeaveDocument cannot resolve it as a root operation type (nil dereference for the query type)")
		}
	}
	r.Expect("C17-R6", "writes of Schema.Types", n, 1)
}

// c17Committed implements C17-R9.
func c17Committed(r *fw.Run, pk *packages.Package, allGen []*fw.FuncInfo) {
	p := r.Prog
	info := pk.TypesInfo
	r.Rule("C17-R9", "every type the generator declares reaches the schema: the FullType an Enter…TypeDefinition callback gives a kind to is handed to the function that fills Schema.Types, in that callback or in the matching Leave… callback")
	// the committing functions: those that store into Schema.Types (C17-R6 sites)
	var commitsAt func(fi *fw.FuncInfo, holder string, depth int) bool
	commitsAt = func(fi *fw.FuncInfo, holder string, depth int) bool {
		found := false
		fw.WalkAll(fi.Decl.Body, func(nd ast.Node) bool {
			c, ok := nd.(*ast.CallExpr)
			if !ok {
				return true
			}
			cf := p.FuncOf(fw.Callee(info, c))
			if cf == nil {
				return true
			}
			writesTypes := len(fw.ModelFieldUses(fw.StaticCallClosure(p, []*fw.FuncInfo{cf}), "introspection", map[string]bool{"Schema": true}).Writes["Schema.Types"]) > 0
			if !writesTypes {
				return true
			}
			for _, a := range c.Args {
				if fw.ExprKey(info, a) == holder {
					found = true
				}
			}
			// a helper of the visitor that commits the holder itself (leaveType())
			if !found && cf != fi && depth < 2 && cf.Pkg == fi.Pkg && cf.Decl.Recv != nil {
				if commitsAt(cf, holder, depth+1) {
					found = true
				}
			}
			return true
		})
		return found
	}
	commits := func(fi *fw.FuncInfo, holder string) bool { return commitsAt(fi, holder, 0) }
	nDecl := 0
	for _, fi := range allGen {
		nm := fi.Name()
		i := strings.Index(nm, ".Enter")
		if i < 0 {
			continue
		}
		recv, node := nm[:i], nm[i+len(".Enter"):]
		var holder ast.Expr
		var kind string
		fw.WalkAll(fi.Decl.Body, func(nd ast.Node) bool {
			if as, ok := nd.(*ast.AssignStmt); ok {
				for j, l := range as.Lhs {
					if j < len(as.Rhs) && fw.IsFieldSel(info, l, "introspection", "FullType", "Kind") {
						if c := fw.ConstObj(info, as.Rhs[j]); c != nil {
							holder, kind = ast.Unparen(l).(*ast.SelectorExpr).X, c.Name()
						}
					}
				}
			}
			if call, ok := nd.(*ast.CallExpr); ok {
				if k, h, viaHelper := c17KindViaHelper(p, info, call); viaHelper {
					holder, kind = h, k
				}
			}
			return true
		})
		if holder == nil {
			continue
		}
		nDecl++
		hk := fw.ExprKey(info, holder)
		ok := commits(fi, hk)
		where := fi.Name()
		if !ok {
			// held in a field of the visitor: the matching Leave callback commits it
			if v, _ := fw.Field(info, holder); v != nil {
				if lf := p.Func("introspection", recv+".Leave"+node); lf != nil {
					where = lf.Name()
					if commits(lf, hk) { // through a helper of the visitor that commits the holder itself
						ok = true
					}
					fw.WalkAll(lf.Decl.Body, func(nd ast.Node) bool {
						if sel, isSel := nd.(*ast.SelectorExpr); isSel && !ok {
							if lv, _ := fw.Field(info, sel); lv == v {
								ok = commits(lf, fw.ExprKey(info, sel))
							}
						}
						return true
					})
				}
			}
		}
		r.Check(ok, "C17-R9", recv+"."+node+"/committed", fi.Pos(), "the "+kind+" type declared in "+fi.Name()+" is added to the schema (in "+where+")",
			"Enter"+node+" builds a FullType of kind "+kind+" but neither it nor Leave"+node+" passes that value to the function filling Schema.Types: every "+kind+" type of every schema is missing from __schema.types and from __type(name:), while fields still refer to it")
	}
	r.Expect("C17-R9", "type-declaring callbacks", nDecl, 6)
}

// c17Walker implements C17-R7 over the registrars the two packages use.
func c17Walker(r *fw.Run) {
	p := r.Prog
	r.Rule("C17-R7", "every astvisitor registration method used by the generator / planner stores its argument in the dispatch list of every callback its parameter interface contains, and the walker invokes that callback on the elements of that list")
	regs, lists, ok := fw.WalkerWiring(p)
	if !ok {
		r.Error("C17-R7: package astvisitor not loaded with syntax")
		return
	}
	used := map[string]bool{}
	for _, alias := range []string{"introspection", "introspds"} {
		for _, s := range fw.VisitorWiringReport(p, alias).Sites {
			used[s.Registrar] = true
		}
	}
	usedLists := map[string]bool{}
	nReg := 0
	for _, ri := range regs {
		if !used[ri.Method] {
			continue
		}
		nReg++
		missing := fw.MissingFrom(func() map[string]bool {
			m := map[string]bool{}
			for _, s := range ri.Stored {
				m[s] = true
			}
			return m
		}(), ri.Callbacks)
		for _, l := range ri.Lists {
			usedLists[l] = true
		}
		r.Check(len(missing) == 0 && !ri.Opaque, "C17-R7", ri.Method+"/stores-all", p.Pos(ri.Pos), ri.Method+" stores its argument for "+strings.Join(ri.Callbacks, ", "),
			"the registration accepts a visitor for ["+strings.Join(ri.Callbacks, ",")+"] but does not append it to the dispatch list of ["+strings.Join(missing, ",")+"]: those callbacks of every visitor registered this way are never called (the generator then omits what they contribute)")
	}
	r.Expect("C17-R7", "registration methods used by introspection", nReg, 16)
	nList := 0
	for _, dl := range lists {
		if !usedLists[dl.Field] {
			continue
		}
		for _, cb := range dl.Callbacks {
			nList++
			r.Check(contains(dl.Dispatched, cb), "C17-R7", "visitors."+dl.Field+"/dispatch:"+cb, p.Pos(dl.Pos), "the walker invokes "+cb+" on the elements of visitors."+dl.Field,
				"visitors are stored in "+dl.Field+" but no function of astvisitor calls "+cb+" on an element of that list: the callback is registered and never delivered")
		}
	}
	r.Expect("C17-R7", "dispatch lists fed by those registrations", nList, 24)
}

// c17InputKeys implements C17-R8: the JSON keys the planner writes into the fetch input are the keys
// Source.Load decodes.
func c17InputKeys(r *fw.Run, ds *packages.Package) {
	p := r.Prog
	info := ds.TypesInfo
	r.Rule("C17-R8", "the fetch input the datasource planner renders and the request Source.Load decodes use the same JSON keys: every JSON key of introspectionInput is written by buildInput (or the functions it calls), and buildInput writes no other key")
	in := p.Named("introspds", "introspectionInput")
	build := p.Func("introspds", "buildInput")
	if in == nil || build == nil {
		r.Error("C17-R8: introspectionInput / buildInput not found")
		return
	}
	st, ok := in.Underlying().(*types.Struct)
	if !ok {
		r.Error("C17-R8: introspectionInput is not a struct")
		return
	}
	js, _ := fw.JSONKeysOfStruct(st)
	// the decoder really decodes into that struct
	decodes := false
	for _, fi := range p.Funcs("introspds") {
		fw.WalkAll(fi.Decl.Body, func(n ast.Node) bool {
			if c, ok := n.(*ast.CallExpr); ok {
				if fn := fw.Callee(info, c); fn != nil && fn.Pkg() != nil && fn.Pkg().Path() == "encoding/json" && fn.Name() == "Unmarshal" && len(c.Args) == 2 {
					if fw.TypeIs(info.TypeOf(c.Args[1]), "introspds", "introspectionInput") {
						decodes = true
					}
				}
			}
			return true
		})
	}
	if !decodes {
		r.Error("C17-R8: no json.Unmarshal into introspectionInput found; the decoding side changed shape")
		return
	}
	// keys written: string constants (directly or through package-level []byte variables) used in buildInput's closure
	closure := fw.StaticCallClosure(p, []*fw.FuncInfo{build})
	marshals := false
	written := map[string]token.Pos{}
	varInit := map[types.Object]ast.Expr{}
	for _, f := range ds.Syntax {
		for _, d := range f.Decls {
			gd, ok := d.(*ast.GenDecl)
			if !ok || gd.Tok != token.VAR {
				continue
			}
			for _, sp := range gd.Specs {
				vs := sp.(*ast.ValueSpec)
				for i, nm := range vs.Names {
					if i < len(vs.Values) {
						varInit[info.Defs[nm]] = vs.Values[i]
					}
				}
			}
		}
	}
	constOf := func(e ast.Expr) (string, bool) {
		e = ast.Unparen(e)
		if c, ok := e.(*ast.CallExpr); ok && len(c.Args) == 1 { // []byte("…") conversion
			if tv, ok := info.Types[c.Fun]; ok && tv.IsType() {
				e = ast.Unparen(c.Args[0])
			}
		}
		if tv, ok := info.Types[e]; ok && tv.Value != nil && tv.Value.Kind().String() == "String" {
			return strings.Trim(tv.Value.ExactString(), `"`), true
		}
		return "", false
	}
	for _, fi := range closure {
		fw.WalkAll(fi.Decl.Body, func(n ast.Node) bool {
			if c, ok := n.(*ast.CallExpr); ok {
				if fn := fw.Callee(info, c); fn != nil && fn.Pkg() != nil && fn.Pkg().Path() == "encoding/json" {
					marshals = true
				}
			}
			var s string
			var ok bool
			switch x := n.(type) {
			case *ast.Ident:
				if init := varInit[info.Uses[x]]; init != nil {
					s, ok = constOf(init)
				}
			case *ast.BasicLit:
				s, ok = constOf(x)
			}
			if !ok {
				return true
			}
			// ExactString escapes the quotes of the key: \"key\":
			s = strings.ReplaceAll(s, `\"`, `"`)
			for rest := s; ; {
				i := strings.IndexByte(rest, '"')
				if i < 0 {
					break
				}
				j := strings.IndexByte(rest[i+1:], '"')
				if j < 0 {
					break
				}
				key, after := rest[i+1:i+1+j], rest[i+1+j+1:]
				if strings.HasPrefix(after, ":") {
					if _, dup := written[key]; !dup {
						written[key] = n.Pos()
					}
					// skip a string value that follows the colon
					if strings.HasPrefix(after, `:"`) {
						if k := strings.IndexByte(after[2:], '"'); k >= 0 {
							after = after[2+k+1:]
						}
					}
				}
				rest = after
			}
			return true
		})
	}
	if marshals {
		r.Pass("C17-R8", "buildInput/marshals", build.Pos(), "buildInput renders its input with encoding/json (keys agree by construction)", false)
		return
	}
	n := 0
	for _, key := range c17Keys(func() map[string]bool {
		m := map[string]bool{}
		for k := range js {
			m[k] = true
		}
		for k := range written {
			m[k] = true
		}
		return m
	}()) {
		n++
		_, w := written[key]
		_, d := js[key]
		pos := build.Pos()
		if w {
			pos = p.Pos(written[key])
		}
		detail := ""
		switch {
		case d && !w:
			detail = "Source.Load decodes key \"" + key + "\" (introspectionInput." + js[key] + ") but buildInput never writes it: the decoded field keeps its zero value — __type(name:) is answered as if no name was given (null), or every request is taken for the wrong kind"
		case w && !d:
			detail = "buildInput writes key \"" + key + "\" but introspectionInput has no field decoding it: the value the planner sends is ignored by Source.Load"
		}
		r.Check(w && d, "C17-R8", "input-key:"+key+"/"+js[key], pos, "input key \""+key+"\" is written by buildInput and decoded by Source.Load", detail)
	}
	r.Expect("C17-R8", "input keys", n, 2)
}

// c17EvalStringPredicate evaluates a side-effect-free func(string…) bool for concrete arguments: locals,
// assignments, if/else, switches over strings with constant cases, ==, !=, &&, ||, !. ok is false when the
// body uses anything else (the caller then reports "undecidable", never a violation).
func c17EvalStringPredicate(fi *fw.FuncInfo, args []string) (result bool, ok bool) {
	info := fi.Info()
	env := map[types.Object]any{}
	sig := fi.Obj.Type().(*types.Signature)
	if sig.Params().Len() != len(args) || sig.Results().Len() != 1 {
		return false, false
	}
	for i, a := range args {
		env[sig.Params().At(i)] = a
	}
	if fi.Decl.Type.Results != nil {
		for _, f := range fi.Decl.Type.Results.List {
			for _, nm := range f.Names {
				env[info.Defs[nm]] = false
			}
		}
	}
	bad := false
	var eval func(e ast.Expr) any
	eval = func(e ast.Expr) any {
		e = ast.Unparen(e)
		if tv, has := info.Types[e]; has && tv.Value != nil {
			switch tv.Value.Kind().String() {
			case "String":
				return strings.Trim(tv.Value.ExactString(), `"`)
			case "Bool":
				return tv.Value.ExactString() == "true"
			}
		}
		switch x := e.(type) {
		case *ast.Ident:
			if v, has := env[info.Uses[x]]; has {
				return v
			}
		case *ast.UnaryExpr:
			if x.Op == token.NOT {
				if b, isB := eval(x.X).(bool); isB {
					return !b
				}
			}
		case *ast.BinaryExpr:
			l := eval(x.X)
			if bad {
				return nil
			}
			switch x.Op {
			case token.LAND, token.LOR:
				lb, isB := l.(bool)
				if !isB {
					break
				}
				if (x.Op == token.LAND && !lb) || (x.Op == token.LOR && lb) {
					return lb
				}
				if rb, isB := eval(x.Y).(bool); isB {
					return rb
				}
			case token.EQL, token.NEQ:
				rv := eval(x.Y)
				if l != nil && rv != nil {
					return (l == rv) == (x.Op == token.EQL)
				}
			}
		}
		bad = true
		return nil
	}
	type outcome int
	const (
		next outcome = iota
		returned
		broke
	)
	var ret bool
	var exec func(list []ast.Stmt) outcome
	assign := func(lhs ast.Expr, v any) {
		id, isID := ast.Unparen(lhs).(*ast.Ident)
		if !isID || v == nil {
			bad = true
			return
		}
		obj := info.Defs[id]
		if obj == nil {
			obj = info.Uses[id]
		}
		env[obj] = v
	}
	exec = func(list []ast.Stmt) outcome {
		for _, s := range list {
			if bad {
				return returned
			}
			switch x := s.(type) {
			case *ast.DeclStmt:
				gd, isGen := x.Decl.(*ast.GenDecl)
				if !isGen || gd.Tok != token.VAR {
					bad = true
					return returned
				}
				for _, sp := range gd.Specs {
					vs := sp.(*ast.ValueSpec)
					for i, nm := range vs.Names {
						switch {
						case i < len(vs.Values):
							env[info.Defs[nm]] = eval(vs.Values[i])
						case types.Identical(info.Defs[nm].Type().Underlying(), types.Typ[types.Bool]):
							env[info.Defs[nm]] = false
						case types.Identical(info.Defs[nm].Type().Underlying(), types.Typ[types.String]):
							env[info.Defs[nm]] = ""
						default:
							bad = true
						}
					}
				}
			case *ast.AssignStmt:
				if len(x.Lhs) != len(x.Rhs) || (x.Tok != token.ASSIGN && x.Tok != token.DEFINE) {
					bad = true
					return returned
				}
				for i := range x.Lhs {
					assign(x.Lhs[i], eval(x.Rhs[i]))
				}
			case *ast.ReturnStmt:
				switch len(x.Results) {
				case 0:
					if fi.Decl.Type.Results == nil || len(fi.Decl.Type.Results.List) != 1 || len(fi.Decl.Type.Results.List[0].Names) != 1 {
						bad = true
						return returned
					}
					ret, _ = env[info.Defs[fi.Decl.Type.Results.List[0].Names[0]]].(bool)
				case 1:
					b, isB := eval(x.Results[0]).(bool)
					if !isB {
						bad = true
					}
					ret = b
				default:
					bad = true
				}
				return returned
			case *ast.BlockStmt:
				if o := exec(x.List); o != next {
					return o
				}
			case *ast.IfStmt:
				if x.Init != nil {
					bad = true
					return returned
				}
				c, isB := eval(x.Cond).(bool)
				if !isB {
					bad = true
					return returned
				}
				var o outcome
				switch {
				case c:
					o = exec(x.Body.List)
				case x.Else != nil:
					o = exec([]ast.Stmt{x.Else})
				}
				if o != next {
					return o
				}
			case *ast.SwitchStmt:
				if x.Init != nil {
					bad = true
					return returned
				}
				var tag any = true
				if x.Tag != nil {
					tag = eval(x.Tag)
				}
				var chosen, def *ast.CaseClause
				for _, c := range x.Body.List {
					cc := c.(*ast.CaseClause)
					if cc.List == nil {
						def = cc
					}
					for _, e := range cc.List {
						if chosen == nil && !bad && eval(e) == tag {
							chosen = cc
						}
					}
				}
				if chosen == nil {
					chosen = def
				}
				if bad {
					return returned
				}
				if chosen != nil {
					for _, bs := range chosen.Body {
						if br, isBr := bs.(*ast.BranchStmt); isBr && br.Tok == token.FALLTHROUGH {
							bad = true
							return returned
						}
					}
					switch exec(chosen.Body) {
					case returned:
						return returned
					}
				}
			case *ast.BranchStmt:
				if x.Tok == token.BREAK && x.Label == nil {
					return broke
				}
				bad = true
				return returned
			case *ast.EmptyStmt:
			default:
				bad = true
				return returned
			}
		}
		return next
	}
	if exec(fi.Decl.Body.List) != returned || bad {
		return false, false
	}
	return ret, true
}

// c17IncludeDeprecated implements C17-R10: the planner's includeDeprecated filter agrees with the model.
func c17IncludeDeprecated(r *fw.Run, pk *packages.Package, model map[string]*types.Named) {
	p := r.Prog
	r.Rule("C17-R10", "deprecations are filtered where they exist: every model collection whose elements carry IsDeprecated is one the planner evaluates includeDeprecated for (by __typename and JSON field name), and the filter reads the JSON key the model serialises IsDeprecated under")
	pred := p.Func("plan", "Visitor.introspectionShouldEvaluateIncludeDeprecated")
	if pred == nil {
		r.Error("C17-R10: plan.Visitor.introspectionShouldEvaluateIncludeDeprecated not found (package plan not loaded with syntax, or the filter moved)")
		return
	}
	// argument order of the predicate: which parameter is the field name, which the enclosing type — decided by
	// use, not by name: the caller passes them; we find the call and match its arguments to the caller's values.
	sig := pred.Obj.Type().(*types.Signature)
	if sig.Params().Len() != 2 {
		r.Error("C17-R10: the includeDeprecated predicate no longer takes (field name, enclosing type name)")
		return
	}
	// the filter key(s): string constants passed to (*astjson.Value).GetBool in the functions that call the predicate
	pinfo := pred.Info()
	filterKeys := map[string]token.Pos{}
	for _, fi := range p.Funcs("plan") {
		calls := false
		fw.WalkAll(fi.Decl.Body, func(n ast.Node) bool {
			if c, ok := n.(*ast.CallExpr); ok && fw.Callee(pinfo, c) == pred.Obj {
				calls = true
			}
			return true
		})
		if !calls {
			continue
		}
		fw.WalkAll(fi.Decl.Body, func(n ast.Node) bool {
			c, ok := n.(*ast.CallExpr)
			if !ok || len(c.Args) != 1 {
				return true
			}
			fn := fw.Callee(pinfo, c)
			if fn == nil || fn.Name() != "GetBool" || fn.Pkg() == nil || !strings.HasSuffix(fn.Pkg().Path(), "/astjson") {
				return true
			}
			if v, ok := fw.ConstVal(pinfo, c.Args[0]); ok {
				filterKeys[strings.Trim(v, `"`)] = c.Pos()
			}
			return true
		})
	}
	r.Expect("C17-R10", "JSON keys read by the includeDeprecated filter", len(filterKeys), 1)
	typename := c17Typenames(p, pk, model)
	// deprecable element structs and the JSON key of their flag
	flagKey := map[string]string{}
	var names []string
	for tn := range model {
		names = append(names, tn)
	}
	sort.Strings(names)
	for _, tn := range names {
		st := model[tn].Underlying().(*types.Struct)
		js, _ := fw.JSONKeysOfStruct(st)
		for k, f := range js {
			if f == "IsDeprecated" {
				flagKey[tn] = k
			}
		}
	}
	r.Expect("C17-R10", "model structs with an IsDeprecated flag", len(flagKey), 3)
	for _, tn := range names {
		k, has := flagKey[tn]
		if !has {
			continue
		}
		_, read := filterKeys[k]
		var got []string
		for fk := range filterKeys {
			got = append(got, fk)
		}
		r.Check(read, "C17-R10", tn+"/filter-key", p.Pos(model[tn].Obj().Pos()), tn+".IsDeprecated is serialised under the key the includeDeprecated filter reads",
			tn+".IsDeprecated is serialised as \""+k+"\" but the planner's array filter reads ["+strings.Join(sortStrings(got), ",")+"]: the filter sees false for every item, so deprecated "+tn+" entries are returned although includeDeprecated is false (the default)")
	}
	// collections of deprecable elements
	n := 0
	for _, owner := range names {
		st := model[owner].Underlying().(*types.Struct)
		js, _ := fw.JSONKeysOfStruct(st)
		byField := map[string]string{}
		for k, f := range js {
			byField[f] = k
		}
		for i := 0; i < st.NumFields(); i++ {
			sl, ok := st.Field(i).Type().Underlying().(*types.Slice)
			if !ok {
				continue
			}
			en, _ := types.Unalias(sl.Elem()).(*types.Named)
			if en == nil || flagKey[en.Obj().Name()] == "" || byField[st.Field(i).Name()] == "" {
				continue
			}
			for _, tname := range c17Keys(typename[owner]) {
				n++
				jsName := byField[st.Field(i).Name()]
				// the caller passes (fieldName, enclosingTypeName): find the order from the parameter the
				// predicate compares with a constant that is a __typename of the model
				order := c17PredicateOrder(pred, typename)
				if order < 0 {
					r.Error("C17-R10: cannot tell which parameter of the includeDeprecated predicate is the type name")
					return
				}
				args := []string{jsName, tname}
				if order == 0 {
					args = []string{tname, jsName}
				}
				res, decided := c17EvalStringPredicate(pred, args)
				if !decided {
					r.Error("C17-R10: the includeDeprecated predicate uses constructs the evaluator does not model; %s.%s cannot be decided", tname, jsName)
					return
				}
				r.Check(res, "C17-R10", tname+"/"+jsName+"/filtered", p.Pos(st.Field(i).Pos()), "includeDeprecated is evaluated for "+tname+"."+jsName+" ("+owner+"."+st.Field(i).Name()+", elements carry isDeprecated)",
					"the planner installs no includeDeprecated filter for "+tname+"."+jsName+": deprecated entries of that list are always returned, although the spec default (includeDeprecated: false) excludes them — introspection answers differ from the reference for every schema with a deprecated "+en.Obj().Name())
			}
		}
	}
	r.Expect("C17-R10", "collections of deprecable elements", n, 5)
}

// c17PredicateOrder returns the index of the parameter that the predicate compares (switch tag or ==) with a
// constant that is one of the model's __typename values; -1 if none.
func c17PredicateOrder(pred *fw.FuncInfo, typename map[string]map[string]bool) int {
	info := pred.Info()
	isTypename := func(e ast.Expr) bool {
		v, ok := fw.ConstVal(info, e)
		if !ok {
			return false
		}
		v = strings.Trim(v, `"`)
		for _, set := range typename {
			if set[v] {
				return true
			}
		}
		return false
	}
	sig := pred.Obj.Type().(*types.Signature)
	idx := func(e ast.Expr) int {
		id, ok := ast.Unparen(e).(*ast.Ident)
		if !ok {
			return -1
		}
		for i := 0; i < sig.Params().Len(); i++ {
			if info.Uses[id] == sig.Params().At(i) {
				return i
			}
		}
		return -1
	}
	found := -1
	fw.WalkAll(pred.Decl.Body, func(n ast.Node) bool {
		switch x := n.(type) {
		case *ast.SwitchStmt:
			if x.Tag == nil {
				return true
			}
			if i := idx(x.Tag); i >= 0 {
				for _, c := range x.Body.List {
					for _, e := range c.(*ast.CaseClause).List {
						if isTypename(e) {
							found = i
						}
					}
				}
			}
		case *ast.BinaryExpr:
			if x.Op == token.EQL || x.Op == token.NEQ {
				if i := idx(x.X); i >= 0 && isTypename(x.Y) {
					found = i
				}
				if i := idx(x.Y); i >= 0 && isTypename(x.X) {
					found = i
				}
			}
		}
		return true
	})
	return found
}

// c17SourceIsReadOnly (R11, added after a seeded change made Source.Load encode into a buffer kept on the Source): the
// introspection Source is part of the cached plan and is shared by all concurrent and later requests. Nothing reachable from
// Source.Load / LoadWithFiles writes receiver state: no assignment through the receiver, no address of a receiver field, no
// call of a pointer-receiver method on a receiver field held by value (bytes.Buffer and the like).
func c17SourceIsReadOnly(r *fw.Run) {
	p := r.Prog
	r.Rule("C17-R11", "the introspection Source (shared by all requests through the cached plan) is never written by what Source.Load / LoadWithFiles reach: no store through the receiver, no address of a receiver field, no pointer-receiver method on a field Source holds by value")
	pk := p.Pkg("introspds")
	info := pk.TypesInfo
	work := []*fw.FuncInfo{}
	seen := map[*types.Func]bool{}
	for _, n := range []string{"Source.Load", "Source.LoadWithFiles"} {
		if fi := p.Func("introspds", n); fi != nil {
			work = append(work, fi)
			seen[fi.Obj] = true
		} else {
			r.Error("C17-R11: %s not found", n)
		}
	}
	nFuncs := 0
	for len(work) > 0 {
		fi := work[len(work)-1]
		work = work[:len(work)-1]
		sig := fi.Obj.Type().(*types.Signature)
		if sig.Recv() == nil || fw.RecvName(sig.Recv().Type()) != "Source" {
			continue
		}
		nFuncs++
		recv := types.Object(sig.Recv())
		var bad []string
		note := func(what string, n ast.Node) { bad = append(bad, what+" at "+p.Pos(n.Pos())) }
		fw.WalkAll(fi.Decl.Body, func(nd ast.Node) bool {
			for _, t := range fw.WriteTargets(info, nd) {
				if fw.RootObj(info, t) == recv {
					if _, isSel := ast.Unparen(t).(*ast.Ident); !isSel {
						note("store into "+types.ExprString(t), nd)
					}
				}
			}
			switch x := nd.(type) {
			case *ast.UnaryExpr:
				if x.Op == token.AND && fw.RootObj(info, x.X) == recv {
					if _, isID := ast.Unparen(x.X).(*ast.Ident); !isID {
						note("address of "+types.ExprString(x.X), nd)
					}
				}
			case *ast.CallExpr:
				if fn := fw.Callee(info, x); fn != nil {
					if callee := p.FuncOf(fn); callee != nil && callee.Pkg == fi.Pkg && !seen[fn] {
						seen[fn] = true
						work = append(work, callee)
					}
					if sel, ok := ast.Unparen(x.Fun).(*ast.SelectorExpr); ok && fw.RootObj(info, sel.X) == recv {
						direct := false // s.f.M(): a field declared in Source itself (data reached through a pointer is the schema model, not Source state)
						if fs, isSel := ast.Unparen(sel.X).(*ast.SelectorExpr); isSel {
							if id, isID := ast.Unparen(fs.X).(*ast.Ident); isID && info.Uses[id] == recv {
								direct = true
							}
						}
						if direct {
							// method on a receiver field: mutating if the method has a pointer receiver and the field is held by value
							if ms, _ := fn.Type().(*types.Signature); ms != nil && ms.Recv() != nil {
								_, ptrRecv := ms.Recv().Type().(*types.Pointer)
								_, fieldIsPtr := info.TypeOf(sel.X).(*types.Pointer)
								if ptrRecv && !fieldIsPtr {
									note("call of "+types.ExprString(sel)+" (pointer-receiver method on a by-value field)", nd)
								}
							}
						}
					}
				}
			}
			return true
		})
		r.Check(len(bad) == 0, "C17-R11", fi.Name()+"/never-writes-the-shared-source", fi.Pos(), fi.Name()+" leaves the shared Source untouched",
			strings.Join(bad, "; ")+" — the Source belongs to the cached plan: concurrent introspection requests (e.g. __type(name:) for different types) overwrite each other's response bytes — invalid JSON or another type's description is returned")
	}
	r.Expect("C17-R11", "Source methods reachable from Load", nFuncs, 3)
}

// c17PlanClosuresAreStateless (R13): plans are cached and shared by all requests of an engine. The planner stores closures
// in the plan that run per request (they receive the request's *resolve.Context) — the includeDeprecated item filter of
// introspection fields is one. Such a closure may read what it captured at plan time, but it must not keep per-request
// results in captured variables: the first request's value (includeDeprecated: true) would be frozen into the cached plan
// for every later request. The rule: a function literal of package plan that takes a *resolve.Context writes no variable
// declared outside itself and calls no sync/atomic method on a captured variable.
func c17PlanClosuresAreStateless(r *fw.Run) {
	p := r.Prog
	r.Rule("C17-R13", "the per-request closures the planner stores in a (cached, shared) plan — function literals of package plan that receive a *resolve.Context — are stateless: no write to a captured variable, no sync / atomic call on one")
	n := 0
	for _, fi := range p.Funcs("plan") {
		info := fi.Info()
		ord := 0
		fw.WalkAll(fi.Decl.Body, func(nd ast.Node) bool {
			lit, ok := nd.(*ast.FuncLit)
			if !ok {
				return true
			}
			takesCtx := false
			for _, f := range lit.Type.Params.List {
				if tv, okT := info.Types[f.Type]; okT && fw.TypeIs(derefT(tv.Type), "resolve", "Context") {
					takesCtx = true
				}
			}
			if !takesCtx {
				return true
			}
			n++
			ord++
			own := map[types.Object]bool{}
			fw.WalkAll(lit, func(m ast.Node) bool {
				if id, isID := m.(*ast.Ident); isID {
					if o := info.Defs[id]; o != nil {
						own[o] = true
					}
				}
				return true
			})
			captured := func(e ast.Expr) types.Object {
				o := fw.RootObj(info, e)
				v, isVar := o.(*types.Var)
				if !isVar || own[o] || v.IsField() || v.Parent() == v.Pkg().Scope() {
					return nil
				}
				return o
			}
			var bad ast.Node
			what := ""
			fw.WalkAll(lit.Body, func(m ast.Node) bool {
				for _, t := range fw.WriteTargets(info, m) {
					if o := captured(t); o != nil && bad == nil {
						if _, isPtrDeref := ast.Unparen(t).(*ast.Ident); isPtrDeref {
							bad, what = m, "assigns the captured variable "+o.Name()
						}
					}
				}
				if c, isCall := m.(*ast.CallExpr); isCall && bad == nil {
					if sel, isSel := ast.Unparen(c.Fun).(*ast.SelectorExpr); isSel {
						if fn := fw.Callee(info, c); fn != nil && fn.Pkg() != nil && (fn.Pkg().Path() == "sync" || fn.Pkg().Path() == "sync/atomic") {
							if o := captured(sel.X); o != nil {
								bad, what = m, "calls "+fn.Pkg().Name()+"."+fw.FuncName(fn)+" on the captured variable "+o.Name()
							}
						}
					}
				}
				return true
			})
			pos := lit.Pos()
			if bad != nil {
				pos = bad.Pos()
			}
			r.Check(bad == nil, "C17-R13", fi.Name()+"/plan-closure-is-stateless#"+itoa(ord), p.Pos(pos), "the per-request closure built in "+fi.Name()+" keeps no state in captured variables",
				"the closure "+what+": the value computed for the first request is stored in the cached plan and reused for every later request that hits the plan cache — includeDeprecated:true / :false normalise to the same cache key, so the first request decides whether deprecated fields are listed for everyone")
			return true
		})
	}
	r.Expect("C17-R13", "per-request closures built by the planner", n, 1)
}

// c17TemplatePlaceholdersNotInsideStrings (R14): the introspection data source builds its fetch input from a hand-written
// JSON template; `{{ .arguments.name }}` is replaced at run time by the value of the `name` argument of `__type`. The
// planner renders argument placeholders with the *plain* renderer unless a field configuration says otherwise (C17-R8
// decides that the keys agree) — plain means the string content as is. A placeholder that sits inside a JSON string literal
// of the template (`"type_name":"{{ … }}"`) therefore splices client-controlled text into the JSON unescaped: a name with
// a quote or a backslash makes the input unparsable (fetch error instead of `__type: null`), and
// `x","request_type":1,"y":"` overrides another member of the request. The rule: in the template constants of the
// introspection data source no placeholder is directly enclosed in double quotes.
func c17TemplatePlaceholdersNotInsideStrings(r *fw.Run) {
	p := r.Prog
	r.Rule("C17-R14", "no placeholder ({{ … }}) of the introspection data source's input template sits inside a JSON string literal of the template: argument values are rendered unescaped by the plain renderer")
	n := 0
	for _, f := range p.Pkg("introspds").Syntax {
		ast.Inspect(f, func(nd ast.Node) bool {
			lit, ok := nd.(*ast.BasicLit)
			if !ok || lit.Kind.String() != "STRING" {
				return true
			}
			tv, okT := p.Pkg("introspds").TypesInfo.Types[lit]
			if !okT || tv.Value == nil {
				return true
			}
			text := strings.Trim(tv.Value.ExactString(), "")
			if uq, err := strconv.Unquote(text); err == nil {
				text = uq
			}
			idx := 0
			for {
				i := strings.Index(text[idx:], "{{")
				if i < 0 {
					break
				}
				at := idx + i
				j := strings.Index(text[at:], "}}")
				if j < 0 {
					break
				}
				end := at + j + 2
				n++
				before := strings.TrimRight(text[:at], " ")
				after := strings.TrimLeft(text[end:], " ")
				inside := strings.HasSuffix(before, `"`) && strings.HasPrefix(after, `"`)
				name := strings.TrimSpace(text[at+2 : end-2])
				r.Check(!inside, "C17-R14", "input-template/placeholder-not-inside-a-string:"+name, p.Pos(lit.Pos()), "the placeholder "+name+" of the introspection input template is not enclosed in a JSON string literal",
					"the argument value is spliced into a JSON string of the fetch input without escaping: `__type(name: \"No\\\"pe\")` gives a fetch error instead of `__type: null`, and a name like `x\",\"request_type\":1,\"y\":\"` overrides request_type — the data source answers a __type field with the whole __schema object")
				idx = end
			}
			return true
		})
	}
	r.Expect("C17-R14", "placeholders in the introspection data source's template constants", n, 1)
}

// c17EveryRootTypeImportedOrAbsent (R18): the converter hands the three root operation type names of the introspected
// schema to ast.Document.ImportRootOperationTypeDefinitions; each of them is optional and independent of the others
// (a schema may have a subscription root and no mutation root). At every exit of the importer each name parameter has
// either been imported (passed to ImportRootOperationTypeDefinition) or is known to be empty — an early return taken
// because one name is absent must not skip another. One correlated fact per parameter ("settled") carries this through
// the joins.
func c17EveryRootTypeImportedOrAbsent(r *fw.Run) {
	p := r.Prog
	r.Rule("C17-R18", "at every exit of the root operation type importer each of the optional root type names has been imported or is known to be empty (the three are independent)")
	n := 0
	for _, fi := range p.Funcs("ast") {
		sig := fi.Obj.Type().(*types.Signature)
		var names []*types.Var
		for i := 0; i < sig.Params().Len(); i++ {
			if b, ok := sig.Params().At(i).Type().Underlying().(*types.Basic); ok && b.Kind() == types.String {
				names = append(names, sig.Params().At(i))
			}
		}
		if len(names) < 2 {
			continue
		}
		info := fi.Info()
		// the importer: every name parameter is handed (as first argument) to one and the same callee
		importedBy := map[*types.Var]*types.Func{}
		fw.WalkAll(fi.Decl.Body, func(nd ast.Node) bool {
			if c, ok := nd.(*ast.CallExpr); ok && len(c.Args) >= 1 {
				if id, isID := ast.Unparen(c.Args[0]).(*ast.Ident); isID {
					for _, pv := range names {
						if info.Uses[id] == pv {
							importedBy[pv] = fw.Callee(info, c)
						}
					}
				}
			}
			return true
		})
		var callee *types.Func
		same := len(importedBy) == len(names)
		for _, fn := range importedBy {
			if fn == nil || (callee != nil && fn != callee) {
				same = false
			}
			callee = fn
		}
		if !same || callee == nil || callee.Name() != "ImportRootOperationTypeDefinition" {
			continue
		}
		in := fw.NewInterp(fi)
		in.H = fw.Hooks{
			Cond: func(e ast.Expr, branch bool, st *fw.State) {
				op, leaves := fw.NNF(info, e, branch)
				if op != "atom" && op != "and" {
					return
				}
				for _, a := range leaves {
					for _, pv := range names {
						x, isX := ast.Unparen(a.X).(*ast.Ident)
						if !isX || info.Uses[x] != pv {
							continue
						}
						if a.Kind == "Empty" {
							st.Set("settled:" + pv.Name())
						}
						if a.Kind == "Eq" {
							if v, isConst := fw.ConstVal(info, a.Y); isConst && (v == `""` || v == "") {
								st.Set("settled:" + pv.Name())
							}
						}
					}
				}
			},
			Node: func(nd ast.Node, st *fw.State) {
				if c, ok := nd.(*ast.CallExpr); ok && fw.Callee(info, c) == callee && len(c.Args) >= 1 {
					if id, isID := ast.Unparen(c.Args[0]).(*ast.Ident); isID {
						for _, pv := range names {
							if info.Uses[id] == pv {
								st.Set("settled:" + pv.Name())
							}
						}
					}
				}
			},
			Exit: func(ret *ast.ReturnStmt, lit *ast.FuncLit, st *fw.State) {
				if lit != nil || !in.Final() {
					return
				}
				for _, pv := range names {
					n++
					pos := fi.Decl.End()
					if ret != nil {
						pos = ret.Pos()
					}
					r.Check(st.Must("settled:"+pv.Name()), "C17-R18", fi.Name()+"/"+pv.Name()+"-imported-or-absent", p.Pos(pos), "at this exit of "+fi.Name()+" the root type name "+pv.Name()+" has been imported or is known to be empty",
						fi.Name()+" can return without importing "+pv.Name()+" although it may be set (an early return for another absent name skips it): a schema with a subscription root and no mutation root loses its subscription root in the introspection round trip")
				}
			},
		}
		in.Run(nil)
	}
	r.Expect("C17-R18", "exits × root type names of the root operation type importer", n, 3)
}

// c17GeneratorContextComplete (R19): the generator keeps "the type (field, directive) being described" in visitor fields
// that the callbacks of the enclosing node set and the callbacks of the members use. The walker also visits the members
// of nodes the visitor has no callback for — the field definitions of `extend type X { … }` are walked whether or not
// anything is registered for ObjectTypeExtension — and the member callbacks then use whatever the field pointed to
// before: the members land on the type visited last, or the pointer is nil. The parent relation is read from the walker
// itself (walk<P> calls walk<K>). For every member kind K whose callbacks use inherited state (a visitor field that some
// Enter<P'> re-binds and K's own Enter does not), the visitor implements Enter<P> for every parent kind P of K and that
// Enter<P> re-binds at least one of the inherited fields K uses (directly or through a method of the visitor).
func c17GeneratorContextComplete(r *fw.Run) {
	r.Rule("C17-R19", "for every member callback of the introspection generator that uses state set by an enclosing node's callback, the visitor enters every parent kind under which the walker visits that member (read from the walker: walk<P> calls walk<K>) and re-binds that state there")
	n := visitorContextComplete(r, "C17-R19", "introspection", "introspectionVisitor")
	r.Expect("C17-R19", "member kind × parent kind pairs of the generator", n, 10)
}


// c17KindViaHelper: the generator declares the kind of the type it describes either by assigning a constant to
// FullType.Kind in the callback itself, or by calling a helper of the package that stores its kind parameter in
// FullType.Kind (enterType(name, kind)). For a call of such a helper with a constant kind it returns the constant's name,
// the helper's holder expression (what it assigns .Kind on) and the position.
func c17KindViaHelper(p *fw.Prog, info *types.Info, call *ast.CallExpr) (kind string, holder ast.Expr, ok bool) {
	callee := p.FuncOf(fw.Callee(info, call))
	if callee == nil {
		return "", nil, false
	}
	sig := callee.Obj.Type().(*types.Signature)
	cinfo := callee.Info()
	for i := 0; i < sig.Params().Len() && i < len(call.Args); i++ {
		pv := sig.Params().At(i)
		var h ast.Expr
		fw.WalkAll(callee.Decl.Body, func(n ast.Node) bool {
			if as, isAs := n.(*ast.AssignStmt); isAs {
				for j, l := range as.Lhs {
					if j < len(as.Rhs) && fw.IsFieldSel(cinfo, l, "introspection", "FullType", "Kind") {
						if id, isID := ast.Unparen(as.Rhs[j]).(*ast.Ident); isID && cinfo.Uses[id] == pv {
							h = ast.Unparen(l).(*ast.SelectorExpr).X
						}
					}
				}
			}
			return true
		})
		if h == nil {
			continue
		}
		if c := fw.ConstObj(info, call.Args[i]); c != nil {
			return c.Name(), h, true
		}
	}
	return "", nil, false
}

// c17ZeroValuedKindsAreAssignedBeforeRead (R20): the introspection result types enumerate kinds with integer constants whose
// first member is the zero value (`SCALAR`). A local of such a type that is declared without a value and then assigned in
// the arms of a switch without a default silently answers SCALAR for whatever the switch did not expect — the type index
// holds directive definitions under their bare name too, so a directive named like an enum made every reference to the
// enum report kind SCALAR. Rule (definite assignment, for exactly the types where the zero value is a legitimate
// member): in package introspection, a local declared without an initial value whose type is a named integer type of
// the package that has a constant equal to zero is read only on paths on which it has been assigned.
func c17ZeroValuedKindsAreAssignedBeforeRead(r *fw.Run) {
	r.Rule("C17-R20", "in the introspection generator a local of an enumeration type whose zero value is a legitimate member (SCALAR) and that is declared without a value is read only on paths on which it has been assigned")
	zeroValuedKindsAssignedBeforeRead(r, "C17-R20", "introspection", 1)
}

// zeroValuedKindsAssignedBeforeRead is the rule body, for one package.
func zeroValuedKindsAssignedBeforeRead(r *fw.Run, rule, alias string, minTypes int) {
	p := r.Prog
	pk := p.Pkg(alias)
	if pk == nil {
		r.Error(rule + ": package " + alias + " not loaded")
		return
	}
	zeroIsMember := func(t types.Type) bool {
		nt, ok := t.(*types.Named)
		if !ok || nt.Obj().Pkg() == nil {
			return false
		}
		if b, isB := nt.Underlying().(*types.Basic); !isB || b.Info()&types.IsInteger == 0 {
			return false
		}
		for _, c := range fw.ConstsOfType(nt.Obj().Pkg(), nt) {
			if c.Val().ExactString() == "0" {
				// a zero member that says "nothing" is the safe design, not a member one can be mistaken for
				low := strings.ToLower(c.Name())
				for _, w := range []string{"unknown", "invalid", "none", "undefined", "unspecified", "notset", "default"} {
					if strings.Contains(low, w) {
						return false
					}
				}
				return true
			}
		}
		return false
	}
	nTypes := 0
	for _, name := range pk.Types.Scope().Names() {
		if tn, ok := pk.Types.Scope().Lookup(name).(*types.TypeName); ok && zeroIsMember(tn.Type()) {
			nTypes++
		}
	}
	r.Expect(rule, "enumeration types of package "+alias+" whose zero value is a member", nTypes, minTypes)
	n := 0
	for _, fi := range p.Funcs(alias) {
		info := fi.Info()
		tracked := map[types.Object]bool{}
		fw.WalkAll(fi.Decl.Body, func(nd ast.Node) bool {
			if vs, ok := nd.(*ast.ValueSpec); ok && len(vs.Values) == 0 {
				for _, id := range vs.Names {
					if o := info.Defs[id]; o != nil && zeroIsMember(o.Type()) {
						tracked[o] = true
					}
				}
			}
			return true
		})
		if len(tracked) == 0 {
			continue
		}
		reported := map[token.Pos]bool{}
		in := fw.NewInterp(fi)
		checkReads := func(e ast.Node, st *fw.State) {
			if e == nil {
				return
			}
			fw.WalkAll(e, func(x ast.Node) bool {
				id, ok := x.(*ast.Ident)
				if !ok || !tracked[info.Uses[id]] || reported[id.Pos()] || !in.Final() {
					return true
				}
				reported[id.Pos()] = true
				n++
				o := info.Uses[id]
				r.Check(st.Must("assigned:"+o.Name()), rule, fi.Name()+"/assigned-before-read:"+o.Name(), p.Pos(id.Pos()), o.Name()+" in "+fi.Name()+" has been assigned on every path to this read",
					o.Name()+" is read on a path on which it still holds the zero value of its type, which is the member SCALAR: a switch over node kinds without a default leaves it there for every node it did not expect — `directive @Role(is: Role) on FIELD_DEFINITION  enum Role {ADMIN USER}  type Query { role: Role }`: the index finds the directive definition first, no arm matches, and `Query.role.type.kind` is SCALAR while `__type(name:\"Role\").kind` is ENUM")
				return true
			})
		}
		in.H = fw.Hooks{
			Lit: func(l *ast.FuncLit, ctx fw.LitCtx, st *fw.State) fw.LitMode { return fw.LitSkip },
			Node: func(nd ast.Node, st *fw.State) {
				switch x := nd.(type) {
				case *ast.AssignStmt:
					for _, rhs := range x.Rhs {
						checkReads(rhs, st)
					}
					for _, l := range x.Lhs {
						if id, ok := l.(*ast.Ident); ok && tracked[info.ObjectOf(id)] {
							st.Set("assigned:" + id.Name)
						}
					}
				case *ast.CompositeLit:
					checkReads(x, st)
				case *ast.ReturnStmt:
					checkReads(x, st)
				case *ast.CallExpr:
					for _, a := range x.Args {
						checkReads(a, st)
					}
				}
			},
		}
		in.Run(nil)
	}
	if n == 0 {
		r.Pass(rule, alias+"/no-zero-valued-kind-local-is-read", "-", "no function of package "+alias+" reads a local of such a type that was declared without a value", false)
	}
	r.Note(rule+": %d reads of zero-valued kind locals checked in "+alias, n)
}
