package rules

import (
	"go/ast"
	"go/types"
	"strings"

	"verif/checker/fw"
)

const (
	resolvableGo = "v2/pkg/engine/resolve/resolvable.go"
	multiGo      = "v2/pkg/engine/resolve/loader_multi_entity.go"
	fieldAuthGo  = "v2/pkg/engine/resolve/field_authorization.go"
)

func init() {
	Registry["C14"] = Spec{
		Pkgs: map[string][]string{"v2": {"resolve", "postprocess", "plan"}},
		Run:  runC14,
		Thorough: func(r *fw.Run) {
			workspaceWhoMayCall(r, []wsCallRule{
				{Rule: "C14-T1", What: "resolve.DataSource.Load / LoadWithFiles are called only by Loader.loadByContextDirect (behind the pre-fetch gate chain)", Callees: []string{"resolve:DataSource.Load", "resolve:DataSource.LoadWithFiles"}, Allowed: []string{"resolve:Loader.loadByContextDirect"}, Why: "a data source is loaded from outside the loader's gated path: the request leaves without the pre-fetch authorization / rate-limit gate, without the single flight and without the cache — a denied mutation reaches the subgraph", Expected: 2},
			})
		},
		Explanation: "Decides the structural half of 'denied fields never reach the client, denied mutations never reach a subgraph': DataSource.Load/LoadWithFiles are reachable only through loadByContextDirect ← loadByContext ← executeSourceLoad ← loadPhase (who-may-call over resolved callees); the load is dominated by !skipLoad; " +
			"every normal exit of each prepare*Fetch either set skipLoad or passed the allowed edge of the pre-fetch gate, which authorizes before it rate-limits; the cache-based gate refuses non-queries with any denied root field and queries with all denied; " +
			"in the response walk each field value is walked only after authorizeField returned 'allow' (pre-walk) and authorizeField allows without a decision only on its four documented edges and denies only after recording an error; " +
			"every resolver entry point runs authorizePreFetch before the loader, subscriptions are authorized before they are registered, and the batch gate fails closed on a decision-count mismatch; the collector descends into the same composite kinds as the renderer and the protected bit has one source. " +
			"It does not decide 'no denied byte in any response' (value level).",
		Mutants: []Mutant{
			{Name: "requests that carry a pre-fetch authorizer are de-duplicated again (reverts part of the F72 fix)", File: "v2/pkg/engine/resolve/inbound_request_singleflight.go", Rule: "C14-R6", Key: "InboundRequestSingleFlight.GetOrCreate/no-sharing-with-authorizer:preFetchFieldAuthorizer",
				Old: "\tif ctx.authorizer != nil || ctx.preFetchFieldAuthorizer != nil {\n", New: "\tif ctx.authorizer != nil {\n"},
			{Name: "subscription updates render with an unseeded decision cache (seeded change C14-21)", File: "v2/pkg/engine/resolve/resolve.go", Rule: "C14-R5", Key: "Resolver.executeSubscriptionUpdate/one-decision-object:renderer",
				Old: "\tauthorization := NewFieldAuthorization(resolveCtx)\n\tresolvable.SetFieldAuthorization(authorization)\n", New: "\tauthorization := NewFieldAuthorization(resolveCtx)\n"},
			{Name: "root field authorization rule looked up under the alias (seeded change C14-12)", File: "v2/pkg/engine/plan/path_builder_visitor.go", Rule: "C14-R4", Key: "addRootField/lookup-by-field-name",
				Old: "\tfieldName := c.operation.FieldNameString(fieldRef)\n\tfieldHasAuthorizationRule := c.fieldHasAuthorizationRule(enclosingTypeName, fieldName)", New: "\tfieldName := c.operation.FieldAliasOrNameString(fieldRef)\n\tfieldHasAuthorizationRule := c.fieldHasAuthorizationRule(enclosingTypeName, fieldName)"},
			{Name: "batch entity fetch loads even when the gate said no", File: loaderGo, Rule: "C14-R1", Key: "prepareBatchEntityFetch",
				Old: "\tif !allowed {\n\t\tprepared.skipLoad = true\n\t\treturn nil\n\t}\n\n\tprepared.source = fetch.DataSource", New: "\t_ = allowed\n\n\tprepared.source = fetch.DataSource"},
			{Name: "loadPhase ignores skipLoad", File: loaderGo, Rule: "C14-R1", Key: "loadPhase",
				Old: "\tif prepared.skipLoad {\n\t\treturn nil\n\t}\n\tif l.responseCacheLookup(prepared) {", New: "\tif l.responseCacheLookup(prepared) {"},
			{Name: "rate limiting before authorization", File: loaderGo, Rule: "C14-R1", Key: "validatePreFetch",
				Old: "\tallowed, err = l.isFetchAuthorized(input, info, res)\n\tif err != nil || !allowed {\n\t\treturn\n\t}\n\treturn l.rateLimitFetch(input, info, res)", New: "\tallowed, err = l.rateLimitFetch(input, info, res)\n\tif err != nil || !allowed {\n\t\treturn\n\t}\n\treturn l.isFetchAuthorized(input, info, res)"},
			{Name: "mutation with a denied root field still sent (cache gate)", File: loaderGo, Rule: "C14-R1", Key: "isFetchAuthorizedFromCache",
				Old: "\t\t\tres.fetchSkipped = true\n\t\t\treturn false\n\t\t}\n\t}\n\tif operationType == ast.OperationTypeQuery", New: "\t\t\tres.fetchSkipped = true\n\t\t}\n\t}\n\tif operationType == ast.OperationTypeQuery"},
			{Name: "direct load from the multi entity path bypassing the gate chain", File: multiGo, Rule: "C14-R1", Key: "who-may-call",
				Old: "\tprepared.source = fetch.DataSource\n\tprepared.input = input\n", New: "\tprepared.source = fetch.DataSource\n\tprepared.input = input\n\tif false {\n\t\t_, _ = fetch.DataSource.Load(l.ctx.ctx, nil, input)\n\t}\n"},
			{Name: "field walked without authorization in the pre-walk", File: resolvableGo, Rule: "C14-R2", Key: "walkFields",
				Old: "\t\tif !r.render() {\n\t\t\tskip := r.authorizeField(value, obj.Fields[i])\n\t\t\tif skip {", New: "\t\tif !r.render() && obj.Nullable {\n\t\t\tskip := r.authorizeField(value, obj.Fields[i])\n\t\t\tif skip {"},
			{Name: "authorizeField allows when the decision call failed", File: resolvableGo, Rule: "C14-R2", Key: "authorizeField",
				Old: "\tif authErr != nil {\n\t\tr.authorizationError = authErr\n\t\treturn true\n\t}\n\tif result != nil {", New: "\tif authErr != nil {\n\t\treturn false\n\t}\n\tif result != nil {"},
			{Name: "denied field skipped without an error entry", File: resolvableGo, Rule: "C14-R2", Key: "authorizeField",
				Old: "\t\tr.addRejectFieldError(result.Reason, DataSourceInfo{\n\t\t\tID:   dataSourceID,\n\t\t\tName: dataSourceName,\n\t\t}, field)\n\t\treturn true", New: "\t\t_ = dataSourceName\n\t\treturn true"},
			{Name: "subscription update loads before the batch gate", File: resolveGo, Rule: "C14-R3", Key: "executeSubscriptionUpdate",
				Old: "\tif err := authorization.authorizePreFetch(sub.resolve.Response); err != nil {\n\t\tr.resolveArenaPool.Release(resolveArena)\n\t\tsub.writeError(r.errorFormatter, resolveCtx, err, sub.resolve.Response)\n\t\tif r.options.Debug {\n\t\t\tfmt.Printf(\"resolver:trigger:subscription:authorization:failed:%d\\n\", sub.id.SubscriptionID)\n\t\t}\n\t\tif r.reporter != nil {\n\t\t\tr.reporter.SubscriptionUpdateSent()\n\t\t}\n\t\treturn\n\t}\n",
				New: ""},
			{Name: "batch gate seeds decisions despite a count mismatch", File: fieldAuthGo, Rule: "C14-R3", Key: "authorizePreFetch",
				Old: "\tif len(decisions) != len(coordinates) {\n\t\treturn fmt.Errorf(\"batch authorizer returned %d decisions for %d coordinates\", len(decisions), len(coordinates))\n\t}\n", New: "\tif len(decisions) > len(coordinates) {\n\t\treturn fmt.Errorf(\"batch authorizer returned %d decisions for %d coordinates\", len(decisions), len(coordinates))\n\t}\n"},
		},
	}
}

func runC14(r *fw.Run) {
	defer c14NoInboundSharingForAuthorizedRequests(r)
	p := r.Prog
	pk := p.Pkg("resolve")
	if pk == nil {
		r.Error("package resolve not loaded")
		return
	}
	defer c14OneDecisionObjectPerRequest(r)
	info := pk.TypesInfo

	// ---- R1 no request without the gate -------------------------------------------------------
	r.Rule("C14-R1", "DataSource.Load* only via loadByContextDirect ← loadByContext ← executeSourceLoad ← loadPhase; load dominated by !skipLoad; every prepare*Fetch exit set skipLoad or passed the gate; authorization precedes rate limiting; the cache gate refuses as specified")
	whoMayCall(r, "C14-R1", p, "resolve", []callRule{
		{callee: "DataSource.Load", allowed: []string{"Loader.loadByContextDirect"}, expect: 1},
		{callee: "DataSource.LoadWithFiles", allowed: []string{"Loader.loadByContextDirect"}, expect: 1},
		{callee: "Loader.loadByContextDirect", allowed: []string{"Loader.loadByContext"}, expect: 3},
		{callee: "Loader.loadByContext", allowed: []string{"Loader.executeSourceLoad"}, expect: 3},
		{callee: "Loader.executeSourceLoad", allowed: []string{"Loader.loadPhase"}, expect: 1},
		{callee: "Loader.loadPhase", allowed: []string{"Loader.resolveSingle"}, expect: 1},
	})
	if fi := p.Func("resolve", "Loader.loadPhase"); fi == nil {
		r.Error("C14-R1: Loader.loadPhase not found")
	} else {
		g := fw.NewGuards(info, fw.GuardSpec{Name: "!skipLoad", Match: fw.AtomField("False", "resolve", "preparedFetch", "skipLoad")})
		n := 0
		in := fw.NewInterp(fi)
		in.H = fw.Hooks{Cond: g.Cond, Node: func(nd ast.Node, st *fw.State) {
			g.Node(nd, st)
			if c, ok := nd.(*ast.CallExpr); ok && in.Final() && fw.CallIs(info, c, "resolve", "Loader.executeSourceLoad") {
				n++
				r.Check(g.Has(st, "!skipLoad"), "C14-R1", "Loader.loadPhase/load-requires-!skipLoad", p.Pos(c.Pos()), "executeSourceLoad is dominated by the false edge of prepared.skipLoad",
					"the origin request is sent on a path that did not test prepared.skipLoad: denied, rate-limited or skipped fetches reach the subgraph")
			}
		}}
		in.Run(nil)
		r.Expect("C14-R1", "executeSourceLoad in loadPhase", n, 1)
	}
	for _, spec := range []struct{ fn, gate string }{
		{"Loader.prepareSingleFetch", "Loader.validatePreFetch"},
		{"Loader.prepareEntityFetch", "Loader.validatePreFetch"},
		{"Loader.prepareBatchEntityFetch", "Loader.validatePreFetch"},
		{"Loader.prepareMultiEntityFetch", "Loader.rateLimitFetch"},
	} {
		fi := p.Func("resolve", spec.fn)
		if fi == nil {
			r.Error("C14-R1: %s not found", spec.fn)
			continue
		}
		allowed := fw.AtomVarFromCall(fi, "True", "resolve", spec.gate, 0)
		nExit := 0
		in := fw.NewInterp(fi)
		in.H = fw.Hooks{
			Cond: func(e ast.Expr, branch bool, st *fw.State) {
				if allowed(info, fw.Atom(info, e, branch)) {
					st.Set("gate-passed-or-skipped")
				}
			},
			Node: func(nd ast.Node, st *fw.State) {
				if as, ok := nd.(*ast.AssignStmt); ok {
					for i, l := range as.Lhs {
						if fw.IsFieldSel(info, l, "resolve", "preparedFetch", "skipLoad") && i < len(as.Rhs) {
							if v, ok := fw.ConstVal(info, as.Rhs[i]); ok && v == "true" {
								st.Set("gate-passed-or-skipped")
							} else {
								st.Kill("gate-passed-or-skipped")
							}
						}
					}
				}
			},
			Exit: func(ret *ast.ReturnStmt, lit *ast.FuncLit, st *fw.State) {
				if lit != nil || !in.Final() {
					return
				}
				if ret != nil && len(ret.Results) == 1 {
					if _, isNil := info.Types[ret.Results[0]]; isNil && !info.Types[ret.Results[0]].IsNil() {
						return // error exit: resolveSingle aborts before the load phase
					}
				}
				nExit++
				pos := fi.Decl.End()
				if ret != nil {
					pos = ret.Pos()
				}
				r.Check(st.Must("gate-passed-or-skipped"), "C14-R1", fi.Name()+"/exit-gated", p.Pos(pos), "normal exit of "+fi.Name()+" either set skipLoad or passed the allowed edge of "+spec.gate,
					"a nil-error exit is reachable with skipLoad unset and without the allowed edge of the pre-fetch gate: the load phase sends the request although authorization / rate limiting were not consulted or said no")
			},
		}
		in.Run(nil)
		r.Expect("C14-R1", "normal exits of "+spec.fn, nExit, 2)
	}
	// multi entity: an entry is included only after authorizeEntry allowed it
	if fi := p.Func("resolve", "Loader.prepareMultiEntityFetch"); fi != nil {
		allowed := fw.AtomVarFromCall(fi, "True", "resolve", "Loader.authorizeEntry", 0)
		g := fw.NewGuards(info, fw.GuardSpec{Name: "entry-authorized", Match: allowed})
		n := 0
		in := fw.NewInterp(fi)
		in.H = fw.Hooks{Cond: g.Cond, Node: func(nd ast.Node, st *fw.State) {
			if rs, ok := nd.(*ast.RangeStmt); ok {
				_ = rs
				st.Kill("g:entry-authorized")
			}
			g.Node(nd, st)
			if c, ok := nd.(*ast.CallExpr); ok && in.Final() && fw.CallIs(info, c, "resolve", "Loader.renderEntryRepresentations") {
				n++
				r.Check(g.Has(st, "entry-authorized"), "C14-R1", fi.Name()+"/entry-render-requires-authorization", p.Pos(c.Pos()), "an entry's representations are rendered only after authorizeEntry allowed it",
					"representations of a denied entry are rendered into the merged request")
			}
		}}
		in.Run(nil)
		r.Expect("C14-R1", "renderEntryRepresentations calls", n, 1)
	}
	if fi := p.Func("resolve", "Loader.authorizeEntry"); fi != nil {
		ok := false
		fw.WalkAll(fi.Decl.Body, func(n ast.Node) bool {
			if ret, isRet := n.(*ast.ReturnStmt); isRet && len(ret.Results) == 1 {
				if c, isC := ast.Unparen(ret.Results[0]).(*ast.CallExpr); isC && fw.CallIs(info, c, "resolve", "Loader.isFetchAuthorized") {
					ok = true
				}
			}
			return true
		})
		r.Check(ok, "C14-R1", "Loader.authorizeEntry/delegates", fi.Pos(), "authorizeEntry returns isFetchAuthorized(...)", "authorizeEntry no longer delegates to isFetchAuthorized")
	}
	if fi := p.Func("resolve", "Loader.validatePreFetch"); fi == nil {
		r.Error("C14-R1: Loader.validatePreFetch not found")
	} else {
		g := fw.NewGuards(info,
			fw.GuardSpec{Name: "authorized", Match: fw.AtomVarFromCall(fi, "True", "resolve", "Loader.isFetchAuthorized", 0)},
			fw.GuardSpec{Name: "no-error", Match: fw.AtomVarFromCall(fi, "Nil", "resolve", "Loader.isFetchAuthorized", 1)})
		n := 0
		in := fw.NewInterp(fi)
		in.H = fw.Hooks{Cond: g.Cond, Node: func(nd ast.Node, st *fw.State) {
			g.Node(nd, st)
			if c, ok := nd.(*ast.CallExpr); ok && in.Final() && fw.CallIs(info, c, "resolve", "Loader.rateLimitFetch") {
				n++
				miss := g.Missing(st, "authorized", "no-error")
				r.Check(len(miss) == 0, "C14-R1", "Loader.validatePreFetch/authorize-before-ratelimit", p.Pos(c.Pos()), "rateLimitFetch runs only after isFetchAuthorized allowed the fetch",
					"rate limiting is consulted although "+strings.Join(miss, ", ")+" does not hold: a denied fetch consumes rate-limit budget, and an allowed-by-limiter verdict can override a denial")
			}
		}}
		in.Run(nil)
		r.Expect("C14-R1", "rateLimitFetch in validatePreFetch", n, 1)
		// and the result of rateLimitFetch is what is returned on that path
	}
	if fi := p.Func("resolve", "Loader.isFetchAuthorizedFromCache"); fi == nil {
		r.Error("C14-R1: Loader.isFetchAuthorizedFromCache not found")
	} else {
		isOpType := func(e ast.Expr) bool {
			id, ok := ast.Unparen(e).(*ast.Ident)
			return ok && info.Uses[id] == fi.Obj.Type().(*types.Signature).Params().At(1)
		}
		isQueryConst := func(e ast.Expr) bool {
			c := fw.ConstObj(info, e)
			return c != nil && c.Name() == "OperationTypeQuery"
		}
		g := fw.NewGuards(info,
			fw.GuardSpec{Name: "denied", Match: fw.AtomVarFromCall(fi, "True", "resolve", "FieldAuthorization.denyReason", 1)},
			fw.GuardSpec{Name: "non-query", Match: func(_ *types.Info, a fw.CondAtom) bool {
				return a.Kind == "Ne" && ((isOpType(a.X) && isQueryConst(a.Y)) || (isOpType(a.Y) && isQueryConst(a.X)))
			}},
			fw.GuardSpec{Name: "query", Match: func(_ *types.Info, a fw.CondAtom) bool {
				return a.Kind == "Eq" && ((isOpType(a.X) && isQueryConst(a.Y)) || (isOpType(a.Y) && isQueryConst(a.X)))
			}},
			fw.GuardSpec{Name: "all-denied", Match: func(_ *types.Info, a fw.CondAtom) bool {
				return a.Kind == "Eq" && (mentionsField(info, a.Y, "resolve", "FetchInfo", "RootFields") || mentionsField(info, a.X, "resolve", "FetchInfo", "RootFields"))
			}},
			fw.GuardSpec{Name: "protected", Match: func(_ *types.Info, a fw.CondAtom) bool {
				return a.Kind == "True" && mentionsField(info, a.X, "resolve", "GraphCoordinate", "HasAuthorizationRule")
			}},
		)
		nonQueryRefuse, queryRefuse, nFalse := 0, 0, 0
		in := fw.NewInterp(fi)
		in.H = fw.Hooks{Cond: g.Cond, Node: func(nd ast.Node, st *fw.State) {
			g.Node(nd, st)
			for _, t := range fw.WriteTargets(info, nd) {
				if fw.IsFieldSel(info, t, "resolve", "result", "fetchSkipped") {
					st.Set("marked-skipped")
				}
			}
		},
			Exit: func(ret *ast.ReturnStmt, lit *ast.FuncLit, st *fw.State) {
				if ret == nil || !in.Final() || len(ret.Results) != 1 {
					return
				}
				if v, ok := fw.ConstVal(info, ret.Results[0]); !ok || v != "false" {
					return
				}
				nFalse++
				r.Check(st.Must("marked-skipped"), "C14-R1", fi.Name()+"/refusal-marks-skipped", p.Pos(ret.Pos()), "a refusal marks the result fetchSkipped",
					"the gate refuses without marking res.fetchSkipped: the merge phase reports an empty-response subgraph error instead of the field-level denial")
				if g.Has(st, "denied") && g.Has(st, "non-query") {
					nonQueryRefuse++
				}
				if g.Has(st, "query") && g.Has(st, "all-denied") {
					queryRefuse++
				}
			}}
		in.Run(nil)
		r.Check(nonQueryRefuse >= 1, "C14-R1", fi.Name()+"/non-query-any-denied-refused", fi.Pos(), "a non-query fetch with a denied protected root field is refused (return false under denied ∧ operationType != Query)",
			"no refusing exit is guarded by (denied ∧ operationType != Query): a mutation or subscription with a denied root field is sent to the subgraph")
		r.Check(queryRefuse >= 1, "C14-R1", fi.Name()+"/query-all-denied-refused", fi.Pos(), "a query fetch whose root fields are all denied is refused (return false under Query ∧ denied == len(RootFields))",
			"no refusing exit is guarded by (operationType == Query ∧ deniedRootFields == len(RootFields)): a fetch serving only denied fields is still sent")
		r.Expect("C14-R1", "refusing exits of isFetchAuthorizedFromCache", nFalse, 2)
	}
	// legacy per-fetch authorizer: a reject marks the result and is never overridden
	if fi := p.Func("resolve", "Loader.isFetchAuthorized"); fi == nil {
		r.Error("C14-R1: Loader.isFetchAuthorized not found")
	} else {
		g := fw.NewGuards(info, fw.GuardSpec{Name: "rejected", Match: fw.AtomVarFromCall(fi, "NonNil", "resolve", "Authorizer.AuthorizePreFetch", 0)})
		nRej := 0
		in := fw.NewInterp(fi)
		var authorizedObj types.Object = namedResult(fi, 0)
		in.H = fw.Hooks{Cond: g.Cond, Node: func(nd ast.Node, st *fw.State) {
			g.Node(nd, st)
			as, ok := nd.(*ast.AssignStmt)
			if !ok || !in.Final() {
				return
			}
			for i, l := range as.Lhs {
				if i >= len(as.Rhs) {
					break
				}
				v, isConst := fw.ConstVal(info, as.Rhs[i])
				if fw.IsFieldSel(info, l, "resolve", "result", "authorizationRejected") && isConst && v == "true" {
					nRej++
					r.Check(g.Has(st, "rejected"), "C14-R1", fi.Name()+"/mark-rejected-only-on-reject", p.Pos(as.Pos()), "authorizationRejected is set only when AuthorizePreFetch returned a rejection", "authorizationRejected set on a path where the authorizer did not reject")
				}
				if authorizedObj != nil && fw.RootObj(info, l) == authorizedObj && isConst && v == "true" && g.Has(st, "rejected") {
					r.Fail("C14-R1", fi.Name()+"/reject-overridden", p.Pos(as.Pos()), "authorized reset to true after a rejection", "a later root field re-authorizes a fetch that an earlier root field's rejection refused")
				}
			}
		}}
		in.Run(nil)
		r.Expect("C14-R1", "authorizationRejected=true sites", nRej, 1)
		// presence: on reject, authorized=false
		found := false
		in2 := fw.NewInterp(fi)
		g2 := fw.NewGuards(info, fw.GuardSpec{Name: "rejected", Match: fw.AtomVarFromCall(fi, "NonNil", "resolve", "Authorizer.AuthorizePreFetch", 0)})
		in2.H = fw.Hooks{Cond: g2.Cond, Node: func(nd ast.Node, st *fw.State) {
			if as, ok := nd.(*ast.AssignStmt); ok {
				for i, l := range as.Lhs {
					if i < len(as.Rhs) && authorizedObj != nil && fw.RootObj(info, l) == authorizedObj {
						if v, ok := fw.ConstVal(info, as.Rhs[i]); ok && v == "false" && g2.Has(st, "rejected") {
							found = true
						}
					}
				}
			}
		}}
		in2.Run(nil)
		r.Check(found, "C14-R1", fi.Name()+"/reject-refuses", fi.Pos(), "a rejection by AuthorizePreFetch sets authorized=false", "a rejected mutation/subscription fetch is still reported as authorized and sent")
	}

	// ---- R2 authorise before walking -----------------------------------------------------------
	r.Rule("C14-R2", "in walkFields each field value is walked only after authorizeField allowed it (pre-walk) — render mode relies on the pre-walk having nulled denied fields; authorizeField allows without a decision only on its documented edges and denies only after recording an error")
	if fi := p.Func("resolve", "Resolvable.walkFields"); fi == nil {
		r.Error("C14-R2: Resolvable.walkFields not found")
	} else {
		isRender := fw.AtomCall("True", "resolve", "Resolvable.render")
		notSkip := fw.AtomVarFromCall(fi, "False", "resolve", "Resolvable.authorizeField", 0)
		n := 0
		in := fw.NewInterp(fi)
		in.H = fw.Hooks{
			Cond: func(e ast.Expr, branch bool, st *fw.State) {
				a := fw.Atom(info, e, branch)
				if isRender(info, a) || notSkip(info, a) {
					st.Set("authorized-or-render")
				}
			},
			Node: func(nd ast.Node, st *fw.State) {
				if _, ok := nd.(*ast.RangeStmt); ok {
					st.Kill("authorized-or-render")
				}
				if c, ok := nd.(*ast.CallExpr); ok && in.Final() && fw.CallIs(info, c, "resolve", "Resolvable.walkNode") {
					n++
					r.Check(st.Must("authorized-or-render"), "C14-R2", "Resolvable.walkFields/walk-after-authorize", p.Pos(c.Pos()), "walkNode(field value) is reached, in the pre-walk, only through the allow edge of authorizeField",
						"a path reaches the field's value walk in the validation pass without authorizeField having returned 'allow' for this field: the value of a denied field stays in the tree and is rendered")
				}
			},
		}
		in.Run(nil)
		r.Expect("C14-R2", "walkNode calls in walkFields", n, 1)
	}
	if fi := p.Func("resolve", "Resolvable.authorizeField"); fi == nil {
		r.Error("C14-R2: Resolvable.authorizeField not found")
	} else {
		g := fw.NewGuards(info,
			fw.GuardSpec{Name: "no-info", Match: fw.AtomField("Nil", "resolve", "Field", "Info")},
			fw.GuardSpec{Name: "unprotected", Match: fw.AtomField("False", "resolve", "FieldInfo", "HasAuthorizationRule")},
			// "no authorizer" is the conjunction of two atoms; they are matched one by one so that the rule
			// does not depend on how the conjunction is spelled (a && b, !(!a || !b), nested ifs)
			fw.GuardSpec{Name: "authorizer-nil", Match: fw.AtomField("Nil", "resolve", "Context", "authorizer")},
			fw.GuardSpec{Name: "prefetch-off", Match: fw.AtomCall("False", "resolve", "FieldAuthorization.preFetchEnabled")},
			fw.GuardSpec{Name: "no-source", Match: func(_ *types.Info, a fw.CondAtom) bool {
				return a.Kind == "Empty" && mentionsField(info, a.X, "resolve", "TypeFieldSource", "IDs")
			}},
			fw.GuardSpec{Name: "decided-allow", Match: fw.AtomVarFromCall(fi, "Nil", "resolve", "FieldAuthorization.decide", 0)},
			fw.GuardSpec{Name: "decide-ok", Match: fw.AtomVarFromCall(fi, "Nil", "resolve", "FieldAuthorization.decide", 1)},
		)
		nAllow, nDeny := 0, 0
		in := fw.NewInterp(fi)
		in.H = fw.Hooks{Cond: g.Cond, Node: func(nd ast.Node, st *fw.State) {
			g.Node(nd, st)
			if c, ok := nd.(*ast.CallExpr); ok && fw.CallIs(info, c, "resolve", "Resolvable.addRejectFieldError") {
				st.Set("error-recorded")
			}
			for _, t := range fw.WriteTargets(info, nd) {
				if fw.IsFieldSel(info, t, "resolve", "Resolvable", "authorizationError") {
					st.Set("error-recorded")
				}
			}
		},
			Exit: func(ret *ast.ReturnStmt, lit *ast.FuncLit, st *fw.State) {
				if ret == nil || !in.Final() || len(ret.Results) != 1 {
					return
				}
				v, ok := fw.ConstVal(info, ret.Results[0])
				if !ok {
					r.Fail("C14-R2", "Resolvable.authorizeField/non-constant-return", p.Pos(ret.Pos()), "return of authorizeField", "non-constant result: the rule cannot classify the exit")
					return
				}
				if v == "false" {
					nAllow++
					okEdge := g.Has(st, "no-info") || g.Has(st, "unprotected") || (g.Has(st, "authorizer-nil") && g.Has(st, "prefetch-off")) || g.Has(st, "no-source") || (g.Has(st, "decided-allow") && g.Has(st, "decide-ok"))
					r.Check(okEdge, "C14-R2", "Resolvable.authorizeField/allow-edge", p.Pos(ret.Pos()), "authorizeField returns 'allow' only when the field is unprotected / no authorizer exists / no source id, or decide() returned no denial and no error",
						"an allow exit is reachable that is neither one of the four documented no-decision edges nor the (result==nil ∧ err==nil) edge of decide(): a protected field is rendered without an allow decision")
				} else {
					nDeny++
					r.Check(st.Must("error-recorded"), "C14-R2", "Resolvable.authorizeField/deny-records-error", p.Pos(ret.Pos()), "authorizeField returns 'skip' only after recording the denial (addRejectFieldError) or the authorizer error",
						"the field is nulled without any error entry: the client sees null at a denied position with no UNAUTHORIZED error")
				}
			}}
		in.Run(nil)
		r.Expect("C14-R2", "allow exits of authorizeField", nAllow, 5)
		r.Expect("C14-R2", "deny exits of authorizeField", nDeny, 2)
	}

	// ---- R3 decisions exist for everything the renderer can ask about ---------------------------
	r.Rule("C14-R3", "every resolver entry point runs authorizePreFetch (error edge not taken) before the loader; subscriptions are authorized before addSubscription; the batch gate seeds only when #decisions == #coordinates; the collector descends into Object fields and Array items like the renderer")
	nLoad := 0
	for _, fi := range p.Funcs("resolve") {
		if fi.Decl.Recv == nil || !strings.HasPrefix(fi.Name(), "Resolver.") {
			continue
		}
		has := false
		fw.WalkAll(fi.Decl.Body, func(n ast.Node) bool {
			if c, ok := n.(*ast.CallExpr); ok && (fw.CallIs(info, c, "resolve", "Loader.LoadGraphQLResponseData") || fw.CallIs(info, c, "resolve", "Loader.ResolveFetchNode")) {
				has = true
			}
			return true
		})
		if !has {
			continue
		}
		in := fw.NewInterp(fi)
		var errObj types.Object
		in.H = fw.Hooks{
			Lit: func(l *ast.FuncLit, ctx fw.LitCtx, st *fw.State) fw.LitMode { return fw.LitSkip },
			Node: func(nd ast.Node, st *fw.State) {
				if as, ok := nd.(*ast.AssignStmt); ok && len(as.Rhs) == 1 {
					if c, ok := ast.Unparen(as.Rhs[0]).(*ast.CallExpr); ok && fw.CallIs(info, c, "resolve", "FieldAuthorization.authorizePreFetch") {
						errObj = fw.RootObj(info, as.Lhs[0])
						st.Set("gate-called")
						st.Kill("gate-ok")
						return
					}
				}
				c, ok := nd.(*ast.CallExpr)
				if !ok || !in.Final() {
					return
				}
				if fw.CallIs(info, c, "resolve", "Loader.LoadGraphQLResponseData") || fw.CallIs(info, c, "resolve", "Loader.ResolveFetchNode") {
					// defer-group loaders are created without FieldAuthorization on purpose (see Loader.authorization doc)
					if recvIsDeferGroupLoader(fi, c) {
						r.Pass("C14-R3", fi.Name()+"/defer-group-loader", p.Pos(c.Pos()), "defer-group loader in "+fi.Name()+" (exempt: documented — denied fields of deferred groups are nulled during response resolution; the batch gate ran for the primary response)", false)
						return
					}
					nLoad++
					r.Check(st.Must("gate-ok"), "C14-R3", fi.Name()+"/gate-before-load", p.Pos(c.Pos()), "the loader starts in "+fi.Name()+" only after authorizePreFetch returned nil",
						"fetches can execute before (or without) the batch authorization of the operation's protected coordinates: the per-fetch cache gate finds no decisions and lets every fetch through")
				}
			},
			Cond: func(e ast.Expr, branch bool, st *fw.State) {
				if x, eq, ok := fw.NilCheck(info, e); ok && errObj != nil && fw.RootObj(info, x) == errObj && st.Must("gate-called") && eq == branch {
					st.Set("gate-ok")
				}
			},
		}
		in.Run(nil)
	}
	r.Expect("C14-R3", "loader starts in resolver entry points", nLoad, 4)
	nAdd := 0
	for _, name := range []string{"Resolver.ResolveGraphQLSubscription", "Resolver.AsyncResolveGraphQLSubscription"} {
		fi := p.Func("resolve", name)
		if fi == nil {
			r.Error("C14-R3: %s not found", name)
			continue
		}
		g := fw.NewGuards(info,
			fw.GuardSpec{Name: "not-denied", Match: fw.AtomVarFromCall(fi, "False", "resolve", "Resolver.authorizeSubscriptionPreFetch", 1)},
			fw.GuardSpec{Name: "no-error", Match: fw.AtomVarFromCall(fi, "Nil", "resolve", "Resolver.authorizeSubscriptionPreFetch", 2)})
		in := fw.NewInterp(fi)
		in.H = fw.Hooks{Cond: g.Cond, Node: func(nd ast.Node, st *fw.State) {
			if c, ok := nd.(*ast.CallExpr); ok && in.Final() && fw.CallIs(info, c, "resolve", "Resolver.addSubscription") {
				nAdd++
				miss := g.Missing(st, "not-denied", "no-error")
				r.Check(len(miss) == 0, "C14-R3", name+"/authorize-before-register", p.Pos(c.Pos()), "addSubscription in "+name+" is dominated by authorizeSubscriptionPreFetch not denying",
					"a subscription is registered (and its upstream trigger started) on a path where "+strings.Join(miss, ", ")+" was not established")
			}
		}}
		in.Run(nil)
	}
	r.Expect("C14-R3", "addSubscription calls", nAdd, 2)
	if fi := p.Func("resolve", "FieldAuthorization.authorizePreFetch"); fi == nil {
		r.Error("C14-R3: authorizePreFetch not found")
	} else {
		g := fw.NewGuards(info,
			fw.GuardSpec{Name: "authorizer-ok", Match: fw.AtomVarFromCall(fi, "Nil", "resolve", "BatchAuthorizer.AuthorizeFields", 1)},
			fw.GuardSpec{Name: "counts-equal", Match: func(_ *types.Info, a fw.CondAtom) bool {
				if a.Kind != "Eq" {
					return false
				}
				isLen := func(e ast.Expr) bool {
					c, ok := ast.Unparen(e).(*ast.CallExpr)
					return ok && fw.Builtin(info, c) == "len"
				}
				return isLen(a.X) && isLen(a.Y)
			}})
		n := 0
		in := fw.NewInterp(fi)
		in.H = fw.Hooks{Cond: g.Cond, Node: func(nd ast.Node, st *fw.State) {
			g.Node(nd, st)
			if c, ok := nd.(*ast.CallExpr); ok && in.Final() && (fw.CallIs(info, c, "resolve", "FieldAuthorization.seedAllow") || fw.CallIs(info, c, "resolve", "FieldAuthorization.seedDeny")) {
				n++
				miss := g.Missing(st, "authorizer-ok", "counts-equal")
				r.Check(len(miss) == 0, "C14-R3", "FieldAuthorization.authorizePreFetch/fail-closed:"+fw.Callee(info, c).Name(), p.Pos(c.Pos()), "decisions are seeded only when the authorizer succeeded and returned one decision per coordinate",
					"decisions are seeded although "+strings.Join(miss, ", ")+" was not established: a short decision list indexes out of range or mis-assigns decisions to coordinates")
			}
		}}
		in.Run(nil)
		r.Expect("C14-R3", "seed calls", n, 2)
		// the seeding loop covers every (data source, coordinate) pair the plan recorded
		fw.EachCall([]*fw.FuncInfo{fi}, func(_ *fw.FuncInfo, c *ast.CallExpr, stack []ast.Node) {
			if !fw.CallIs(info, c, "resolve", "FieldAuthorization.seedAllow") && !fw.CallIs(info, c, "resolve", "FieldAuthorization.seedDeny") {
				return
			}
			var loop *ast.RangeStmt
			for i := len(stack) - 1; i >= 0; i-- {
				if rs, ok := stack[i].(*ast.RangeStmt); ok {
					loop = rs
					break
				}
			}
			all := loop != nil && (fw.IsFieldSel(info, loop.X, "resolve", "GraphQLResponseInfo", "AuthorizationCoordinates") || identFromField(fi, loop.X, "resolve", "GraphQLResponseInfo", "AuthorizationCoordinates"))
			r.Check(all, "C14-R3", "FieldAuthorization.authorizePreFetch/seeds-every-pair:"+fw.Callee(info, c).Name(), p.Pos(c.Pos()), "decisions are seeded in a loop over all of response.Info.AuthorizationCoordinates (one entry per data source × coordinate)",
				"the seeding loop does not range over the full AuthorizationCoordinates list (e.g. over a de-duplicated subset): a coordinate served by a second data source has no seeded decision and a coordinate without a decision is treated as authorized")
		})
		// the seeded decision for an allowed coordinate is seedAllow, for a denied one seedDeny
		polarity(r, fi)
	}
	collectorAgreement(r)
	protectedBitProvenance(r)
}

// polarity: seedAllow is on the true edge of decision.Allowed, seedDeny on the false edge.
func polarity(r *fw.Run, fi *fw.FuncInfo) {
	p := r.Prog
	info := fi.Info()
	allowed := func(_ *types.Info, a fw.CondAtom) bool {
		v, _ := fw.Field(info, a.X)
		return a.Kind == "True" && v != nil && v.Name() == "Allowed"
	}
	notAllowed := func(_ *types.Info, a fw.CondAtom) bool {
		v, _ := fw.Field(info, a.X)
		return a.Kind == "False" && v != nil && v.Name() == "Allowed"
	}
	g := fw.NewGuards(info, fw.GuardSpec{Name: "allowed", Match: allowed}, fw.GuardSpec{Name: "not-allowed", Match: notAllowed})
	in := fw.NewInterp(fi)
	in.H = fw.Hooks{Cond: g.Cond, Node: func(nd ast.Node, st *fw.State) {
		c, ok := nd.(*ast.CallExpr)
		if !ok || !in.Final() {
			return
		}
		if fw.CallIs(info, c, "resolve", "FieldAuthorization.seedAllow") {
			r.Check(g.Has(st, "allowed"), "C14-R3", "FieldAuthorization.authorizePreFetch/polarity:seedAllow", p.Pos(c.Pos()), "seedAllow on the Allowed edge", "an allow decision is seeded on a path where decision.Allowed was not true")
		}
		if fw.CallIs(info, c, "resolve", "FieldAuthorization.seedDeny") {
			r.Check(g.Has(st, "not-allowed"), "C14-R3", "FieldAuthorization.authorizePreFetch/polarity:seedDeny", p.Pos(c.Pos()), "seedDeny on the !Allowed edge", "a deny decision is seeded on a path where decision.Allowed was not false")
		}
	}}
	in.Run(nil)
}

func mentionsCall(info *types.Info, e ast.Expr, pkg, name string) bool {
	found := false
	fw.WalkAll(e, func(n ast.Node) bool {
		if c, ok := n.(*ast.CallExpr); ok && fw.CallIs(info, c, pkg, name) {
			found = true
		}
		return !found
	})
	return found
}

// recvIsDeferGroupLoader: the loader on which the call is made was created by NewLoader with a
// nil authorization argument in the same function.
func recvIsDeferGroupLoader(fi *fw.FuncInfo, call *ast.CallExpr) bool {
	info := fi.Info()
	sel, ok := ast.Unparen(call.Fun).(*ast.SelectorExpr)
	if !ok {
		return false
	}
	obj := fw.RootObj(info, sel.X)
	res := false
	ast.Inspect(fi.Decl.Body, func(n ast.Node) bool {
		as, ok := n.(*ast.AssignStmt)
		if !ok || len(as.Rhs) != 1 {
			return true
		}
		c, ok := ast.Unparen(as.Rhs[0]).(*ast.CallExpr)
		if !ok || !fw.CallIs(info, c, "resolve", "NewLoader") || fw.RootObj(info, as.Lhs[0]) != obj {
			return true
		}
		last := c.Args[len(c.Args)-1]
		if tv, ok := info.Types[last]; ok && tv.IsNil() {
			res = true
		}
		return true
	})
	return res
}

type callRule struct {
	callee  string
	allowed []string
	expect  int
}

// whoMayCall: every call of callee in pkg is inside one of the allowed functions.
func whoMayCall(r *fw.Run, rule string, p *fw.Prog, pkg string, rules []callRule) {
	counts := make([]int, len(rules))
	info := p.Pkg(pkg).TypesInfo
	fw.EachCall(p.Funcs(pkg), func(fi *fw.FuncInfo, c *ast.CallExpr, stack []ast.Node) {
		for i, cr := range rules {
			if !fw.CallIs(info, c, pkg, cr.callee) {
				continue
			}
			counts[i]++
			ok := false
			for _, a := range cr.allowed {
				if fi.Name() == a {
					ok = true
				}
			}
			r.Check(ok, rule, fi.Name()+"/who-may-call:"+cr.callee, p.Pos(c.Pos()), "call of "+cr.callee+" in "+fi.Name(),
				cr.callee+" may only be called from "+strings.Join(cr.allowed, ", ")+": this call bypasses the chain of gates (skipLoad, authorization, rate limit, single flight) that every origin request passes")
		}
	})
	for i, cr := range rules {
		r.Expect(rule, "calls of "+cr.callee, counts[i], cr.expect)
	}
	// method values would escape the call-site rule: none of the chain functions may be used as a value
	fw.EachNode(p.Funcs(pkg), func(fi *fw.FuncInfo, n ast.Node, stack []ast.Node) {
		sel, ok := n.(*ast.SelectorExpr)
		if !ok || len(stack) < 2 {
			return
		}
		if c, isCall := stack[len(stack)-2].(*ast.CallExpr); isCall && ast.Unparen(c.Fun) == ast.Expr(sel) {
			return
		}
		fn, ok := info.Uses[sel.Sel].(*types.Func)
		if !ok {
			return
		}
		for _, cr := range rules {
			if fw.FuncIs(fn.Origin(), pkg, cr.callee) {
				r.Fail(rule, fi.Name()+"/method-value:"+cr.callee, p.Pos(sel.Pos()), cr.callee+" used as a value in "+fi.Name(), "a gate-chain function escapes as a method value: its callers can no longer be enumerated")
			}
		}
	})
}

// collectorAgreement: postprocess.collectAuthorizationCoordinates.collectNode descends into the
// composite node kinds the renderer descends into (Object → fields, Array → item).
func collectorAgreement(r *fw.Run) {
	p := r.Prog
	pp := p.Pkg("postprocess")
	if pp == nil {
		r.Error("C14-R3: package postprocess not loaded")
		return
	}
	var fi *fw.FuncInfo
	for _, f := range p.Funcs("postprocess") {
		if strings.HasSuffix(f.Name(), ".collectNode") {
			fi = f
		}
	}
	if fi == nil {
		r.Error("C14-R3: postprocess collectNode not found")
		return
	}
	info := fi.Info()
	cases := map[string]bool{}
	fw.WalkAll(fi.Decl.Body, func(n ast.Node) bool {
		ts, ok := n.(*ast.TypeSwitchStmt)
		if !ok {
			return true
		}
		for _, cl := range ts.Body.List {
			for _, e := range cl.(*ast.CaseClause).List {
				cases[fw.RecvName(info.TypeOf(e))] = true
			}
		}
		return true
	})
	for _, kind := range []string{"Object", "Array"} {
		r.Check(cases[kind], "C14-R3", fi.Name()+"/descends:"+kind, fi.Pos(), "collectNode descends into *resolve."+kind+" like the renderer",
			"the coordinate collector does not descend into "+kind+" nodes: protected fields below it get no up-front decision, and a coordinate without a seeded decision is treated as authorized")
	}
	// the descent is unconditional, as in the renderer (walkArray walks Item whatever its kind, walkFields every field value)
	fw.WalkAll(fi.Decl.Body, func(n ast.Node) bool {
		ts, ok := n.(*ast.TypeSwitchStmt)
		if !ok {
			return true
		}
		for _, cl := range ts.Body.List {
			cc := cl.(*ast.CaseClause)
			if len(cc.List) != 1 {
				continue
			}
			kind := fw.RecvName(info.TypeOf(cc.List[0]))
			switch kind {
			case "Array":
				end := armEndState(fi, cc.Body, func(c *ast.CallExpr) bool {
					return fw.Callee(info, c) == fi.Obj && len(c.Args) > 0 && fw.IsFieldSel(info, c.Args[0], "resolve", "Array", "Item")
				})
				r.Check(end, "C14-R3", fi.Name()+"/array-item-unconditional", p.Pos(cc.Pos()), "the Array arm calls collectNode(n.Item) on every path that does not return on n == nil",
					"the collector descends into list items only conditionally (e.g. only for object items): protected fields below a list of lists get no up-front decision and are rendered unchecked")
			case "Object":
				var body []ast.Stmt
				fw.WalkAll(cc, func(m ast.Node) bool {
					if rs, ok := m.(*ast.RangeStmt); ok && body == nil && mentionsField(info, rs.X, "resolve", "Object", "Fields") {
						body = rs.Body.List
					}
					return true
				})
				ok := body != nil && armEndState(fi, body, func(c *ast.CallExpr) bool {
					if fw.Callee(info, c) != fi.Obj || len(c.Args) == 0 {
						return false
					}
					v, _ := fw.Field(info, c.Args[0])
					return v != nil && v.Name() == "Value"
				})
				r.Check(ok, "C14-R3", fi.Name()+"/field-value-unconditional", p.Pos(cc.Pos()), "the Object arm calls collectNode(field.Value) for every field, unconditionally",
					"the collector skips the value of some fields: protected fields nested below them get no up-front decision")
			}
		}
		return false
	})
	// the collector stage is part of processFlatFetchTree, which every plan arm runs
	var proc *fw.FuncInfo
	for _, f := range p.Funcs("postprocess") {
		if f.Name() == "FetchTreeProcessors.processFlatFetchTree" {
			proc = f
		}
	}
	if proc == nil {
		r.Error("C14-R3: FetchTreeProcessors.processFlatFetchTree not found")
		return
	}
	found := false
	fw.WalkAll(proc.Decl.Body, func(n ast.Node) bool {
		if sel, ok := n.(*ast.SelectorExpr); ok {
			if v, _ := fw.Field(proc.Info(), sel); v != nil && v.Name() == "collectAuthorizationCoordinates" {
				found = true
			}
		}
		return true
	})
	r.Check(found, "C14-R3", "Processor.processFlatFetchTree/runs-collector", proc.Pos(), "processFlatFetchTree runs the collectAuthorizationCoordinates stage", "the coordinate collection stage is not part of the flat-tree processing any more")
	n := 0
	if procFn := p.Func("postprocess", "Processor.Process"); procFn != nil {
		fw.WalkAll(procFn.Decl.Body, func(nd ast.Node) bool {
			if c, ok := nd.(*ast.CallExpr); ok && fw.CallIs(procFn.Info(), c, "postprocess", "FetchTreeProcessors.processFlatFetchTree") {
				n++
			}
			return true
		})
	}
	r.Expect("C14-R3", "processFlatFetchTree calls in Process (one per plan kind)", n, 3)
}

// armEndState: every path through the statement list that reaches its end (or continues) has
// executed a call satisfying pred; paths that `return` under an `x == nil` test are exempt.
func armEndState(fi *fw.FuncInfo, body []ast.Stmt, pred func(*ast.CallExpr) bool) bool {
	info := fi.Info()
	ok := true
	in := fw.NewInterp(fi)
	in.H = fw.Hooks{
		Node: func(n ast.Node, st *fw.State) {
			if c, isC := n.(*ast.CallExpr); isC && pred(c) {
				st.Set("descended")
			}
		},
		Cond: func(e ast.Expr, branch bool, st *fw.State) {
			if _, eq, isNil := fw.NilCheck(info, e); isNil && eq == branch {
				st.Set("nil-node")
			}
		},
		Exit: func(ret *ast.ReturnStmt, lit *ast.FuncLit, st *fw.State) {
			if ret != nil && !st.Must("nil-node") && !st.Must("descended") {
				ok = false
			}
		},
	}
	end := in.RunStmts(body, nil)
	if end != nil && !end.Must("descended") {
		ok = false
	}
	return ok
}

// protectedBitProvenance (R4): every composite literal in package plan that sets a
// HasAuthorizationRule field takes the value from the FieldConfiguration lookup.
func protectedBitProvenance(r *fw.Run) {
	p := r.Prog
	r.Rule("C14-R4", "every HasAuthorizationRule written by the planner derives from the field configuration's HasAuthorizationRule looked up for (type, field)")
	if p.Pkg("plan") == nil {
		r.Error("C14-R4: package plan not loaded")
		return
	}
	n := 0
	for _, fi := range p.Funcs("plan") {
		info := fi.Info()
		var d *fw.Deriver
		fw.WalkAll(fi.Decl.Body, func(nd ast.Node) bool {
			kv, ok := nd.(*ast.KeyValueExpr)
			if !ok {
				return true
			}
			k, ok := kv.Key.(*ast.Ident)
			if !ok || k.Name != "HasAuthorizationRule" {
				return true
			}
			if _, isField := info.Uses[k].(*types.Var); !isField {
				return true
			}
			n++
			if d == nil {
				d = fw.NewDeriver(fi)
			}
			src := func(e ast.Expr) bool {
				if v, _ := fw.Field(info, e); v != nil && v.Name() == "HasAuthorizationRule" {
					return true
				}
				if c, ok := e.(*ast.CallExpr); ok {
					if fn := fw.Callee(info, c); fn != nil && strings.Contains(strings.ToLower(fn.Name()), "authorizationrule") {
						return true
					}
				}
				return false
			}
			r.Check(d.Derives(kv.Value, src), "C14-R4", fi.Name()+"/protected-bit-source", p.Pos(kv.Pos()), "HasAuthorizationRule set in "+fi.Name()+" comes from the field configuration",
				"the protected bit is not derived from FieldConfiguration.HasAuthorizationRule: the renderer's per-field check and the loader's per-fetch gate can disagree about which coordinates are protected (a constant false disables authorization for the field)")
			return true
		})
	}
	r.Expect("C14-R4", "HasAuthorizationRule writes in plan", n, 2)

	// the lookup is made for the schema coordinate of the field: its name, never its alias (added after a seeded change
	// looked the rule up under FieldAliasOrNameString — an aliased protected mutation was then sent to the subgraph)
	m := 0
	for _, fi := range p.Funcs("plan") {
		info := fi.Info()
		var d *fw.Deriver
		fw.WalkAll(fi.Decl.Body, func(nd ast.Node) bool {
			c, ok := nd.(*ast.CallExpr)
			if !ok || len(c.Args) != 2 {
				return true
			}
			fn := fw.Callee(info, c)
			if fn == nil || fn.Pkg() == nil || fn.Pkg() != fi.Obj.Pkg() || !strings.Contains(strings.ToLower(fn.Name()), "hasauthorizationrule") {
				return true
			}
			m++
			if d == nil {
				d = fw.NewPureDeriver(fi)
			}
			viaAlias := d.Derives(c.Args[1], func(e ast.Expr) bool {
				ce, ok := e.(*ast.CallExpr)
				if !ok {
					return false
				}
				f := fw.Callee(info, ce)
				return f != nil && strings.Contains(f.Name(), "Alias")
			})
			viaName := d.Derives(c.Args[1], func(e ast.Expr) bool {
				ce, ok := e.(*ast.CallExpr)
				if !ok {
					return false
				}
				f := fw.Callee(info, ce)
				return f != nil && strings.HasPrefix(f.Name(), "FieldName")
			})
			r.Check(viaName && !viaAlias, "C14-R4", fi.Name()+"/lookup-by-field-name", p.Pos(c.Pos()), "the authorization rule is looked up under the name of the field (ast.Document.FieldName…), not under its alias",
				"the rule is looked up under a string that comes from an alias accessor (or not from the field name at all): an aliased selection of a protected field is planned as unprotected — the pre-fetch gate lets a denied mutation like `mutation { w: wipe }` reach the subgraph")
			return true
		})
	}
	r.Expect("C14-R4", "authorization rule lookups in plan", m, 2)
}

// mentionsCallNamed: e contains a resolved call of a function or method with this name.
func mentionsCallNamed(info *types.Info, e ast.Expr, name string) bool {
	found := false
	fw.WalkAll(e, func(n ast.Node) bool {
		if c, ok := n.(*ast.CallExpr); ok {
			if fn := fw.Callee(info, c); fn != nil && fn.Name() == name {
				found = true
			}
		}
		return !found
	})
	return found
}

// c14OneDecisionObjectPerRequest (R5): the pre-fetch decisions are seeded into a FieldAuthorization object by
// authorizePreFetch, consulted by the loader (gate in front of every fetch) and consulted again by the renderer
// (authorizeField). All three must be the same object, or the renderer decides from an empty cache and — in pre-fetch mode
// with no legacy authorizer — lets every denied nested field through. For each object a resolver entry point creates with
// NewFieldAuthorization, the same variable is handed to Resolvable.SetFieldAuthorization, to NewLoader and is the receiver
// of authorizePreFetch (the sibling entry points agree).
func c14OneDecisionObjectPerRequest(r *fw.Run) {
	p := r.Prog
	r.Rule("C14-R5", "every FieldAuthorization a resolver entry point creates is the one object that receives authorizePreFetch, is given to the loader (NewLoader) and is given to the renderer (Resolvable.SetFieldAuthorization)")
	n := 0
	for _, fi := range p.Funcs("resolve") {
		if fw.RecvName(recvTypeOrNil(fi.Obj)) == "Resolvable" {
			continue // the renderer's lazy fallback for callers that wire nothing
		}
		info := fi.Info()
		objs := map[types.Object]ast.Node{}
		fw.WalkAll(fi.Decl.Body, func(nd ast.Node) bool {
			as, ok := nd.(*ast.AssignStmt)
			if !ok || len(as.Lhs) != 1 || len(as.Rhs) != 1 {
				return true
			}
			c, isCall := ast.Unparen(as.Rhs[0]).(*ast.CallExpr)
			if !isCall || !fw.CallIs(info, c, "resolve", "NewFieldAuthorization") {
				return true
			}
			if id, isID := as.Lhs[0].(*ast.Ident); isID {
				o := info.Defs[id]
				if o == nil {
					o = info.Uses[id]
				}
				if o != nil {
					objs[o] = as
				}
			}
			return true
		})
		for o, at := range objs {
			uses := map[string]bool{}
			isO := func(e ast.Expr) bool {
				id, ok := ast.Unparen(e).(*ast.Ident)
				return ok && info.Uses[id] == o
			}
			fw.WalkAll(fi.Decl.Body, func(nd ast.Node) bool {
				c, ok := nd.(*ast.CallExpr)
				if !ok {
					return true
				}
				switch {
				case fw.CallIs(info, c, "resolve", "Resolvable.SetFieldAuthorization"):
					if len(c.Args) == 1 && isO(c.Args[0]) {
						uses["renderer"] = true
					}
				case fw.CallIs(info, c, "resolve", "NewLoader"):
					for _, a := range c.Args {
						if isO(a) {
							uses["loader"] = true
						}
					}
				case fw.CallIs(info, c, "resolve", "FieldAuthorization.authorizePreFetch"):
					if sel, isSel := ast.Unparen(c.Fun).(*ast.SelectorExpr); isSel && isO(sel.X) {
						uses["seeded"] = true
					}
				}
				return true
			})
			for _, role := range []string{"seeded", "loader", "renderer"} {
				n++
				r.Check(uses[role], "C14-R5", fi.Name()+"/one-decision-object:"+role, p.Pos(at.Pos()), "the FieldAuthorization created in "+fi.Name()+" is "+map[string]string{"seeded": "the receiver of authorizePreFetch", "loader": "handed to NewLoader", "renderer": "handed to Resolvable.SetFieldAuthorization"}[role],
					"the decisions of this request live in an object that the "+role+" side never sees: the renderer (or the loader's gate) decides from an empty decision cache — in pre-fetch mode every denied nested field of this entry point is rendered with no error, while its sibling entry points null it")
			}
		}
	}
	r.Expect("C14-R5", "roles of per-request FieldAuthorization objects", n, 12)
}

// c14NoInboundSharingForAuthorizedRequests (R6): a follower of the inbound single flight receives the leader's rendered
// bytes verbatim — it runs neither the pre-fetch authorization nor the renderer that nulls denied fields. Which fields a
// request may see is decided by the authorizers on its own context, and the sharing key (request id, variables hash,
// headers hash) does not identify them. A request that carries an authorizer is therefore not eligible: in the function
// that stores / finds the shared record (LoadOrStore on the shard map), the sharing point is reached only where every
// field of resolve.Context whose type is one of the package's authorizer interfaces is known to be nil. The fields are
// found by type, so an authorizer added later is covered.
func c14NoInboundSharingForAuthorizedRequests(r *fw.Run) {
	p := r.Prog
	r.Rule("C14-R6", "the inbound single flight shares a record only for requests whose context carries no authorizer: the sharing point is dominated by a nil test of every resolve.Context field of an authorizer interface type")
	ctxT := p.Named("resolve", "Context")
	if ctxT == nil {
		r.Error("C14-R6: resolve.Context not found")
		return
	}
	var authFields []string
	st := ctxT.Underlying().(*types.Struct)
	for i := 0; i < st.NumFields(); i++ {
		f := st.Field(i)
		if n, ok := f.Type().(*types.Named); ok && n.Obj().Pkg() == ctxT.Obj().Pkg() && strings.HasSuffix(n.Obj().Name(), "Authorizer") {
			if _, isIface := n.Underlying().(*types.Interface); isIface {
				authFields = append(authFields, f.Name())
			}
		}
	}
	n := 0
	for _, fi := range p.Funcs("resolve") {
		if !strings.HasPrefix(fi.Name(), "InboundRequestSingleFlight.") {
			continue
		}
		info := fi.Info()
		var share *ast.CallExpr
		fw.WalkAll(fi.Decl.Body, func(nd ast.Node) bool {
			if c, ok := nd.(*ast.CallExpr); ok {
				if fn := fw.Callee(info, c); fn != nil && fn.Name() == "LoadOrStore" {
					share = c
				}
			}
			return true
		})
		if share == nil {
			continue
		}
		in := fw.NewInterp(fi)
		in.H = fw.Hooks{
			Lit: func(l *ast.FuncLit, ctx fw.LitCtx, st *fw.State) fw.LitMode { return fw.LitSkip },
			Cond: func(e ast.Expr, branch bool, st *fw.State) {
				op, leaves := fw.NNF(info, e, branch)
				if op != "atom" && op != "and" {
					return
				}
				for _, a := range leaves {
					if a.Kind != "Nil" {
						continue
					}
					for _, f := range authFields {
						if fw.IsFieldSel(info, a.X, "resolve", "Context", f) {
							st.Set("nil:" + f)
						}
					}
				}
			},
			Node: func(nd ast.Node, st *fw.State) {
				if c, ok := nd.(*ast.CallExpr); ok && c == share && in.Final() {
					for _, f := range authFields {
						n++
						r.Check(st.Must("nil:"+f), "C14-R6", fi.Name()+"/no-sharing-with-authorizer:"+f, p.Pos(c.Pos()), "the shared record in "+fi.Name()+" is stored / found only where Context."+f+" is nil",
							"the inbound single flight shares a record although the request may carry Context."+f+": a follower receives the leader's rendered bytes verbatim and runs no authorization of its own, so a request whose decision function denies a field is answered with the value the leader was allowed to see")
					}
				}
			},
		}
		in.Run(nil)
	}
	r.Expect("C14-R6", "authorizer fields × sharing points of the inbound single flight", n, 2)
}
