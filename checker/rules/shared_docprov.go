package rules

import (
	"go/ast"
	"go/token"
	"go/types"
	"sort"

	"verif/checker/fw"
)

// Document provenance.
//
// A visitor works on two *ast.Document values at once: the operation being walked and the schema
// definition. An ast.Node (kind + index) and every ref is meaningful only in the document it came
// from; looking a definition node up in the operation document indexes a slice of the wrong document
// (a panic when it is shorter, the wrong name when it is not). Nothing in the types distinguishes the
// two, and only an input that reaches the call shows it.
//
// The rule classifies
//   - documents: a struct field assigned in an EnterDocument(operation, definition) callback from
//     parameter 0 is "operation", from parameter 1 "definition" (resolved through the signature, not
//     the field name); locals/parameters inherit from what they are assigned / called with;
//   - nodes: Walker.EnclosingTypeDefinition and Walker.TypeDefinitions[i] are definition nodes,
//     Walker.Ancestors[i] / Walker.Ancestor() are nodes of the walked (operation) document, the ast.Node
//     result of a Document/Index method belongs to the receiver's document; locals and parameters of
//     type ast.Node inherit when all their assignments / all call sites agree;
//
// and requires at every call that hands an ast.Node to a method of a Document (or a Document to a
// method of an ast.Node) that both sides are of the same document. A side that cannot be classified
// gives no verdict (counted as unclassified in the evidence).
type docProv int

const (
	provUnknown docProv = iota
	provOperation
	provDefinition
	provConflict
)

func (p docProv) String() string {
	return [...]string{"unknown", "operation", "definition", "conflicting"}[p]
}

func joinProv(a, b docProv) docProv {
	switch {
	case a == provUnknown:
		return b
	case b == provUnknown || a == b:
		return a
	}
	return provConflict
}

func documentProvenance(r *fw.Run, rule string, pkgs []string, minClassified int) {
	p := r.Prog
	isDocPtr := func(t types.Type) bool {
		pt, ok := t.(*types.Pointer)
		return ok && fw.TypeIs(pt.Elem(), "ast", "Document")
	}
	isDoc := func(t types.Type) bool { return isDocPtr(t) || fw.TypeIs(t, "ast", "Document") }
	isNode := func(t types.Type) bool { return fw.TypeIs(t, "ast", "Node") }

	var funcs []*fw.FuncInfo
	for _, pk := range pkgs {
		funcs = append(funcs, p.Funcs(pk)...)
	}
	// ---- documents: fields written by EnterDocument callbacks ------------------------------------
	fieldProv := map[types.Object]docProv{}
	varProv := map[types.Object]docProv{} // locals and parameters (documents and nodes)
	for _, fi := range funcs {
		if fi.Obj.Name() != "EnterDocument" {
			continue
		}
		sig := fi.Obj.Type().(*types.Signature)
		if sig.Recv() == nil || sig.Params().Len() != 2 || !isDocPtr(sig.Params().At(0).Type()) || !isDocPtr(sig.Params().At(1).Type()) {
			continue
		}
		varProv[sig.Params().At(0)] = provOperation
		varProv[sig.Params().At(1)] = provDefinition
		info := fi.Info()
		fw.WalkAll(fi.Decl.Body, func(n ast.Node) bool {
			as, ok := n.(*ast.AssignStmt)
			if !ok || len(as.Lhs) != len(as.Rhs) {
				return true
			}
			for i, l := range as.Lhs {
				fv, _ := fw.Field(info, l)
				id, isID := ast.Unparen(as.Rhs[i]).(*ast.Ident)
				if fv == nil || !isID {
					continue
				}
				if pv := varProv[info.Uses[id]]; pv != provUnknown && isDocPtr(fv.Type()) {
					fieldProv[fv] = joinProv(fieldProv[fv], pv)
				}
			}
			return true
		})
	}
	// ---- expressions ------------------------------------------------------------------------------
	var provOf func(info *types.Info, e ast.Expr) docProv
	provOf = func(info *types.Info, e ast.Expr) docProv {
		e = ast.Unparen(e)
		switch x := e.(type) {
		case *ast.Ident:
			if o := info.Uses[x]; o != nil {
				return varProv[o]
			}
		case *ast.StarExpr:
			return provOf(info, x.X)
		case *ast.UnaryExpr:
			if x.Op == token.AND {
				return provOf(info, x.X)
			}
		case *ast.SelectorExpr:
			if fv, _ := fw.Field(info, x); fv != nil {
				if pv, ok := fieldProv[fv]; ok {
					return pv
				}
				if _, tn := fw.FieldOwner(info, x); tn == "Walker" && fv.Name() == "EnclosingTypeDefinition" {
					return provDefinition
				}
				// a field of a document (d.Index, d.RootNodes …) belongs to that document
				if tv, ok := info.Types[x.X]; ok && isDoc(tv.Type) {
					return provOf(info, x.X)
				}
				if tv, ok := info.Types[x.X]; ok && fw.TypeIs(derefT(tv.Type), "ast", "Index") {
					return provOf(info, x.X)
				}
			}
		case *ast.IndexExpr:
			if fv, sel := fw.Field(info, x.X); fv != nil {
				if _, tn := fw.FieldOwner(info, sel); tn == "Walker" {
					switch fv.Name() {
					case "TypeDefinitions":
						return provDefinition
					case "Ancestors":
						return provOperation
					}
				}
				// d.RootNodes[i]
				if tv, ok := info.Types[sel.X]; ok && isDoc(tv.Type) && isNode(info.TypeOf(x)) {
					return provOf(info, sel.X)
				}
			}
		case *ast.CallExpr:
			fn := fw.Callee(info, x)
			if fn == nil {
				return provUnknown
			}
			sig := fn.Type().(*types.Signature)
			if sig.Recv() == nil || sig.Results().Len() == 0 || !isNode(sig.Results().At(0).Type()) {
				return provUnknown
			}
			sel, ok := ast.Unparen(x.Fun).(*ast.SelectorExpr)
			if !ok {
				return provUnknown
			}
			switch {
			case isDoc(sig.Recv().Type()), fw.TypeIs(derefT(sig.Recv().Type()), "ast", "Index"):
				return provOf(info, sel.X)
			case fw.TypeIs(derefT(sig.Recv().Type()), "astvisitor", "Walker") && fn.Name() == "Ancestor":
				return provOperation
			}
		}
		return provUnknown
	}
	// ---- locals and parameters: all assignments / all call sites agree --------------------------
	interesting := func(t types.Type) bool { return isDocPtr(t) || isNode(t) }
	for round := 0; round < 6; round++ {
		next := map[types.Object]docProv{}
		seen := map[types.Object]bool{}
		note := func(o types.Object, pv docProv) {
			if o == nil || !interesting(o.Type()) {
				return
			}
			if pv == provUnknown {
				pv = provConflict // one unclassified source makes the variable unclassified
			}
			if !seen[o] {
				seen[o], next[o] = true, pv
				return
			}
			if next[o] != pv {
				next[o] = provConflict
			}
		}
		for _, fi := range funcs {
			info := fi.Info()
			fw.WalkAll(fi.Decl, func(n ast.Node) bool {
				switch x := n.(type) {
				case *ast.AssignStmt:
					if len(x.Lhs) == len(x.Rhs) {
						for i, l := range x.Lhs {
							if id, ok := l.(*ast.Ident); ok {
								o := info.Defs[id]
								if o == nil {
									o = info.Uses[id]
								}
								note(o, provOf(info, x.Rhs[i]))
							}
						}
					} else if len(x.Rhs) == 1 { // n, ok := call()
						for i, l := range x.Lhs {
							if id, ok := l.(*ast.Ident); ok && id.Name != "_" {
								o := info.Defs[id]
								if o == nil {
									o = info.Uses[id]
								}
								pv := provUnknown
								if i == 0 {
									pv = provOf(info, x.Rhs[0])
								}
								note(o, pv)
							}
						}
					}
				case *ast.ValueSpec:
					for i, id := range x.Names {
						if i < len(x.Values) {
							note(info.Defs[id], provOf(info, x.Values[i]))
						} else if len(x.Values) == 0 {
							note(info.Defs[id], provUnknown)
						}
					}
				case *ast.RangeStmt:
					for _, l := range []ast.Expr{x.Key, x.Value} {
						if id, ok := l.(*ast.Ident); ok && id.Name != "_" {
							o := info.Defs[id]
							if o == nil {
								o = info.Uses[id]
							}
							note(o, provUnknown)
						}
					}
				case *ast.CallExpr:
					fn := fw.Callee(info, x)
					if fn == nil || p.FuncOf(fn) == nil {
						return true
					}
					sig := fn.Type().(*types.Signature)
					for i, a := range x.Args {
						if i < sig.Params().Len() && !(sig.Variadic() && i >= sig.Params().Len()-1) {
							note(sig.Params().At(i), provOf(info, a))
						}
					}
				}
				return true
			})
		}
		changed := false
		for o, pv := range next {
			if pv == provConflict {
				pv = provUnknown
			}
			// EnterDocument parameters keep their role; exported API parameters have callers we do not see
			if f := varProv[o]; f != provUnknown && pv == provUnknown {
				continue
			}
			if varProv[o] != pv {
				varProv[o], changed = pv, true
			}
		}
		if !changed {
			break
		}
	}
	// a parameter of an exported function or method can also be called from outside the analysed packages:
	// its provenance is not known from the call sites we see — except the EnterDocument roles fixed above
	for _, fi := range funcs {
		sig := fi.Obj.Type().(*types.Signature)
		if !fi.Obj.Exported() || fi.Obj.Name() == "EnterDocument" {
			continue
		}
		if sig.Recv() != nil {
			if n, ok := derefT(sig.Recv().Type()).(*types.Named); ok && !n.Obj().Exported() {
				continue // method of an unexported type: all callers are in the package (or go through an interface we wire ourselves)
			}
		}
		for i := 0; i < sig.Params().Len(); i++ {
			delete(varProv, sig.Params().At(i))
		}
	}
	// ---- sinks ------------------------------------------------------------------------------------
	type sink struct {
		fi       *fw.FuncInfo
		call     *ast.CallExpr
		doc, nod ast.Expr
		callee   string
	}
	var sinks []sink
	for _, fi := range funcs {
		info := fi.Info()
		fw.WalkAll(fi.Decl.Body, func(n ast.Node) bool {
			c, ok := n.(*ast.CallExpr)
			if !ok {
				return true
			}
			fn := fw.Callee(info, c)
			if fn == nil {
				return true
			}
			sig := fn.Type().(*types.Signature)
			sel, isSel := ast.Unparen(c.Fun).(*ast.SelectorExpr)
			if sig.Recv() == nil || !isSel {
				return true
			}
			switch {
			case isDoc(sig.Recv().Type()):
				for i, a := range c.Args {
					if i < sig.Params().Len() && isNode(sig.Params().At(i).Type()) {
						sinks = append(sinks, sink{fi, c, sel.X, a, "Document." + fn.Name()})
					}
				}
			case isNode(sig.Recv().Type()):
				for i, a := range c.Args {
					if i < sig.Params().Len() && isDocPtr(sig.Params().At(i).Type()) {
						sinks = append(sinks, sink{fi, c, a, sel.X, "Node." + fn.Name()})
					}
				}
			}
			return true
		})
	}
	sort.SliceStable(sinks, func(i, j int) bool { return sinks[i].call.Pos() < sinks[j].call.Pos() })
	ord := map[string]int{}
	classified, unclassified := 0, 0
	for _, s := range sinks {
		info := s.fi.Info()
		dp, np := provOf(info, s.doc), provOf(info, s.nod)
		if dp == provUnknown || np == provUnknown || dp == provConflict || np == provConflict {
			unclassified++
			continue
		}
		classified++
		base := s.fi.Name() + "/" + s.callee
		ord[base]++
		key := base
		if ord[base] > 1 {
			key += "#" + itoa(ord[base])
		}
		r.Check(dp == np, rule, key, p.Pos(s.call.Pos()), "in "+s.fi.Name()+" the node handed to "+s.callee+" and the document it is looked up in are the same document",
			"a node of the "+np.String()+" document is looked up in the "+dp.String()+" document: the index addresses a slice of the wrong document — an index-out-of-range panic when that slice is shorter (a 20-byte query can crash the goroutine), a wrong name otherwise")
	}
	r.Note("%s: %d node/document call sites classified on both sides, %d with an unclassified side (no verdict)", rule, classified, unclassified)
	r.Expect(rule, "node/document call sites classified on both sides", classified, minClassified)
}

func derefT(t types.Type) types.Type {
	if pt, ok := t.(*types.Pointer); ok {
		return pt.Elem()
	}
	return t
}
