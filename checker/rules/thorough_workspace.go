package rules

import (
	"go/ast"
	"sort"
	"strings"

	"verif/checker/fw"
)

// The thorough tier of some properties adds WORKSPACE-WIDE ownership rules: the quick tier looks at the packages a property
// names; a change can also break the property from outside — a new fast path in another package that calls a gated
// function directly. These rules load every package of both modules (v2/pkg/..., execution/...) and decide who-may-call
// over all of them.

// wsCallRule: the functions / interface methods named by Callees ("alias:Recv.Name") are called only from functions whose
// qualified name ("alias:Recv.Name", prefix match on the package alias alone when it ends in ":") is listed in Allowed.
type wsCallRule struct {
	Rule     string
	What     string
	Callees  []string
	Allowed  []string
	Why      string
	Expected int // call sites on the pinned tree
}

var workspace *fw.Prog

func loadWorkspace(r *fw.Run) *fw.Prog {
	if workspace != nil {
		return workspace
	}
	prog, err := fw.Load(fw.LoadOpts{Patterns: map[string][]string{"v2": {"./pkg/..."}, "execution": {"./..."}}}, false)
	if err != nil {
		r.Error("workspace load: %v", err)
		return nil
	}
	workspace = prog
	return prog
}

func workspaceWhoMayCall(r *fw.Run, rules []wsCallRule) {
	p := loadWorkspace(r)
	if p == nil {
		return
	}
	r.Extra["workspace_packages"] = len(p.Pkgs)
	r.Extra["workspace_functions"] = p.NFuncs
	for _, wr := range rules {
		r.Rule(wr.Rule, wr.What+" — over every package of both modules ("+itoa(len(p.Pkgs))+" packages)")
		n := 0
		var paths []string
		for path := range p.Pkgs {
			paths = append(paths, path)
		}
		sort.Strings(paths)
		for _, path := range paths {
			pk := p.Pkgs[path]
			for _, fi := range p.FuncsOfPath(path) {
				info := pk.TypesInfo
				caller := fw.AliasOrPath(path) + ":" + fi.Name()
				fw.WalkAll(fi.Decl.Body, func(nd ast.Node) bool {
					c, ok := nd.(*ast.CallExpr)
					if !ok {
						return true
					}
					fn := fw.Callee(info, c)
					if fn == nil {
						return true
					}
					hit := ""
					for _, ref := range wr.Callees {
						i := strings.IndexByte(ref, ':')
						if fw.FuncIs(fn, ref[:i], ref[i+1:]) {
							hit = ref
						}
					}
					if hit == "" {
						return true
					}
					n++
					allowed := false
					for _, a := range wr.Allowed {
						if a == caller || (strings.HasSuffix(a, ":") && strings.HasPrefix(caller, a)) {
							allowed = true
						}
					}
					r.Check(allowed, wr.Rule, caller+"/calls:"+hit[strings.IndexByte(hit, ':')+1:], p.Pos(c.Pos()), hit+" is called from "+caller, wr.Why)
					return true
				})
			}
		}
		r.Expect(wr.Rule, "call sites in the workspace", n, wr.Expected)
	}
}
