package rules

import (
	"go/ast"
	"go/token"
	"go/types"
	"sort"
	"strings"

	"verif/checker/fw"
)

const (
	opValidationGo = "v2/pkg/astvalidation/operation_validation.go"
	execEngineGo   = "execution/engine/execution_engine.go"
	gqlValidateGo  = "execution/graphql/validation.go"
)

func init() {
	Registry["C04"] = Spec{
		Pkgs: map[string][]string{"v2": {"astvalidation", "astvisitor", "ast", "astnorm"}, "execution": {"engine", "graphql"}},
		Run:  runC04,
		Explanation: "Decides the structural half of 'the admission sequence accepts exactly the spec-valid operations': every operation rule the package offers is registered in DefaultOperationValidator (or is one of four frozen, reasoned exceptions); every callback a validation visitor implements is registered with the walker (no dead rule code) and per-walk state of reusable rule visitors is reset when a document is entered; " +
			"ExecutionEngine.Execute reaches planning only through the success edges of normalization (when needed), then of ValidateForSchema (err == nil ∧ Valid), and reaches the resolver only when planning reported no error; ValidateForSchema validates with DefaultOperationValidator and the validator reports Invalid whenever the report has errors. " +
			"It does not decide accept ⇔ spec-valid for all documents (that is the rules' own logic).",
		Mutants: []Mutant{
			{Name: "a lookup by name returns whatever node was registered first, directive definitions included (reverts part of the F103 fix)", File: "v2/pkg/ast/index.go", Rule: "C04-R19", Key: "Index.FirstNodeByNameBytes/lookup-knows-directive-definitions",
				Old: "\thash := xxhash.Sum64(name)\n\tnode, exists := i.nodes[hash]\n\tif !exists || len(node) == 0 {\n\t\treturn InvalidNode, false\n\t}\n\treturn firstNonDirectiveDefinition(node), true\n", New: "\thash := xxhash.Sum64(name)\n\tnode, exists := i.nodes[hash]\n\tif !exists || len(node) == 0 {\n\t\treturn InvalidNode, false\n\t}\n\treturn node[0], true\n"},
			{Name: "the directives-defined rule looks the directive up with the type lookup (reverts part of the F103 fix)", File: "v2/pkg/astvalidation/operation_rule_directives_defined.go", Rule: "C04-R19", Key: "directivesAreDefinedVisitor.EnterDirective/directive-looked-up-among-directives",
				Old: "d.definition.Index.FirstDirectiveDefinitionByNameBytes(directiveName)", New: "d.definition.Index.FirstNodeByNameBytes(directiveName)"},
			{Name: "the items of a list literal are validated against the item type with its non-null stripped (reverts part of the F90 fix)", File: "v2/pkg/astvalidation/operation_rule_values.go", Rule: "C04-R18", Key: "valuesVisitor.valueSatisfiesListType/items-held-to-the-declared-item-type",
				Old: "\t// the items are held to the item type as it is declared: null, or a nullable variable,\n\t// is not an item of an [item!] list ([], the empty list, is)\n", New: "\tif v.definition.Types[listItemType].TypeKind == ast.TypeKindNonNull {\n\t\tlistItemType = v.definition.Types[listItemType].OfType\n\t}\n"},
			{Name: "a variable at an enum location is accepted without a look at its type (reverts part of the F90 fix)", File: "v2/pkg/astvalidation/operation_rule_values.go", Rule: "C04-R18", Key: "valuesVisitor.valueSatisfiesEnum/variable-arm-walks-the-type",
				Old: "\tif value.Kind == ast.ValueKindVariable {\n\t\treturn v.variableValueSatisfiesDefinitionType(value, definitionTypeRef)\n\t}\n\n\tif value.Kind == ast.ValueKindString && v.allowStringLiteralsForEnums {", New: "\tif value.Kind == ast.ValueKindVariable {\n\t\treturn true\n\t}\n\n\tif value.Kind == ast.ValueKindString && v.allowStringLiteralsForEnums {"},
			{Name: "a leaf field is no longer compared with recorded enum / composite fields (reverts part of the F89 fix)", File: "v2/pkg/astvalidation/operation_rule_field_selection_merging.go", Rule: "C04-R17", Key: "fieldSelectionMergingVisitor.EnterField/scalar-arm-consults:nonScalarRequirements",
				Old: "\tif nonScalars := f.NonScalarRequirementsByPathField(path, objectName); len(nonScalars) != 0 {\n\t\tf.stopWithTypesMismatch(objectName, f.nonScalarRequirements[nonScalars[0]].fieldTypeRef, fieldType)\n\t\treturn\n\t}\n", New: ""},
			{Name: "types that cannot be the same object are not compared at all (reverts part of the F89 fix)", File: "v2/pkg/astvalidation/operation_rule_field_selection_merging.go", Rule: "C04-R17", Key: "fieldSelectionMergingVisitor.EnterField/types-compared-in-both-arms",
				Old: "\t\t\t\tif !f.typesHaveSameShape(f.nonScalarRequirements[i].fieldTypeRef, fieldType, isLeaf, ignoreNullability) {\n\t\t\t\t\tf.stopWithTypesMismatch(objectName, f.nonScalarRequirements[i].fieldTypeRef, fieldType)\n\t\t\t\t\treturn\n\t\t\t\t}\n", New: "\t\t\t\t_, _ = isLeaf, ignoreNullability\n"},
			{Name: "the Int range check looks at the digits only (reverts the F88 fix)", File: "v2/pkg/ast/ast_val_int_value.go", Rule: "C04-R16", Key: "Document.IntValueValidInt32/IntValue-digits-read-with-the-sign",
				Old: "\tif d.IntValues[ref].Negative {\n\t\t// Raw holds the digits without the sign", New: "\tif false {\n\t\t// Raw holds the digits without the sign"},
			{Name: "composite fields with the same response name are not compared by name and arguments (reverts part of the F86 fix)", File: "v2/pkg/astvalidation/operation_rule_field_selection_merging.go", Rule: "C04-R15", Key: "fieldSelectionMergingVisitor.EnterField/composite-arm-reads-arguments",
				Old: "\t\t\t\tif !bytes.Equal(f.operation.FieldNameBytes(left), fieldName) ||\n\t\t\t\t\t!f.operation.ArgumentSetsAreEquals(f.operation.FieldArguments(left), f.operation.FieldArguments(ref)) {\n", New: "\t\t\t\tif !bytes.Equal(f.operation.FieldNameBytes(left), fieldName) {\n"},
			{Name: "the normalizer merges fields without looking at their arguments (reverts part of the F86 fix)", File: "v2/pkg/astnormalization/inline_fragment_selection_merging.go", Rule: "C04-R15", Key: "inlineFragmentSelectionMergeVisitor.fieldsCanMerge/merge-decision-reads-arguments",
				Old: "\tif !f.operation.ArgumentSetsAreEquals(f.operation.FieldArguments(left), f.operation.FieldArguments(right)) {\n\t\treturn false\n\t}\n", New: ""},
			{Name: "variables inside object literals are not looked for (reverts part of the F71 fix)", File: "v2/pkg/astvalidation/operation_rule_all_variable_uses_defined.go", Rule: "C04-R14", Key: "AllVariableUsesDefined/container-kinds-descended",
				Old: "\tcase ast.ValueKindObject:\n\t\tfor _, ref := range a.operation.ObjectValues[value.Ref].Refs {\n\t\t\tif !a.checkValue(argument, a.operation.ObjectFieldValue(ref)) {\n\t\t\t\treturn false\n\t\t\t}\n\t\t}\n", New: ""},
			{Name: "required arguments are enforced on fields only (reverts the F70 fix)", File: "v2/pkg/astvalidation/operation_rule_required_arguments.go", Rule: "C04-R13", Key: "RequiredArguments/covers:Directive",
				Old: "func (r *requiredArgumentsVisitor) EnterDirective(ref int) {", New: "func (r *requiredArgumentsVisitor) enterDirective(ref int) {",
				Also: [][2]string{{"\t\twalker.RegisterEnterDirectiveVisitor(&visitor)\n", ""}}},
			{Name: "the subscription root rule does not look into inline fragments (reverts part of the F69 fix)", File: "v2/pkg/astvalidation/operation_rule_subscription_single_root_field.go", Rule: "C04-R12", Key: "subscription-root-fields/every-selection-kind",
				Old: "\t\tcase ast.SelectionKindInlineFragment:\n\t\t\tif !operation.InlineFragments[selection.Ref].HasSelections {\n\t\t\t\tcontinue\n\t\t\t}\n\t\t\tnestedFields, nestedIntrospection := s.rootFields(operation, operation.InlineFragments[selection.Ref].SelectionSet, depth+1)\n\t\t\tfields += nestedFields\n\t\t\tintrospection = introspection || nestedIntrospection\n", New: ""},
			{Name: "a lone introspection field is accepted as subscription root (reverts part of the F69 fix)", File: "v2/pkg/astvalidation/operation_rule_subscription_single_root_field.go", Rule: "C04-R12", Key: "subscription-root-fields/introspection-tested",
				Old: "\t\t\tif bytes.HasPrefix(operation.FieldNameBytes(selection.Ref), []byte(\"__\")) {\n", New: "\t\t\tif bytes.HasPrefix(operation.FieldNameBytes(selection.Ref), []byte(\"\\x00__\")) {\n"},
			{Name: "arguments are compared position by position (reverts part of the F59 fix)", File: "v2/pkg/ast/ast_argument.go", Rule: "C04-R11", Key: "Document.ArgumentSetsAreEquals/unordered-elements-paired-by-name",
				Old: "\tfor _, leftArgument := range left {\n\t\trightArgument, ok := d.argumentByName(right, d.ArgumentNameBytes(leftArgument))\n\t\tif !ok || ", New: "\tfor i, leftArgument := range left {\n\t\trightArgument, ok := right[i], true\n\t\tif !d.ArgumentsAreEqual(leftArgument, rightArgument) || !ok || "},
			{Name: "input object fields are compared position by position (reverts part of the F59 fix)", File: "v2/pkg/ast/ast_object_field.go", Rule: "C04-R11", Key: "Document.ObjectValuesAreEqual/unordered-elements-paired-by-name",
				Old: "\tfor _, leftField := range leftFields {\n\t\trightField, ok := d.objectFieldByName(rightFields, d.ObjectFieldNameBytes(leftField))\n\t\tif !ok || ", New: "\tfor i, leftField := range leftFields {\n\t\trightField, ok := rightFields[i], true\n\t\tif !d.ObjectFieldsAreEqual(leftField, rightField) || !ok || "},
			{Name: "a default value also relaxes non-null below list wrappers (seeded changes C04-1, C04-11)", File: "v2/pkg/astvalidation/operation_rule_valid_arguments.go", Rule: "C04-R9", Key: "valuesVisitor.operationTypeSatisfiesDefinitionType/default-relaxes-only-the-outermost-level",
				Old: "\t\topKind = v.operation.Types[operationTypeRef].TypeKind\n\t\tdefKind = v.definition.Types[definitionTypeRef].TypeKind\n", New: "\t\topKind = v.operation.Types[operationTypeRef].TypeKind\n\t\tdefKind = v.definition.Types[definitionTypeRef].TypeKind\n\t\tif opKind != ast.TypeKindNonNull && defKind == ast.TypeKindNonNull && hasDefaultValue {\n\t\t\tdefinitionTypeRef = v.definition.Types[definitionTypeRef].OfType\n\t\t\tcontinue\n\t\t}\n"},
			{Name: "directive sets are compared as sets, not multisets (seeded change C04-12)", File: "v2/pkg/ast/ast_directive.go", Rule: "C04-R10", Key: "Document.DirectiveSetsAreEqual/counted-matching-is-one-to-one",
				Old: "\t\t\tif matched[j] {\n\t\t\t\tcontinue\n\t\t\t}\n", New: ""},
			{Name: "Walker no longer visits the directives of a schema definition (never validated)", File: "v2/pkg/astvisitor/visitor.go", Rule: "C04-R5", Key: "walker-siblings/walkSchemaDefinition",
				Old: "\tif w.document.SchemaDefinitions[ref].HasDirectives {\n\t\tfor _, i := range w.document.SchemaDefinitions[ref].Directives.Refs {\n\t\t\tw.walkDirective(i, skipFor)", New: "\tif false {\n\t\tfor _, i := range []int{} {\n\t\t\tw.walkDirective(i, skipFor)"},
			{Name: "validation memo ignores the validator options (seeded change C04-13)", File: gqlValidateGo, Rule: "C04-R4", Key: "memo-only-without-options",
				Old: "\tif useCache {\n\t\tr.validForSchema[schemaHash] = result\n\t}\n", New: "\tr.validForSchema[schemaHash] = result\n"},
			{Name: "KnownArguments rule dropped from the default validator", File: opValidationGo, Rule: "C04-R1", Key: "KnownArguments",
				Old: "\tvalidator.RegisterRule(KnownArguments())\n", New: ""},
			{Name: "new operation rule offered but not registered", File: "v2/pkg/astvalidation/operation_rule_variable_uniqueness.go", Rule: "C04-R1", Key: "VariableUniquenessStrict",
				Old: "func VariableUniqueness() Rule {", New: "func VariableUniquenessStrict() Rule { return VariableUniqueness() }\n\nfunc VariableUniqueness() Rule {"},
			{Name: "argument callback of AllVariablesUsed no longer registered", File: "v2/pkg/astvalidation/operation_rule_all_variables_used.go", Rule: "C04-R2", Key: "wiring/allVariablesUsedVisitor.EnterArgument",
				Old: "\t\twalker.RegisterEnterArgumentVisitor(&visitor)\n", New: ""},
			{Name: "pending-variables list of AllVariablesUsed no longer reset per document", File: "v2/pkg/astvalidation/operation_rule_all_variables_used.go", Rule: "C04-R2", Key: "state-reset/allVariablesUsedVisitor.variableDefinitions",
				Old: "\ta.variableDefinitions = a.variableDefinitions[:0]\n}", New: "}"},
			{Name: "pending-variables list reset moved to the Leave callback (skipped by a stopped walk; seeded change C04-2)", File: "v2/pkg/astvalidation/operation_rule_all_variables_used.go", Rule: "C04-R2", Key: "state-reset/allVariablesUsedVisitor.variableDefinitions",
				Old: "\ta.variableDefinitions = a.variableDefinitions[:0]\n}", New: "}\n\nfunc (a *allVariablesUsedVisitor) LeaveDocument(operation, definition *ast.Document) {\n\ta.variableDefinitions = a.variableDefinitions[:0]\n}"},
			{Name: "plan cache consulted before validation", File: execEngineGo, Rule: "C04-R3", Key: "getCachedPlan",
				Old: "\tif result, err := operation.ValidateForSchema(e.config.schema, e.validationOptions...); err != nil {\n\t\treturn err\n\t} else if !result.Valid {\n\t\treturn result.Errors\n\t}\n",
				New: "\tif result, err := operation.ValidateForSchema(e.config.schema, e.validationOptions...); err != nil {\n\t\treturn err\n\t} else if !result.Valid && len(options) == 0 {\n\t\treturn result.Errors\n\t}\n"},
			{Name: "normalization failure ignored", File: execEngineGo, Rule: "C04-R3", Key: "normalized",
				Old: "\t\tif err != nil {\n\t\t\treturn err\n\t\t} else if !result.Successful {\n\t\t\treturn result.Errors\n\t\t}\n\t\tnormalize = true\n", New: "\t\tif err != nil {\n\t\t\treturn err\n\t\t}\n\t\t_ = result\n\t\tnormalize = true\n"},
			{Name: "planning errors ignored before resolving", File: execEngineGo, Rule: "C04-R3", Key: "planned",
				Old: "\tcachedPlan, costCalculator := e.getCachedPlan(execContext, operation.Document(), e.config.schema.Document(), operation.OperationName, &report)\n\tif report.HasErrors() {\n\t\treturn report\n\t}\n",
				New: "\tcachedPlan, costCalculator := e.getCachedPlan(execContext, operation.Document(), e.config.schema.Document(), operation.OperationName, &report)\n"},
			{Name: "validator reports Valid although the report has errors", File: opValidationGo, Rule: "C04-R4", Key: "Validate",
				Old: "\tif report.HasErrors() {\n\t\treturn Invalid\n\t}\n\treturn Valid\n}", New: "\tif report.HasErrors() && len(report.InternalErrors) > 0 {\n\t\treturn Invalid\n\t}\n\treturn Valid\n}"},
			{Name: "definition node looked up in the operation document (reverts the F27 fix)", File: "v2/pkg/astvalidation/operation_rule_validate_field_selections.go", Rule: "C04-R6", Key: "fieldDefined.EnterField/Document.NodeNameBytes",
				Old: "typeName := f.definition.NodeNameBytes(f.EnclosingTypeDefinition)", New: "typeName := f.operation.NodeNameBytes(f.EnclosingTypeDefinition)"},
			{Name: "union name resolved in the operation document", File: "v2/pkg/astvalidation/operation_rule_validate_field_selections.go", Rule: "C04-R6", Key: "fieldDefined.ValidateUnionField/Document.NodeNameBytes",
				Old: "unionName := f.definition.NodeNameBytes(enclosingTypeDefinition)", New: "unionName := f.operation.NodeNameBytes(enclosingTypeDefinition)"},
			{Name: "Int values compare equal regardless of their sign (seeded change C04-21)", File: "v2/pkg/ast/ast_val_int_value.go", Rule: "C04-R7", Key: "copy-equal/IntValue.Negative",
				Old: "\treturn d.IntValueIsNegative(left) == d.IntValueIsNegative(right) &&\n\t\tbytes.Equal(d.IntValueRaw(left), d.IntValueRaw(right))", New: "\treturn bytes.Equal(d.IntValueRaw(left), d.IntValueRaw(right))"},
			{Name: "ValidateForSchema built from a hand-picked rule list", File: gqlValidateGo, Rule: "C04-R4", Key: "ValidateForSchema",
				Old: "\tvalidator := astvalidation.DefaultOperationValidator(options...)\n", New: "\tvalidator := astvalidation.NewOperationValidator([]astvalidation.Rule{astvalidation.FieldSelections(), astvalidation.Values()})\n\t_ = options\n"},
		},
	}
}

func runC04(r *fw.Run) {
	defer c04DefaultRelaxationOnlyOutermost(r)
	defer c04CountedMatchingIsOneToOne(r)
	defer c04UnorderedElementsPairedByName(r)
	defer c04SubscriptionRootFieldsSeenThroughFragments(r)
	defer c04RequiredArgumentsCoverEveryArgumentBearer(r)
	defer c04VariableUsesFoundAtEveryDepth(r)
	defer c04MergeDecisionsReadTheArguments(r)
	defer c04NumberLiteralsAreReadWithTheirSign(r)
	defer c04ResponseShapeTablesMeet(r)
	defer c04VariablesAndItemsMeetTheDeclaredType(r)
	defer c04NameLookupsRespectTheTwoNamespaces(r)
	p := r.Prog
	pk := p.Pkg("astvalidation")
	if pk == nil {
		r.Error("package astvalidation not loaded")
		return
	}
	info := pk.TypesInfo

	// ---- R1 rule registry ------------------------------------------------------------------------
	r.Rule("C04-R1", "every operation rule constructor of package astvalidation (a function returning Rule that the definition validator does not use) is registered in DefaultOperationValidator, or is a frozen exception")
	ruleT := p.Named("astvalidation", "Rule")
	if ruleT == nil {
		r.Error("C04-R1: type astvalidation.Rule not found")
		return
	}
	exceptions := map[string]string{
		"DeferStreamOnValidOperations":  "defer/stream pre-validation rule: registered by the engine through astnormalization.WithPrevalidationRules (checked below)",
		"DeferStreamHaveUniqueLabels":   "defer/stream pre-validation rule: registered by the engine through astnormalization.WithPrevalidationRules (checked below)",
		"StreamAppliedToListFieldsOnly": "defer/stream pre-validation rule: registered by the engine through astnormalization.WithPrevalidationRules (checked below)",
		"ValidateEmptySelectionSets":    "only meaningful for planner-generated upstream operations (used by graphql_datasource), client operations cannot have empty selection sets after parsing",
	}
	registeredIn := func(fn string) map[string]bool {
		out := map[string]bool{}
		fi := p.Func("astvalidation", fn)
		if fi == nil {
			r.Error("C04-R1: %s not found", fn)
			return out
		}
		fw.WalkAll(fi.Decl.Body, func(n ast.Node) bool {
			c, ok := n.(*ast.CallExpr)
			if !ok {
				return true
			}
			if callee := fw.Callee(info, c); callee != nil && callee.Pkg() == pk.Types {
				if sig := callee.Type().(*types.Signature); sig.Results().Len() == 1 && types.Identical(sig.Results().At(0).Type(), ruleT) {
					out[callee.Name()] = true
				}
			}
			return true
		})
		return out
	}
	opRules := registeredIn("DefaultOperationValidator")
	defRules := registeredIn("DefaultDefinitionValidator")
	r.Expect("C04-R1", "rules registered in DefaultOperationValidator", len(opRules), 18)
	nCtor := 0
	for _, fi := range p.Funcs("astvalidation") {
		if fi.Decl.Recv != nil || !fi.Obj.Exported() {
			continue
		}
		sig := fi.Obj.Type().(*types.Signature)
		if sig.Results().Len() != 1 || !types.Identical(sig.Results().At(0).Type(), ruleT) {
			continue
		}
		name := fi.Obj.Name()
		if defRules[name] && !opRules[name] {
			continue // a definition (schema) rule
		}
		nCtor++
		if why, ok := exceptions[name]; ok {
			r.Pass("C04-R1", "registry/"+name, fi.Pos(), "operation rule "+name+" (exempt: "+why+")", false)
			continue
		}
		r.Check(opRules[name], "C04-R1", "registry/"+name, fi.Pos(), "operation rule "+name+" is registered in DefaultOperationValidator",
			"the rule constructor exists but DefaultOperationValidator does not register it: operations violating this spec rule are accepted (per-rule unit tests build their own validator and keep passing)")
	}
	r.Expect("C04-R1", "operation rule constructors", nCtor, 22)
	// the engine registers the three pre-validation rules
	if eng := p.Func("engine", "ExecutionEngine.Execute"); eng == nil {
		r.Error("C04-R1: ExecutionEngine.Execute not found")
	} else {
		einfo := eng.Info()
		got := map[string]bool{}
		fw.WalkAll(eng.Decl.Body, func(n ast.Node) bool {
			c, ok := n.(*ast.CallExpr)
			if !ok {
				return true
			}
			if fn := fw.Callee(einfo, c); fn != nil && fn.Name() == "WithPrevalidationRules" {
				for _, a := range c.Args {
					if ac, ok := ast.Unparen(a).(*ast.CallExpr); ok {
						if af := fw.Callee(einfo, ac); af != nil {
							got[af.Name()] = true
						}
					}
				}
			}
			return true
		})
		for _, name := range []string{"DeferStreamOnValidOperations", "DeferStreamHaveUniqueLabels", "StreamAppliedToListFieldsOnly"} {
			r.Check(got[name], "C04-R1", "engine-prevalidation/"+name, eng.Pos(), "the engine registers "+name+" as a pre-validation rule",
				"the rule is exempt from the default validator because the engine registers it before normalization — but it no longer does: invalid @defer/@stream usage is accepted")
		}
	}

	// ---- R2 wiring and state reset ------------------------------------------------------------------
	r.Rule("C04-R2", "every astvisitor callback a validation visitor implements is registered with the walker; slice/map state a rule visitor accumulates during the walk is reset in EnterDocument")
	wiringObligations(r, "C04-R2", "astvalidation", nil)
	visitorStateReset(r, "C04-R2", "astvalidation", map[string]string{})
	// the admission sequence starts with normalization: a pooled normalizer that carries state over admits (or rejects)
	// an operation depending on the previous one
	visitorStateReset(r, "C04-R2", "astnorm", map[string]string{})

	r.Rule("C04-R5", "the tree walker that drives validation/normalization (astvisitor.Walker) and the one that drives the printer (SimpleWalker) descend into the same children of every node kind")
	walkerSiblings(r, "C04-R5")

	r.Rule("C04-R6", "in every validation rule a node is looked up only in the document it came from: a definition node (Walker.EnclosingTypeDefinition, TypeDefinitions, a lookup in the definition) is never handed to a method of the operation document, nor the other way round")
	documentProvenance(r, "C04-R6", []string{"astvalidation"}, 19)

	r.Rule("C04-R7", "the value/argument/directive equalities that field-merge validation relies on read every field the matching Copy function treats as content of the node (positions are not content; four frozen, reasoned exceptions)")
	copyEqualAgreement(r, "C04-R7", 12)

	r.Rule("C04-R8", "in the validation rules the ref of an ast.Value is handed to an accessor of kind K only where the value's kind is known to be K (the rules run on operations that are not yet known to be valid)")
	nKR := kindRefAgreement(r, "C04-R8", []string{"astvalidation"}, nil)
	r.Expect("C04-R8", "kind-specific uses of a value's ref in astvalidation", nKR, 10)

	// ---- R3 admission sequence --------------------------------------------------------------------
	r.Rule("C04-R3", "ExecutionEngine.Execute plans only after normalization succeeded (when needed) and then ValidateForSchema returned err == nil ∧ Valid; it resolves only when planning reported no error")
	engineAdmission(r, "C04-R3", false)

	// ---- R4 verdict -----------------------------------------------------------------------------
	r.Rule("C04-R4", "OperationValidator.Validate returns Invalid whenever the report has errors; Request.ValidateForSchema validates with DefaultOperationValidator and reports parse errors as invalid")
	if fi := p.Func("astvalidation", "OperationValidator.Validate"); fi == nil {
		r.Error("C04-R4: OperationValidator.Validate not found")
	} else {
		g := fw.NewGuards(info, fw.GuardSpec{Name: "no-errors", Match: func(_ *types.Info, a fw.CondAtom) bool {
			if a.Kind != "False" {
				return false
			}
			c, ok := ast.Unparen(a.X).(*ast.CallExpr)
			return ok && fw.CallIs(info, c, "opreport", "Report.HasErrors")
		}})
		n := 0
		walked := false
		in := fw.NewInterp(fi)
		in.H = fw.Hooks{Cond: g.Cond, Node: func(nd ast.Node, st *fw.State) {
			if c, ok := nd.(*ast.CallExpr); ok && fw.CallIs(info, c, "astvisitor", "Walker.Walk") {
				st.Set("walked")
				st.Kill("g:no-errors")
				walked = true
			}
		},
			Exit: func(ret *ast.ReturnStmt, lit *ast.FuncLit, st *fw.State) {
				if ret == nil || !in.Final() || len(ret.Results) != 1 {
					return
				}
				c := fw.ConstObj(info, ret.Results[0])
				if c == nil || c.Name() != "Valid" {
					return
				}
				n++
				r.Check(st.Must("walked") && g.Has(st, "no-errors"), "C04-R4", fi.Name()+"/valid-only-without-errors", p.Pos(ret.Pos()), "Validate returns Valid only after the walk, on the false edge of report.HasErrors()",
					"Valid is returned on a path where the report may hold errors (or before the rules ran): an operation a rule rejected is admitted")
			}}
		in.Run(nil)
		r.Expect("C04-R4", "Valid returns of Validate", n, 1)
		r.Check(walked, "C04-R4", fi.Name()+"/walks", fi.Pos(), "Validate runs the walker", "the walker is never run")
	}
	if fi := p.Func("graphql", "Request.ValidateForSchema"); fi == nil {
		r.Error("C04-R4: graphql.Request.ValidateForSchema not found")
	} else {
		ginfo := fi.Info()
		usesDefault, otherCtor := false, ""
		validated := false
		fw.WalkAll(fi.Decl.Body, func(n ast.Node) bool {
			c, ok := n.(*ast.CallExpr)
			if !ok {
				return true
			}
			fn := fw.Callee(ginfo, c)
			if fn == nil {
				return true
			}
			if fw.FuncIs(fn, "astvalidation", "DefaultOperationValidator") {
				usesDefault = true
			}
			if fw.FuncIs(fn, "astvalidation", "NewOperationValidator") {
				otherCtor = fn.Name()
			}
			if fw.FuncIs(fn, "astvalidation", "OperationValidator.Validate") {
				validated = true
			}
			return true
		})
		r.Check(usesDefault && otherCtor == "" && validated, "C04-R4", fi.Name()+"/uses-default-validator", fi.Pos(), "ValidateForSchema validates with astvalidation.DefaultOperationValidator",
			"the request is validated with a hand-assembled rule list ("+otherCtor+") instead of the default validator: spec rules are silently missing from admission")

		// the per-request memo is keyed by the schema hash only: it may be consulted and filled only when no validator
		// options were given (added after a seeded change removed that guard: a verdict computed under relaxed options was
		// returned for the default options, and vice versa)
		sig := fi.Obj.Type().(*types.Signature)
		var opts *types.Var
		if sig.Variadic() {
			opts = sig.Params().At(sig.Params().Len() - 1)
		}
		isNoOpts := func(e ast.Expr) bool {
			a := fw.Atom(ginfo, e, true) // any spelling of len(options) == 0
			if a.Kind != "Empty" {
				return false
			}
			id, ok := ast.Unparen(a.X).(*ast.Ident)
			return ok && opts != nil && ginfo.Uses[id] == opts
		}
		flags := map[types.Object]bool{}
		fw.WalkAll(fi.Decl.Body, func(n ast.Node) bool {
			if as, ok := n.(*ast.AssignStmt); ok && len(as.Lhs) == len(as.Rhs) {
				for i, l := range as.Lhs {
					if id, ok := l.(*ast.Ident); ok && isNoOpts(as.Rhs[i]) {
						if o := ginfo.Defs[id]; o != nil {
							flags[o] = true
						}
					}
				}
			}
			return true
		})
		nMemo := 0
		in := fw.NewInterp(fi)
		in.H = fw.Hooks{
			Cond: func(e ast.Expr, branch bool, st *fw.State) {
				if !branch {
					return
				}
				if isNoOpts(e) {
					st.Set("no-options")
				}
				if id, ok := ast.Unparen(e).(*ast.Ident); ok && flags[ginfo.Uses[id]] {
					st.Set("no-options")
				}
			},
			Node: func(n ast.Node, st *fw.State) {
				ix, ok := n.(*ast.IndexExpr)
				if as, isAs := n.(*ast.AssignStmt); isAs { // a store: the interpreter delivers the statement, not its left-hand side
					for _, l := range as.Lhs {
						if lx, isIx := ast.Unparen(l).(*ast.IndexExpr); isIx {
							ix, ok = lx, true
						}
					}
				}
				if !ok || !fw.IsFieldSel(ginfo, ix.X, "graphql", "Request", "validForSchema") || !in.Final() {
					return
				}
				nMemo++
				// a key that is computed from the options would do as well
				keyFromOpts := false
				if opts != nil {
					d := fw.NewPureDeriver(fi)
					keyFromOpts = d.Derives(ix.Index, func(e ast.Expr) bool {
						id, ok := e.(*ast.Ident)
						return ok && ginfo.Uses[id] == opts
					})
				}
				r.Check(opts == nil || st.Must("no-options") || keyFromOpts, "C04-R4", fi.Name()+"/memo-only-without-options", p.Pos(ix.Pos()), "the validation memo of the request is used only when no validator options are given (or its key covers them)",
					"the memo is keyed by the schema hash alone but is read/written for a validation with options: the verdict computed under one set of validator options (e.g. relaxed nullability) is returned for another — a spec-invalid operation is accepted, or a valid one rejected, depending on what was validated before")
			},
		}
		in.Run(nil)
		r.Expect("C04-R4", "accesses of the validation memo", nMemo, 2)
	}
}

// engineAdmission checks ExecutionEngine.Execute. withVariables adds the variables gate (C06-R3).
func engineAdmission(r *fw.Run, rule string, withVariables bool) {
	p := r.Prog
	fi := p.Func("engine", "ExecutionEngine.Execute")
	if fi == nil {
		r.Error("%s: ExecutionEngine.Execute not found", rule)
		return
	}
	info := fi.Info()
	fieldOfCallResult := func(a fw.CondAtom, kind, callee string, idx int, field string) bool {
		if a.Kind != kind {
			return false
		}
		sel, ok := ast.Unparen(a.X).(*ast.SelectorExpr)
		if !ok || sel.Sel.Name != field {
			return false
		}
		id, ok := ast.Unparen(sel.X).(*ast.Ident)
		return ok && fw.VarFromCall(fi, info.Uses[id], id.Pos(), "graphql", callee, idx)
	}
	var normalizeObj types.Object
	fw.WalkAll(fi.Decl.Body, func(n ast.Node) bool {
		as, ok := n.(*ast.AssignStmt)
		if !ok || len(as.Lhs) != 1 || len(as.Rhs) != 1 || normalizeObj != nil {
			return true
		}
		if mentionsCall(info, as.Rhs[0], "graphql", "Request.IsNormalized") {
			normalizeObj = fw.RootObj(info, as.Lhs[0])
		}
		return true
	})
	nPlan, nResolve, nValidate := 0, 0, 0
	in := fw.NewInterp(fi)
	in.H = fw.Hooks{
		Cond: func(e ast.Expr, branch bool, st *fw.State) {
			a := fw.Atom(info, e, branch)
			if id, ok := ast.Unparen(e).(*ast.Ident); ok && normalizeObj != nil && info.Uses[id] == normalizeObj && !branch && !st.May("renormalize-flag-set") {
				st.Set("norm-ok") // already normalized
			}
			if fieldOfCallResult(a, "True", "Request.Normalize", 0, "Successful") && !st.May("validated") {
				st.Set("norm-ok")
			}
			if fieldOfCallResult(a, "True", "Request.ValidateForSchema", 0, "Valid") {
				st.Set("valid")
			}
			if a.Kind == "Nil" {
				if id, ok := ast.Unparen(a.X).(*ast.Ident); ok {
					if fw.VarFromCall(fi, info.Uses[id], id.Pos(), "graphql", "Request.ValidateForSchema", 1) {
						st.Set("validate-no-error")
					}
					if fw.VarFromCall(fi, info.Uses[id], id.Pos(), "varsvalidation", "VariablesValidator.ValidateWithRemap", 0) || fw.VarFromCall(fi, info.Uses[id], id.Pos(), "varsvalidation", "VariablesValidator.Validate", 0) {
						st.Set("vars-ok")
					}
				}
			}
			// There is no edge that may skip the variables validator: absent, null or oddly spelled variables still leave
			// required variables to be reported as missing (the former `len(Variables) > 0 && Variables[0] == '{'` skip
			// edge was the defect F28).
			if a.Kind == "False" {
				if c, ok := ast.Unparen(a.X).(*ast.CallExpr); ok && fw.CallIs(info, c, "opreport", "Report.HasErrors") && st.Must("planned") && !st.May("plan-report-reused") {
					st.Set("planned-ok")
				}
			}
		},
		Node: func(nd ast.Node, st *fw.State) {
			if as, ok := nd.(*ast.AssignStmt); ok && normalizeObj != nil {
				for _, l := range as.Lhs {
					if fw.RootObj(info, l) == normalizeObj && st.May("norm-ok") {
						st.Set("renormalize-flag-set")
					}
				}
			}
			c, ok := nd.(*ast.CallExpr)
			if !ok {
				return
			}
			switch {
			case fw.CallIs(info, c, "graphql", "Request.ValidateForSchema"):
				st.Set("validated")
				if in.Final() {
					nValidate++
					r.Check(st.Must("norm-ok"), rule, "Execute/normalized-before-validation", p.Pos(c.Pos()), "ValidateForSchema runs on a normalized operation (normalization succeeded, or the request was already normalized)",
						"validation is reachable on a path where normalization was needed but did not succeed: the documented sequence 'normalize, then validate the normalized operation' is broken (rules see un-inlined fragments / unmerged fields)")
				}
			case fw.CallIs(info, c, "engine", "ExecutionEngine.getCachedPlan"):
				if in.Final() {
					nPlan++
					need := []string{"norm-ok", "valid", "validate-no-error"}
					if withVariables {
						need = []string{"vars-ok"}
					}
					for _, f := range need {
						r.Check(st.Must(f), rule, "Execute/getCachedPlan-requires:"+f, p.Pos(c.Pos()), "planning (and the plan cache) is reached only with "+f,
							"the plan cache / planner is reachable on a path that did not establish '"+f+"': an operation (or variables) the admission sequence would reject is planned and executed — e.g. a cache fast path placed above validation")
					}
				}
				st.Set("planned")
			case isResolverEntry(info, c):
				if in.Final() && !withVariables {
					nResolve++
					r.Check(st.Must("planned-ok"), rule, "Execute/resolve-requires-planned:"+fw.Callee(info, c).Name(), p.Pos(c.Pos()), "the resolver is entered only on the false edge of report.HasErrors() after planning",
						"execution starts although planning reported errors (nil or partial plan)")
				}
			}
		},
	}
	in.Run(nil)
	r.Expect(rule, "getCachedPlan calls in Execute", nPlan, 1)
	if !withVariables {
		r.Expect(rule, "ValidateForSchema calls in Execute", nValidate, 1)
		r.Expect(rule, "resolver entries in Execute", nResolve, 3)
	}
}

func isResolverEntry(info *types.Info, c *ast.CallExpr) bool {
	fn := fw.Callee(info, c)
	if fn == nil || !fw.TypeIs(recvType(fn), "resolve", "Resolver") {
		return false
	}
	return strings.HasPrefix(fn.Name(), "ResolveGraphQL") || strings.HasPrefix(fn.Name(), "ArenaResolveGraphQL") || strings.HasPrefix(fn.Name(), "AsyncResolveGraphQL")
}

// c04DefaultRelaxationOnlyOutermost (R9): "a nullable variable may be used at a non-null location when a default value
// exists" (VariablesInAllowedPosition) relaxes the outermost non-null only: [Int] does not fit [Int!] however many defaults
// exist. In every type-compatibility function that walks two type refs level by level (a loop advancing a ref parameter
// through OfType), the boolean parameter that carries "has a default" is therefore not read inside that loop — unless the
// loop body sets it to false on every way to the next iteration (consumed at the first level).
func c04DefaultRelaxationOnlyOutermost(r *fw.Run) {
	p := r.Prog
	r.Rule("C04-R9", "in a level-by-level type compatibility walk the has-default relaxation applies to the outermost level only: the boolean parameter fed from a default-value query at a call site is not read inside the unnesting loop (or is cleared on every way round it)")
	n := 0
	for _, fi := range p.Funcs("astvalidation") {
		info := fi.Info()
		sig := fi.Obj.Type().(*types.Signature)
		var flags, refs []*types.Var
		for i := 0; i < sig.Params().Len(); i++ {
			pv := sig.Params().At(i)
			switch {
			case types.Identical(pv.Type(), types.Typ[types.Bool]):
				flags = append(flags, pv)
			case types.Identical(pv.Type(), types.Typ[types.Int]):
				refs = append(refs, pv)
			}
		}
		if len(flags) == 0 || len(refs) < 2 {
			continue
		}
		fw.WalkAll(fi.Decl.Body, func(nd ast.Node) bool {
			loop, ok := nd.(*ast.ForStmt)
			if !ok {
				return true
			}
			// an unnesting loop: assigns a ref parameter from …OfType
			unnests := false
			fw.WalkAll(loop.Body, func(m ast.Node) bool {
				as, isAs := m.(*ast.AssignStmt)
				if !isAs || len(as.Lhs) != len(as.Rhs) {
					return true
				}
				for i, l := range as.Lhs {
					id, isID := l.(*ast.Ident)
					if !isID {
						continue
					}
					for _, pv := range refs {
						if info.ObjectOf(id) == pv {
							if fv, _ := fw.Field(info, as.Rhs[i]); fv != nil && fv.Name() == "OfType" {
								unnests = true
							}
						}
					}
				}
				return true
			})
			if !unnests {
				return true
			}
			for _, flag := range flags {
				if !c04FlagIsFedFromADefaultValue(p, fi, flag) {
					// another relaxation (e.g. "ignore nullability", which holds at every level): not this rule's business
					continue
				}
				var read ast.Node
				fw.WalkAll(loop.Body, func(m ast.Node) bool {
					if id, isID := m.(*ast.Ident); isID && info.Uses[id] == flag && read == nil {
						read = id
					}
					return true
				})
				n++
				ok := read == nil
				if !ok {
					// consumed: cleared on every way to the next iteration
					in := fw.NewInterp(fi)
					in.H = fw.Hooks{Node: func(m ast.Node, st *fw.State) {
						if as, isAs := m.(*ast.AssignStmt); isAs && len(as.Lhs) == len(as.Rhs) {
							for i, l := range as.Lhs {
								if id, isID := l.(*ast.Ident); isID && info.ObjectOf(id) == flag {
									if v, isConst := fw.ConstVal(info, as.Rhs[i]); isConst && v == "false" {
										st.Set("cleared")
									} else {
										st.Kill("cleared")
									}
								}
							}
						}
					}}
					next, _ := in.RunLoopBody(loop.Body.List, nil)
					ok = next == nil || next.Must("cleared")
				}
				pos := p.Pos(loop.Pos())
				if read != nil {
					pos = p.Pos(read.Pos())
				}
				r.Check(ok, "C04-R9", fi.Name()+"/default-relaxes-only-the-outermost-level", pos, fi.Name()+" does not consult "+flag.Name()+" inside its unnesting loop",
					flag.Name()+" is read inside the loop that unnests the two types: a default value then also relaxes a non-null below a list wrapper ([Int] with a default is admitted at [Int!]), and a list with null items reaches a location that forbids them")
			}
			return true
		})
	}
	r.Expect("C04-R9", "has-default flags of level-by-level type compatibility walks", n, 1)
}

// c04FlagIsFedFromADefaultValue: at some call site of fi in the package the argument for the flag is computed from a query
// about a default value — the argument expression, or the right-hand side that defines the local it names, mentions a
// function or field whose (resolved) name contains "DefaultValue".
func c04FlagIsFedFromADefaultValue(p *fw.Prog, fi *fw.FuncInfo, flag *types.Var) bool {
	sig := fi.Obj.Type().(*types.Signature)
	idx := -1
	for i := 0; i < sig.Params().Len(); i++ {
		if sig.Params().At(i) == flag {
			idx = i
		}
	}
	if idx < 0 {
		return false
	}
	mentions := func(info *types.Info, e ast.Node) bool {
		found := false
		fw.WalkAll(e, func(nd ast.Node) bool {
			switch x := nd.(type) {
			case *ast.CallExpr:
				if fn := fw.Callee(info, x); fn != nil && strings.Contains(fn.Name(), "DefaultValue") {
					found = true
				}
			case *ast.SelectorExpr:
				if v, _ := fw.Field(info, x); v != nil && strings.Contains(v.Name(), "DefaultValue") {
					found = true
				}
			}
			return true
		})
		return found
	}
	fed := false
	fw.EachCall(p.Funcs("astvalidation"), func(caller *fw.FuncInfo, c *ast.CallExpr, stack []ast.Node) {
		cinfo := caller.Info()
		if fn := fw.Callee(cinfo, c); fn == nil || fn != fi.Obj || idx >= len(c.Args) {
			return
		}
		arg := ast.Unparen(c.Args[idx])
		if mentions(cinfo, arg) {
			fed = true
			return
		}
		if id, ok := arg.(*ast.Ident); ok {
			obj := cinfo.ObjectOf(id)
			fw.WalkAll(caller.Decl.Body, func(nd ast.Node) bool {
				if as, isAs := nd.(*ast.AssignStmt); isAs {
					for i, l := range as.Lhs {
						if lid, isID := l.(*ast.Ident); isID && cinfo.ObjectOf(lid) == obj {
							if len(as.Rhs) == len(as.Lhs) && mentions(cinfo, as.Rhs[i]) || len(as.Rhs) == 1 && mentions(cinfo, as.Rhs[0]) {
								fed = true
							}
						}
					}
				}
				return true
			})
		}
	})
	return fed
}

// c04CountedMatchingIsOneToOne (R10): an equality of two lists that may hold duplicates (directives are repeatable) decided
// by "same length, and every left element finds an equal right element" is a multiset equality only when a right element
// can be used once: [@a, @a, @b] and [@a, @b, @b] have the same length and every left element occurs on the right. Where a
// function of package ast has that shape — an early false on differing lengths, then nested loops whose inner loop leaves
// at the first equal element — the inner loop skips the elements already used (an index expression on the inner loop's
// key, set on the match edge and tested before the comparison). Other shapes (positional comparison, sorting, counting)
// are not this rule's business; the seeded mutant is its positive control.
func c04CountedMatchingIsOneToOne(r *fw.Run) {
	p := r.Prog
	r.Rule("C04-R10", "a list equality decided by equal lengths plus a nested-loop search for a partner uses every right element at most once (used elements are marked on the match edge and skipped)")
	n := 0
	for _, fi := range p.Funcs("ast") {
		info := fi.Info()
		sig := fi.Obj.Type().(*types.Signature)
		if sig.Results().Len() != 1 || !types.Identical(sig.Results().At(0).Type(), types.Typ[types.Bool]) {
			continue
		}
		// early false on differing lengths
		lenTest := false
		fw.WalkAll(fi.Decl.Body, func(nd ast.Node) bool {
			if is, ok := nd.(*ast.IfStmt); ok {
				a := fw.Atom(info, is.Cond, true)
				if a.Kind == "Ne" && isLenCall(info, a.X) && isLenCall(info, a.Y) {
					lenTest = true
				}
			}
			return true
		})
		if !lenTest {
			continue
		}
		fw.WalkAll(fi.Decl.Body, func(nd ast.Node) bool {
			outer, ok := nd.(*ast.RangeStmt)
			if !ok {
				return true
			}
			for _, st := range outer.Body.List {
				inner, isRange := st.(*ast.RangeStmt)
				if !isRange {
					continue
				}
				key, _ := inner.Key.(*ast.Ident)
				// the match edge: an if whose body breaks out of the inner loop
				var match *ast.IfStmt
				for _, s2 := range inner.Body.List {
					if is, isIf := s2.(*ast.IfStmt); isIf {
						for _, s3 := range is.Body.List {
							if br, isBr := s3.(*ast.BranchStmt); isBr && br.Tok == token.BREAK {
								match = is
							}
						}
					}
				}
				if match == nil {
					continue
				}
				n++
				marked, tested := false, false
				usesKey := func(e ast.Expr) bool {
					ix, isIx := ast.Unparen(e).(*ast.IndexExpr)
					if !isIx || key == nil {
						return false
					}
					id, isID := ast.Unparen(ix.Index).(*ast.Ident)
					return isID && info.ObjectOf(id) == info.ObjectOf(key)
				}
				for _, s3 := range match.Body.List {
					if as, isAs := s3.(*ast.AssignStmt); isAs && len(as.Lhs) == 1 && usesKey(as.Lhs[0]) {
						marked = true
					}
				}
				for _, s2 := range inner.Body.List {
					if s2 == ast.Stmt(match) {
						break
					}
					if is, isIf := s2.(*ast.IfStmt); isIf {
						a := fw.Atom(info, is.Cond, true)
						if a.Kind == "True" && usesKey(a.X) && len(is.Body.List) == 1 {
							if br, isBr := is.Body.List[0].(*ast.BranchStmt); isBr && br.Tok == token.CONTINUE {
								tested = true
							}
						}
					}
				}
				r.Check(marked && tested, "C04-R10", fi.Name()+"/counted-matching-is-one-to-one", p.Pos(inner.Pos()), fi.Name()+" marks the right element it matched and skips marked elements",
					fi.Name()+" compares lengths and then lets several left elements match the same right element: [@a, @a, @b] and [@a, @b, @b] count as equal, so two selections that differ in their (repeatable) directives are merged as identical")
			}
			return true
		})
	}
	if n == 0 {
		r.Pass("C04-R10", "no-counted-nested-loop-matching", "", "no list equality of package ast has the length-plus-nested-search shape (the rule has nothing to decide; its mutant is the positive control)", false)
	}
}

func isLenCall(info *types.Info, e ast.Expr) bool {
	c, ok := ast.Unparen(e).(*ast.CallExpr)
	return ok && fw.Builtin(info, c) == "len"
}

// c04UnorderedElementsPairedByName (R11): the arguments of a field or directive and the fields of an input object are
// unordered sets with unique names (spec: "fieldA and fieldB must have identical sets of arguments"; "input object fields
// are unordered"). An equality of two such lists therefore finds the partner of an element by its name; pairing them by
// position makes f(a: 1, b: 2) and f(b: 2, a: 1) "differing fields", and FieldsInSetCanMerge rejects a valid operation.
// The rule works on refs: a parameter is a K-ref when it indexes Document.<K> or is handed unchanged to a K-ref parameter;
// in every list equality of package ast (early false on differing lengths) whose elements are Argument- or
// ObjectField-refs, no loop variable indexes two lists whose elements both reach such parameters of one call.
func c04UnorderedElementsPairedByName(r *fw.Run) {
	p := r.Prog
	r.Rule("C04-R11", "a list equality over arguments or input object fields (unordered, uniquely named) never pairs the elements of the two lists by position: the partner is looked up by name")
	unordered := map[string]bool{"Arguments": true, "ObjectFields": true}
	// K-ref parameter summary
	type pk struct {
		fn  *types.Func
		idx int
	}
	memo := map[pk]string{}
	visiting := map[pk]bool{}
	var kindOfParam func(fi *fw.FuncInfo, idx int) string
	kindOfParam = func(fi *fw.FuncInfo, idx int) string {
		key := pk{fi.Obj, idx}
		if k, ok := memo[key]; ok {
			return k
		}
		if visiting[key] {
			return ""
		}
		visiting[key] = true
		defer delete(visiting, key)
		info := fi.Info()
		sig := fi.Obj.Type().(*types.Signature)
		if idx >= sig.Params().Len() {
			return ""
		}
		pv := sig.Params().At(idx)
		kind := ""
		fw.WalkAll(fi.Decl.Body, func(nd ast.Node) bool {
			if kind != "" {
				return false
			}
			switch x := nd.(type) {
			case *ast.IndexExpr:
				if id, ok := ast.Unparen(x.Index).(*ast.Ident); ok && info.Uses[id] == pv {
					if fv, _ := fw.Field(info, x.X); fv != nil && unordered[fv.Name()] && fw.IsFieldSel(info, x.X, "ast", "Document", fv.Name()) {
						kind = fv.Name()
					}
				}
			case *ast.CallExpr:
				callee := p.FuncOf(fw.Callee(info, x))
				if callee == nil || callee.Pkg != fi.Pkg {
					return true
				}
				for i, arg := range x.Args {
					if id, ok := ast.Unparen(arg).(*ast.Ident); ok && info.Uses[id] == pv {
						if k := kindOfParam(callee, i); k != "" {
							kind = k
						}
					}
				}
			}
			return true
		})
		memo[key] = kind
		return kind
	}
	n := 0
	for _, fi := range p.Funcs("ast") {
		info := fi.Info()
		sig := fi.Obj.Type().(*types.Signature)
		if sig.Results().Len() != 1 || !types.Identical(sig.Results().At(0).Type(), types.Typ[types.Bool]) {
			continue
		}
		lenTest := false
		fw.WalkAll(fi.Decl.Body, func(nd ast.Node) bool {
			if is, ok := nd.(*ast.IfStmt); ok {
				a := fw.Atom(info, is.Cond, true)
				if a.Kind == "Ne" && isLenCall(info, a.X) && isLenCall(info, a.Y) {
					lenTest = true
				}
			}
			return true
		})
		if !lenTest {
			continue
		}
		// local variables holding a list element: v := xs[i] / for _, v := range xs  → (list expression key, index object or nil)
		type elem struct {
			list string
			idx  types.Object
		}
		elems := map[types.Object]elem{}
		note := func(lhs ast.Expr, rhs ast.Expr) {
			id, ok := lhs.(*ast.Ident)
			ix, isIx := ast.Unparen(rhs).(*ast.IndexExpr)
			if !ok || !isIx || info.ObjectOf(id) == nil {
				return
			}
			if _, isSlice := info.TypeOf(ix.X).Underlying().(*types.Slice); !isSlice {
				return
			}
			var io types.Object
			if iid, isID := ast.Unparen(ix.Index).(*ast.Ident); isID {
				io = info.ObjectOf(iid)
			}
			elems[info.ObjectOf(id)] = elem{fw.ExprKey(info, ix.X), io}
		}
		fw.WalkAll(fi.Decl.Body, func(nd ast.Node) bool {
			switch x := nd.(type) {
			case *ast.AssignStmt:
				if len(x.Lhs) == len(x.Rhs) {
					for i := range x.Lhs {
						note(x.Lhs[i], x.Rhs[i])
					}
				}
			case *ast.RangeStmt:
				if v, ok := x.Value.(*ast.Ident); ok && info.ObjectOf(v) != nil {
					var io types.Object
					if k, isID := x.Key.(*ast.Ident); isID && k.Name != "_" {
						io = info.ObjectOf(k)
					}
					if _, isSlice := info.TypeOf(x.X).Underlying().(*types.Slice); isSlice {
						elems[info.ObjectOf(v)] = elem{fw.ExprKey(info, x.X), io}
					}
				}
			}
			return true
		})
		elemOfArg := func(arg ast.Expr) (elem, bool) {
			arg = ast.Unparen(arg)
			if id, ok := arg.(*ast.Ident); ok {
				e, found := elems[info.ObjectOf(id)]
				return e, found
			}
			if ix, ok := arg.(*ast.IndexExpr); ok {
				if _, isSlice := info.TypeOf(ix.X).Underlying().(*types.Slice); isSlice {
					var io types.Object
					if iid, isID := ast.Unparen(ix.Index).(*ast.Ident); isID {
						io = info.ObjectOf(iid)
					}
					return elem{fw.ExprKey(info, ix.X), io}, true
				}
			}
			return elem{}, false
		}
		kind, positional := "", ""
		fw.WalkAll(fi.Decl.Body, func(nd ast.Node) bool {
			c, ok := nd.(*ast.CallExpr)
			if !ok {
				return true
			}
			callee := p.FuncOf(fw.Callee(info, c))
			if callee == nil || callee.Pkg != fi.Pkg {
				return true
			}
			var ks []elem
			for i, arg := range c.Args {
				e, isElem := elemOfArg(arg)
				if !isElem {
					continue
				}
				if k := kindOfParam(callee, i); k != "" {
					kind = k
					ks = append(ks, e)
				}
			}
			for i := 0; i < len(ks); i++ {
				for j := i + 1; j < len(ks); j++ {
					if ks[i].list != ks[j].list && ks[i].idx != nil && ks[i].idx == ks[j].idx {
						positional = p.Pos(c.Pos())
					}
				}
			}
			return true
		})
		if kind == "" {
			continue
		}
		n++
		r.Check(positional == "", "C04-R11", fi.Name()+"/unordered-elements-paired-by-name", p.Pos(fi.Decl.Pos()), fi.Name()+" (an equality of two lists of "+kind+" refs) does not pair the elements by position",
			fi.Name()+" compares element i of one "+kind+" list with element i of the other ("+positional+"): the same arguments / input object fields written in another order count as different, and field merging rejects a valid operation (f(a: 1, b: 2) next to f(b: 2, a: 1))")
	}
	r.Expect("C04-R11", "list equalities over arguments / input object fields", n, 2)
}

// c04SubscriptionRootFieldsSeenThroughFragments (R12): "a subscription has exactly one root field, and it is not an
// introspection field" is a statement about the fields of the operation's selection set wherever they are written —
// directly, inside an inline fragment (normalization does not flatten one that carries a directive) or behind a fragment
// spread. In the visitor of the rule constructor SubscriptionSingleRootField the selections are therefore dispatched over
// ast.SelectionKind with an arm for every kind, reached by recursion for the two fragment kinds, and the name of a root
// field is tested for the introspection prefix.
func c04SubscriptionRootFieldsSeenThroughFragments(r *fw.Run) {
	p := r.Prog
	r.Rule("C04-R12", "the subscription single-root-field rule dispatches the selections of the root selection set over every ast.SelectionKind (fragments are descended into) and tests root field names for the introspection prefix")
	ctor := p.Func("astvalidation", "SubscriptionSingleRootField")
	if ctor == nil {
		r.Error("C04-R12: rule constructor SubscriptionSingleRootField not found")
		return
	}
	// the visitor type the constructor registers
	cinfo := ctor.Info()
	var vt string
	fw.WalkAll(ctor.Decl.Body, func(nd ast.Node) bool {
		if cl, ok := nd.(*ast.CompositeLit); ok {
			if n, isNamed := cinfo.TypeOf(cl).(*types.Named); isNamed && n.Obj().Pkg() == ctor.Obj.Pkg() {
				vt = n.Obj().Name()
			}
		}
		return true
	})
	kindT := p.Named("ast", "SelectionKind")
	if vt == "" || kindT == nil {
		r.Error("C04-R12: visitor type of SubscriptionSingleRootField / ast.SelectionKind not found")
		return
	}
	want := []string{}
	for _, c := range fw.ConstNames(kindT.Obj().Pkg(), kindT) {
		if c != "SelectionKindUnknown" {
			want = append(want, c)
		}
	}
	covered := map[string]bool{}
	recursive, prefix := false, false
	for _, fi := range p.Funcs("astvalidation") {
		if !strings.HasPrefix(fi.Name(), vt+".") {
			continue
		}
		info := fi.Info()
		for _, sw := range fw.ConstSwitches(fi, kindT) {
			for k := range sw.Covered {
				covered[k] = true
			}
			// the fragment arms descend: a call of a method of the visitor inside the switch
			fw.WalkAll(sw.Stmt, func(nd ast.Node) bool {
				if c, ok := nd.(*ast.CallExpr); ok {
					if callee := p.FuncOf(fw.Callee(info, c)); callee != nil && strings.HasPrefix(callee.Name(), vt+".") {
						recursive = true
					}
				}
				return true
			})
		}
		fw.WalkAll(fi.Decl.Body, func(nd ast.Node) bool {
			c, ok := nd.(*ast.CallExpr)
			if !ok || len(c.Args) != 2 {
				return true
			}
			if fn := fw.Callee(info, c); fn == nil || fn.Name() != "HasPrefix" {
				return true
			}
			arg := ast.Unparen(c.Args[1])
			if conv, isConv := arg.(*ast.CallExpr); isConv && len(conv.Args) == 1 {
				arg = conv.Args[0] // []byte("__")
			}
			if v, isConst := fw.ConstVal(info, arg); isConst && strings.Trim(v, "\"") == "__" {
				prefix = true
			}
			return true
		})
	}
	missing := fw.MissingFrom(covered, want)
	r.Check(len(missing) == 0 && recursive, "C04-R12", "subscription-root-fields/every-selection-kind", p.Pos(ctor.Decl.Pos()), "the visitor of SubscriptionSingleRootField has an arm for every ast.SelectionKind and descends into fragments",
		"the root fields of a subscription are counted without looking at selections of kind ["+strings.Join(missing, ",")+"] (or without descending): `subscription { ... @d { s1 s2 } }` — an inline fragment with a directive is not flattened by normalization — is admitted with two root fields")
	r.Check(prefix, "C04-R12", "subscription-root-fields/introspection-tested", p.Pos(ctor.Decl.Pos()), "the visitor of SubscriptionSingleRootField tests root field names for the introspection prefix",
		"no root field name is tested for the prefix __: `subscription { __typename }` is admitted although the single root field of a subscription must not be an introspection field")
}

// c04RequiredArgumentsCoverEveryArgumentBearer (R13): "required arguments are provided" holds for everything that takes
// arguments. Which nodes do is read from the walker: the kinds P whose walk<P> calls walkArgument (fields and directives).
// The visitor that the rule constructor RequiredArguments registers implements Enter<P> for each of them (that every
// implemented callback is also registered is C04-R2's business).
func c04RequiredArgumentsCoverEveryArgumentBearer(r *fw.Run) {
	p := r.Prog
	r.Rule("C04-R13", "the visitor of the RequiredArguments rule has an Enter callback for every node kind under which the walker visits arguments (read from the walker: walk<P> calls walkArgument)")
	var bearers []string
	for _, fi := range p.Funcs("astvisitor") {
		if fi.Decl.Recv == nil || !strings.HasPrefix(fi.Name(), "Walker.walk") {
			continue
		}
		info := fi.Info()
		calls := false
		fw.WalkAll(fi.Decl.Body, func(nd ast.Node) bool {
			if c, ok := nd.(*ast.CallExpr); ok {
				if callee := p.FuncOf(fw.Callee(info, c)); callee != nil && callee.Name() == "Walker.walkArgument" {
					calls = true
				}
			}
			return true
		})
		if calls {
			bearers = append(bearers, strings.TrimPrefix(fi.Name(), "Walker.walk"))
		}
	}
	sort.Strings(bearers)
	ctor := p.Func("astvalidation", "RequiredArguments")
	if ctor == nil {
		r.Error("C04-R13: rule constructor RequiredArguments not found")
		return
	}
	cinfo := ctor.Info()
	var vt string
	fw.WalkAll(ctor.Decl.Body, func(nd ast.Node) bool {
		if cl, ok := nd.(*ast.CompositeLit); ok {
			if n, isNamed := cinfo.TypeOf(cl).(*types.Named); isNamed && n.Obj().Pkg() == ctor.Obj.Pkg() {
				vt = n.Obj().Name()
			}
		}
		return true
	})
	for _, b := range bearers {
		m := p.Func("astvalidation", vt+".Enter"+b)
		r.Check(m != nil, "C04-R13", "RequiredArguments/covers:"+b, p.Pos(ctor.Decl.Pos()), "the RequiredArguments visitor ("+vt+") enters "+b+" nodes, which take arguments",
			"the walker visits arguments below "+b+" nodes, but "+vt+" has no Enter"+b+": a "+strings.ToLower(b)+" is admitted without the arguments its definition requires (`{ dog @skip { name } }`, `@dreq` with `directive @dreq(x: Int!) on FIELD`)")
	}
	r.Expect("C04-R13", "node kinds that take arguments (from the walker)", len(bearers), 2)
}

// c04VariableUsesFoundAtEveryDepth (R14): "every variable an operation uses is defined by it" is a statement about all
// uses, and a variable can be the whole value of an argument or sit at any depth of a list or input object literal. The
// rule that checks the uses cannot leave the nested ones to the value rule: a literal given to a custom scalar is not
// looked into by anything else. In the visitor of the rule constructor AllVariableUsesDefined the value of an argument is
// dispatched over ast.ValueKind with arms for Variable and for both container kinds (List, Object), and the container
// arms descend (call a method of the visitor).
func c04VariableUsesFoundAtEveryDepth(r *fw.Run) {
	p := r.Prog
	r.Rule("C04-R14", "the AllVariableUsesDefined rule looks for variable uses at every depth: its visitor dispatches argument values over ast.ValueKind with arms for Variable, List and Object, and the container arms descend")
	ctor := p.Func("astvalidation", "AllVariableUsesDefined")
	kindT := p.Named("ast", "ValueKind")
	if ctor == nil || kindT == nil {
		r.Error("C04-R14: rule constructor AllVariableUsesDefined / ast.ValueKind not found")
		return
	}
	cinfo := ctor.Info()
	var vt string
	fw.WalkAll(ctor.Decl.Body, func(nd ast.Node) bool {
		if cl, ok := nd.(*ast.CompositeLit); ok {
			if n, isNamed := cinfo.TypeOf(cl).(*types.Named); isNamed && n.Obj().Pkg() == ctor.Obj.Pkg() {
				vt = n.Obj().Name()
			}
		}
		return true
	})
	covered, descends := valueKindArmsOfVisitor(p, "astvalidation", vt)
	r.Check(covered["ValueKindVariable"], "C04-R14", "AllVariableUsesDefined/variable-arm", p.Pos(ctor.Decl.Pos()), "the visitor of AllVariableUsesDefined has an arm for variable values", "no arm for ValueKindVariable was found in "+vt+": the rule no longer recognises a variable use")
	r.Check(descends["ValueKindList"] && descends["ValueKindObject"], "C04-R14", "AllVariableUsesDefined/container-kinds-descended", p.Pos(ctor.Decl.Pos()), "the visitor of AllVariableUsesDefined descends into list and object literals",
		vt+" does not descend into both container kinds (List, Object): `{ arg(c: [$undef]) }` / `{ arg(c: {x: $undef}) }` with `scalar Custom` — a literal no other rule looks into — is admitted with a variable the operation does not define, and reaches planning with a dangling variable")
}

// c04MergeDecisionsReadTheArguments (R15): FieldsInSetCanMerge — two selections with the same response name whose parents
// can be the same object must be the same field with identical arguments. Two places decide "these two are the same
// selection": the normalizer, which merges such fields into one (and thereby drops one of them), and the validator's
// field selection merging rule, which reports a conflict. A decision that does not read the arguments of both fields
// cannot tell dogById(id: 1) from dogById(id: 2) (an information argument, as for C02-R13). (a) every function of the
// normalizer that compares the names of two fields given by two ref parameters also reads the arguments of both (directly
// or through an ast helper that does); (b) in the validator's EnterField both arms of the scalar / composite split reach
// a read of the arguments of the recorded field and of the current one.
func c04MergeDecisionsReadTheArguments(r *fw.Run) {
	p := r.Prog
	r.Rule("C04-R15", "every decision that two selections are the same field reads the arguments of both: the normalizer's merge predicates, and both arms (scalar / composite) of the validator's field selection merging rule")
	// ast helpers that read field arguments (fixed point)
	readsArgs := map[*types.Func]bool{}
	for changed := true; changed; {
		changed = false
		for _, fi := range p.Funcs("ast") {
			if readsArgs[fi.Obj] {
				continue
			}
			info := fi.Info()
			fw.WalkAll(fi.Decl.Body, func(nd ast.Node) bool {
				if c, ok := nd.(*ast.CallExpr); ok {
					if fn := fw.Callee(info, c); fn != nil && (fn.Name() == "FieldArguments" || readsArgs[fn]) {
						readsArgs[fi.Obj] = true
					}
				}
				if sel, ok := nd.(*ast.SelectorExpr); ok && fw.IsFieldSel(info, sel, "ast", "Field", "Arguments") {
					readsArgs[fi.Obj] = true
				}
				return true
			})
			if readsArgs[fi.Obj] {
				changed = true
			}
		}
	}
	reaches := func(info *types.Info, n ast.Node) bool {
		found := false
		fw.WalkAll(n, func(nd ast.Node) bool {
			if c, ok := nd.(*ast.CallExpr); ok {
				if fn := fw.Callee(info, c); fn != nil && (fn.Name() == "FieldArguments" || readsArgs[fn]) {
					found = true
				}
			}
			return true
		})
		return found
	}
	// (a) normalizer predicates
	nA := 0
	for _, fi := range p.Funcs("astnorm") {
		sig := fi.Obj.Type().(*types.Signature)
		if sig.Results().Len() != 1 || !types.Identical(sig.Results().At(0).Type(), types.Typ[types.Bool]) {
			continue
		}
		var refs []*types.Var
		for i := 0; i < sig.Params().Len(); i++ {
			if types.Identical(sig.Params().At(i).Type(), types.Typ[types.Int]) {
				refs = append(refs, sig.Params().At(i))
			}
		}
		if len(refs) != 2 {
			continue
		}
		info := fi.Info()
		named := map[*types.Var]bool{}
		fw.WalkAll(fi.Decl.Body, func(nd ast.Node) bool {
			if c, ok := nd.(*ast.CallExpr); ok && len(c.Args) == 1 {
				if fn := fw.Callee(info, c); fn != nil && strings.HasPrefix(fn.Name(), "FieldName") {
					if id, isID := ast.Unparen(c.Args[0]).(*ast.Ident); isID {
						for _, pv := range refs {
							if info.Uses[id] == pv {
								named[pv] = true
							}
						}
					}
				}
			}
			return true
		})
		if !named[refs[0]] || !named[refs[1]] {
			continue
		}
		nA++
		r.Check(reaches(info, fi.Decl.Body), "C04-R15", fi.Name()+"/merge-decision-reads-arguments", p.Pos(fi.Decl.Pos()), fi.Name()+", which compares the names of two fields, also reads their arguments",
			fi.Name()+" decides that two fields are the same selection from their names (and aliases, directives) without reading their arguments: `{ dogById(id: 1) { name } dogById(id: 2) { name } }` is merged into `{dogById(id: 1){name}}` — the second field, with its different argument, is silently dropped, and the conflict is erased before the validator sees it")
	}
	r.Expect("C04-R15", "normalizer predicates that compare the names of two fields", nA, 1)
	// (b) validator
	fi := p.Func("astvalidation", "fieldSelectionMergingVisitor.EnterField")
	if fi == nil {
		r.Error("C04-R15: fieldSelectionMergingVisitor.EnterField not found")
		return
	}
	info := fi.Info()
	var split *ast.IfStmt
	fw.WalkAll(fi.Decl.Body, func(nd ast.Node) bool {
		is, ok := nd.(*ast.IfStmt)
		if !ok || split != nil {
			return true
		}
		a := fw.Atom(info, is.Cond, true)
		if (a.Kind == "Ne" || a.Kind == "Eq") && fw.ConstObj(info, a.Y) != nil && fw.ConstObj(info, a.Y).Name() == "NodeKindScalarTypeDefinition" {
			split = is
		}
		return true
	})
	if split == nil {
		r.Error("C04-R15: the scalar / composite split of EnterField was not found")
		return
	}
	r.Check(reaches(info, split.Body), "C04-R15", fi.Name()+"/composite-arm-reads-arguments", p.Pos(split.Pos()), "the composite arm of "+fi.Name()+" reads the arguments of the two fields it compares",
		"the arm of the field selection merging rule that handles fields with selections never reads field arguments: `{ a: dog { name } a: cat { name } }` and `{ dogById(id: 1) { name } dogById(id: 2) { name } }` — same response name, same parent, different field or arguments — are admitted")
	// the scalar arm: everything of the function after the split (the split's arm returns)
	rest := false
	after := false
	for _, st := range fi.Decl.Body.List {
		if st == ast.Stmt(split) {
			after = true
			continue
		}
		if after && reaches(info, st) {
			rest = true
		}
	}
	if split.Else != nil && reaches(info, split.Else) {
		rest = true
	}
	r.Check(rest, "C04-R15", fi.Name()+"/scalar-arm-reads-arguments", p.Pos(split.End()), "the scalar arm of "+fi.Name()+" reads the arguments of the two fields it compares",
		"the arm of the field selection merging rule that handles leaf fields never reads field arguments")
}

// c04NumberLiteralsAreReadWithTheirSign (R16): an Int or Float literal is stored as its digits (Raw) and a separate sign
// (Negative). A function that interprets, compares, copies or prints the digits without reading the sign cannot tell n
// from -n (an information argument): the Int range check that looked at the digits only rejected -2147483648, the
// smallest Int. Rule: in every loaded package, a function that reads the digits of a number literal — the Raw field of
// ast.IntValue / ast.FloatValue, or an accessor that hands the raw bytes on — also reads the sign of the same literal kind
// (the Negative field or an accessor of it). Accessors that only hand the raw bytes on (result type ByteSlice or
// ByteSliceReference, string) from the field itself are the carriers, not readers; their callers are. A carrier over
// several value kinds (ValueContentBytes: reaches the digits through another carrier) is exempt and its callers are not
// tracked — they know which kind they hold; that part is not decided.
func c04NumberLiteralsAreReadWithTheirSign(r *fw.Run) {
	p := r.Prog
	r.Rule("C04-R16", "a function that reads the digits (Raw) of an Int or Float literal, directly or through a raw-bytes accessor, also reads the sign (Negative) of that literal kind; accessors that only hand the raw bytes on are carriers")
	kinds := []string{"IntValue", "FloatValue"}
	isCarrierResult := func(fn *types.Func) bool {
		sig := fn.Type().(*types.Signature)
		if sig.Results().Len() != 1 {
			return false
		}
		if nt, ok := sig.Results().At(0).Type().(*types.Named); ok {
			return nt.Obj().Name() == "ByteSlice" || nt.Obj().Name() == "ByteSliceReference"
		}
		return types.Identical(sig.Results().At(0).Type(), types.Typ[types.String])
	}
	// per kind: carriers of the digits and accessors of the sign in package ast (fixed point over direct calls)
	rawCarrier := map[string]map[*types.Func]bool{}
	signReader := map[string]map[*types.Func]bool{}
	for _, k := range kinds {
		rawCarrier[k] = map[*types.Func]bool{}
		signReader[k] = map[*types.Func]bool{}
	}
	reads := func(fi *fw.FuncInfo, k string) (raw, sign bool, rawAt token.Pos) {
		info := fi.Info()
		fw.WalkAll(fi.Decl.Body, func(nd ast.Node) bool {
			switch x := nd.(type) {
			case *ast.SelectorExpr:
				if fw.IsFieldSel(info, x, "ast", k, "Raw") {
					raw = true
					if rawAt == token.NoPos {
						rawAt = x.Pos()
					}
				}
				if fw.IsFieldSel(info, x, "ast", k, "Negative") {
					sign = true
				}
			case *ast.CallExpr:
				if fn := fw.Callee(info, x); fn != nil {
					if rawCarrier[k][fn] {
						raw = true
						if rawAt == token.NoPos {
							rawAt = x.Pos()
						}
					}
					if signReader[k][fn] {
						sign = true
					}
				}
			case *ast.CompositeLit:
				// a literal of the kind built with both fields is a copy, handled by the field selections on the right-hand sides
			}
			return true
		})
		return
	}
	readsFieldDirectly := func(fi *fw.FuncInfo, k string) bool {
		found := false
		info := fi.Info()
		fw.WalkAll(fi.Decl.Body, func(nd ast.Node) bool {
			if x, ok := nd.(*ast.SelectorExpr); ok && fw.IsFieldSel(info, x, "ast", k, "Raw") {
				found = true
			}
			return true
		})
		return found
	}
	for changed := true; changed; {
		changed = false
		for _, fi := range p.Funcs("ast") {
			sig := fi.Obj.Type().(*types.Signature)
			for _, k := range kinds {
				raw, sign, _ := reads(fi, k)
				if raw && !sign && isCarrierResult(fi.Obj) && !rawCarrier[k][fi.Obj] && readsFieldDirectly(fi, k) {
					rawCarrier[k][fi.Obj] = true
					changed = true
				}
				// an accessor of the sign: returns exactly one bool, reads the sign and not the digits
				if sign && !raw && sig.Results().Len() == 1 && types.Identical(sig.Results().At(0).Type(), types.Typ[types.Bool]) && !signReader[k][fi.Obj] {
					signReader[k][fi.Obj] = true
					changed = true
				}
			}
		}
	}
	n, generic := 0, 0
	for _, path := range p.LoadedPaths() {
		for _, fi := range p.FuncsOfPath(path) {
			for _, k := range kinds {
				if rawCarrier[k][fi.Obj] {
					continue
				}
				raw, sign, at := reads(fi, k)
				if !raw {
					continue
				}
				if !sign && isCarrierResult(fi.Obj) {
					// a carrier over several value kinds (ValueContentBytes): its callers know the kind, they are not tracked
					generic++
					continue
				}
				n++
				r.Check(sign, "C04-R16", fi.Name()+"/"+k+"-digits-read-with-the-sign", p.Pos(at), fi.Name()+" reads the digits of an "+k+" and its sign",
					fi.Name()+" reads the digits (Raw) of an "+k+" literal and never its sign (Negative): the function cannot tell n from -n — the Int range check on the digits alone rejects `{ arg(i: -2147483648) }`, the smallest Int, with \"Int cannot represent non 32-bit signed integer value\"")
			}
		}
	}
	r.Expect("C04-R16", "functions that read the digits of a number literal", n, 10)
	nc := 0
	for _, k := range kinds {
		nc += len(rawCarrier[k])
	}
	r.Note("C04-R16: %d raw-bytes carriers, %d carriers over several value kinds (their callers are not tracked), %d readers checked", nc, generic, n)
}

// c04ResponseShapeTablesMeet (R17): SameResponseShape compares every pair of fields with one response name under one path,
// whatever they return. The field selection merging rule records leaf fields and the others (enums, types with
// selections) in two tables. (a) An arm of the scalar / composite split that consults its own table only can never see a
// scalar next to an enum or an object (`{ dog { a: color a: name } }`): each arm reaches a read of both tables, directly or
// through a method of the visitor. (b) In the composite arm the if / else over "can the two returned types be the same
// object" compares the two field types in both arms — the one for different types too: list and non-null levels have to
// agree (`x: dogs` next to `x: cat`). The rule decides that the tables meet and that the types are looked at, not the
// comparison made.
func c04ResponseShapeTablesMeet(r *fw.Run) {
	p := r.Prog
	r.Rule("C04-R17", "in the field selection merging rule each arm of the scalar / composite split reaches a read of both requirement tables, and the composite arm compares the recorded and the current field type whether or not the returned types can be the same object")
	fi := p.Func("astvalidation", "fieldSelectionMergingVisitor.EnterField")
	if fi == nil {
		r.Error("C04-R17: fieldSelectionMergingVisitor.EnterField not found")
		return
	}
	info := fi.Info()
	// the tables: fields of the visitor whose type is a slice of structs
	tables := map[*types.Var]bool{}
	var tableNames []string
	if recv := fi.Obj.Type().(*types.Signature).Recv(); recv != nil {
		t := recv.Type()
		if pt, ok := t.(*types.Pointer); ok {
			t = pt.Elem()
		}
		if st, ok := t.Underlying().(*types.Struct); ok {
			for i := 0; i < st.NumFields(); i++ {
				if sl, isSl := st.Field(i).Type().Underlying().(*types.Slice); isSl {
					if _, isSt := sl.Elem().Underlying().(*types.Struct); isSt {
						tables[st.Field(i)] = true
						tableNames = append(tableNames, st.Field(i).Name())
					}
				}
			}
		}
	}
	r.Expect("C04-R17", "requirement tables of the visitor", len(tables), 2)
	// methods of the package that read a table
	readers := map[*types.Func]map[*types.Var]bool{}
	direct := func(f *fw.FuncInfo, n ast.Node) map[*types.Var]bool {
		out := map[*types.Var]bool{}
		finfo := f.Info()
		fw.WalkAll(n, func(nd ast.Node) bool {
			switch x := nd.(type) {
			case *ast.SelectorExpr:
				if v, _ := fw.Field(finfo, x); v != nil && tables[v] {
					out[v] = true
				}
			case *ast.CallExpr:
				if fn := fw.Callee(finfo, x); fn != nil {
					for v := range readers[fn] {
						out[v] = true
					}
				}
			}
			return true
		})
		return out
	}
	for changed := true; changed; {
		changed = false
		for _, g := range p.Funcs("astvalidation") {
			if g.Obj == fi.Obj {
				continue
			}
			got := direct(g, g.Decl.Body)
			if len(got) > len(readers[g.Obj]) {
				readers[g.Obj] = got
				changed = true
			}
		}
	}
	var split *ast.IfStmt
	fw.WalkAll(fi.Decl.Body, func(nd ast.Node) bool {
		is, ok := nd.(*ast.IfStmt)
		if !ok || split != nil {
			return true
		}
		a := fw.Atom(info, is.Cond, true)
		if (a.Kind == "Ne" || a.Kind == "Eq") && fw.ConstObj(info, a.Y) != nil && fw.ConstObj(info, a.Y).Name() == "NodeKindScalarTypeDefinition" {
			split = is
		}
		return true
	})
	if split == nil {
		r.Error("C04-R17: the scalar / composite split of EnterField was not found")
		return
	}
	inComposite := direct(fi, split.Body)
	inScalar := map[*types.Var]bool{}
	after := false
	for _, st := range fi.Decl.Body.List {
		if st == ast.Stmt(split) {
			after = true
			continue
		}
		if after {
			for v := range direct(fi, st) {
				inScalar[v] = true
			}
		}
	}
	if split.Else != nil {
		for v := range direct(fi, split.Else) {
			inScalar[v] = true
		}
	}
	sort.Strings(tableNames)
	for v := range tables {
		r.Check(inComposite[v], "C04-R17", fi.Name()+"/composite-arm-consults:"+v.Name(), p.Pos(split.Pos()), "the composite arm of "+fi.Name()+" reads the table "+v.Name(),
			"the arm of the field selection merging rule for enums and fields with selections never looks into "+v.Name()+": a field recorded there and this one never meet — `{ pet { ... on Dog { x: owner { name } } ... on Cat { x: name } } }` (an object next to a String under one response name) is admitted")
		r.Check(inScalar[v], "C04-R17", fi.Name()+"/scalar-arm-consults:"+v.Name(), p.Pos(split.End()), "the scalar arm of "+fi.Name()+" reads the table "+v.Name(),
			"the arm of the field selection merging rule for leaf fields never looks into "+v.Name()+": a field recorded there and this one never meet — `{ dog { a: color a: name } }` (an enum next to a String under one response name) is admitted")
	}
	// (b) the if / else over "can the returned types be the same object"
	isTypeRefOfRequirement := func(e ast.Expr) bool {
		v, _ := fw.Field(info, e)
		if v == nil {
			return false
		}
		_, isInt := v.Type().Underlying().(*types.Basic)
		return isInt && strings.Contains(strings.ToLower(v.Name()), "type") && v.Pkg() != nil && v.Pkg().Path() == fw.PkgPath("astvalidation")
	}
	comparesTypes := func(n ast.Node) bool {
		found := false
		fw.WalkAll(n, func(nd ast.Node) bool {
			if c, ok := nd.(*ast.CallExpr); ok && len(c.Args) >= 2 {
				for _, a := range c.Args {
					if isTypeRefOfRequirement(a) {
						found = true
					}
				}
			}
			return true
		})
		return found
	}
	var sameObj *ast.IfStmt
	fw.WalkAll(split.Body, func(nd ast.Node) bool {
		is, ok := nd.(*ast.IfStmt)
		if !ok || sameObj != nil || is.Else == nil {
			return true
		}
		hit := false
		fw.WalkAll(is.Cond, func(x ast.Node) bool {
			if c, isC := x.(*ast.CallExpr); isC {
				if fn := fw.Callee(info, c); fn != nil && fn.Name() == "potentiallySameObject" {
					for _, a := range c.Args {
						if v, _ := fw.Field(info, a); v != nil && strings.Contains(v.Name(), "TypeDefinitionNode") {
							hit = true
						}
					}
				}
			}
			return true
		})
		if hit {
			sameObj = is
		}
		return true
	})
	if sameObj == nil {
		r.Error("C04-R17: the if / else over potentiallySameObject(<type nodes>) was not found in the composite arm")
		return
	}
	r.Check(comparesTypes(sameObj.Body) && comparesTypes(sameObj.Else), "C04-R17", fi.Name()+"/types-compared-in-both-arms", p.Pos(sameObj.Pos()), "both arms of the same-object test on the returned types compare the recorded and the current field type",
		"one arm of the test \"can the two returned types be the same object\" never hands the recorded field type to a comparison: for two different object types the list / non-null levels are not compared — `{ pet { ... on Dog { x: dogs { name } } ... on Cat { x: cat { name } } } }` (`[Dog]` next to `Cat`) is admitted, as are two different enums")
}

// c04VariablesAndItemsMeetTheDeclaredType (R18): All Variable Usages Are Allowed / Values of Correct Type hold at every
// depth of a literal. (a) The Values rule has one level-by-level compatibility walk between a variable's type and the type
// of its location (the function R9 looks at). Wherever a function of the rule's visitor finds that a value is a variable
// (an arm under `Kind == ValueKindVariable`, as an if or as a switch clause), every exit of that arm returns the constant
// false or has passed a call of the walk, or of a function for which the same holds on all paths (least fixed point) — a
// comparison of the innermost type names alone admits `[Int]` where `Int` is expected. Only the boolean validators are
// looked at; the callback for a variable as the whole argument value reports and returns nothing. (b) Where such a function ranges
// over the items of a list literal, the type handed to the per-item check is exactly one OfType step below the function's
// type parameter: a second step strips the item type's non-null, and `[1, null]` passes for `[Int!]`.
func c04VariablesAndItemsMeetTheDeclaredType(r *fw.Run) {
	p := r.Prog
	r.Rule("C04-R18", "in the Values rule every arm that handles a variable passes, before any exit that does not return false, the level-by-level type compatibility walk (directly or through a callee that does on all paths); the type handed to the per-item check of a list literal is exactly one OfType step below the location's type")
	// the walks (as for R9): two int parameters, a loop that advances one of them through OfType
	isWalk := map[*types.Func]bool{}
	var visitorFuncs []*fw.FuncInfo
	for _, fi := range p.Funcs("astvalidation") {
		if fw.RecvNameOfFunc(fi.Obj) == "valuesVisitor" {
			visitorFuncs = append(visitorFuncs, fi)
		}
		info := fi.Info()
		sig := fi.Obj.Type().(*types.Signature)
		var refs []*types.Var
		for i := 0; i < sig.Params().Len(); i++ {
			if types.Identical(sig.Params().At(i).Type(), types.Typ[types.Int]) {
				refs = append(refs, sig.Params().At(i))
			}
		}
		if len(refs) < 2 {
			continue
		}
		fw.WalkAll(fi.Decl.Body, func(nd ast.Node) bool {
			loop, ok := nd.(*ast.ForStmt)
			if !ok {
				return true
			}
			fw.WalkAll(loop.Body, func(m ast.Node) bool {
				as, isAs := m.(*ast.AssignStmt)
				if !isAs || len(as.Lhs) != len(as.Rhs) {
					return true
				}
				for i, l := range as.Lhs {
					if id, isID := l.(*ast.Ident); isID {
						for _, pv := range refs {
							if info.ObjectOf(id) == pv {
								if fv, _ := fw.Field(info, as.Rhs[i]); fv != nil && fv.Name() == "OfType" {
									isWalk[fi.Obj] = true
								}
							}
						}
					}
				}
				return true
			})
			return true
		})
	}
	nWalks := 0
	for fn := range isWalk {
		if fw.RecvNameOfFunc(fn) == "valuesVisitor" {
			nWalks++
		}
	}
	r.Expect("C04-R18", "level-by-level type compatibility walks of the Values visitor", nWalks, 1)
	mustWalk := map[*types.Func]bool{}
	isVariableConst := func(info *types.Info, e ast.Expr) bool {
		c := fw.ConstObj(info, e)
		return c != nil && c.Name() == "ValueKindVariable"
	}
	type armExit struct {
		pos token.Pos
		ok  bool
	}
	analyse := func(fi *fw.FuncInfo) (allExitsOK bool, arms []armExit) {
		info := fi.Info()
		allExitsOK = true
		in := fw.NewInterp(fi)
		in.H = fw.Hooks{
			Lit: func(l *ast.FuncLit, ctx fw.LitCtx, st *fw.State) fw.LitMode { return fw.LitSkip },
			Cond: func(e ast.Expr, branch bool, st *fw.State) {
				a := fw.Atom(info, e, branch)
				if a.Kind == "Eq" && isVariableConst(info, a.Y) {
					st.Set("variable-arm")
				}
			},
			Case: func(tag ast.Expr, vals []ast.Expr, match bool, st *fw.State) {
				if !match {
					return
				}
				for _, v := range vals {
					if isVariableConst(info, v) {
						st.Set("variable-arm")
					}
				}
			},
			Node: func(nd ast.Node, st *fw.State) {
				if c, ok := nd.(*ast.CallExpr); ok {
					if fn := fw.Callee(info, c); fn != nil && (isWalk[fn] || mustWalk[fn]) {
						st.Set("walked")
					}
				}
			},
			Exit: func(ret *ast.ReturnStmt, lit *ast.FuncLit, st *fw.State) {
				if lit != nil || !in.Final() {
					return
				}
				ok := st.Must("walked")
				if !ok && ret != nil && len(ret.Results) == 1 {
					if v, isConst := fw.ConstVal(info, ret.Results[0]); isConst && v == "false" {
						ok = true
					}
				}
				if !ok {
					allExitsOK = false
				}
				if st.Must("variable-arm") {
					pos := fi.Decl.End()
					if ret != nil {
						pos = ret.Pos()
					}
					arms = append(arms, armExit{pos, ok})
				}
			},
		}
		in.Run(nil)
		return
	}
	for changed := true; changed; {
		changed = false
		for _, fi := range visitorFuncs {
			if mustWalk[fi.Obj] || isWalk[fi.Obj] {
				continue
			}
			if ok, _ := analyse(fi); ok {
				mustWalk[fi.Obj] = true
				changed = true
			}
		}
	}
	nArms := 0
	for _, fi := range visitorFuncs {
		if sig := fi.Obj.Type().(*types.Signature); sig.Results().Len() != 1 || !types.Identical(sig.Results().At(0).Type(), types.Typ[types.Bool]) {
			// the visitor callbacks (EnterArgument: a variable as the whole argument value) report and return nothing; not decided here
			continue
		}
		_, arms := analyse(fi)
		if len(arms) == 0 {
			continue
		}
		nArms++
		bad := token.NoPos
		for _, a := range arms {
			if !a.ok && (bad == token.NoPos || a.pos < bad) {
				bad = a.pos
			}
		}
		at := p.Pos(fi.Decl.Pos())
		if bad != token.NoPos {
			at = p.Pos(bad)
		}
		r.Check(bad == token.NoPos, "C04-R18", fi.Name()+"/variable-arm-walks-the-type", at, "every exit of the variable arm of "+fi.Name()+" has compared the variable's type with the location's, level by level (or returns false)",
			fi.Name()+" leaves its variable arm without the level-by-level type comparison: a variable inside a list or input object literal is then admitted by the name of its innermost type, or by its default value alone — `query($a: [Int]) { arg(list: [$a]) }` (`[Int]` where `Int` is expected), `query($a: String = \"x\") { arg(in: {id: $a}) }` (String where ID is expected) pass validation")
	}
	r.Expect("C04-R18", "functions of the Values visitor with a variable arm", nArms, 5)
	// (b) list items
	nLoops := 0
	for _, fi := range visitorFuncs {
		info := fi.Info()
		sig := fi.Obj.Type().(*types.Signature)
		depth := map[types.Object]int{}
		for i := 0; i < sig.Params().Len(); i++ {
			if types.Identical(sig.Params().At(i).Type(), types.Typ[types.Int]) {
				depth[sig.Params().At(i)] = 0
			}
		}
		// OfType depth of the locals, flow-insensitive, maximum over their assignments (capped)
		ofTypeOf := func(e ast.Expr) (types.Object, bool) {
			fv, sel := fw.Field(info, e)
			if fv == nil || fv.Name() != "OfType" {
				return nil, false
			}
			ix, ok := ast.Unparen(sel.X).(*ast.IndexExpr)
			if !ok {
				return nil, false
			}
			id, ok := ast.Unparen(ix.Index).(*ast.Ident)
			if !ok {
				return nil, false
			}
			return info.ObjectOf(id), true
		}
		for round := 0; round < 4; round++ {
			fw.WalkAll(fi.Decl.Body, func(nd ast.Node) bool {
				as, ok := nd.(*ast.AssignStmt)
				if !ok || len(as.Lhs) != len(as.Rhs) {
					return true
				}
				for i, l := range as.Lhs {
					id, isID := l.(*ast.Ident)
					if !isID {
						continue
					}
					if src, isOf := ofTypeOf(as.Rhs[i]); isOf {
						if d, known := depth[src]; known && d+1 > depth[info.ObjectOf(id)] && d < 3 {
							depth[info.ObjectOf(id)] = d + 1
						}
					}
				}
				return true
			})
		}
		fw.WalkAll(fi.Decl.Body, func(nd ast.Node) bool {
			rs, ok := nd.(*ast.RangeStmt)
			if !ok {
				return true
			}
			fv, sel := fw.Field(info, rs.X)
			if fv == nil || fv.Name() != "Refs" {
				return true
			}
			if _, tn := fw.FieldOwner(info, sel); tn != "ListValue" {
				return true
			}
			fw.WalkAll(rs.Body, func(m ast.Node) bool {
				c, isC := m.(*ast.CallExpr)
				if !isC {
					return true
				}
				fn := fw.Callee(info, c)
				if fn == nil || fw.RecvNameOfFunc(fn) != "valuesVisitor" {
					return true
				}
				for _, a := range c.Args {
					id, isID := ast.Unparen(a).(*ast.Ident)
					if !isID {
						continue
					}
					d, known := depth[info.ObjectOf(id)]
					if !known || d == 0 {
						continue
					}
					nLoops++
					r.Check(d == 1, "C04-R18", fi.Name()+"/items-held-to-the-declared-item-type", p.Pos(c.Pos()), "the type handed to the per-item check in "+fi.Name()+" is one OfType step below the list type",
						"the type handed to the per-item check has been advanced through OfType more than once ("+id.Name+"): the item type's non-null is stripped before the items are looked at — `{ arg(nn: [1, null]) }` and `query($a: Int) { arg(nn: [$a]) }` pass validation for `nn: [Int!]`")
				}
				return true
			})
			return true
		})
	}
	r.Expect("C04-R18", "per-item checks of list literals in the Values visitor", nLoops, 1)
}

// c04NameLookupsRespectTheTwoNamespaces (R19): types and directives live in different namespaces — `directive @Role` next to
// `type Role` is a valid schema — but the parser registers directive definitions in the document's name index under their
// bare name. A lookup that returns "the first node of that name" without looking at its kind answers with the directive
// where a type is meant (`{ role { a } }` rejected with an internal error) or with the type where a directive is meant
// (`@Role` reported undefined), depending on the order of the two definitions (an information argument: the lookup cannot
// tell them apart without reading the kind). Rule: (a) every method of ast.Index that returns one ast.Node mentions
// NodeKindDirectiveDefinition, directly or through a function of the package it calls; (b) where a validation rule compares
// the kind of a node obtained from an Index lookup with NodeKindDirectiveDefinition — it wants a directive — the lookup it
// called returns a node only under an equality test with that kind.
func c04NameLookupsRespectTheTwoNamespaces(r *fw.Run) {
	p := r.Prog
	r.Rule("C04-R19", "every ast.Index method that returns one node reads NodeKindDirectiveDefinition (directly or through a helper); a validation rule that wants a directive definition looks it up with a method that selects directive definitions")
	mentionsDD := func(fi *fw.FuncInfo) (mentions, selects bool) {
		info := fi.Info()
		fw.WalkAll(fi.Decl.Body, func(nd ast.Node) bool {
			if b, ok := nd.(*ast.BinaryExpr); ok {
				for _, e := range []ast.Expr{b.X, b.Y} {
					if k := fw.ConstObj(info, e); k != nil && k.Name() == "NodeKindDirectiveDefinition" {
						mentions = true
						if b.Op == token.EQL {
							selects = true
						}
					}
				}
			}
			if cc, ok := nd.(*ast.CaseClause); ok {
				for _, e := range cc.List {
					if k := fw.ConstObj(info, e); k != nil && k.Name() == "NodeKindDirectiveDefinition" {
						mentions = true
					}
				}
			}
			return true
		})
		return
	}
	nA := 0
	for _, fi := range p.Funcs("ast") {
		if fw.RecvNameOfFunc(fi.Obj) != "Index" {
			continue
		}
		sig := fi.Obj.Type().(*types.Signature)
		if sig.Results().Len() != 2 {
			continue
		}
		nt, ok := sig.Results().At(0).Type().(*types.Named)
		if !ok || nt.Obj().Name() != "Node" || !types.Identical(sig.Results().At(1).Type(), types.Typ[types.Bool]) {
			continue
		}
		nA++
		okA, _ := mentionsDD(fi)
		if !okA {
			info := fi.Info()
			fw.WalkAll(fi.Decl.Body, func(nd ast.Node) bool {
				if c, isC := nd.(*ast.CallExpr); isC {
					if g := p.FuncOf(fw.Callee(info, c)); g != nil && g.Obj.Pkg() == fi.Obj.Pkg() {
						if m, _ := mentionsDD(g); m {
							okA = true
						}
					}
				}
				return true
			})
		}
		r.Check(okA, "C04-R19", fi.Name()+"/lookup-knows-directive-definitions", p.Pos(fi.Decl.Pos()), fi.Name()+" reads NodeKindDirectiveDefinition before it answers with one node",
			fi.Name()+" answers with a node registered under the name without looking whether it is a directive definition: `directive @Role on FIELD  type Role { a: String }  type Query { role: Role }` — `{ role { a } }` is rejected with `internal: … field: a selection on type: Role unhandled` because the lookup of type Role found the directive; with the two definitions in the other order `{ role @Role { a } }` is rejected with `directive: Role undefined`")
	}
	r.Expect("C04-R19", "ast.Index methods that return one node", nA, 3)
	nB := 0
	for _, fi := range p.Funcs("astvalidation") {
		info := fi.Info()
		from := map[types.Object]*ast.CallExpr{}
		fw.WalkAll(fi.Decl.Body, func(nd ast.Node) bool {
			as, ok := nd.(*ast.AssignStmt)
			if !ok || len(as.Rhs) != 1 || len(as.Lhs) != 2 {
				return true
			}
			c, isC := ast.Unparen(as.Rhs[0]).(*ast.CallExpr)
			if !isC {
				return true
			}
			if fn := fw.Callee(info, c); fn == nil || fw.RecvNameOfFunc(fn) != "Index" {
				return true
			}
			if id, isID := as.Lhs[0].(*ast.Ident); isID {
				from[info.ObjectOf(id)] = c
			}
			return true
		})
		if len(from) == 0 {
			continue
		}
		fw.WalkAll(fi.Decl.Body, func(nd ast.Node) bool {
			b, ok := nd.(*ast.BinaryExpr)
			if !ok || (b.Op != token.EQL && b.Op != token.NEQ) {
				return true
			}
			for i, e := range []ast.Expr{b.X, b.Y} {
				k := fw.ConstObj(info, e)
				if k == nil || k.Name() != "NodeKindDirectiveDefinition" {
					continue
				}
				other := b.Y
				if i == 1 {
					other = b.X
				}
				sel, isSel := ast.Unparen(other).(*ast.SelectorExpr)
				if !isSel || sel.Sel.Name != "Kind" {
					continue
				}
				id, isID := ast.Unparen(sel.X).(*ast.Ident)
				if !isID {
					continue
				}
				call := from[info.Uses[id]]
				if call == nil {
					continue
				}
				nB++
				g := p.Func("ast", fw.FuncName(fw.Callee(info, call)))
				selects := false
				if g != nil {
					_, selects = mentionsDD(g)
				}
				r.Check(selects, "C04-R19", fi.Name()+"/directive-looked-up-among-directives", p.Pos(call.Pos()), fi.Name()+" looks the directive definition up with a method that selects directive definitions",
					fi.Name()+" wants a directive definition (it compares the node's kind with NodeKindDirectiveDefinition) but asks a lookup that does not select by that kind: with `type Role` declared before `directive @Role`, `{ role @Role { a } }` is rejected with `directive: Role undefined`")
			}
			return true
		})
	}
	r.Expect("C04-R19", "validation rules that want a directive definition from the index", nB, 2)
}
