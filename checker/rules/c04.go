package rules

import (
	"go/ast"
	"go/types"
	"strings"

	"verif/checker/fw"
)

const (
	opValidationGo = "v2/pkg/astvalidation/operation_validation.go"
	execEngineGo   = "execution/engine/execution_engine.go"
	gqlValidateGo  = "execution/graphql/validation.go"
)

func init() {
	Registry["C04"] = Spec{
		Pkgs: map[string][]string{"v2": {"astvalidation", "astvisitor", "ast", "astnorm"}, "execution": {"engine", "graphql"}},
		Run:  runC04,
		Explanation: "Decides the structural half of 'the admission sequence accepts exactly the spec-valid operations': every operation rule the package offers is registered in DefaultOperationValidator (or is one of four frozen, reasoned exceptions); every callback a validation visitor implements is registered with the walker (no dead rule code) and per-walk state of reusable rule visitors is reset when a document is entered; " +
			"ExecutionEngine.Execute reaches planning only through the success edges of normalization (when needed), then of ValidateForSchema (err == nil ∧ Valid), and reaches the resolver only when planning reported no error; ValidateForSchema validates with DefaultOperationValidator and the validator reports Invalid whenever the report has errors. " +
			"It does not decide accept ⇔ spec-valid for all documents (that is the rules' own logic).",
		Mutants: []Mutant{
			{Name: "Walker no longer visits the directives of a schema definition (never validated)", File: "v2/pkg/astvisitor/visitor.go", Rule: "C04-R5", Key: "walker-siblings/walkSchemaDefinition",
				Old: "\tif w.document.SchemaDefinitions[ref].HasDirectives {\n\t\tfor _, i := range w.document.SchemaDefinitions[ref].Directives.Refs {\n\t\t\tw.walkDirective(i, skipFor)", New: "\tif false {\n\t\tfor _, i := range []int{} {\n\t\t\tw.walkDirective(i, skipFor)"},
			{Name: "validation memo ignores the validator options (seeded change C04-13)", File: gqlValidateGo, Rule: "C04-R4", Key: "memo-only-without-options",
				Old: "\tif useCache {\n\t\tr.validForSchema[schemaHash] = result\n\t}\n", New: "\tr.validForSchema[schemaHash] = result\n"},
			{Name: "KnownArguments rule dropped from the default validator", File: opValidationGo, Rule: "C04-R1", Key: "KnownArguments",
				Old: "\tvalidator.RegisterRule(KnownArguments())\n", New: ""},
			{Name: "new operation rule offered but not registered", File: "v2/pkg/astvalidation/operation_rule_variable_uniqueness.go", Rule: "C04-R1", Key: "VariableUniquenessStrict",
				Old: "func VariableUniqueness() Rule {", New: "func VariableUniquenessStrict() Rule { return VariableUniqueness() }\n\nfunc VariableUniqueness() Rule {"},
			{Name: "argument callback of AllVariablesUsed no longer registered", File: "v2/pkg/astvalidation/operation_rule_all_variables_used.go", Rule: "C04-R2", Key: "wiring/allVariablesUsedVisitor.EnterArgument",
				Old: "\t\twalker.RegisterEnterArgumentVisitor(&visitor)\n", New: ""},
			{Name: "pending-variables list of AllVariablesUsed no longer reset per document", File: "v2/pkg/astvalidation/operation_rule_all_variables_used.go", Rule: "C04-R2", Key: "state-reset/allVariablesUsedVisitor.variableDefinitions",
				Old: "\ta.variableDefinitions = a.variableDefinitions[:0]\n}", New: "}"},
			{Name: "pending-variables list reset moved to the Leave callback (skipped by a stopped walk; seeded change C04-2)", File: "v2/pkg/astvalidation/operation_rule_all_variables_used.go", Rule: "C04-R2", Key: "state-reset/allVariablesUsedVisitor.variableDefinitions",
				Old: "\ta.variableDefinitions = a.variableDefinitions[:0]\n}", New: "}\n\nfunc (a *allVariablesUsedVisitor) LeaveDocument(operation, definition *ast.Document) {\n\ta.variableDefinitions = a.variableDefinitions[:0]\n}"},
			{Name: "plan cache consulted before validation", File: execEngineGo, Rule: "C04-R3", Key: "getCachedPlan",
				Old: "\tif result, err := operation.ValidateForSchema(e.config.schema, e.validationOptions...); err != nil {\n\t\treturn err\n\t} else if !result.Valid {\n\t\treturn result.Errors\n\t}\n",
				New: "\tif result, err := operation.ValidateForSchema(e.config.schema, e.validationOptions...); err != nil {\n\t\treturn err\n\t} else if !result.Valid && len(options) == 0 {\n\t\treturn result.Errors\n\t}\n"},
			{Name: "normalization failure ignored", File: execEngineGo, Rule: "C04-R3", Key: "normalized",
				Old: "\t\tif err != nil {\n\t\t\treturn err\n\t\t} else if !result.Successful {\n\t\t\treturn result.Errors\n\t\t}\n\t\tnormalize = true\n", New: "\t\tif err != nil {\n\t\t\treturn err\n\t\t}\n\t\t_ = result\n\t\tnormalize = true\n"},
			{Name: "planning errors ignored before resolving", File: execEngineGo, Rule: "C04-R3", Key: "planned",
				Old: "\tcachedPlan, costCalculator := e.getCachedPlan(execContext, operation.Document(), e.config.schema.Document(), operation.OperationName, &report)\n\tif report.HasErrors() {\n\t\treturn report\n\t}\n",
				New: "\tcachedPlan, costCalculator := e.getCachedPlan(execContext, operation.Document(), e.config.schema.Document(), operation.OperationName, &report)\n"},
			{Name: "validator reports Valid although the report has errors", File: opValidationGo, Rule: "C04-R4", Key: "Validate",
				Old: "\tif report.HasErrors() {\n\t\treturn Invalid\n\t}\n\treturn Valid\n}", New: "\tif report.HasErrors() && len(report.InternalErrors) > 0 {\n\t\treturn Invalid\n\t}\n\treturn Valid\n}"},
			{Name: "definition node looked up in the operation document (reverts the F27 fix)", File: "v2/pkg/astvalidation/operation_rule_validate_field_selections.go", Rule: "C04-R6", Key: "fieldDefined.EnterField/Document.NodeNameBytes",
				Old: "typeName := f.definition.NodeNameBytes(f.EnclosingTypeDefinition)", New: "typeName := f.operation.NodeNameBytes(f.EnclosingTypeDefinition)"},
			{Name: "union name resolved in the operation document", File: "v2/pkg/astvalidation/operation_rule_validate_field_selections.go", Rule: "C04-R6", Key: "fieldDefined.ValidateUnionField/Document.NodeNameBytes",
				Old: "unionName := f.definition.NodeNameBytes(enclosingTypeDefinition)", New: "unionName := f.operation.NodeNameBytes(enclosingTypeDefinition)"},
			{Name: "Int values compare equal regardless of their sign (seeded change C04-21)", File: "v2/pkg/ast/ast_val_int_value.go", Rule: "C04-R7", Key: "copy-equal/IntValue.Negative",
				Old: "\treturn d.IntValueIsNegative(left) == d.IntValueIsNegative(right) &&\n\t\tbytes.Equal(d.IntValueRaw(left), d.IntValueRaw(right))", New: "\treturn bytes.Equal(d.IntValueRaw(left), d.IntValueRaw(right))"},
			{Name: "ValidateForSchema built from a hand-picked rule list", File: gqlValidateGo, Rule: "C04-R4", Key: "ValidateForSchema",
				Old: "\tvalidator := astvalidation.DefaultOperationValidator(options...)\n", New: "\tvalidator := astvalidation.NewOperationValidator([]astvalidation.Rule{astvalidation.FieldSelections(), astvalidation.Values()})\n\t_ = options\n"},
		},
	}
}

func runC04(r *fw.Run) {
	p := r.Prog
	pk := p.Pkg("astvalidation")
	if pk == nil {
		r.Error("package astvalidation not loaded")
		return
	}
	info := pk.TypesInfo

	// ---- R1 rule registry ------------------------------------------------------------------------
	r.Rule("C04-R1", "every operation rule constructor of package astvalidation (a function returning Rule that the definition validator does not use) is registered in DefaultOperationValidator, or is a frozen exception")
	ruleT := p.Named("astvalidation", "Rule")
	if ruleT == nil {
		r.Error("C04-R1: type astvalidation.Rule not found")
		return
	}
	exceptions := map[string]string{
		"DeferStreamOnValidOperations":  "defer/stream pre-validation rule: registered by the engine through astnormalization.WithPrevalidationRules (checked below)",
		"DeferStreamHaveUniqueLabels":   "defer/stream pre-validation rule: registered by the engine through astnormalization.WithPrevalidationRules (checked below)",
		"StreamAppliedToListFieldsOnly": "defer/stream pre-validation rule: registered by the engine through astnormalization.WithPrevalidationRules (checked below)",
		"ValidateEmptySelectionSets":    "only meaningful for planner-generated upstream operations (used by graphql_datasource), client operations cannot have empty selection sets after parsing",
	}
	registeredIn := func(fn string) map[string]bool {
		out := map[string]bool{}
		fi := p.Func("astvalidation", fn)
		if fi == nil {
			r.Error("C04-R1: %s not found", fn)
			return out
		}
		fw.WalkAll(fi.Decl.Body, func(n ast.Node) bool {
			c, ok := n.(*ast.CallExpr)
			if !ok {
				return true
			}
			if callee := fw.Callee(info, c); callee != nil && callee.Pkg() == pk.Types {
				if sig := callee.Type().(*types.Signature); sig.Results().Len() == 1 && types.Identical(sig.Results().At(0).Type(), ruleT) {
					out[callee.Name()] = true
				}
			}
			return true
		})
		return out
	}
	opRules := registeredIn("DefaultOperationValidator")
	defRules := registeredIn("DefaultDefinitionValidator")
	r.Expect("C04-R1", "rules registered in DefaultOperationValidator", len(opRules), 18)
	nCtor := 0
	for _, fi := range p.Funcs("astvalidation") {
		if fi.Decl.Recv != nil || !fi.Obj.Exported() {
			continue
		}
		sig := fi.Obj.Type().(*types.Signature)
		if sig.Results().Len() != 1 || !types.Identical(sig.Results().At(0).Type(), ruleT) {
			continue
		}
		name := fi.Obj.Name()
		if defRules[name] && !opRules[name] {
			continue // a definition (schema) rule
		}
		nCtor++
		if why, ok := exceptions[name]; ok {
			r.Pass("C04-R1", "registry/"+name, fi.Pos(), "operation rule "+name+" (exempt: "+why+")", false)
			continue
		}
		r.Check(opRules[name], "C04-R1", "registry/"+name, fi.Pos(), "operation rule "+name+" is registered in DefaultOperationValidator",
			"the rule constructor exists but DefaultOperationValidator does not register it: operations violating this spec rule are accepted (per-rule unit tests build their own validator and keep passing)")
	}
	r.Expect("C04-R1", "operation rule constructors", nCtor, 22)
	// the engine registers the three pre-validation rules
	if eng := p.Func("engine", "ExecutionEngine.Execute"); eng == nil {
		r.Error("C04-R1: ExecutionEngine.Execute not found")
	} else {
		einfo := eng.Info()
		got := map[string]bool{}
		fw.WalkAll(eng.Decl.Body, func(n ast.Node) bool {
			c, ok := n.(*ast.CallExpr)
			if !ok {
				return true
			}
			if fn := fw.Callee(einfo, c); fn != nil && fn.Name() == "WithPrevalidationRules" {
				for _, a := range c.Args {
					if ac, ok := ast.Unparen(a).(*ast.CallExpr); ok {
						if af := fw.Callee(einfo, ac); af != nil {
							got[af.Name()] = true
						}
					}
				}
			}
			return true
		})
		for _, name := range []string{"DeferStreamOnValidOperations", "DeferStreamHaveUniqueLabels", "StreamAppliedToListFieldsOnly"} {
			r.Check(got[name], "C04-R1", "engine-prevalidation/"+name, eng.Pos(), "the engine registers "+name+" as a pre-validation rule",
				"the rule is exempt from the default validator because the engine registers it before normalization — but it no longer does: invalid @defer/@stream usage is accepted")
		}
	}

	// ---- R2 wiring and state reset ------------------------------------------------------------------
	r.Rule("C04-R2", "every astvisitor callback a validation visitor implements is registered with the walker; slice/map state a rule visitor accumulates during the walk is reset in EnterDocument")
	wiringObligations(r, "C04-R2", "astvalidation", nil)
	visitorStateReset(r, "C04-R2", "astvalidation", map[string]string{})
	// the admission sequence starts with normalization: a pooled normalizer that carries state over admits (or rejects)
	// an operation depending on the previous one
	visitorStateReset(r, "C04-R2", "astnorm", map[string]string{})

	r.Rule("C04-R5", "the tree walker that drives validation/normalization (astvisitor.Walker) and the one that drives the printer (SimpleWalker) descend into the same children of every node kind")
	walkerSiblings(r, "C04-R5")

	r.Rule("C04-R6", "in every validation rule a node is looked up only in the document it came from: a definition node (Walker.EnclosingTypeDefinition, TypeDefinitions, a lookup in the definition) is never handed to a method of the operation document, nor the other way round")
	documentProvenance(r, "C04-R6", []string{"astvalidation"}, 19)

	r.Rule("C04-R7", "the value/argument/directive equalities that field-merge validation relies on read every field the matching Copy function treats as content of the node (positions are not content; four frozen, reasoned exceptions)")
	copyEqualAgreement(r, "C04-R7", 12)

	r.Rule("C04-R8", "in the validation rules the ref of an ast.Value is handed to an accessor of kind K only where the value's kind is known to be K (the rules run on operations that are not yet known to be valid)")
	nKR := kindRefAgreement(r, "C04-R8", []string{"astvalidation"}, nil)
	r.Expect("C04-R8", "kind-specific uses of a value's ref in astvalidation", nKR, 10)

	// ---- R3 admission sequence --------------------------------------------------------------------
	r.Rule("C04-R3", "ExecutionEngine.Execute plans only after normalization succeeded (when needed) and then ValidateForSchema returned err == nil ∧ Valid; it resolves only when planning reported no error")
	engineAdmission(r, "C04-R3", false)

	// ---- R4 verdict -----------------------------------------------------------------------------
	r.Rule("C04-R4", "OperationValidator.Validate returns Invalid whenever the report has errors; Request.ValidateForSchema validates with DefaultOperationValidator and reports parse errors as invalid")
	if fi := p.Func("astvalidation", "OperationValidator.Validate"); fi == nil {
		r.Error("C04-R4: OperationValidator.Validate not found")
	} else {
		g := fw.NewGuards(info, fw.GuardSpec{Name: "no-errors", Match: func(_ *types.Info, a fw.CondAtom) bool {
			if a.Kind != "False" {
				return false
			}
			c, ok := ast.Unparen(a.X).(*ast.CallExpr)
			return ok && fw.CallIs(info, c, "opreport", "Report.HasErrors")
		}})
		n := 0
		walked := false
		in := fw.NewInterp(fi)
		in.H = fw.Hooks{Cond: g.Cond, Node: func(nd ast.Node, st *fw.State) {
			if c, ok := nd.(*ast.CallExpr); ok && fw.CallIs(info, c, "astvisitor", "Walker.Walk") {
				st.Set("walked")
				st.Kill("g:no-errors")
				walked = true
			}
		},
			Exit: func(ret *ast.ReturnStmt, lit *ast.FuncLit, st *fw.State) {
				if ret == nil || !in.Final() || len(ret.Results) != 1 {
					return
				}
				c := fw.ConstObj(info, ret.Results[0])
				if c == nil || c.Name() != "Valid" {
					return
				}
				n++
				r.Check(st.Must("walked") && g.Has(st, "no-errors"), "C04-R4", fi.Name()+"/valid-only-without-errors", p.Pos(ret.Pos()), "Validate returns Valid only after the walk, on the false edge of report.HasErrors()",
					"Valid is returned on a path where the report may hold errors (or before the rules ran): an operation a rule rejected is admitted")
			}}
		in.Run(nil)
		r.Expect("C04-R4", "Valid returns of Validate", n, 1)
		r.Check(walked, "C04-R4", fi.Name()+"/walks", fi.Pos(), "Validate runs the walker", "the walker is never run")
	}
	if fi := p.Func("graphql", "Request.ValidateForSchema"); fi == nil {
		r.Error("C04-R4: graphql.Request.ValidateForSchema not found")
	} else {
		ginfo := fi.Info()
		usesDefault, otherCtor := false, ""
		validated := false
		fw.WalkAll(fi.Decl.Body, func(n ast.Node) bool {
			c, ok := n.(*ast.CallExpr)
			if !ok {
				return true
			}
			fn := fw.Callee(ginfo, c)
			if fn == nil {
				return true
			}
			if fw.FuncIs(fn, "astvalidation", "DefaultOperationValidator") {
				usesDefault = true
			}
			if fw.FuncIs(fn, "astvalidation", "NewOperationValidator") {
				otherCtor = fn.Name()
			}
			if fw.FuncIs(fn, "astvalidation", "OperationValidator.Validate") {
				validated = true
			}
			return true
		})
		r.Check(usesDefault && otherCtor == "" && validated, "C04-R4", fi.Name()+"/uses-default-validator", fi.Pos(), "ValidateForSchema validates with astvalidation.DefaultOperationValidator",
			"the request is validated with a hand-assembled rule list ("+otherCtor+") instead of the default validator: spec rules are silently missing from admission")

		// the per-request memo is keyed by the schema hash only: it may be consulted and filled only when no validator
		// options were given (added after a seeded change removed that guard: a verdict computed under relaxed options was
		// returned for the default options, and vice versa)
		sig := fi.Obj.Type().(*types.Signature)
		var opts *types.Var
		if sig.Variadic() {
			opts = sig.Params().At(sig.Params().Len() - 1)
		}
		isNoOpts := func(e ast.Expr) bool {
			a := fw.Atom(ginfo, e, true) // any spelling of len(options) == 0
			if a.Kind != "Empty" {
				return false
			}
			id, ok := ast.Unparen(a.X).(*ast.Ident)
			return ok && opts != nil && ginfo.Uses[id] == opts
		}
		flags := map[types.Object]bool{}
		fw.WalkAll(fi.Decl.Body, func(n ast.Node) bool {
			if as, ok := n.(*ast.AssignStmt); ok && len(as.Lhs) == len(as.Rhs) {
				for i, l := range as.Lhs {
					if id, ok := l.(*ast.Ident); ok && isNoOpts(as.Rhs[i]) {
						if o := ginfo.Defs[id]; o != nil {
							flags[o] = true
						}
					}
				}
			}
			return true
		})
		nMemo := 0
		in := fw.NewInterp(fi)
		in.H = fw.Hooks{
			Cond: func(e ast.Expr, branch bool, st *fw.State) {
				if !branch {
					return
				}
				if isNoOpts(e) {
					st.Set("no-options")
				}
				if id, ok := ast.Unparen(e).(*ast.Ident); ok && flags[ginfo.Uses[id]] {
					st.Set("no-options")
				}
			},
			Node: func(n ast.Node, st *fw.State) {
				ix, ok := n.(*ast.IndexExpr)
				if as, isAs := n.(*ast.AssignStmt); isAs { // a store: the interpreter delivers the statement, not its left-hand side
					for _, l := range as.Lhs {
						if lx, isIx := ast.Unparen(l).(*ast.IndexExpr); isIx {
							ix, ok = lx, true
						}
					}
				}
				if !ok || !fw.IsFieldSel(ginfo, ix.X, "graphql", "Request", "validForSchema") || !in.Final() {
					return
				}
				nMemo++
				// a key that is computed from the options would do as well
				keyFromOpts := false
				if opts != nil {
					d := fw.NewPureDeriver(fi)
					keyFromOpts = d.Derives(ix.Index, func(e ast.Expr) bool {
						id, ok := e.(*ast.Ident)
						return ok && ginfo.Uses[id] == opts
					})
				}
				r.Check(opts == nil || st.Must("no-options") || keyFromOpts, "C04-R4", fi.Name()+"/memo-only-without-options", p.Pos(ix.Pos()), "the validation memo of the request is used only when no validator options are given (or its key covers them)",
					"the memo is keyed by the schema hash alone but is read/written for a validation with options: the verdict computed under one set of validator options (e.g. relaxed nullability) is returned for another — a spec-invalid operation is accepted, or a valid one rejected, depending on what was validated before")
			},
		}
		in.Run(nil)
		r.Expect("C04-R4", "accesses of the validation memo", nMemo, 2)
	}
}

// engineAdmission checks ExecutionEngine.Execute. withVariables adds the variables gate (C06-R3).
func engineAdmission(r *fw.Run, rule string, withVariables bool) {
	p := r.Prog
	fi := p.Func("engine", "ExecutionEngine.Execute")
	if fi == nil {
		r.Error("%s: ExecutionEngine.Execute not found", rule)
		return
	}
	info := fi.Info()
	fieldOfCallResult := func(a fw.CondAtom, kind, callee string, idx int, field string) bool {
		if a.Kind != kind {
			return false
		}
		sel, ok := ast.Unparen(a.X).(*ast.SelectorExpr)
		if !ok || sel.Sel.Name != field {
			return false
		}
		id, ok := ast.Unparen(sel.X).(*ast.Ident)
		return ok && fw.VarFromCall(fi, info.Uses[id], id.Pos(), "graphql", callee, idx)
	}
	var normalizeObj types.Object
	fw.WalkAll(fi.Decl.Body, func(n ast.Node) bool {
		as, ok := n.(*ast.AssignStmt)
		if !ok || len(as.Lhs) != 1 || len(as.Rhs) != 1 || normalizeObj != nil {
			return true
		}
		if mentionsCall(info, as.Rhs[0], "graphql", "Request.IsNormalized") {
			normalizeObj = fw.RootObj(info, as.Lhs[0])
		}
		return true
	})
	nPlan, nResolve, nValidate := 0, 0, 0
	in := fw.NewInterp(fi)
	in.H = fw.Hooks{
		Cond: func(e ast.Expr, branch bool, st *fw.State) {
			a := fw.Atom(info, e, branch)
			if id, ok := ast.Unparen(e).(*ast.Ident); ok && normalizeObj != nil && info.Uses[id] == normalizeObj && !branch && !st.May("renormalize-flag-set") {
				st.Set("norm-ok") // already normalized
			}
			if fieldOfCallResult(a, "True", "Request.Normalize", 0, "Successful") && !st.May("validated") {
				st.Set("norm-ok")
			}
			if fieldOfCallResult(a, "True", "Request.ValidateForSchema", 0, "Valid") {
				st.Set("valid")
			}
			if a.Kind == "Nil" {
				if id, ok := ast.Unparen(a.X).(*ast.Ident); ok {
					if fw.VarFromCall(fi, info.Uses[id], id.Pos(), "graphql", "Request.ValidateForSchema", 1) {
						st.Set("validate-no-error")
					}
					if fw.VarFromCall(fi, info.Uses[id], id.Pos(), "varsvalidation", "VariablesValidator.ValidateWithRemap", 0) || fw.VarFromCall(fi, info.Uses[id], id.Pos(), "varsvalidation", "VariablesValidator.Validate", 0) {
						st.Set("vars-ok")
					}
				}
			}
			// There is no edge that may skip the variables validator: absent, null or oddly spelled variables still leave
			// required variables to be reported as missing (the former `len(Variables) > 0 && Variables[0] == '{'` skip
			// edge was the defect F28).
			if a.Kind == "False" {
				if c, ok := ast.Unparen(a.X).(*ast.CallExpr); ok && fw.CallIs(info, c, "opreport", "Report.HasErrors") && st.Must("planned") && !st.May("plan-report-reused") {
					st.Set("planned-ok")
				}
			}
		},
		Node: func(nd ast.Node, st *fw.State) {
			if as, ok := nd.(*ast.AssignStmt); ok && normalizeObj != nil {
				for _, l := range as.Lhs {
					if fw.RootObj(info, l) == normalizeObj && st.May("norm-ok") {
						st.Set("renormalize-flag-set")
					}
				}
			}
			c, ok := nd.(*ast.CallExpr)
			if !ok {
				return
			}
			switch {
			case fw.CallIs(info, c, "graphql", "Request.ValidateForSchema"):
				st.Set("validated")
				if in.Final() {
					nValidate++
					r.Check(st.Must("norm-ok"), rule, "Execute/normalized-before-validation", p.Pos(c.Pos()), "ValidateForSchema runs on a normalized operation (normalization succeeded, or the request was already normalized)",
						"validation is reachable on a path where normalization was needed but did not succeed: the documented sequence 'normalize, then validate the normalized operation' is broken (rules see un-inlined fragments / unmerged fields)")
				}
			case fw.CallIs(info, c, "engine", "ExecutionEngine.getCachedPlan"):
				if in.Final() {
					nPlan++
					need := []string{"norm-ok", "valid", "validate-no-error"}
					if withVariables {
						need = []string{"vars-ok"}
					}
					for _, f := range need {
						r.Check(st.Must(f), rule, "Execute/getCachedPlan-requires:"+f, p.Pos(c.Pos()), "planning (and the plan cache) is reached only with "+f,
							"the plan cache / planner is reachable on a path that did not establish '"+f+"': an operation (or variables) the admission sequence would reject is planned and executed — e.g. a cache fast path placed above validation")
					}
				}
				st.Set("planned")
			case isResolverEntry(info, c):
				if in.Final() && !withVariables {
					nResolve++
					r.Check(st.Must("planned-ok"), rule, "Execute/resolve-requires-planned:"+fw.Callee(info, c).Name(), p.Pos(c.Pos()), "the resolver is entered only on the false edge of report.HasErrors() after planning",
						"execution starts although planning reported errors (nil or partial plan)")
				}
			}
		},
	}
	in.Run(nil)
	r.Expect(rule, "getCachedPlan calls in Execute", nPlan, 1)
	if !withVariables {
		r.Expect(rule, "ValidateForSchema calls in Execute", nValidate, 1)
		r.Expect(rule, "resolver entries in Execute", nResolve, 3)
	}
}

func isResolverEntry(info *types.Info, c *ast.CallExpr) bool {
	fn := fw.Callee(info, c)
	if fn == nil || !fw.TypeIs(recvType(fn), "resolve", "Resolver") {
		return false
	}
	return strings.HasPrefix(fn.Name(), "ResolveGraphQL") || strings.HasPrefix(fn.Name(), "ArenaResolveGraphQL") || strings.HasPrefix(fn.Name(), "AsyncResolveGraphQL")
}
