package rules

import (
	"go/ast"
	"go/types"

	"verif/checker/fw"
)

// partialValueAccessorsGuarded: ast.Document.ValueContentBytes / ValueContentString are partial — they are defined for
// the four leaf kinds that have text (Enum, String, Integer, Float) and panic for the other five (Null, Boolean, Variable,
// List, Object). A schema document is not validated before it is handed to the callers checked here (the introspection
// generator runs inside NewExecutionEngine, the gRPC planner on the configured schema), so a directive argument written
// `reason: null` reaches the accessor and the panic takes the process. Every call of a partial accessor has to be
// dominated by a test of the kind of the same value that admits only kinds of the accessor's domain (an equality with one
// of the four kinds, or a switch clause listing only such kinds).
func partialValueAccessorsGuarded(r *fw.Run, rule string, pkgs []string, minSites int) {
	p := r.Prog
	domain := map[string]bool{"ValueKindEnum": true, "ValueKindString": true, "ValueKindInteger": true, "ValueKindFloat": true}
	n := 0
	for _, pa := range pkgs {
		for _, fi := range p.Funcs(pa) {
			info := fi.Info()
			has := false
			fw.WalkAll(fi.Decl.Body, func(nd ast.Node) bool {
				if c, ok := nd.(*ast.CallExpr); ok && (fw.CallIs(info, c, "ast", "Document.ValueContentBytes") || fw.CallIs(info, c, "ast", "Document.ValueContentString")) {
					has = true
				}
				return true
			})
			if !has {
				continue
			}
			kindOf := func(e ast.Expr) types.Object { // v.Kind → v
				sel, ok := ast.Unparen(e).(*ast.SelectorExpr)
				if !ok || sel.Sel.Name != "Kind" {
					return nil
				}
				if tv, okT := info.Types[sel.X]; !okT || !fw.TypeIs(tv.Type, "ast", "Value") {
					return nil
				}
				return fw.RootObj(info, sel.X)
			}
			inDomain := func(e ast.Expr) bool {
				c := fw.ConstObj(info, e)
				return c != nil && domain[c.Name()]
			}
			ord := 0
			in := fw.NewInterp(fi)
			in.H = fw.Hooks{
				Cond: func(e ast.Expr, branch bool, st *fw.State) {
					a := fw.Atom(info, e, branch)
					if a.Kind != "Eq" {
						return
					}
					for _, pr := range [][2]ast.Expr{{a.X, a.Y}, {a.Y, a.X}} {
						if o := kindOf(pr[0]); o != nil && inDomain(pr[1]) {
							st.Set("kind-ok:" + o.Name())
						}
					}
				},
				Case: func(tag ast.Expr, vals []ast.Expr, match bool, st *fw.State) {
					o := kindOf(tag)
					if o == nil || !match || len(vals) == 0 {
						return
					}
					for _, v := range vals {
						if !inDomain(v) {
							return
						}
					}
					st.Set("kind-ok:" + o.Name())
				},
				Node: func(nd ast.Node, st *fw.State) {
					for _, t := range fw.WriteTargets(info, nd) {
						if o := fw.RootObj(info, t); o != nil {
							st.Kill("kind-ok:" + o.Name())
						}
					}
					c, ok := nd.(*ast.CallExpr)
					if !ok || !in.Final() || len(c.Args) != 1 {
						return
					}
					if !(fw.CallIs(info, c, "ast", "Document.ValueContentBytes") || fw.CallIs(info, c, "ast", "Document.ValueContentString")) {
						return
					}
					n++
					ord++
					o := fw.RootObj(info, c.Args[0])
					okGuard := o != nil && st.Must("kind-ok:"+o.Name())
					r.Check(okGuard, rule, fi.Name()+"/partial-value-accessor-under-kind-test#"+itoa(ord), p.Pos(c.Pos()), "the partial accessor "+fw.Callee(info, c).Name()+" in "+fi.Name()+" is called only after the kind of its argument was tested",
						"the accessor panics for Null, Boolean, Variable, List and Object values and the kind of the value is not tested on this path: a directive argument written as `null` (or any other non-text value) in an unvalidated schema document panics — inside NewExecutionEngine / planning, i.e. it takes the process")
				},
			}
			in.Run(nil)
		}
	}
	r.Expect(rule, "calls of ValueContentBytes / ValueContentString", n, minSites)
}
