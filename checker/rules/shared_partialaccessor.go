package rules

import (
	"go/ast"
	"go/types"

	"verif/checker/fw"
)

// partialValueAccessorsGuarded: ast.Document.ValueContentBytes / ValueContentString are partial — they are defined for
// the four leaf kinds that have text (Enum, String, Integer, Float) and panic for the other five (Null, Boolean, Variable,
// List, Object). A schema document is not validated before it is handed to the callers checked here (the introspection
// generator runs inside NewExecutionEngine, the gRPC planner on the configured schema), so a directive argument written
// `reason: null` reaches the accessor and the panic takes the process. Every call of a partial accessor has to be
// dominated by a test of the kind of the same value that admits only kinds of the accessor's domain (an equality with one
// of those kinds, or a switch clause listing only such kinds). The admitted kinds are Enum and String only: for Integer and
// Float the accessor returns the digits without the sign.
func partialValueAccessorsGuarded(r *fw.Run, rule string, pkgs []string, minSites int) {
	p := r.Prog
	// the kinds for which the accessor returns the text of the value. For Integer and Float it does not panic, but it returns
	// the digits without the sign (the sign is a separate flag of IntValue / FloatValue): -5 reads as "5". A test that admits
	// a number kind therefore does not make the call right either (seeded change C17-2).
	domain := map[string]bool{"ValueKindEnum": true, "ValueKindString": true}
	n := 0
	for _, pa := range pkgs {
		for _, fi := range p.Funcs(pa) {
			info := fi.Info()
			has := false
			fw.WalkAll(fi.Decl.Body, func(nd ast.Node) bool {
				if c, ok := nd.(*ast.CallExpr); ok && (fw.CallIs(info, c, "ast", "Document.ValueContentBytes") || fw.CallIs(info, c, "ast", "Document.ValueContentString")) {
					has = true
				}
				return true
			})
			if !has {
				continue
			}
			kindOf := func(e ast.Expr) types.Object { // v.Kind → v
				sel, ok := ast.Unparen(e).(*ast.SelectorExpr)
				if !ok || sel.Sel.Name != "Kind" {
					return nil
				}
				if tv, okT := info.Types[sel.X]; !okT || !fw.TypeIs(tv.Type, "ast", "Value") {
					return nil
				}
				return fw.RootObj(info, sel.X)
			}
			inDomain := func(e ast.Expr) bool {
				c := fw.ConstObj(info, e)
				return c != nil && domain[c.Name()]
			}
			ord := 0
			in := fw.NewInterp(fi)
			in.H = fw.Hooks{
				Cond: func(e ast.Expr, branch bool, st *fw.State) {
					a := fw.Atom(info, e, branch)
					if a.Kind != "Eq" {
						return
					}
					for _, pr := range [][2]ast.Expr{{a.X, a.Y}, {a.Y, a.X}} {
						if o := kindOf(pr[0]); o != nil && inDomain(pr[1]) {
							st.Set("kind-ok:" + o.Name())
						}
					}
				},
				Case: func(tag ast.Expr, vals []ast.Expr, match bool, st *fw.State) {
					o := kindOf(tag)
					if o == nil || !match || len(vals) == 0 {
						return
					}
					for _, v := range vals {
						if !inDomain(v) {
							return
						}
					}
					st.Set("kind-ok:" + o.Name())
				},
				Node: func(nd ast.Node, st *fw.State) {
					for _, t := range fw.WriteTargets(info, nd) {
						if o := fw.RootObj(info, t); o != nil {
							st.Kill("kind-ok:" + o.Name())
						}
					}
					c, ok := nd.(*ast.CallExpr)
					if !ok || !in.Final() || len(c.Args) != 1 {
						return
					}
					if !(fw.CallIs(info, c, "ast", "Document.ValueContentBytes") || fw.CallIs(info, c, "ast", "Document.ValueContentString")) {
						return
					}
					n++
					ord++
					o := fw.RootObj(info, c.Args[0])
					okGuard := o != nil && st.Must("kind-ok:"+o.Name())
					r.Check(okGuard, rule, fi.Name()+"/partial-value-accessor-under-kind-test#"+itoa(ord), p.Pos(c.Pos()), "the partial accessor "+fw.Callee(info, c).Name()+" in "+fi.Name()+" is called only after the kind of its argument was tested",
						"the accessor panics for Null, Boolean, Variable, List and Object values and drops the sign of Integer and Float values, and the kind of the value is not known to be String or Enum on this path: a directive argument written as `null` in an unvalidated schema document panics (inside NewExecutionEngine / planning, i.e. it takes the process), a negative number reads as its absolute value")
				},
			}
			in.Run(nil)
		}
	}
	r.Expect(rule, "calls of ValueContentBytes / ValueContentString", n, minSites)
}

// kindRefAgreement: an ast.Value is a pair (Kind, Ref); Ref indexes the per-kind slice of its document (StringValues,
// IntValues, ListValues, …). Handing v.Ref to an accessor of kind K is meaningful only if v.Kind == K; otherwise the ref
// addresses an unrelated element of another slice — an index-out-of-range panic when that slice is shorter, somebody else's
// value otherwise. The documents checked here are schema documents and configuration, which are not validated before
// use. Every call `doc.<K>Value…(v.Ref)` / index `doc.<K>Values[v.Ref]` is dominated by a test that v.Kind is K.
func kindRefAgreement(r *fw.Run, rule string, pkgs []string, frozen map[string]string) int {
	return kindRefAgreementFor(r, rule, "Value", map[string]string{ // accessor / slice name prefix → kind constant
		"StringValue": "ValueKindString", "IntValue": "ValueKindInteger", "FloatValue": "ValueKindFloat", "BooleanValue": "ValueKindBoolean",
		"EnumValue": "ValueKindEnum", "ListValue": "ValueKindList", "ObjectValue": "ValueKindObject", "VariableValue": "ValueKindVariable",
	}, pkgs, frozen)
}

// (The same rule over ast.Node (Kind, Ref) pairs was tried in round 3 and not armed: 18 of 162 sites failed, all of them
// on idioms the rule does not model — a local `kind := node.Kind`, the else-branch of a two-way kind test, walker
// invariants such as Ancestors[0] being the operation — see DESIGN §8.)
func kindRefAgreementFor(r *fw.Run, rule, typeName string, kinds map[string]string, pkgs []string, frozen map[string]string) int {
	p := r.Prog
	kindOfName := func(name string) string {
		best, bestLen := "", 0
		for pre, k := range kinds {
			if len(name) >= len(pre) && name[:len(pre)] == pre && len(pre) > bestLen {
				best, bestLen = k, len(pre)
			}
		}
		return best
	}
	n := 0
	// entry facts of parameters of type ast.Value: kind K holds at entry when every call site seen in the analysed
	// packages passes a value whose kind is known to be K on the path to the call (filled by a first pass, used by the second)
	paramKind := map[types.Object]string{}
	paramSeen := map[types.Object]bool{}
	for pass := 0; pass < 2; pass++ {
		final := pass == 1
		if final {
			n = 0
		}
		for _, pa := range pkgs {
			for _, fi := range p.Funcs(pa) {
				info := fi.Info()
				valueRef := func(e ast.Expr) types.Object { // v.Ref with v an ast.Value → root object of v
					sel, ok := ast.Unparen(e).(*ast.SelectorExpr)
					if !ok || sel.Sel.Name != "Ref" {
						return nil
					}
					if tv, okT := info.Types[sel.X]; !okT || !fw.TypeIs(tv.Type, "ast", typeName) {
						return nil
					}
					// struct invariant: VariableDefinition.VariableValue is a variable value by construction (the parser and
					// every Add/Import function fill it with ValueKindVariable); it is not a value whose kind has to be tested
					if fv, _ := fw.Field(info, sel.X); fv != nil && fv.Name() == "VariableValue" {
						return nil
					}
					return fw.RootObj(info, sel.X)
				}
				kindOf := func(e ast.Expr) types.Object {
					sel, ok := ast.Unparen(e).(*ast.SelectorExpr)
					if !ok || sel.Sel.Name != "Kind" {
						return nil
					}
					if tv, okT := info.Types[sel.X]; !okT || !fw.TypeIs(tv.Type, "ast", typeName) {
						return nil
					}
					return fw.RootObj(info, sel.X)
				}
				// boolean locals defined as `b := v.Kind == K`
				boolKind := map[types.Object][2]string{}
				fw.WalkAll(fi.Decl.Body, func(nd ast.Node) bool {
					as, ok := nd.(*ast.AssignStmt)
					if !ok || len(as.Lhs) != 1 || len(as.Rhs) != 1 {
						return true
					}
					be, isB := ast.Unparen(as.Rhs[0]).(*ast.BinaryExpr)
					id, isID := as.Lhs[0].(*ast.Ident)
					if !isB || !isID || be.Op.String() != "==" {
						return true
					}
					for _, pr := range [][2]ast.Expr{{be.X, be.Y}, {be.Y, be.X}} {
						if o := kindOf(pr[0]); o != nil {
							if c := fw.ConstObj(info, pr[1]); c != nil {
								if bo := info.Defs[id]; bo != nil {
									boolKind[bo] = [2]string{o.Name(), c.Name()}
								}
							}
						}
					}
					return true
				})
				ord := 0
				in := fw.NewInterp(fi)
				entry := fw.NewState()
				sigF := fi.Obj.Type().(*types.Signature)
				for i := 0; i < sigF.Params().Len(); i++ {
					if k := paramKind[sigF.Params().At(i)]; k != "" && k != "?" && !fi.Obj.Exported() {
						entry.Set("kind:" + sigF.Params().At(i).Name() + "=" + k)
					}
				}
				check := func(kind string, arg ast.Expr, at ast.Node, what string, st *fw.State) {
					o := valueRef(arg)
					if o == nil || kind == "" || !final {
						return
					}
					n++
					ord++
					key := fi.Name() + "/kind-matches-ref:" + what + "#" + itoa(ord)
					if why, isFrozen := frozen[fi.Name()]; isFrozen {
						r.Pass(rule, key, p.Pos(at.Pos()), what+" in "+fi.Name()+" — frozen: "+why, false)
						return
					}
					r.Check(st.Must("kind:"+o.Name()+"="+kind), rule, key, p.Pos(at.Pos()), what+"("+o.Name()+".Ref) in "+fi.Name()+" is reached only where "+o.Name()+".Kind is "+kind,
						"the ref of a value is used as an index into the "+kind+" slice without a test of the value's kind on this path: for a value of another kind (a schema / configuration document is not validated first) it addresses an unrelated element — index out of range (panic) when that slice is shorter, another value's content otherwise")
				}
				in.H = fw.Hooks{
					Cond: func(e ast.Expr, branch bool, st *fw.State) {
						a := fw.Atom(info, e, branch)
						if a.Kind == "True" {
							if id, ok := ast.Unparen(a.X).(*ast.Ident); ok {
								if bk, isBK := boolKind[info.Uses[id]]; isBK {
									st.Set("kind:" + bk[0] + "=" + bk[1])
								}
							}
						}
						if a.Kind != "Eq" {
							return
						}
						for _, pr := range [][2]ast.Expr{{a.X, a.Y}, {a.Y, a.X}} {
							if o := kindOf(pr[0]); o != nil {
								if c := fw.ConstObj(info, pr[1]); c != nil {
									st.Set("kind:" + o.Name() + "=" + c.Name())
								}
							}
						}
					},
					Case: func(tag ast.Expr, vals []ast.Expr, match bool, st *fw.State) {
						o := kindOf(tag)
						if o == nil || !match || len(vals) != 1 {
							return
						}
						if c := fw.ConstObj(info, vals[0]); c != nil {
							st.Set("kind:" + o.Name() + "=" + c.Name())
						}
					},
					Node: func(nd ast.Node, st *fw.State) {
						if !in.Final() {
							return
						}
						// first pass: what is known about ast.Value arguments at the call sites of functions of these packages
						if c, isCall := nd.(*ast.CallExpr); isCall && !final {
							if fn := fw.Callee(info, c); fn != nil && p.FuncOf(fn) != nil {
								sg := fn.Type().(*types.Signature)
								for i, a := range c.Args {
									if i >= sg.Params().Len() || !fw.TypeIs(sg.Params().At(i).Type(), "ast", typeName) {
										continue
									}
									po := sg.Params().At(i)
									known := "?"
									if ro := fw.RootObj(info, a); ro != nil {
										for _, k := range kinds {
											if st.Must("kind:" + ro.Name() + "=" + k) {
												known = k
											}
										}
									}
									if !paramSeen[po] {
										paramSeen[po], paramKind[po] = true, known
									} else if paramKind[po] != known {
										paramKind[po] = "?"
									}
								}
							}
						}
						switch x := nd.(type) {
						case *ast.CallExpr:
							fn := fw.Callee(info, x)
							if fn == nil || len(x.Args) == 0 {
								return
							}
							sig, _ := fn.Type().(*types.Signature)
							if sig == nil || sig.Recv() == nil || !fw.TypeIs(sig.Recv().Type(), "ast", "Document") {
								return
							}
							check(kindOfName(fn.Name()), x.Args[0], x, fn.Name(), st)
						case *ast.IndexExpr:
							if fv, sel := fw.Field(info, x.X); fv != nil {
								if tv, okT := info.Types[sel.X]; okT && fw.TypeIs(tv.Type, "ast", "Document") {
									check(kindOfName(fv.Name()), x.Index, x, fv.Name(), st)
								}
							}
						}
					},
				}
				in.Run(entry)
			}
		}
	}
	// exported functions can be called from outside the analysed packages: their entry facts are not trusted
	return n
}
