package rules

import (
	"go/ast"
	"go/token"
	"go/types"
	"sort"
	"strings"

	"verif/checker/fw"
)

func init() {
	Registry["C10"] = Spec{
		Pkgs: map[string][]string{"v2": {"resolve", "astnorm", "plan", "postprocess"}},
		Run:  runC10,
		Thorough: func(r *fw.Run) {
			workspaceWhoMayCall(r, []wsCallRule{
				{Rule: "C10-T1", What: "the lifecycle methods of a DeferResponseWriter (Flush / Complete) are called only from package resolve", Callees: []string{"resolve:DeferResponseWriter.Flush", "resolve:DeferResponseWriter.Complete"}, Allowed: []string{"resolve:"}, Why: "the defer stream is flushed or completed from outside the section the frame discipline covers (C10-R1/R4): frames interleave, or the stream is completed before the initial frame", Expected: 4},
			})
		},
		Explanation: "Decides the structural half of 'the @defer stream is well-formed and terminates': in resolveDeferSingle every use of the shared writer, of the shared Resolvable and of the DataBuffer contents happens with DataBuffer.mu held (frames cannot interleave, the outstanding counter is race-free, Flush is inside the section); " +
			"the outstanding counter is written only by ResolveDeferBatch/ResolveDeferError; on every path through those two functions there is exactly one counter update, one completed entry and one hasNext whose argument is the comparison of the counter with zero taken after the update; " +
			"announced ids and scheduled groups derive from the same liveChildDescriptors result (initial frame, nested frames, sequence arm); the stream's Complete() is called only from a defer registered after the first successful Flush; defer groups use a plain errgroup that is joined; " +
			"the defer normalization stages are registered in the documented order. It does not decide reconstruction equality with the non-deferred response.",
		Mutants: []Mutant{
			{Name: "a foreign defer scope is looked into when its id is smaller (seeded change C10-12)", File: "v2/pkg/engine/resolve/resolvable.go", Rule: "C10-R12", Key: "Resolvable.collectDeferFields/defer-ids-not-ordered",
				Old: "if !r.isDeferAncestor(obj.Fields[i].Defer.DeferID, r.currentDefer.ParentID) {", New: "if obj.Fields[i].Defer.DeferID > r.currentDefer.ID {"},
			{Name: "the defer info collector looks the list ancestor up by its response name (seeded change C10-2)", File: "v2/pkg/engine/plan/defer_info_collector.go", Rule: "C10-R11", Key: "deferInfoCollector.outermostListFieldIndex/schema-lookup-by-schema-name:NodeFieldDefinitionByName",
				Old: "c.definition.NodeFieldDefinitionByName(parentType, c.operation.FieldNameBytes(ancestor.Ref))", New: "c.definition.NodeFieldDefinitionByName(parentType, c.operation.FieldAliasOrNameBytes(ancestor.Ref))"},
			{Name: "lists of lists are not looked into while a defer is rendered (reverts the F57 fix)", File: "v2/pkg/engine/resolve/resolvable.go", Rule: "C10-R9", Key: "Resolvable.fieldNodeKindAllowsSeek/item-kind-reached-by-loop-or-recursion",
				Old: "\t\titem := field.Value.(*Array).Item\n\t\tfor item.NodeKind() == NodeKindArray {\n\t\t\titem = item.(*Array).Item\n\t\t}\n\t\tif item.NodeKind() != NodeKindObject {", New: "\t\tif field.Value.(*Array).Item.NodeKind() != NodeKindObject {"},
			{Name: "anchor gating ignores that the initial data was null (reverts part of the F58 fix)", File: "v2/pkg/engine/resolve/resolvable.go", Rule: "C10-R10", Key: "Resolvable.deferAnchorAlive/tests-the-data-null-record",
				Old: "\tif r.data == nil || r.rootDataNull {\n", New: "\tif r.data == nil {\n"},
			{Name: "label of the internal defer directive read without a kind test (reverts part of the F49 fix)", File: "v2/pkg/engine/plan/datasource_filter_collect_nodes_visitor.go", Rule: "C10-R8", Key: "treeBuilderVisitor.deferInfo/kind-matches-ref:StringValueContentString",
				Old: "\tif exists && labelValue.Kind == ast.ValueKindString {\n", New: "\tif exists {\n"},
			{Name: "field duplicated per concrete type by a hand-written literal without Defer/Stream (reverts the F33 fix)", File: "v2/pkg/engine/postprocess/merge_fields.go", Rule: "C10-R7", Key: "mergeFields.traverseNode/field-duplicate-carries-copy-fields",
				Old: "\t\t\t\t\tadditionalField := n.Fields[i].Copy()\n\t\t\t\t\tadditionalField.OnTypeNames = [][]byte{additionalTypeNames[j]}\n",
				New: "\t\t\t\t\tadditionalField := &resolve.Field{\n\t\t\t\t\t\tName:        n.Fields[i].Name,\n\t\t\t\t\t\tValue:       n.Fields[i].Value.Copy(),\n\t\t\t\t\t\tPosition:    n.Fields[i].Position,\n\t\t\t\t\t\tOnTypeNames: [][]byte{additionalTypeNames[j]},\n\t\t\t\t\t\tInfo:        n.Fields[i].Info,\n\t\t\t\t\t}\n"},
			{Name: "defer id dropped from the @requires de-duplication key (seeded change C10-13)", File: "v2/pkg/engine/plan/node_selection_visitor.go", Rule: "C10-R6", Key: "pendingFieldRequirementExistsKey.deferID",
				Old: "\texistsKey := pendingFieldRequirementExistsKey{fieldCtx.dsConfig.Hash(), fieldConfiguration.SelectionSet, isTypenameForEntityInterface, deferID}", New: "\t_ = deferID\n\texistsKey := pendingFieldRequirementExistsKey{dsHash: fieldCtx.dsConfig.Hash(), selectionSet: fieldConfiguration.SelectionSet, isTypenameForEntityInterface: isTypenameForEntityInterface}"},
			{Name: "error frame of a failed defer group written outside the data lock", File: resolveGo, Rule: "C10-R1", Key: "resolveDeferSingle",
				Old: "\t\tdc.db.Lock()\n\t\tdefer dc.db.Unlock()\n\t\tgroupLoader.appendSubgraphErrorsToContext()\n", New: "\t\tdc.db.Lock()\n\t\tgroupLoader.appendSubgraphErrorsToContext()\n\t\tdc.db.Unlock()\n"},
			{Name: "flush of a defer frame after the lock is released", File: resolveGo, Rule: "C10-R1", Key: "resolveDeferSingle",
				Old: "\tliveChildren, err := dc.resolvable.ResolveDeferBatch(dc.response.Response.Data, dc.writer, outstanding)\n\tif err != nil {\n\t\treturn nil, err\n\t}\n\treturn liveChildren, dc.writer.Flush()",
				New: "\tliveChildren, err := dc.resolvable.ResolveDeferBatch(dc.response.Response.Data, dc.writer, outstanding)\n\tif err != nil {\n\t\treturn nil, err\n\t}\n\tdc.db.Unlock()\n\terr = dc.writer.Flush()\n\tdc.db.Lock()\n\treturn liveChildren, err"},
			{Name: "outstanding counter decremented by the caller as well", File: resolveGo, Rule: "C10-R2", Key: "resolveDeferSingle",
				Old: "\t\tif err := dc.resolvable.ResolveDeferError(dc.writer, fetchErr.Error(), outstanding); err != nil {\n\t\t\treturn nil, err\n\t\t}", New: "\t\tif err := dc.resolvable.ResolveDeferError(dc.writer, fetchErr.Error(), outstanding); err != nil {\n\t\t\t*outstanding--\n\t\t\treturn nil, err\n\t\t}"},
			{Name: "hasNext computed before the counter update", File: resolvableGo, Rule: "C10-R3", Key: "ResolveDeferError",
				Old: "\t*outstanding--\n\tisLast := *outstanding == 0\n\n\t// {\"completed\"", New: "\tisLast := *outstanding == 0\n\t*outstanding--\n\n\t// {\"completed\""},
			{Name: "completed entry skipped when the fragment has no data", File: resolvableGo, Rule: "C10-R3", Key: "ResolveDeferBatch",
				Old: "\tr.renderCompleted(shouldSkipIncremental && r.hasErrors())\n", New: "\tif !shouldSkipIncremental || r.hasErrors() {\n\t\tr.renderCompleted(shouldSkipIncremental && r.hasErrors())\n\t}\n"},
			{Name: "initial hasNext not derived from the announced set", File: resolvableGo, Rule: "C10-R3", Key: "Resolve",
				Old: "\t\tr.printHasNext(len(live) > 0)\n", New: "\t\tr.printHasNext(len(r.deferDescriptors) > 0)\n"},
			{Name: "scheduled groups pruned against all descriptors instead of the announced ones", File: resolveGo, Rule: "C10-R3", Key: "ResolveGraphQLDeferResponse",
				Old: "\t\t\tliveTree := pruneDeadDefers(response.DeferTree, liveTop)\n", New: "\t\t\tliveTree := pruneDeadDefers(response.DeferTree, response.DeferDescriptors)\n"},
			{Name: "Complete registered before the initial frame is flushed", File: resolveGo, Rule: "C10-R4", Key: "Complete",
				Old: "\t\terr = writer.Flush()\n\t\tif err != nil {\n\t\t\treturn nil, err\n\t\t}\n\n\t\t// The initial frame is now on the wire", New: "\t\tdefer func() {\n\t\t\twriter.Complete()\n\t\t}()\n\t\terr = writer.Flush()\n\t\tif err != nil {\n\t\t\treturn nil, err\n\t\t}\n\n\t\t// The initial frame is now on the wire"},
		},
	}
}

func runC10(r *fw.Run) {
	defer c10DeferScopedKeys(r)
	defer c10SeekPredicateIsDepthIndependent(r)
	defer c10NoDefersWhenDataIsNull(r)
	defer c10DeferIdsAreNotOrdered(r)
	defer func() {
		r.Rule("C10-R7", "every hand-written duplicate of a resolve.Field in the post-processor / planner (a Field literal fed from another Field) sets every field that Field.Copy sets — in particular Defer and Stream")
		fieldDuplicationsCarryCopyFields(r, "C10-R7")
		r.Rule("C10-R8", "the planner reads the arguments of the internal defer directive (and every other ast.Value) through a kind-specific accessor only where the value's kind is known to be that kind")
		n := kindRefAgreement(r, "C10-R8", []string{"plan"}, nil)
		r.Expect("C10-R8", "kind-specific uses of a value's ref in package plan", n, 10)
		r.Rule("C10-R11", "in the planner (incl. the defer info collector) a response name (alias or name) never reaches a lookup keyed by the schema-side field name")
		nRN := responseNamesNeverReachSchemaLookups(r, "C10-R11", []string{"plan"})
		r.Expect("C10-R11", "schema-side field name arguments in package plan", nRN, 20)
	}()
	p := r.Prog
	pk := p.Pkg("resolve")
	if pk == nil {
		r.Error("package resolve not loaded")
		return
	}
	info := pk.TypesInfo

	// ---- R1 frames under the lock ---------------------------------------------------------------
	r.Rule("C10-R1", "in resolveDeferSingle every use of deferContext.writer / deferContext.resolvable and every DataBuffer.Get happens with DataBuffer.mu held (render, counter update and Flush in one critical section)")
	la := fw.NewLockAnalysis(p, "resolve")
	la.Solve()
	nUse := 0
	la.Visit(func(in *fw.Interp, n ast.Node, st *fw.State) {
		if in.FI.Name() != "Resolver.resolveDeferSingle" {
			return
		}
		role := ""
		switch x := n.(type) {
		case *ast.SelectorExpr:
			if fw.IsFieldSel(in.Info, x, "resolve", "deferContext", "writer") {
				role = "dc.writer"
			} else if fw.IsFieldSel(in.Info, x, "resolve", "deferContext", "resolvable") {
				role = "dc.resolvable"
			}
		case *ast.CallExpr:
			if fw.CallIs(in.Info, x, "resolve", "DataBuffer.Get") {
				role = "DataBuffer.Get"
			}
		}
		if role == "" {
			return
		}
		nUse++
		r.Check(fw.Held(st, lkData, false), "C10-R1", "Resolver.resolveDeferSingle/under-data-lock:"+role, p.Pos(n.Pos()), "use of "+role+" in resolveDeferSingle",
			"reachable without DataBuffer.mu: concurrent defer groups interleave their frames on the wire, race on the outstanding counter / the shared Resolvable, or flush a frame while another group is writing")
	})
	r.Expect("C10-R1", "uses of shared defer state in resolveDeferSingle", nUse, 15)

	// ---- R2 who writes the counter ----------------------------------------------------------------
	r.Rule("C10-R2", "the outstanding counter (*int64 parameter) is written only in Resolvable.ResolveDeferBatch and Resolvable.ResolveDeferError")
	nW := 0
	fw.EachNode(p.Funcs("resolve"), func(fi *fw.FuncInfo, n ast.Node, stack []ast.Node) {
		var targets []ast.Expr
		switch x := n.(type) {
		case *ast.AssignStmt:
			targets = x.Lhs
		case *ast.IncDecStmt:
			targets = []ast.Expr{x.X}
		}
		for _, t := range targets {
			if isOutstandingDeref(fi, t) {
				nW++
				ok := fi.Name() == "Resolvable.ResolveDeferBatch" || fi.Name() == "Resolvable.ResolveDeferError"
				r.Check(ok, "C10-R2", fi.Name()+"/writes-outstanding", p.Pos(t.Pos()), "write of *outstanding in "+fi.Name(),
					"the announced-but-not-completed counter is modified outside the two frame writers: hasNext:false is emitted too early or never")
			}
		}
	})
	r.Expect("C10-R2", "writes of *outstanding", nW, 2)

	// ---- R3 exactly once per frame -----------------------------------------------------------------
	r.Rule("C10-R3", "each defer frame updates the counter once, renders one completed entry and one hasNext = (counter != 0) read after the update; announced and scheduled sets derive from the same liveChildDescriptors result")
	for _, name := range []string{"Resolvable.ResolveDeferBatch", "Resolvable.ResolveDeferError"} {
		fi := p.Func("resolve", name)
		if fi == nil {
			r.Error("C10-R3: %s not found", name)
			continue
		}
		d := fw.NewDeriver(fi)
		var lastObj types.Object
		nExit := 0
		in := fw.NewInterp(fi)
		in.H = fw.Hooks{
			Node: func(n ast.Node, st *fw.State) {
				switch x := n.(type) {
				case *ast.AssignStmt:
					for i, l := range x.Lhs {
						if isOutstandingDeref(fi, l) {
							st.Inc("upd")
							st.Kill("cmp-fresh")
						}
						if i < len(x.Rhs) {
							if b, ok := ast.Unparen(x.Rhs[i]).(*ast.BinaryExpr); ok && (isOutstandingDeref(fi, b.X) || isOutstandingDeref(fi, b.Y)) {
								lastObj = fw.RootObj(info, l)
								if st.Must("upd") {
									st.Set("cmp-fresh")
								}
							}
						}
					}
				case *ast.IncDecStmt:
					if isOutstandingDeref(fi, x.X) {
						st.Inc("upd")
						st.Kill("cmp-fresh")
					}
				case *ast.CallExpr:
					switch {
					case fw.CallIs(info, x, "resolve", "Resolvable.renderCompleted"):
						st.Inc("completed")
					case fw.CallIs(info, x, "resolve", "Resolvable.printHasNext"):
						st.Inc("hasnext")
						if in.Final() {
							fromCmp := len(x.Args) == 1 && d.Derives(x.Args[0], func(e ast.Expr) bool {
								id, ok := e.(*ast.Ident)
								return ok && lastObj != nil && info.Uses[id] == lastObj
							})
							r.Check(fromCmp && st.Must("cmp-fresh"), "C10-R3", name+"/hasNext-after-update", p.Pos(x.Pos()), "hasNext in "+name+" is the comparison of the counter with zero read after this frame's update",
								"hasNext is not derived from the counter as it stands after this frame's update: the final frame carries hasNext:true (stream never ends for the client) or an earlier frame carries hasNext:false")
						}
					}
				}
			},
			Exit: func(ret *ast.ReturnStmt, lit *ast.FuncLit, st *fw.State) {
				if lit != nil || !in.Final() {
					return
				}
				nExit++
				pos := fi.Decl.End()
				if ret != nil {
					pos = ret.Pos()
				}
				one := fw.Cnt{Min: 1, Max: 1}
				for _, f := range []struct{ fact, what string }{{"upd", "counter update"}, {"completed", "completed entry"}, {"hasnext", "hasNext"}} {
					r.Check(st.Get(f.fact) == one, "C10-R3", name+"/exactly-one:"+f.fact, p.Pos(pos), "exactly one "+f.what+" on every path through "+name,
						"a path through the frame writer has "+cntStr(st.Get(f.fact))+" "+f.what+"(s): an announced id is completed twice / never, or the frame lacks hasNext")
				}
			},
		}
		in.Run(nil)
		r.Expect("C10-R3", "exits of "+name, nExit, 1)
	}
	// value identity of announced / scheduled sets
	type sameSource struct {
		fn     string
		source string // callee whose result is the set
		uses   []string
	}
	for _, ss := range []sameSource{
		{"Resolvable.Resolve", "Resolvable.liveChildDescriptors", []string{"Resolvable.printPendingEntries", "Resolvable.printHasNext"}},
		{"Resolvable.ResolveDeferBatch", "Resolvable.liveChildDescriptors", []string{"Resolvable.printPendingEntries"}},
		{"Resolver.ResolveGraphQLDeferResponse", "Resolvable.liveChildDescriptors", []string{"pruneDeadDefers"}},
		{"Resolver.resolveDeferTree", "Resolver.resolveDeferSingle", []string{"pruneDeadDefers"}},
	} {
		fi := p.Func("resolve", ss.fn)
		if fi == nil {
			r.Error("C10-R3: %s not found", ss.fn)
			continue
		}
		d := fw.NewPureDeriver(fi)
		for _, use := range ss.uses {
			n := 0
			fw.WalkAll(fi.Decl.Body, func(nd ast.Node) bool {
				c, ok := nd.(*ast.CallExpr)
				if !ok || !fw.CallIs(info, c, "resolve", use) {
					return true
				}
				n++
				arg := c.Args[len(c.Args)-1]
				r.Check(d.Derives(arg, d.IsCallTo("resolve", ss.source)), "C10-R3", ss.fn+"/same-set:"+use, p.Pos(c.Pos()), "argument of "+use+" in "+ss.fn+" is the result of "+ss.source,
					"what is announced (pending / hasNext) and what is scheduled are not computed from the same liveness result: an id is delivered without having been announced, or announced and never completed")
				return true
			})
			r.Expect("C10-R3", "calls of "+use+" in "+ss.fn, n, 1)
		}
	}
	if fi := p.Func("resolve", "Resolver.ResolveGraphQLDeferResponse"); fi != nil {
		d := fw.NewPureDeriver(fi)
		n := 0
		fw.WalkAll(fi.Decl.Body, func(nd ast.Node) bool {
			as, ok := nd.(*ast.AssignStmt)
			if !ok || len(as.Lhs) != 1 {
				return true
			}
			if id, ok := as.Lhs[0].(*ast.Ident); ok && id.Name != "_" {
				if v, ok := info.Defs[id].(*types.Var); ok && types.Identical(v.Type(), types.Typ[types.Int64]) && usedAsOutstanding(fi, v) {
					n++
					r.Check(d.Derives(as.Rhs[0], d.IsCallTo("resolve", "Resolvable.liveChildDescriptors")), "C10-R3", fi.Name()+"/initial-count", p.Pos(as.Pos()), "the initial outstanding count is the size of the announced top-level set",
						"the counter does not start at the number of announced top-level defers: the stream ends early or never")
				}
			}
			return true
		})
		r.Expect("C10-R3", "initialisation of the outstanding counter", n, 1)
	}
	if fi := p.Func("resolve", "Resolvable.ResolveDeferBatch"); fi != nil {
		d := fw.NewPureDeriver(fi)
		// update and return value use the same live set
		fw.WalkAll(fi.Decl.Body, func(nd ast.Node) bool {
			switch x := nd.(type) {
			case *ast.AssignStmt:
				for i, l := range x.Lhs {
					if isOutstandingDeref(fi, l) && i < len(x.Rhs) {
						r.Check(d.Derives(x.Rhs[i], d.IsCallTo("resolve", "Resolvable.liveChildDescriptors")), "C10-R3", fi.Name()+"/update-uses-announced-set", p.Pos(x.Pos()), "the counter update adds the number of children announced in this frame",
							"the counter is not adjusted by the number of children this frame announces")
					}
				}
			case *ast.ReturnStmt:
				if len(x.Results) == 2 {
					r.Check(d.Derives(x.Results[0], d.IsCallTo("resolve", "Resolvable.liveChildDescriptors")), "C10-R3", fi.Name()+"/returns-announced-set", p.Pos(x.Pos()), "ResolveDeferBatch returns the announced children for scheduling", "the set returned for scheduling is not the announced set")
				}
			}
			return true
		})
	}

	// ---- R4 termination ------------------------------------------------------------------------
	r.Rule("C10-R4", "DeferResponseWriter.Complete is called only from a defer registered after the first successful Flush; defer groups run on a plain errgroup that is joined")
	nComplete := 0
	fw.EachCall(p.Funcs("resolve"), func(fi *fw.FuncInfo, c *ast.CallExpr, stack []ast.Node) {
		if !fw.CallIs(info, c, "resolve", "DeferResponseWriter.Complete") {
			return
		}
		nComplete++
		lit := fw.InnermostLit(stack)
		okShape := false
		if lit != nil {
			// the literal must be the body of a defer statement, registered after Flush succeeded
			g := fw.NewGuards(info, fw.GuardSpec{Name: "flushed", Sticky: true, Match: fw.AtomVarFromCall(fi, "Nil", "resolve", "DeferResponseWriter.Flush", 0)})
			in := fw.NewInterp(fi)
			in.H = fw.Hooks{Cond: g.Cond,
				Lit: func(l *ast.FuncLit, ctx fw.LitCtx, st *fw.State) fw.LitMode { return fw.LitSkip },
				Node: func(nd ast.Node, st *fw.State) {
					if d, ok := nd.(*ast.DeferStmt); ok && in.Final() && ast.Unparen(d.Call.Fun) == ast.Expr(lit) {
						okShape = g.Has(st, "flushed")
					}
				}}
			in.Run(nil)
		}
		r.Check(okShape, "C10-R4", fi.Name()+"/Complete-after-first-flush", p.Pos(c.Pos()), "writer.Complete() runs from a defer registered after the initial frame was flushed successfully",
			"Complete() is reachable before the initial frame is on the wire (a pre-flush error can no longer be returned as a plain top-level error) or is not deferred (some later exit leaves the multipart stream open)")
	})
	r.Expect("C10-R4", "DeferResponseWriter.Complete call sites", nComplete, 1)
	if fi := p.Func("resolve", "Resolver.resolveDeferTree"); fi == nil {
		r.Error("C10-R4: resolveDeferTree not found")
	} else {
		with, waits, gos := false, 0, 0
		fw.WalkAll(fi.Decl.Body, func(n ast.Node) bool {
			if c, ok := n.(*ast.CallExpr); ok {
				if fn := fw.Callee(info, c); fn != nil && fn.Pkg() != nil && fn.Pkg().Path() == "golang.org/x/sync/errgroup" {
					switch fn.Name() {
					case "WithContext":
						with = true
					case "Wait":
						waits++
					case "Go":
						gos++
					}
				}
			}
			return true
		})
		r.Check(!with && waits >= 1 && gos >= 1, "C10-R4", fi.Name()+"/plain-group-joined", fi.Pos(), "parallel defer groups run on a plain errgroup.Group that is waited for",
			"errgroup.WithContext (a failing group cancels its siblings: announced ids never complete) or a missing Wait (stream completes while groups still write)")
	}

	// ---- R5 normalization stages -----------------------------------------------------------------
	deferStageOrder(r)
}

// isOutstandingDeref: e is *x where x is a parameter of type *int64 of fi.
func isOutstandingDeref(fi *fw.FuncInfo, e ast.Expr) bool {
	st, ok := ast.Unparen(e).(*ast.StarExpr)
	if !ok {
		return false
	}
	id, ok := ast.Unparen(st.X).(*ast.Ident)
	if !ok {
		return false
	}
	v, ok := fi.Info().Uses[id].(*types.Var)
	if !ok {
		return false
	}
	pt, ok := v.Type().(*types.Pointer)
	if !ok || !types.Identical(pt.Elem(), types.Typ[types.Int64]) {
		return false
	}
	sig := fi.Obj.Type().(*types.Signature)
	for i := 0; i < sig.Params().Len(); i++ {
		if sig.Params().At(i) == v {
			return true
		}
	}
	return false
}

// usedAsOutstanding: &v is passed to a call in fi.
func usedAsOutstanding(fi *fw.FuncInfo, v *types.Var) bool {
	found := false
	fw.WalkAll(fi.Decl.Body, func(n ast.Node) bool {
		if u, ok := n.(*ast.UnaryExpr); ok && u.Op.String() == "&" {
			if id, ok := ast.Unparen(u.X).(*ast.Ident); ok && fi.Info().Uses[id] == v {
				found = true
			}
		}
		return true
	})
	return found
}

// deferStageOrder (C10-R5): in OperationNormalizer.setupOperationWalkers the defer stages are
// appended in the documented order.
func deferStageOrder(r *fw.Run) {
	r.Rule("C10-R5", "defer normalization: inlineDefer is registered after fragment inlining; alignDeferTypenameScope strictly before populateDeferParentIds, as separate stages, both after the cleanup stage")
	order, fi := normalizerStageOrder(r)
	if fi == nil {
		return
	}
	pos := func(name string) int {
		for i, s := range order {
			for _, rule := range s {
				if rule == name {
					return i
				}
			}
		}
		return -1
	}
	type before struct{ a, b, why string }
	for _, c := range []before{
		{"fragmentSpreadInline", "deferExpandIntoInternalWithDisabled", "the defer expansion must see inlined fragments: a @defer on a fragment spread is lost"},
		{"deferExpandIntoInternalWithDisabled", "deduplicateFields", "defer markers must be attached before fields are merged"},
		{"deferExpandIntoInternalWithDisabled", "deferEnsureTypename", "typename placeholders are added after defer fragments were inlined (source comment)"},
		{"deduplicateFields", "deferAlignTypenameScope", "typename alignment works on the merged selection sets"},
		{"deferAlignTypenameScope", "deferPopulateParentIds", "parent ids are computed from the aligned tree (the source comment says MUST be two stages in this order)"},
	} {
		ia, ib := pos(c.a), pos(c.b)
		if ib < 0 {
			r.Note("C10-R5: stage rule %s is not applied in setupOperationWalkers any more; constraint %s<%s is vacuous", c.b, c.a, c.b)
			continue
		}
		if ia < 0 {
			r.Fail("C10-R5", "setupOperationWalkers/"+c.a+"<"+c.b, fi.Pos(), c.a+" is registered on an earlier walker stage than "+c.b, c.b+" is applied but "+c.a+" is not applied to any walker stage at all: "+c.why)
			continue
		}
		strict := ia < ib
		r.Check(strict, "C10-R5", "setupOperationWalkers/"+c.a+"<"+c.b, fi.Pos(), c.a+" is registered on an earlier walker stage than "+c.b,
			"stage order violated ("+c.a+" at stage "+itoa(ia)+", "+c.b+" at stage "+itoa(ib)+"): "+c.why)
	}
	_ = strings.Join
}

// normalizerStageOrder returns, for OperationNormalizer.setupOperationWalkers, the list of walker
// stages in append order; each stage is the list of rule-registration functions applied to its walker.
func normalizerStageOrder(r *fw.Run) ([][]string, *fw.FuncInfo) {
	p := r.Prog
	fi := p.Func("astnorm", "OperationNormalizer.setupOperationWalkers")
	if fi == nil {
		r.Error("OperationNormalizer.setupOperationWalkers not found")
		return nil, nil
	}
	info := fi.Info()
	// walker variable -> rules applied (calls f(&walker) / f(walker) where f is a package function)
	applied := map[types.Object][]string{}
	var appendOrder []types.Object
	in := fw.NewInterp(fi)
	in.H = fw.Hooks{Node: func(n ast.Node, st *fw.State) {
		if !in.Final() {
			return
		}
		switch x := n.(type) {
		case *ast.CallExpr:
			fn := fw.Callee(info, x)
			if fn != nil && fn.Pkg() != nil && fn.Pkg().Path() == fw.PkgPath("astnorm") {
				for _, a := range x.Args {
					if o := walkerArg(info, a); o != nil {
						applied[o] = append(applied[o], fn.Name())
					}
				}
			}
			if fn == nil {
				// call of a function value returned by a rule constructor: ruleCtor(args)(&walker)
				if inner, ok := ast.Unparen(x.Fun).(*ast.CallExpr); ok && len(x.Args) >= 1 {
					if ifn := fw.Callee(info, inner); ifn != nil && ifn.Pkg() != nil && ifn.Pkg().Path() == fw.PkgPath("astnorm") {
						if o := walkerArg(info, x.Args[len(x.Args)-1]); o != nil {
							applied[o] = append(applied[o], ifn.Name())
						}
					}
				}
			}
			if fw.Builtin(info, x) == "append" && len(x.Args) == 2 {
				if cl, ok := ast.Unparen(x.Args[1]).(*ast.CompositeLit); ok {
					for _, el := range cl.Elts {
						if kv, ok := el.(*ast.KeyValueExpr); ok {
							if o := walkerArg(info, kv.Value); o != nil {
								appendOrder = append(appendOrder, o)
							}
						}
					}
				}
			}
		}
	}}
	in.Run(nil)
	var out [][]string
	for _, o := range appendOrder {
		out = append(out, applied[o])
	}
	if len(out) == 0 {
		r.Error("setupOperationWalkers: no walker stages recognised")
		return nil, nil
	}
	return out, fi
}

func walkerArg(info *types.Info, e ast.Expr) types.Object {
	e = ast.Unparen(e)
	if u, ok := e.(*ast.UnaryExpr); ok && u.Op.String() == "&" {
		e = ast.Unparen(u.X)
	}
	id, ok := e.(*ast.Ident)
	if !ok {
		return nil
	}
	o := info.Uses[id]
	if o == nil {
		return nil
	}
	if !fw.TypeIs(o.Type(), "astvisitor", "Walker") {
		return nil
	}
	return o
}

// c10DeferScopedKeys (R6, added after a seeded change dropped the defer id from the @requires de-duplication key): the
// planner tracks "already added" requirements per defer scope. Every struct type of package plan that is used as a map key
// and has a defer-id component gets that component in every literal, and the value derives from the defer info of the
// field being planned (…deferInfo.ID / a *DeferID field) — not left at zero, which would merge the scopes.
func c10DeferScopedKeys(r *fw.Run) {
	p := r.Prog
	r.Rule("C10-R6", "every map-key struct of package plan with a defer-id component is built with that component, taken from the defer info of the field being planned (requirements are de-duplicated per defer scope, not across scopes)")
	pk := p.Pkg("plan")
	if pk == nil {
		r.Error("C10-R6: package plan not loaded")
		return
	}
	info := pk.TypesInfo
	keyTypes := map[*types.Named]int{} // → index of the defer field
	for _, tv := range info.Types {
		m, ok := tv.Type.Underlying().(*types.Map)
		if !ok {
			continue
		}
		n, ok := m.Key().(*types.Named)
		if !ok || n.Obj().Pkg() != pk.Types {
			continue
		}
		st, ok := n.Underlying().(*types.Struct)
		if !ok {
			continue
		}
		for i := 0; i < st.NumFields(); i++ {
			if strings.Contains(strings.ToLower(st.Field(i).Name()), "deferid") {
				keyTypes[n] = i
			}
		}
	}
	// only dedicated key types: a struct that is also stored as data (slice element, map value, struct field) is a record
	// that happens to be comparable, and its literals legitimately leave fields out
	for _, tv := range info.Types {
		var elem types.Type
		switch u := tv.Type.Underlying().(type) {
		case *types.Slice:
			elem = u.Elem()
		case *types.Array:
			elem = u.Elem()
		case *types.Map:
			elem = u.Elem()
		case *types.Pointer:
			elem = u.Elem()
		case *types.Struct:
			for i := 0; i < u.NumFields(); i++ {
				if n, ok := u.Field(i).Type().(*types.Named); ok {
					delete(keyTypes, n)
				}
			}
		}
		if n, ok := elem.(*types.Named); ok {
			delete(keyTypes, n)
		}
	}
	nLits := 0
	for _, fi := range p.Funcs("plan") {
		d := fw.NewPureDeriver(fi)
		fw.WalkAll(fi.Decl.Body, func(nd ast.Node) bool {
			cl, ok := nd.(*ast.CompositeLit)
			if !ok {
				return true
			}
			n, ok := info.TypeOf(cl).(*types.Named)
			if !ok {
				return true
			}
			idx, isKey := keyTypes[n]
			if !isKey {
				return true
			}
			nLits++
			st := n.Underlying().(*types.Struct)
			fname := st.Field(idx).Name()
			var val ast.Expr
			for i, el := range cl.Elts {
				if kv, isKV := el.(*ast.KeyValueExpr); isKV {
					if id, isID := kv.Key.(*ast.Ident); isID && id.Name == fname {
						val = kv.Value
					}
				} else if i == idx {
					val = el
				}
			}
			key := fi.Name() + "/" + n.Obj().Name() + "." + fname
			if val == nil {
				r.Fail("C10-R6", key, p.Pos(cl.Pos()), n.Obj().Name()+" built in "+fi.Name()+" carries its "+fname,
					"the key is built without "+fname+" (zero for every scope): a requirement already added for one defer scope is taken as present in another, so a @requires/key field is fetched in the first scope only and the field that needs it in the other scope comes back as an error although every subgraph is healthy")
				return true
			}
			fromDefer := d.Derives(val, func(e ast.Expr) bool {
				sel, isSel := ast.Unparen(e).(*ast.SelectorExpr)
				if !isSel {
					return false
				}
				v, _ := fw.Field(info, sel)
				if v == nil {
					return false
				}
				ln := strings.ToLower(v.Name())
				return strings.Contains(ln, "deferid") || (v.Name() == "ID" && strings.Contains(strings.ToLower(types.ExprString(sel.X)), "defer"))
			})
			r.Check(fromDefer, "C10-R6", key, p.Pos(cl.Pos()), n.Obj().Name()+"."+fname+" built in "+fi.Name()+" derives from the defer info of the field being planned",
				"the "+fname+" component of the key does not come from a defer id: requirements of different defer scopes are merged under one key (fetched in the first scope only)")
			return true
		})
	}
	r.Expect("C10-R6", "defer-scoped key types in package plan", len(keyTypes), 2)
	r.Expect("C10-R6", "literals of defer-scoped keys", nLits, 2)
}

// fieldDuplicationsCarryCopyFields: resolve.Field.Copy defines what "a copy of a response field" consists of (Name, Value,
// Position, Defer, Stream, OnTypeNames, Info). The post-processor also duplicates fields by hand — merge_fields splits a
// field selected through a fragment on an abstract type into one field per concrete type. Such a hand-written duplicate (a
// resolve.Field literal one of whose values is read from another Field) must set every field that Copy sets; a duplicate
// without Defer renders the deferred field in the initial payload for every concrete type but the first — as null, because
// its fetch belongs to the deferred group — and the whole object is nulled when the field is non-null.
func fieldDuplicationsCarryCopyFields(r *fw.Run, rule string) {
	p := r.Prog
	cp := p.Func("resolve", "Field.Copy")
	if cp == nil {
		r.Error("%s: resolve.Field.Copy not found", rule)
		return
	}
	fieldT := p.Named("resolve", "Field")
	keysOf := func(info *types.Info, cl *ast.CompositeLit) map[string]bool {
		out := map[string]bool{}
		for _, el := range cl.Elts {
			if kv, ok := el.(*ast.KeyValueExpr); ok {
				if id, isID := kv.Key.(*ast.Ident); isID {
					out[id.Name] = true
				}
			}
		}
		return out
	}
	var want map[string]bool
	fw.WalkAll(cp.Decl.Body, func(nd ast.Node) bool {
		if cl, ok := nd.(*ast.CompositeLit); ok && want == nil {
			if tv, okT := cp.Info().Types[cl]; okT && types.Identical(derefT(tv.Type), fieldT) {
				want = keysOf(cp.Info(), cl)
			}
		}
		return true
	})
	if len(want) < 5 {
		r.Error("%s: the Field literal of resolve.Field.Copy was not recognised", rule)
		return
	}
	n := 0
	for _, pa := range []string{"postprocess", "plan", "resolve"} {
		for _, fi := range p.Funcs(pa) {
			if fi == cp {
				continue
			}
			info := fi.Info()
			ord := 0
			fw.WalkAll(fi.Decl.Body, func(nd ast.Node) bool {
				cl, ok := nd.(*ast.CompositeLit)
				if !ok {
					return true
				}
				if tv, okT := info.Types[cl]; !okT || !types.Identical(derefT(tv.Type), fieldT) {
					return true
				}
				// a duplicate: some value is a selection on another *resolve.Field
				dup := false
				for _, el := range cl.Elts {
					kv, isKV := el.(*ast.KeyValueExpr)
					if !isKV {
						continue
					}
					fw.WalkAll(kv.Value, func(m ast.Node) bool {
						if sel, isSel := m.(*ast.SelectorExpr); isSel {
							if tv, okT := info.Types[sel.X]; okT && types.Identical(derefT(tv.Type), fieldT) {
								dup = true
							}
						}
						return true
					})
				}
				if !dup {
					return true
				}
				n++
				ord++
				have := keysOf(info, cl)
				var missing []string
				for k := range want {
					if !have[k] {
						missing = append(missing, k)
					}
				}
				sort.Strings(missing)
				r.Check(len(missing) == 0, rule, fi.Name()+"/field-duplicate-carries-copy-fields#"+itoa(ord), p.Pos(cl.Pos()), "the hand-written duplicate of a response field in "+fi.Name()+" sets every field that resolve.Field.Copy sets",
					"the duplicate leaves "+strings.Join(missing, ", ")+" at the zero value although Field.Copy carries it: for every concrete type but the first the duplicated field loses its @defer marker — it is rendered in the initial payload (null: its fetch is deferred), a non-null field nulls the whole object, and the incremental item targets a path that is null")
				return true
			})
		}
	}
	// after the repair of F33 every duplicate goes through Field.Copy: zero instances is the expected state, the positive
	// control is the seeded mutant of the thorough tier (the hand-written literal of the unrepaired tree)
	r.Pass(rule, "field-duplicates-scanned", "-", itoa(n)+" hand-written duplicates of resolve.Field in postprocess, plan and resolve examined (Field.Copy itself excluded)", true)
}

// c10SeekPredicateIsDepthIndependent (R9): while a defer is rendered, fields that do not belong to it are only *looked
// into* to reach deferred fields below them. The predicate that decides whether a field is looked into
// (fieldNodeKindAllowsSeek) must give the same answer for [T], [[T]], [[[T]]] … — list nesting is unbounded, so the item
// kind has to be reached through a loop or through recursion; a fixed number of `.Item` steps decides a bounded depth only
// and silently drops every deferred field below a deeper list (the deferred request is sent and merged, the frame carries
// an empty incremental array and the defer is reported completed).
func c10SeekPredicateIsDepthIndependent(r *fw.Run) {
	p := r.Prog
	r.Rule("C10-R9", "the predicate that decides whether a non-deferred field is looked into while a defer is rendered reaches the item of an Array inside a loop or through recursion (its answer does not depend on the nesting depth of lists)")
	fi := p.Func("resolve", "Resolvable.fieldNodeKindAllowsSeek")
	if fi == nil {
		r.Error("C10-R9: Resolvable.fieldNodeKindAllowsSeek not found")
		return
	}
	info := fi.Info()
	itemReads, inLoopOrRec := 0, 0
	var visit func(n ast.Node, inLoop bool)
	visit = func(n ast.Node, inLoop bool) {
		ast.Inspect(n, func(m ast.Node) bool {
			switch x := m.(type) {
			case *ast.ForStmt:
				if x != n {
					visit(x, true)
					return false
				}
			case *ast.RangeStmt:
				if x != n {
					visit(x, true)
					return false
				}
			case *ast.SelectorExpr:
				if fv, _ := fw.Field(info, x); fv != nil && fv.Name() == "Item" {
					if tv, ok := info.Types[x.X]; ok && fw.TypeIs(tv.Type, "resolve", "Array") {
						itemReads++
						if inLoop {
							inLoopOrRec++
						}
					}
				}
			case *ast.CallExpr:
				if fn := fw.Callee(info, x); fn == fi.Obj {
					inLoopOrRec++ // recursion
				}
			}
			return true
		})
	}
	visit(fi.Decl.Body, false)
	r.Check(itemReads > 0 && inLoopOrRec > 0, "C10-R9", "Resolvable.fieldNodeKindAllowsSeek/item-kind-reached-by-loop-or-recursion", fi.Pos(), "the seek predicate unwraps nested lists by a loop or by recursion",
		"the item kind of a list is read a fixed number of times: for a list of lists the predicate answers 'do not look into it', the walk never reaches the cells, and every deferred field below [[T]] is fetched but never delivered (empty incremental array, defer reported completed)")
	r.Expect("C10-R9", "reads of Array.Item in the seek predicate", itemReads, 1)
}

// c10NoDefersWhenDataIsNull (R10): when a non-null violation reaches the root, the initial payload is `"data":null` —
// nothing of the data tree was delivered, so every defer anchor is dead: no pending entry, hasNext false, no deferred
// request. The anchor gating (deferAnchorAlive) looks at the *internal* tree, which is not nulled at the root; it can
// only know through a record: Resolve assigns a Resolvable field from the result of the root pre-walk (the value that
// selects the `"data":null` branch), and deferAnchorAlive tests that field.
func c10NoDefersWhenDataIsNull(r *fw.Run) {
	p := r.Prog
	r.Rule("C10-R10", "Resolve records in a Resolvable field that the initial payload was written with data:null (assigned from the result of the root pre-walk), and deferAnchorAlive tests that field: a nulled root announces and schedules no defer")
	rs := p.Func("resolve", "Resolvable.Resolve")
	da := p.Func("resolve", "Resolvable.deferAnchorAlive")
	if rs == nil || da == nil {
		r.Error("C10-R10: Resolvable.Resolve / deferAnchorAlive not found")
		return
	}
	info := rs.Info()
	// locals holding the result of walkObject in Resolve
	walkResult := map[types.Object]bool{}
	fw.WalkAll(rs.Decl.Body, func(nd ast.Node) bool {
		as, ok := nd.(*ast.AssignStmt)
		if !ok || len(as.Lhs) != 1 || len(as.Rhs) != 1 {
			return true
		}
		if c, isCall := ast.Unparen(as.Rhs[0]).(*ast.CallExpr); isCall && fw.CallIs(info, c, "resolve", "Resolvable.walkObject") {
			if id, isID := as.Lhs[0].(*ast.Ident); isID {
				if o := info.Defs[id]; o != nil {
					walkResult[o] = true
				}
			}
		}
		return true
	})
	record := map[*types.Var]bool{}
	fw.WalkAll(rs.Decl.Body, func(nd ast.Node) bool {
		as, ok := nd.(*ast.AssignStmt)
		if !ok || len(as.Lhs) != len(as.Rhs) {
			return true
		}
		for i, l := range as.Lhs {
			fv, sel := fw.Field(info, l)
			if fv == nil {
				continue
			}
			if _, tn := fw.FieldOwner(info, sel); tn != "Resolvable" {
				continue
			}
			if id, isID := ast.Unparen(as.Rhs[i]).(*ast.Ident); isID && walkResult[info.Uses[id]] {
				record[fv] = true
			}
		}
		return true
	})
	r.Check(len(record) > 0, "C10-R10", "Resolvable.Resolve/records-that-data-is-null", rs.Pos(), "Resolve stores the result of the root pre-walk (data:null or not) in a Resolvable field",
		"nothing records that the initial payload was `\"data\":null`: the anchor gating looks at the internal tree, finds the mount objects, announces the defers (pending, hasNext:true), sends the deferred requests and delivers incremental data for paths that do not exist in what the client received")
	reads := false
	dinfo := da.Info()
	fw.WalkAll(da.Decl.Body, func(nd ast.Node) bool {
		if sel, ok := nd.(*ast.SelectorExpr); ok {
			if fv, _ := fw.Field(dinfo, sel); fv != nil && record[fv] {
				reads = true
			}
		}
		return true
	})
	r.Check(reads, "C10-R10", "Resolvable.deferAnchorAlive/tests-the-data-null-record", da.Pos(), "deferAnchorAlive tests the record that the initial data was null",
		"the anchor gating does not consult the record: defers are announced and scheduled although data is null")
}

// c10DeferIdsAreNotOrdered (R12): defer ids are identities. Which scope encloses which is recorded in
// DeferDescriptor.ParentID and decided by walking that chain; the numeric order of two ids says nothing the renderer may
// rely on (siblings a < b are unrelated, and the order in which their requests complete is arbitrary). Two defer ids are
// therefore only ever compared with == / != in the resolver, the planner and the post-processor; a relational comparison
// between two of them (a test against a constant such as id > 0 is a validity test and is left alone) makes the content
// of a frame depend on the order of completion.
func c10DeferIdsAreNotOrdered(r *fw.Run) {
	p := r.Prog
	r.Rule("C10-R12", "two defer ids are compared for identity only (== / !=), never with < <= > >=: enclosure is decided by the ParentID chain")
	nEq := 0
	for _, alias := range []string{"resolve", "plan", "postprocess"} {
		for _, fi := range p.Funcs(alias) {
			info := fi.Info()
			var d *localDeriver
			isID := func(e ast.Expr) bool {
				fv, _ := fw.Field(info, e)
				if fv == nil || !types.Identical(fv.Type(), types.Typ[types.Int]) {
					return false
				}
				if fv.Name() == "DeferID" {
					return true
				}
				return (fv.Name() == "ID" || fv.Name() == "ParentID") && fw.IsFieldSel(info, e, "resolve", "DeferDescriptor", fv.Name())
			}
			derivesFromID := func(e ast.Expr) bool {
				if _, isConst := fw.ConstVal(info, e); isConst {
					return false
				}
				if isID(ast.Unparen(e)) {
					return true
				}
				if id, ok := ast.Unparen(e).(*ast.Ident); ok {
					if d == nil {
						d = newLocalDeriver(fi)
					}
					for _, rhs := range d.defs[info.ObjectOf(id)] {
						if isID(ast.Unparen(rhs)) {
							return true
						}
					}
				}
				return false
			}
			bad := ""
			fw.WalkAll(fi.Decl.Body, func(nd ast.Node) bool {
				b, ok := nd.(*ast.BinaryExpr)
				if !ok {
					return true
				}
				switch b.Op {
				case token.EQL, token.NEQ:
					if derivesFromID(b.X) && derivesFromID(b.Y) {
						nEq++
					}
				case token.LSS, token.LEQ, token.GTR, token.GEQ:
					if derivesFromID(b.X) && derivesFromID(b.Y) {
						bad = p.Pos(b.Pos())
					}
				}
				return true
			})
			if bad != "" {
				r.Fail("C10-R12", fi.Name()+"/defer-ids-not-ordered", bad, fi.Name()+" compares two defer ids for identity only",
					"two defer ids are compared by their numeric order: which fields of another scope a frame renders then depends on the numbering (document order) instead of the enclosure recorded in ParentID — a sibling scope whose request completed earlier is rendered into, or skipped from, the wrong frame")
			}
		}
	}
	r.Check(nEq >= 1, "C10-R12", "defer-id-identity-comparisons", "", "identity comparisons between two defer ids found ("+itoa(nEq)+"); none is relational", "no identity comparison between defer ids was recognised: the rule no longer sees the renderer's gating")
}
