package rules

import (
	"go/ast"
	"go/token"
	"go/types"

	"verif/checker/fw"
)

// scratchSliceDoesNotEscape: a slice that a loop re-uses by truncating it (v = v[:0], v declared outside the loop) keeps
// its backing array from one iteration to the next. Whatever was built from it in an earlier iteration and is still
// referenced — stored in a struct, handed to a function that keeps its argument — is overwritten by the next iteration.
// For every such scratch slice the rule requires that inside the loop it is never stored (composite literal element,
// assignment to a field or an element, appended as an element) and never handed to a parameter that the callee retains
// (summary over resolved callees: the parameter is stored as above, returned, or passed on to a retaining parameter).
// append(dst, v...) and copy(dst, v) copy the elements and are fine. Returns the number of scratch slices examined.
func scratchSliceDoesNotEscape(r *fw.Run, rule string, pkgs []string) int {
	p := r.Prog
	type pk struct {
		fn  *types.Func
		idx int
	}
	memo := map[pk]bool{}
	visiting := map[pk]bool{}
	var retains func(fi *fw.FuncInfo, idx int) bool
	// escapesIn: does object o escape inside node body (given the function's info)?
	var escapesIn func(fi *fw.FuncInfo, body ast.Node, o types.Object) (bool, token.Pos)
	escapesIn = func(fi *fw.FuncInfo, body ast.Node, o types.Object) (bool, token.Pos) {
		info := fi.Info()
		isO := func(e ast.Expr) bool {
			e = ast.Unparen(e)
			if sl, ok := e.(*ast.SliceExpr); ok { // v[a:b] shares the backing array
				e = ast.Unparen(sl.X)
			}
			id, ok := e.(*ast.Ident)
			return ok && info.ObjectOf(id) == o
		}
		var at token.Pos
		found := false
		fw.WalkAll(body, func(nd ast.Node) bool {
			if found {
				return false
			}
			switch x := nd.(type) {
			case *ast.CompositeLit:
				for _, el := range x.Elts {
					v := el
					if kv, ok := el.(*ast.KeyValueExpr); ok {
						v = kv.Value
					}
					if isO(v) {
						found, at = true, v.Pos()
					}
				}
			case *ast.AssignStmt:
				if len(x.Lhs) == len(x.Rhs) {
					for i, l := range x.Lhs {
						if !isO(x.Rhs[i]) {
							continue
						}
						switch ast.Unparen(l).(type) {
						case *ast.SelectorExpr, *ast.IndexExpr, *ast.StarExpr:
							found, at = true, x.Rhs[i].Pos()
						}
					}
				}
			case *ast.ReturnStmt:
				// returning the scratch slice from inside the loop hands it out; the loop is over then — not an escape
			case *ast.CallExpr:
				if b := fw.Builtin(info, x); b != "" {
					if b == "append" && !x.Ellipsis.IsValid() {
						for _, a := range x.Args[1:] {
							if isO(a) {
								found, at = true, a.Pos()
							}
						}
					}
					return true
				}
				callee := p.FuncOf(fw.Callee(info, x))
				if callee == nil {
					return true
				}
				for i, a := range x.Args {
					if isO(a) && !(x.Ellipsis.IsValid() && i == len(x.Args)-1 && false) && retains(callee, i) {
						found, at = true, a.Pos()
					}
				}
			}
			return true
		})
		return found, at
	}
	retains = func(fi *fw.FuncInfo, idx int) bool {
		key := pk{fi.Obj, idx}
		if v, ok := memo[key]; ok {
			return v
		}
		if visiting[key] || len(visiting) > 6 {
			return false
		}
		visiting[key] = true
		defer delete(visiting, key)
		sig := fi.Obj.Type().(*types.Signature)
		if idx >= sig.Params().Len() {
			if !sig.Variadic() {
				return false
			}
			idx = sig.Params().Len() - 1
		}
		pv := sig.Params().At(idx)
		if _, isSlice := pv.Type().Underlying().(*types.Slice); !isSlice {
			memo[key] = false
			return false
		}
		res, _ := escapesIn(fi, fi.Decl.Body, pv)
		if !res {
			// returned: the caller's result aliases the argument
			info := fi.Info()
			fw.WalkAll(fi.Decl.Body, func(nd ast.Node) bool {
				if ret, ok := nd.(*ast.ReturnStmt); ok {
					for _, e := range ret.Results {
						if id, isID := ast.Unparen(e).(*ast.Ident); isID && info.ObjectOf(id) == pv {
							res = true
						}
					}
				}
				return true
			})
		}
		memo[key] = res
		return res
	}

	n := 0
	for _, alias := range pkgs {
		for _, fi := range p.Funcs(alias) {
			info := fi.Info()
			var loops []ast.Node
			var visit func(nd ast.Node) bool
			handleLoop := func(loop ast.Node, body *ast.BlockStmt) {
				// scratch slices of this loop: v = v[:0] directly in the body, v declared outside the loop
				for _, st := range body.List {
					as, ok := st.(*ast.AssignStmt)
					if !ok || as.Tok != token.ASSIGN || len(as.Lhs) != 1 || len(as.Rhs) != 1 {
						continue
					}
					id, isID := as.Lhs[0].(*ast.Ident)
					sl, isSl := ast.Unparen(as.Rhs[0]).(*ast.SliceExpr)
					if !isID || !isSl || sl.High == nil {
						continue
					}
					if v, isConst := fw.ConstVal(info, sl.High); !isConst || v != "0" {
						continue
					}
					src, isSrc := ast.Unparen(sl.X).(*ast.Ident)
					o := info.ObjectOf(id)
					if !isSrc || o == nil || info.ObjectOf(src) != o {
						continue
					}
					if o.Pos() >= loop.Pos() && o.Pos() < loop.End() {
						continue // declared inside the loop: a fresh variable per iteration still shares nothing across iterations? it does not outlive it
					}
					n++
					esc, at := escapesIn(fi, body, o)
					pos := p.Pos(as.Pos())
					if esc {
						pos = p.Pos(at)
					}
					r.Check(!esc, rule, fi.Name()+"/scratch-slice-does-not-escape:"+id.Name, pos, "the scratch slice "+id.Name+" that the loop in "+fi.Name()+" re-uses (truncated to [:0] per iteration) is not stored or handed to a retaining parameter inside the loop",
						"the backing array of the re-used scratch slice "+id.Name+" escapes from an iteration (stored, or passed to a parameter its callee keeps): what an earlier iteration stored is overwritten by the next one")
				}
			}
			visit = func(nd ast.Node) bool {
				switch x := nd.(type) {
				case *ast.ForStmt:
					loops = append(loops, x)
					handleLoop(x, x.Body)
					loops = loops[:len(loops)-1]
				case *ast.RangeStmt:
					loops = append(loops, x)
					handleLoop(x, x.Body)
					loops = loops[:len(loops)-1]
				}
				return true
			}
			ast.Inspect(fi.Decl.Body, visit)
		}
	}
	return n
}
