package rules

import (
	"go/ast"
	"go/token"
	"go/types"
	"sort"
	"strings"

	"verif/checker/fw"
)

func init() {
	Registry["C13"] = Spec{
		Pkgs: map[string][]string{"v2": {"resolve", "gqlds"}},
		Run:  runC13,
		Thorough: func(r *fw.Run) {
			workspaceWhoMayCall(r, []wsCallRule{
				{Rule: "C13-T1", What: "resolve.SubscriptionDataSource.Start is called only from Resolver.addSubscription (the goroutine of a newly created trigger)", Callees: []string{"resolve:SubscriptionDataSource.Start"}, Allowed: []string{"resolve:Resolver.addSubscription"}, Why: "a subscription source is started from outside the trigger registry: the upstream is not shared, not counted and never cleaned up with the trigger", Expected: 1},
				{Rule: "C13-T2", What: "outside package resolve the SubscriptionUpdater callbacks are called only by the GraphQL subscription source, where the Error/Complete→Done typestate is checked", Callees: []string{"resolve:SubscriptionUpdater.Update", "resolve:SubscriptionUpdater.UpdateSubscription", "resolve:SubscriptionUpdater.Complete", "resolve:SubscriptionUpdater.Error", "resolve:SubscriptionUpdater.Done", "resolve:SubscriptionUpdater.CloseSubscription"}, Allowed: []string{"resolve:", "gqlds:"}, Why: "another package drives a trigger's updater: the typestate rule C13-R7 (Done after Error/Complete) only sees graphql_datasource — a source that forgets Done leaves its trigger registered for ever", Expected: 14},
			})
		},
		Explanation: "Decides the structural half of 'triggers are shared by input+headers, started once, always cleaned up': must-lock-sets (with inter-procedural entry sets) show the trigger/subscription registries are only touched under Resolver.mu (and trigger.subscriptions under both locks for writes); " +
			"the acquired-while-holding relation stays inside updater.mu > Resolver.mu > trigger.mu and client I/O / cancel functions / closeSubs run with no registry lock held; every field of a removal result (removed, toClose, cancel, initialized) is consumed on all paths at all call sites; " +
			"registry insertions are paired with the subscription counter, TriggerCountInc with initialized.Store(true); the trigger id derives from the input hash and the headers hash; Source.Start has one call site, under a detached context, with tear-down on its error edge; " +
			"sources call Done() after every Error()/Complete(). It does not decide that the counters return to zero for every history.",
		Mutants: []Mutant{
			{Name: "failed flush removes the subscription by id (reverts part of the F52 fix)", File: resolveGo, Rule: "C13-R14", Key: "Resolver.executeSubscriptionUpdate/removes-by-id-although-it-holds-the-subscription",
				Old: "\t\t// If flush fails (e.g. client disconnected), remove the subscription.\n\t\tr.unsubscribeState(sub)\n", New: "\t\t// If flush fails (e.g. client disconnected), remove the subscription.\n\t\t_ = r.UnsubscribeSubscription(sub.id)\n"},
			{Name: "updater callbacks delivered to whatever trigger holds the id (reverts part of the F36 fix)", File: resolveGo, Rule: "C13-R13", Key: "Resolver.handleTriggerComplete/snapshotSubscriptions-of-own-trigger-only",
				Old: "func (r *Resolver) handleTriggerComplete(updater *subscriptionUpdater) {\n\ttrig, ok := r.triggerOf(updater)\n", New: "func (r *Resolver) handleTriggerComplete(updater *subscriptionUpdater) {\n\ttrig, ok := r.getTrigger(updater.triggerID)\n"},
			{Name: "a live subscription identifier is overwritten in the indexes (reverts the F34 fix)", File: resolveGo, Rule: "C13-R12", Key: "Resolver.addSubscription/registers-only-an-unused-id",
				Old: "\tif _, exists := r.subscriptionsByID[add.id]; exists {\n\t\treturn fmt.Errorf(\"subscription %d of connection %d is already registered\", add.id.SubscriptionID, add.id.ConnectionID)\n\t}\n", New: ""},
			{Name: "a failed flush marks the subscription removed before unsubscribing (seeded change C13-23)", File: resolveGo, Rule: "C13-R11", Key: "Resolver.executeSubscriptionUpdate/removed-flag-write",
				Old: "\tif err := sub.writer.Flush(); err != nil {\n\t\tsub.writeMu.Unlock()\n", New: "\tif err := sub.writer.Flush(); err != nil {\n\t\tsub.removed.Store(true)\n\t\tsub.writeMu.Unlock()\n"},
			{Name: "trigger marked initialized after the registry lock was released (the repaired defect F19)", File: resolveGo, Rule: "C13-R10", Key: "markTriggerInitialized/initialized-set-under-registry-lock",
				Old: "\ttrig.initialized.Store(true)\n\tr.mu.Unlock()\n\tif r.reporter != nil {", New: "\tr.mu.Unlock()\n\ttrig.initialized.Store(true)\n\tif r.reporter != nil {"},
			{Name: "registry lock released between trigger lookup and insertion (seeded change C13-12)", File: resolveGo, Rule: "C13-R9", Key: "addSubscription/insert-in-the-critical-section-of-the-lookup",
				Old: "\tcloneCtx := add.ctx.clone(ctx)\n\ttrig = &trigger{", New: "\tr.mu.Unlock()\n\tcloneCtx := add.ctx.clone(ctx)\n\tr.mu.Lock()\n\ttrig = &trigger{"},
			{Name: "subscription source hashes url and body only (seeded change C13-13)", File: gqldsGo, Rule: "C13-R5", Key: "HashTriggerInput/hash-covers-every-option",
				Old: "func (s *SubscriptionSource) HashTriggerInput(input []byte, xxh *xxhash.Digest) error {\n\t_, err := xxh.Write(input)\n\treturn err\n}", New: "func (s *SubscriptionSource) HashTriggerInput(input []byte, xxh *xxhash.Digest) error {\n\turl, _, _, _ := jsonparser.Get(input, \"url\")\n\tbody, _, _, err := jsonparser.Get(input, \"body\")\n\tif err != nil {\n\t\t_, err = xxh.Write(input)\n\t\treturn err\n\t}\n\t_, _ = xxh.Write(url)\n\t_, err = xxh.Write(body)\n\treturn err\n}"},
			{Name: "removeClient cancels only initialized triggers (seeded change C13-11)", File: resolveGo, Rule: "C13-R3", Key: "removeClient",
				Old: "\t\tif res.triggerCancel != nil {\n\t\t\tcancels = append(cancels, res.triggerCancel)\n\t\t\tif res.initialized {\n\t\t\t\ttriggerDec++\n\t\t\t}\n\t\t}", New: "\t\tif res.triggerCancel != nil && res.initialized {\n\t\t\tcancels = append(cancels, res.triggerCancel)\n\t\t\ttriggerDec++\n\t\t}"},
			{Name: "late Done() detaches whatever trigger has the id (the repaired defect F14)", File: resolveGo, Rule: "C13-R8", Key: "Resolver.doneTriggerFromUpdater/detach-own-trigger-only",
				Old: "\tif trig, ok := r.triggers[triggerID]; !ok || trig.updater != updater {\n\t\tr.mu.Unlock()\n\t\treturn\n\t}\n", New: ""},
			{Name: "start goroutine marks whatever trigger has the id initialized", File: resolveGo, Rule: "C13-R8", Key: "Resolver.markTriggerInitialized/mark-initialized-own-trigger-only",
				Old: "\tif !ok || trig != started {\n\t\tr.mu.Unlock()\n\t\treturn\n\t}\n\ttrig.initialized.Store(true)", New: "\tif !ok {\n\t\tr.mu.Unlock()\n\t\treturn\n\t}\n\ttrig.initialized.Store(true)"},
			{Name: "trigger cancel and closeSubs moved inside Resolver.mu in UnsubscribeSubscription", File: resolveGo, Rule: "C13-R2", Key: "Resolver.unsubscribe",
				Old: "\tr.mu.Unlock()\n\tcloseSubs(res.toClose)\n\tif res.triggerCancel != nil {\n\t\tres.triggerCancel()\n\t}\n\treturn nil",
				New: "\tcloseSubs(res.toClose)\n\tif res.triggerCancel != nil {\n\t\tres.triggerCancel()\n\t}\n\tr.mu.Unlock()\n\treturn nil"},
			{Name: "getTrigger reads the registry without Resolver.mu", File: resolveGo, Rule: "C13-R1", Key: "getTrigger",
				Old: "\tr.mu.Lock()\n\ttrig, ok := r.triggers[id]\n\tr.mu.Unlock()", New: "\ttrig, ok := r.triggers[id]"},
			{Name: "UnsubscribeClient forgets to complete the removed subscriptions", File: resolveGo, Rule: "C13-R3", Key: "UnsubscribeClient",
				Old: "\tres := r.removeClient(connectionID)\n\tcloseSubs(res.toClose)", New: "\tres := r.removeClient(connectionID)"},
			{Name: "SubscriptionCountInc dropped for the subscriber that creates a trigger", File: resolveGo, Rule: "C13-R4", Key: "addSubscription",
				Old: "\tr.registerSubscriptionLocked(trig, s)\n\n\tif r.reporter != nil {\n\t\tr.reporter.SubscriptionCountInc(1)\n\t}", New: "\tr.registerSubscriptionLocked(trig, s)\n"},
			{Name: "forwarded-headers hash no longer part of the trigger id", File: resolveGo, Rule: "C13-R5", Key: "key<-headers",
				Old: "\t\t\t_, _ = keyGen.Write(b[:])", New: "\t\t\t_ = b"},
			{Name: "shared trigger started under the first subscriber's own context", File: resolveGo, Rule: "C13-R6", Key: "Start-ctx",
				Old: "context.WithCancel(xcontext.Detach(add.ctx.Context()))", New: "context.WithCancel(func() context.Context { _ = xcontext.Detach; return add.ctx.Context() }())"},
			{Name: "start-up failure leaves the trigger registered", File: resolveGo, Rule: "C13-R6", Key: "Start-error-edge",
				Old: "\t\t\tr.doneTriggerFromUpdater(trig.updater)\n\t\t\treturn\n\t\t}\n\n\t\tr.markTriggerInitialized(trig)", New: "\t\t\treturn\n\t\t}\n\n\t\tr.markTriggerInitialized(trig)"},
			{Name: "source sends Complete without Done", File: "v2/pkg/engine/datasource/graphql_datasource/graphql_subscription_client.go", Rule: "C13-R7", Key: "exit-after-terminal",
				Old: "\t\t\tupdater.Complete()\n\t\t\tupdater.Done()", New: "\t\t\tupdater.Complete()"},
			{Name: "shutdown drops the collected trigger cancels", File: resolveGo, Rule: "C13-R3", Key: "shutdownResolver",
				Old: "\tcloseSubs(allToClose)\n\tfor _, cancel := range cancels {\n\t\tcancel()\n\t}", New: "\tcloseSubs(allToClose)"},
			{Name: "trigger.subscriptions deleted without trigger.mu in detachTriggerLocked", File: resolveGo, Rule: "C13-R1", Key: "detachTriggerLocked",
				Old: "\ttrig.mu.Lock()\n\tfor sid, s := range trig.subscriptions {\n\t\tif s.removed.CompareAndSwap(false, true) {\n\t\t\ttoClose = append(toClose, s)\n\t\t}\n\t\tdelete(trig.subscriptions, sid)\n\t\tr.unregisterSubscriptionLocked(sid)\n\t\tremoved++\n\t}\n\ttrig.mu.Unlock()",
				New: "\tfor sid, s := range trig.subscriptions {\n\t\tif s.removed.CompareAndSwap(false, true) {\n\t\t\ttoClose = append(toClose, s)\n\t\t}\n\t\tdelete(trig.subscriptions, sid)\n\t\tr.unregisterSubscriptionLocked(sid)\n\t\tremoved++\n\t}"},
		},
	}
}

func runC13(r *fw.Run) {
	defer c13OwnTrigger(r)
	defer c13InternalCleanupByIdentity(r)
	defer c13DeliveryOwnTrigger(r)
	defer c13RegistrationNeverOverwrites(r)
	defer c13RemovedFlagOnlyByTheRemover(r)
	defer c13InitializedUnderRegistryLock(r)
	defer c13LookupInsertAtomic(r)
	defer c13SourceHashCoversInput(r)
	p := r.Prog
	la := subsLockAnalysis(r)
	info := p.Pkg("resolve").TypesInfo

	// ---- R1 registry lock discipline ----------------------------------------------------------
	r.Rule("C13-R1", "Resolver.triggers / subscriptionsByID / subscriptionsByConnection / shutdown are accessed only under Resolver.mu; trigger.subscriptions is written under Resolver.mu∧trigger.mu and read under either")
	ctor := map[string]string{"New": "constructor: the Resolver is not shared yet"}
	resMu := [][]string{{lkResolver}}
	counts := la.CheckGuards(r, "C13-R1", []fw.Guard{
		{Pkg: "resolve", Type: "Resolver", Field: "triggers", Write: resMu, Read: resMu, Exempt: ctor},
		{Pkg: "resolve", Type: "Resolver", Field: "subscriptionsByID", Write: resMu, Read: resMu, Exempt: ctor},
		{Pkg: "resolve", Type: "Resolver", Field: "subscriptionsByConnection", Write: resMu, Read: resMu, Exempt: ctor},
		{Pkg: "resolve", Type: "Resolver", Field: "shutdown", Write: resMu, Read: resMu, Exempt: ctor},
		{Pkg: "resolve", Type: "trigger", Field: "subscriptions", Write: [][]string{{lkResolver, lkTrigger}}, Read: [][]string{{lkResolver}, {lkTrigger}}},
	})
	r.Expect("C13-R1", "accesses of Resolver.triggers", counts["Resolver.triggers"], 12)
	r.Expect("C13-R1", "accesses of Resolver.subscriptionsByID", counts["Resolver.subscriptionsByID"], 4)
	r.Expect("C13-R1", "accesses of Resolver.subscriptionsByConnection", counts["Resolver.subscriptionsByConnection"], 5)
	r.Expect("C13-R1", "accesses of Resolver.shutdown", counts["Resolver.shutdown"], 5)
	r.Expect("C13-R1", "accesses of trigger.subscriptions", counts["trigger.subscriptions"], 12)

	// ---- R2 lock order and teardown outside locks ---------------------------------------------
	checkSubsLockOrder(r, "C13-R2", la)

	// ---- R3 result consumption -----------------------------------------------------------------
	r.Rule("C13-R3", "at every call of removeSubscriptionLocked / detachTriggerLocked / removeClient each field of the result (removed, toClose, triggerCancel|cancels, initialized|triggerDec) is consumed on all paths (metrics fields only when a reporter exists)")
	nRes := 0
	for _, fi := range p.Funcs("resolve") {
		nRes += checkResultConsumption(r, fi)
	}
	r.Expect("C13-R3", "calls producing a removal result", nRes, 5)

	// ---- R4 counters paired with registry changes ----------------------------------------------
	r.Rule("C13-R4", "every registerSubscriptionLocked is paired with SubscriptionCountInc(1) on the same path; TriggerCountInc only follows initialized.Store(true), and vice versa (reporter present)")
	nReg := 0
	for _, fi := range p.Funcs("resolve") {
		in := fw.NewInterp(fi)
		in.H = fw.Hooks{
			Lit: func(lit *ast.FuncLit, ctx fw.LitCtx, st *fw.State) fw.LitMode { return fw.LitSkip },
			Cond: func(e ast.Expr, branch bool, st *fw.State) {
				if x, eq, ok := fw.NilCheck(info, e); ok && fw.IsFieldSel(info, x, "resolve", "Resolver", "reporter") && eq == branch {
					st.Inc("counted") // no reporter: the path on which the counter call is skipped counts as balanced
				}
			},
			Node: func(n ast.Node, st *fw.State) {
				call, ok := n.(*ast.CallExpr)
				if !ok {
					return
				}
				switch {
				case fw.CallIs(info, call, "resolve", "Resolver.registerSubscriptionLocked"):
					st.Inc("registered")
					if in.Final() {
						nReg++
					}
				case fw.CallIs(info, call, "resolve", "Reporter.SubscriptionCountInc"):
					st.Inc("counted")
					st.Set("inc-call")
				}
			},
			Exit: func(ret *ast.ReturnStmt, lit *ast.FuncLit, st *fw.State) {
				if !in.Final() || lit != nil {
					return
				}
				reg, cnt := st.Get("registered"), st.Get("counted")
				if reg.Max == 0 && !st.May("inc-call") {
					return
				}
				pos := fi.Decl.End()
				if ret != nil {
					pos = ret.Pos()
				}
				ok := reg == cnt
				r.Check(ok, "C13-R4", fi.Name()+"/exit-count-balance", p.Pos(pos), "exit of "+fi.Name()+": registrations vs SubscriptionCountInc",
					"on some path to this exit the number of registerSubscriptionLocked calls and of SubscriptionCountInc(1) calls differ: the subscription count no longer returns to zero")
			},
		}
		in.Run(nil)
	}
	r.Expect("C13-R4", "registerSubscriptionLocked calls", nReg, 2)
	nInit := 0
	fw.EachCall(p.Funcs("resolve"), func(fi *fw.FuncInfo, call *ast.CallExpr, stack []ast.Node) {
		if fw.CallIs(info, call, "resolve", "Reporter.TriggerCountInc") {
			nInit++
			// the enclosing function must store initialized=true before, on all paths
			ok := mustPrecede(fi, call, func(c *ast.CallExpr) bool {
				cc, ok := fw.AtomicFieldCall(info, c, "resolve", "trigger", "initialized", "Store")
				if !ok {
					return false
				}
				v, _ := fw.ConstVal(info, cc.Args[0])
				return v == "true"
			})
			r.Check(ok, "C13-R4", fi.Name()+"/TriggerCountInc", p.Pos(call.Pos()), "TriggerCountInc in "+fi.Name(),
				"not preceded on every path by trigger.initialized.Store(true): removal decrements the trigger count only for initialized triggers, so the count drifts")
		}
		if c, ok := fw.AtomicFieldCall(info, call, "resolve", "trigger", "initialized", "Store"); ok {
			nInit++
			v, _ := fw.ConstVal(info, c.Args[0])
			r.Check(v == "true" && fi.Name() == "Resolver.markTriggerInitialized", "C13-R4", fi.Name()+"/initialized.Store", p.Pos(call.Pos()), "initialized.Store in "+fi.Name(),
				"trigger.initialized may only be set to true in markTriggerInitialized, next to TriggerCountInc")
		}
	})
	r.Expect("C13-R4", "TriggerCountInc / initialized.Store sites", nInit, 2)
	// the trigger that is marked initialized (and counted) is the one currently in the registry
	if fi := p.Func("resolve", "Resolver.markTriggerInitialized"); fi == nil {
		r.Error("C13-R4: Resolver.markTriggerInitialized not found")
	} else {
		g := fw.NewGuards(info, fw.GuardSpec{Name: "found-in-registry", Sticky: true, Match: func(_ *types.Info, a fw.CondAtom) bool {
			if a.Kind != "True" {
				return false
			}
			id, ok := ast.Unparen(a.X).(*ast.Ident)
			if !ok {
				return false
			}
			return fw.VarFromCall(fi, info.Uses[id], id.Pos(), "resolve", "Resolver.getTrigger", 1) || isLookupOK(fi, id, "resolve", "Resolver", "triggers")
		}})
		n := 0
		in := fw.NewInterp(fi)
		in.H = fw.Hooks{Cond: g.Cond, Node: func(nd ast.Node, st *fw.State) {
			c, ok := nd.(*ast.CallExpr)
			if !ok || !in.Final() {
				return
			}
			if cc, ok := fw.AtomicFieldCall(info, c, "resolve", "trigger", "initialized", "Store"); ok {
				n++
				recv := ast.Unparen(cc.Fun).(*ast.SelectorExpr).X.(*ast.SelectorExpr).X
				fromRegistry := false
				if id, ok := ast.Unparen(recv).(*ast.Ident); ok {
					fromRegistry = fw.VarFromCall(fi, info.Uses[id], id.Pos(), "resolve", "Resolver.getTrigger", 0)
					if !fromRegistry { // trig, ok := r.triggers[id]
						obj := info.Uses[id]
						ast.Inspect(fi.Decl.Body, func(m ast.Node) bool {
							if as, isAs := m.(*ast.AssignStmt); isAs && as.Pos() < id.Pos() && len(as.Lhs) == 2 && len(as.Rhs) == 1 && fw.RootObj(info, as.Lhs[0]) == obj {
								if ix, isIx := ast.Unparen(as.Rhs[0]).(*ast.IndexExpr); isIx && fw.IsFieldSel(info, ix.X, "resolve", "Resolver", "triggers") {
									fromRegistry = true
								}
							}
							return true
						})
					}
				}
				r.Check(fromRegistry && g.Has(st, "found-in-registry"), "C13-R4", fi.Name()+"/counts-registered-trigger", p.Pos(c.Pos()), "the trigger marked initialized (and counted) was just found in the registry",
					"initialized.Store(true)/TriggerCountInc act on a trigger object that was not (re-)looked up in the registry: a trigger detached while Source.Start was in flight is counted although its removal already happened — the trigger count never returns to zero")
			}
		}}
		in.Run(nil)
		r.Expect("C13-R4", "initialized.Store in markTriggerInitialized", n, 1)
	}

	// ---- R5 trigger identity --------------------------------------------------------------------
	r.Rule("C13-R5", "the trigger id returned by prepareTrigger is the digest fed with the source's hash of the input and with the forwarded-headers hash")
	if fi := p.Func("resolve", "Resolver.prepareTrigger"); fi == nil {
		r.Error("C13-R5: Resolver.prepareTrigger not found")
	} else {
		d := fw.NewDeriver(fi)
		nRet := 0
		ast.Inspect(fi.Decl.Body, func(n ast.Node) bool {
			as, ok := n.(*ast.AssignStmt)
			if !ok {
				return true
			}
			for i, l := range as.Lhs {
				o := fw.RootObj(info, l)
				if o == nil || o != namedResult(fi, 1) || i >= len(as.Rhs) {
					continue
				}
				nRet++
				rhs := as.Rhs[i]
				var digest types.Object
				if c, ok := ast.Unparen(rhs).(*ast.CallExpr); ok {
					if sel, ok := ast.Unparen(c.Fun).(*ast.SelectorExpr); ok {
						digest = fw.RootObj(info, sel.X)
					}
				}
				hashed := false
				ast.Inspect(fi.Decl.Body, func(m ast.Node) bool {
					if c, ok := m.(*ast.CallExpr); ok && fw.CallIs(info, c, "resolve", "SubscriptionDataSource.HashTriggerInput") && len(c.Args) == 2 {
						if d.Derives(c.Args[0], d.ParamAt(2)) && digest != nil && fw.RootObj(info, c.Args[1]) == digest {
							hashed = true
						}
					}
					return true
				})
				inOK := hashed && d.Derives(rhs, d.ParamAt(2))
				hdOK := d.Derives(rhs, d.IsCallTo("resolve", "SubgraphHeadersBuilder.HeadersForSubgraph"))
				r.Check(inOK, "C13-R5", fi.Name()+"/key<-input", p.Pos(as.Pos()), "trigger id derives from HashTriggerInput(input, digest)",
					"the returned trigger id does not depend on the source's hash of the input: different upstream subscriptions would share one trigger")
				r.Check(hdOK, "C13-R5", fi.Name()+"/key<-headers", p.Pos(as.Pos()), "trigger id derives from the forwarded-headers hash",
					"the returned trigger id does not depend on SubgraphHeadersBuilder.HeadersForSubgraph: subscribers with different forwarded headers would share one upstream subscription")
			}
			return true
		})
		r.Expect("C13-R5", "assignments of the trigger id result", nRet, 1)
		okPath, nSum := componentOnEveryPath(fi,
			func(c *ast.CallExpr) bool { fn := fw.Callee(info, c); return fn != nil && fn.Name() == "Sum64" },
			func(a fw.CondAtom) bool {
				if a.Kind == "Nil" && fw.IsFieldSel(info, a.X, "resolve", "Context", "SubgraphHeadersBuilder") {
					return true
				}
				if a.Kind == "Eq" {
					if v, isC := fw.ConstVal(info, a.Y); isC && v == "0" {
						if id, isID := ast.Unparen(a.X).(*ast.Ident); isID && fw.VarFromCall(fi, info.Uses[id], id.Pos(), "resolve", "SubgraphHeadersBuilder.HeadersForSubgraph", 1) {
							return true
						}
					}
				}
				return false
			},
			func(nd ast.Node) bool {
				c, isC := nd.(*ast.CallExpr)
				if !isC {
					return false
				}
				fn := fw.Callee(info, c)
				return fn != nil && fn.Name() == "Write" && len(c.Args) == 1 && d.Derives(c.Args[0], d.IsCallTo("resolve", "SubgraphHeadersBuilder.HeadersForSubgraph"))
			})
		r.Expect("C13-R5", "Sum64 in prepareTrigger", nSum, 1)
		r.Check(okPath, "C13-R5", fi.Name()+"/headers-hash-on-every-path", fi.Pos(), "the trigger digest is fed the headers hash on every path on which a headers builder exists and the hash is non-zero",
			"a path reaches Sum64 with a non-zero forwarded-headers hash that was not written into the digest: subscribers with different forwarded headers share one upstream subscription")
	}
	// both entry points hand exactly that id to addSubscription
	for _, name := range []string{"Resolver.ResolveGraphQLSubscription", "Resolver.AsyncResolveGraphQLSubscription"} {
		fi := p.Func("resolve", name)
		if fi == nil {
			r.Error("C13-R5: %s not found", name)
			continue
		}
		d := fw.NewDeriver(fi)
		n := 0
		ast.Inspect(fi.Decl.Body, func(nd ast.Node) bool {
			c, ok := nd.(*ast.CallExpr)
			if ok && fw.CallIs(info, c, "resolve", "Resolver.addSubscription") {
				n++
				r.Check(d.Derives(c.Args[0], d.IsCallTo("resolve", "Resolver.prepareTrigger")), "C13-R5", name+"/addSubscription-id", p.Pos(c.Pos()),
					"trigger id passed to addSubscription comes from prepareTrigger", "the id under which the subscription is registered is not the prepareTrigger result")
			}
			return true
		})
		r.Expect("C13-R5", "addSubscription calls in "+name, n, 1)
	}

	// ---- R6 start-up ----------------------------------------------------------------------------
	r.Rule("C13-R6", "SubscriptionDataSource.Start has one call site, in the goroutine of a newly created trigger, under a context detached from the first subscriber; its error edge reaches doneTriggerFromUpdater, its success edge markTriggerInitialized; shutdown is registered")
	nStart := 0
	fw.EachCall(p.Funcs("resolve"), func(fi *fw.FuncInfo, call *ast.CallExpr, stack []ast.Node) {
		if !fw.CallIs(info, call, "resolve", "SubscriptionDataSource.Start") {
			return
		}
		nStart++
		lit := fw.InnermostLit(stack)
		d := fw.NewDeriver(fi)
		det := d.Derives(call.Args[0], func(e ast.Expr) bool {
			c, ok := e.(*ast.CallExpr)
			if !ok {
				return false
			}
			fn := fw.Callee(info, c)
			return fn != nil && fn.Pkg() != nil && ((fn.Pkg().Path() == "github.com/wundergraph/graphql-go-tools/v2/pkg/internal/xcontext" && fn.Name() == "Detach") || (fn.Pkg().Path() == "context" && (fn.Name() == "WithoutCancel" || fn.Name() == "Background")))
		})
		r.Check(det, "C13-R6", fi.Name()+"/Start-ctx", p.Pos(call.Pos()), "context of Source.Start is detached from the subscriber that created the trigger",
			"the context handed to Source.Start does not pass xcontext.Detach / context.WithoutCancel: when the first subscriber leaves, the shared upstream subscription of all other subscribers dies")
		r.Check(lit != nil && fi.Name() == "Resolver.addSubscription", "C13-R6", fi.Name()+"/Start-site", p.Pos(call.Pos()), "Source.Start is called from the new-trigger goroutine of addSubscription",
			"Source.Start must only be called once per trigger, from the goroutine spawned when the trigger is created")
		if lit == nil {
			return
		}
		// the literal must be spawned after the trigger was inserted, on the path where the lookup failed
		in := fw.NewInterp(fi)
		in.H = fw.Hooks{
			Lit: func(l *ast.FuncLit, ctx fw.LitCtx, st *fw.State) fw.LitMode {
				if l == lit && in.Final() {
					r.Check(ctx.Go && st.Must("inserted") && !st.May("found"), "C13-R6", fi.Name()+"/Start-once", p.Pos(l.Pos()), "the starting goroutine is spawned only after inserting a new trigger, never when the trigger already existed",
						"the goroutine that calls Source.Start is reachable on a path where the trigger already existed (second start) or before the trigger was put in the registry")
				}
				return fw.LitSkip
			},
			Cond: func(e ast.Expr, branch bool, st *fw.State) {
				if id, ok := ast.Unparen(e).(*ast.Ident); ok && branch {
					if isLookupOK(fi, id, "resolve", "Resolver", "triggers") {
						st.Set("found")
					}
				}
			},
			Node: func(n ast.Node, st *fw.State) {
				for _, t := range fw.WriteTargets(info, n) {
					if fw.IsFieldSel(info, t, "resolve", "Resolver", "triggers") {
						st.Set("inserted")
					}
				}
			},
		}
		in.Run(nil)
		// inside the literal: error edge -> teardown, success edge -> initialized
		li := fw.NewInterp(fi)
		errObj := types.Object(nil)
		li.H = fw.Hooks{
			Lit: func(l *ast.FuncLit, ctx fw.LitCtx, st *fw.State) fw.LitMode { return fw.LitSkip },
			Node: func(n ast.Node, st *fw.State) {
				if as, ok := n.(*ast.AssignStmt); ok {
					for i, rhs := range as.Rhs {
						if c, ok := ast.Unparen(rhs).(*ast.CallExpr); ok && c == call && i < len(as.Lhs) {
							errObj = fw.RootObj(info, as.Lhs[i])
							st.Set("started")
						}
					}
				}
				if c, ok := n.(*ast.CallExpr); ok {
					if fw.CallIs(info, c, "resolve", "Resolver.doneTriggerFromUpdater") {
						st.Set("teardown")
					}
					if fw.CallIs(info, c, "resolve", "Resolver.markTriggerInitialized") {
						st.Set("initialized")
					}
				}
			},
			Cond: func(e ast.Expr, branch bool, st *fw.State) {
				if x, eq, ok := fw.NilCheck(info, e); ok && errObj != nil && fw.RootObj(info, x) == errObj {
					if eq == branch {
						st.Set("err-nil")
					} else {
						st.Set("err-set")
					}
				}
			},
			Exit: func(ret *ast.ReturnStmt, l *ast.FuncLit, st *fw.State) {
				if !li.Final() || l != lit {
					return
				}
				pos := lit.End()
				if ret != nil {
					pos = ret.Pos()
				}
				if st.Must("err-set") {
					r.Check(st.Must("teardown"), "C13-R6", fi.Name()+"/Start-error-edge", p.Pos(pos), "exit of the start goroutine on the error edge",
						"start-up failed but doneTriggerFromUpdater is not reached: the trigger and its subscribers stay registered for ever and the trigger context is never cancelled")
				} else {
					r.Check(st.Must("initialized") || !st.May("started"), "C13-R6", fi.Name()+"/Start-success-edge", p.Pos(pos), "exit of the start goroutine on the success edge",
						"Source.Start succeeded but markTriggerInitialized is not reached: the trigger count is never incremented while removal decrements only initialized triggers")
				}
			},
		}
		li.RunLit(lit, nil)
	})
	r.Expect("C13-R6", "call sites of SubscriptionDataSource.Start", nStart, 1)
	if nStart > 1 {
		r.Fail("C13-R6", "Start-call-sites", "-", "number of Source.Start call sites", "more than one call site of SubscriptionDataSource.Start in package resolve")
	}
	// shutdown hook registered in New
	if fi := p.Func("resolve", "New"); fi != nil {
		found := false
		fw.WalkAll(fi.Decl.Body, func(n ast.Node) bool {
			if c, ok := n.(*ast.CallExpr); ok {
				if fn := fw.Callee(info, c); fn != nil && fn.Pkg() != nil && fn.Pkg().Path() == "context" && fn.Name() == "AfterFunc" && len(c.Args) == 2 {
					fw.WalkAll(c.Args[1], func(m ast.Node) bool {
						if id, ok := m.(*ast.Ident); ok && id.Name == "shutdownResolver" {
							found = true
						}
						return true
					})
				}
			}
			return true
		})
		r.Check(found, "C13-R6", "New/shutdown-registered", fi.Pos(), "New registers shutdownResolver with context.AfterFunc on the resolver context",
			"shutdownResolver is not registered for the resolver context: triggers are never cancelled and subscribers never completed at shutdown")
	} else {
		r.Error("C13-R6: resolve.New not found")
	}

	// ---- R7 sources finish with Done -------------------------------------------------------------
	r.Rule("C13-R7", "in graphql_datasource every SubscriptionUpdater.Error()/Complete() is followed on all paths in the same function by Done(); the cancellation callback calls cancel() and Done()")
	ginfo := p.Pkg("gqlds")
	if ginfo == nil {
		r.Error("C13-R7: package graphql_datasource not loaded")
		return
	}
	nTerm := 0
	runTypestate := func(fi *fw.FuncInfo, lit *ast.FuncLit) {
		in := fw.NewInterp(fi)
		gi := fi.Info()
		in.H = fw.Hooks{
			Lit: func(l *ast.FuncLit, ctx fw.LitCtx, st *fw.State) fw.LitMode { return fw.LitSkip },
			Node: func(n ast.Node, st *fw.State) {
				c, ok := n.(*ast.CallExpr)
				if !ok {
					return
				}
				switch {
				case fw.CallIs(gi, c, "resolve", "SubscriptionUpdater.Error"), fw.CallIs(gi, c, "resolve", "SubscriptionUpdater.Complete"):
					st.Set("terminal-pending")
					if in.Final() {
						nTerm++
					}
				case fw.CallIs(gi, c, "resolve", "SubscriptionUpdater.Done"):
					st.Kill("terminal-pending")
				case fw.CallIs(gi, c, "resolve", "SubscriptionUpdater.Update"), fw.CallIs(gi, c, "resolve", "SubscriptionUpdater.UpdateSubscription"):
					if in.Final() && st.May("terminal-pending") {
						r.Fail("C13-R7", fw.SiteLabel(in)+"/update-after-terminal", p.Pos(c.Pos()), "Update after Error/Complete", "an update is delivered after the terminal signal")
					}
				}
			},
			Exit: func(ret *ast.ReturnStmt, l *ast.FuncLit, st *fw.State) {
				if !in.Final() || l != lit {
					return
				}
				pos := fi.Decl.End()
				if lit != nil {
					pos = lit.End()
				}
				if ret != nil {
					pos = ret.Pos()
				}
				lbl := fi.Name()
				if lit != nil {
					lbl = fw.LitLabel(fi, lit)
				}
				r.Check(!st.May("terminal-pending"), "C13-R7", lbl+"/exit-after-terminal", p.Pos(pos), "exit of "+lbl,
					"an exit is reachable after updater.Error()/Complete() without updater.Done(): the trigger is never detached, its context never cancelled, subscribers never completed")
			},
		}
		if lit != nil {
			in.RunLit(lit, nil)
		} else {
			in.Run(nil)
		}
	}
	for _, fi := range p.Funcs("gqlds") {
		uses := false
		fw.WalkAll(fi.Decl.Body, func(n ast.Node) bool {
			if c, ok := n.(*ast.CallExpr); ok {
				if fn := fw.Callee(fi.Info(), c); fn != nil && fw.TypeIs(recvType(fn), "resolve", "SubscriptionUpdater") {
					uses = true
				}
			}
			return true
		})
		if !uses {
			continue
		}
		runTypestate(fi, nil)
		fw.WalkAll(fi.Decl.Body, func(n ast.Node) bool {
			if l, ok := n.(*ast.FuncLit); ok {
				runTypestate(fi, l)
				// cancellation callback: AfterFunc literal must call both cancel and Done
			}
			return true
		})
	}
	r.Expect("C13-R7", "Error()/Complete() calls in graphql_datasource", nTerm, 6)
	nAfter := 0
	fw.EachCall(p.Funcs("gqlds"), func(fi *fw.FuncInfo, call *ast.CallExpr, stack []ast.Node) {
		gi := fi.Info()
		fn := fw.Callee(gi, call)
		if fn == nil || fn.Pkg() == nil || fn.Pkg().Path() != "context" || fn.Name() != "AfterFunc" || len(call.Args) != 2 {
			return
		}
		lit, ok := ast.Unparen(call.Args[1]).(*ast.FuncLit)
		if !ok {
			return
		}
		hasDone, hasCancel := false, false
		fw.WalkAll(lit.Body, func(n ast.Node) bool {
			if c, ok := n.(*ast.CallExpr); ok {
				if fw.CallIs(gi, c, "resolve", "SubscriptionUpdater.Done") {
					hasDone = true
				}
				if fw.Callee(gi, c) == nil && fw.Builtin(gi, c) == "" {
					if sig, ok := gi.TypeOf(c.Fun).Underlying().(*types.Signature); ok && sig.Params().Len() == 0 && sig.Results().Len() == 0 {
						hasCancel = true
					}
				}
			}
			return true
		})
		if !hasDone && !hasCancel {
			return
		}
		nAfter++
		r.Check(hasDone && hasCancel, "C13-R7", fi.Name()+"/cancel-callback", p.Pos(call.Pos()), "cancellation callback of "+fi.Name()+" cancels the upstream subscription and calls Done()",
			"the callback registered for the trigger context must both cancel the upstream subscription and call updater.Done()")
	})
	r.Expect("C13-R7", "cancellation callbacks", nAfter, 1)
	_ = strings.Join
}

// checkSubsLockOrder: lock order updater.mu > Resolver.mu > trigger.mu > writeMu (never re-entered) and
// no client I/O / cancel / completion with a registry lock held. Shared by C13-R2 and C12-R4.
func checkSubsLockOrder(r *fw.Run, rule string, la *fw.LockAnalysis) {
	p := r.Prog
	r.Rule(rule, "lock order updater.mu > Resolver.mu > trigger.mu; writeMu, trigger cancel functions, closeSubs and client writers are never used with Resolver.mu or trigger.mu held")
	rank := map[string]int{lkUpdater: 3, lkResolver: 2, lkTrigger: 1, lkWriteMu: 0}
	nAcq, nOut := 0, 0
	la.Visit(func(in *fw.Interp, n ast.Node, st *fw.State) {
		call, ok := n.(*ast.CallExpr)
		if !ok {
			return
		}
		site := fw.SiteLabel(in)
		if op, ok := fw.LockOpOf(in.Info, call); ok && op.Acquire {
			rk, known := rank[op.ID]
			if !known {
				return
			}
			nAcq++
			bad := ""
			for _, hid := range fw.MayHeldLocks(st) {
				if hr, ok := rank[hid]; ok && hr <= rk {
					bad = hid
				}
			}
			r.Check(bad == "", rule, site+"/acquire:"+op.ID, p.Pos(call.Pos()), "acquire "+op.ID+" in "+site,
				"acquired while (possibly) holding "+bad+" (held at entry on some call path or acquired earlier), against the documented order subscriptionUpdater.mu > Resolver.mu > trigger.mu > (writeMu outside those locks): deadlock with a goroutine taking them in the documented order")
			return
		}
		// calls that must run outside the registry locks
		role := ""
		fn := fw.Callee(in.Info, call)
		switch {
		case fn != nil && fw.FuncIs(fn, "resolve", "closeSubs"):
			role = "closeSubs"
		case fn == nil && isCancelFuncCall(in.Info, call) && !isLocalTimeoutCancel(in.FI, call):
			role = "context.CancelFunc call"
		case fn != nil && isWriterIface(recvType(fn)):
			role = "client writer " + fn.Name()
		case fn != nil && fw.FuncIs(fn, "resolve", "SubscriptionDataSource.Start"),
			fn != nil && fn.Name() == "SubscriptionOnStart":
			role = "data source " + fn.Name()
		}
		if role == "" {
			return
		}
		nOut++
		bad := ""
		for _, id := range []string{lkResolver, lkTrigger} {
			if st.May("L:"+id) || st.May("R:"+id) {
				bad = id
			}
		}
		r.Check(bad == "", rule, site+"/outside-locks:"+role, p.Pos(call.Pos()), role+" in "+site,
			"reachable with "+bad+" held: client I/O, cancel functions and completion run user code that may call back into the resolver (self-deadlock) or block every other subscription")
	})
	r.Expect(rule, "acquisitions of ranked locks", nAcq, 27)
	r.Expect(rule, "calls that must run outside registry locks", nOut, 14)

}

// isLocalTimeoutCancel: the called CancelFunc is a local variable defined by context.With*
// in the same function (a per-call timeout), not a trigger's cancel function.
func isLocalTimeoutCancel(fi *fw.FuncInfo, call *ast.CallExpr) bool {
	info := fi.Info()
	id, ok := ast.Unparen(call.Fun).(*ast.Ident)
	if !ok {
		return false
	}
	obj := info.Uses[id]
	local := false
	ast.Inspect(fi.Decl.Body, func(n ast.Node) bool {
		as, ok := n.(*ast.AssignStmt)
		if !ok || len(as.Rhs) != 1 {
			return true
		}
		c, ok := ast.Unparen(as.Rhs[0]).(*ast.CallExpr)
		if !ok {
			return true
		}
		fn := fw.Callee(info, c)
		if fn == nil || fn.Pkg() == nil || fn.Pkg().Path() != "context" || !strings.HasPrefix(fn.Name(), "With") {
			return true
		}
		for _, l := range as.Lhs {
			if lid, ok := l.(*ast.Ident); ok && (info.Defs[lid] == obj || info.Uses[lid] == obj) {
				local = true
			}
		}
		return true
	})
	return local
}

// isCancelFuncCall: a call of a value of type context.CancelFunc (or func()) read from a
// `cancel`-typed field/variable: we match by type context.CancelFunc only.
func isCancelFuncCall(info *types.Info, call *ast.CallExpr) bool {
	t := info.TypeOf(call.Fun)
	if t == nil {
		return false
	}
	n, ok := types.Unalias(t).(*types.Named)
	return ok && n.Obj().Pkg() != nil && n.Obj().Pkg().Path() == "context" && n.Obj().Name() == "CancelFunc"
}

func isWriterIface(t types.Type) bool {
	if t == nil {
		return false
	}
	return fw.TypeIs(t, "resolve", "SubscriptionResponseWriter") || fw.TypeIs(t, "resolve", "AsyncErrorWriter") || fw.TypeIs(t, "resolve", "ResponseWriter")
}

// namedResult returns the i-th named result variable of fi (nil if unnamed).
func namedResult(fi *fw.FuncInfo, i int) types.Object {
	sig := fi.Obj.Type().(*types.Signature)
	if i >= sig.Results().Len() {
		return nil
	}
	v := sig.Results().At(i)
	if v.Name() == "" {
		return nil
	}
	return v
}

// isLookupOK: id is the `ok` of `v, ok := X.field[key]` in fi.
func isLookupOK(fi *fw.FuncInfo, id *ast.Ident, pkg, typ, field string) bool {
	info := fi.Info()
	obj := info.Uses[id]
	if obj == nil {
		return false
	}
	// the nearest preceding definition/assignment of obj from a map index of that field
	found := false
	var last bool
	ast.Inspect(fi.Decl.Body, func(n ast.Node) bool {
		as, ok := n.(*ast.AssignStmt)
		if !ok || as.Pos() > id.Pos() || len(as.Lhs) != 2 || len(as.Rhs) != 1 {
			return true
		}
		if fw.RootObj(info, as.Lhs[1]) != obj {
			return true
		}
		ix, ok := ast.Unparen(as.Rhs[0]).(*ast.IndexExpr)
		last = ok && fw.IsFieldSel(info, ix.X, pkg, typ, field)
		found = true
		return true
	})
	return found && last
}

// mustPrecede: on every path from the entry of fi to `site`, a call satisfying pred occurs.
func mustPrecede(fi *fw.FuncInfo, site *ast.CallExpr, pred func(*ast.CallExpr) bool) bool {
	res := true
	seen := false
	in := fw.NewInterp(fi)
	in.H = fw.Hooks{
		Lit: func(l *ast.FuncLit, ctx fw.LitCtx, st *fw.State) fw.LitMode {
			if ctx.Go {
				return fw.LitSkip
			}
			return fw.LitInline
		},
		Node: func(n ast.Node, st *fw.State) {
			c, ok := n.(*ast.CallExpr)
			if !ok {
				return
			}
			if c == site && in.Final() {
				seen = true
				if !st.Must("pre") {
					res = false
				}
			}
			if pred(c) {
				st.Set("pre")
			}
		},
	}
	in.Run(nil)
	return res && seen
}

var resultFields = map[string][]string{
	"removeResult": {"removed", "toClose", "triggerCancel", "initialized"},
	// removeClient reports removed/triggerDec to the reporter itself, before returning
	"removeClientResult": {"toClose", "cancels"},
}
var metricsField = map[string]bool{"removed": true, "initialized": true, "triggerDec": true}

// checkResultConsumption handles one function: every variable assigned from a call that returns a
// removal result must have each of its fields read on all paths before the function exits or the
// variable is overwritten — or be returned whole. Local accumulators fed from such fields must
// themselves be read (outside their own accumulation) on all paths.
func checkResultConsumption(r *fw.Run, fi *fw.FuncInfo) int {
	info := fi.Info()
	p := r.Prog
	n := 0
	resType := func(t types.Type) string {
		for name := range resultFields {
			if fw.TypeIs(t, "resolve", name) {
				if _, isPtr := t.(*types.Pointer); !isPtr {
					return name
				}
			}
		}
		return ""
	}
	// quick filter
	has := false
	ast.Inspect(fi.Decl.Body, func(nd ast.Node) bool {
		if c, ok := nd.(*ast.CallExpr); ok && fw.Callee(info, c) != nil && resType(info.TypeOf(c)) != "" {
			has = true
		}
		return !has
	})
	if !has {
		return 0
	}
	type pend struct {
		what string
		pos  string
	}
	accOf := map[types.Object]string{} // accumulator var -> label
	in := fw.NewInterp(fi)
	objKey := func(o types.Object) string { return o.Name() + "@" + itoa(int(o.Pos())) } // two variables may share a name (res in a loop, res after it)
	fact := func(o types.Object, f string) string { return "pend:" + objKey(o) + "." + f }
	isAccumulation := func(as *ast.AssignStmt, o types.Object) bool {
		for _, l := range as.Lhs {
			if fw.RootObj(info, l) == o {
				return true
			}
		}
		return false
	}
	// reads of a cancel function that only test it against nil do not consume it (the cancel still has to be called or
	// handed on when it is not nil)
	nilTested := map[*ast.SelectorExpr]bool{}
	ast.Inspect(fi.Decl.Body, func(nd ast.Node) bool {
		if be, ok := nd.(*ast.BinaryExpr); ok {
			if x, _, isNil := fw.NilCheck(info, be); isNil {
				if sel, isSel := ast.Unparen(x).(*ast.SelectorExpr); isSel && fw.IsFieldSel(info, sel, "resolve", "removeResult", "triggerCancel") {
					nilTested[sel] = true
				}
			}
		}
		return true
	})
	var curAssign *ast.AssignStmt
	in.H = fw.Hooks{
		Lit: func(l *ast.FuncLit, ctx fw.LitCtx, st *fw.State) fw.LitMode {
			if ctx.Go {
				return fw.LitSkip
			}
			return fw.LitInline
		},
		Cond: func(e ast.Expr, branch bool, st *fw.State) {
			if x, eq, ok := fw.NilCheck(info, e); ok && fw.IsFieldSel(info, x, "resolve", "removeResult", "triggerCancel") && eq == branch {
				// no trigger was emptied by this removal: there is no trigger whose initialized bit could matter,
				// and nothing to cancel
				if o := fw.RootObj(info, x); o != nil {
					st.Kill(fact(o, "initialized"))
					st.Kill(fact(o, "triggerCancel"))
				}
			}
			if x, eq, ok := fw.NilCheck(info, e); ok && fw.IsFieldSel(info, x, "resolve", "Resolver", "reporter") && eq == branch {
				// no reporter: metrics fields need not be consumed on this path
				st.KillIf(func(k string) bool {
					if !strings.HasPrefix(k, "pend:") {
						return false
					}
					f := k[strings.LastIndexByte(k, '.')+1:]
					return metricsField[f] || strings.HasPrefix(k, "pend:acc-metric:")
				})
			}
		},
		Node: func(nd ast.Node, st *fw.State) {
			switch x := nd.(type) {
			case *ast.SelectorExpr:
				// read of v.field
				if v, sel := fw.Field(info, x); v != nil && !nilTested[x] {
					if rt := resType(info.TypeOf(sel.X)); rt != "" {
						if o := fw.RootObj(info, sel.X); o != nil {
							st.Kill(fact(o, v.Name()))
						}
					}
				}
			case *ast.AssignStmt:
				curAssign = x
				// accumulators: lhs var whose rhs mentions a result field
				for i, l := range x.Lhs {
					lo := fw.RootObj(info, l)
					if lo == nil || i >= len(x.Rhs) && len(x.Rhs) != 1 {
						continue
					}
					rhs := x.Rhs[0]
					if i < len(x.Rhs) {
						rhs = x.Rhs[i]
					}
					if c, ok := ast.Unparen(rhs).(*ast.CallExpr); ok && fw.Callee(info, c) != nil {
						if rt := resType(info.TypeOf(c)); rt != "" {
							if in.Final() {
								n++
							}
							for _, f := range resultFields[rt] {
								st.Set(fact(lo, f))
							}
							continue
						}
					}
					fed := ""
					fw.WalkAll(rhs, func(m ast.Node) bool {
						if s, ok := m.(*ast.SelectorExpr); ok {
							if v, sel := fw.Field(info, s); v != nil && resType(info.TypeOf(sel.X)) != "" {
								fed = v.Name()
							}
						}
						return true
					})
					if fed != "" {
						if _, isField := fw.Field(info, l); isField != nil {
							continue // stored into a struct field: escapes, treated as consumed
						}
						lbl := "pend:acc:" + lo.Name()
						if metricsField[fed] {
							lbl = "pend:acc-metric:" + lo.Name()
						}
						accOf[lo] = lbl
						st.Set(lbl)
					}
				}
			case *ast.IncDecStmt:
				// x++ guarded by a result field (`if res.initialized { triggerDec++ }`)
			case *ast.ReturnStmt:
				for _, res := range x.Results {
					if id, ok := ast.Unparen(res).(*ast.Ident); ok {
						if o := info.Uses[id]; o != nil {
							st.KillPrefix("pend:" + objKey(o) + ".")
						}
					}
				}
			case *ast.Ident:
			}
			// reads of accumulators outside their own accumulation statement
			var scan ast.Node = nd
			switch y := nd.(type) {
			case *fw.RangeEval:
				scan = y.Stmt.X
			case *ast.RangeStmt:
				return // operand handled by RangeEval on the pre-loop state; body statements are visited on their own
			}
			fw.WalkAll(scan, func(m ast.Node) bool {
				if _, isLit := m.(*ast.FuncLit); isLit {
					return false
				}
				id, ok := m.(*ast.Ident)
				if !ok {
					return true
				}
				o := info.Uses[id]
				lbl, isAcc := accOf[o]
				if !isAcc {
					return true
				}
				switch y := nd.(type) {
				case *ast.AssignStmt:
					if isAccumulation(y, o) {
						return true
					}
				case *ast.IncDecStmt:
					return true
				case *ast.SelectorExpr, *ast.IndexExpr, *ast.StarExpr:
					return true // visited again as part of the enclosing statement
				}
				st.Kill(lbl)
				return true
			})
			_ = curAssign
		},
		Exit: func(ret *ast.ReturnStmt, lit *ast.FuncLit, st *fw.State) {
			if !in.Final() || lit != nil {
				return
			}
			pos := fi.Decl.End()
			if ret != nil {
				pos = ret.Pos()
			}
			var left []string
			for k, v := range st.F {
				if strings.HasPrefix(k, "pend:") && v.Max >= 1 {
					name := strings.TrimPrefix(k, "pend:")
					if at := strings.IndexByte(name, '@'); at >= 0 {
						if dot := strings.IndexByte(name[at:], '.'); dot >= 0 {
							name = name[:at] + name[at+dot:]
						}
					}
					left = append(left, name)
				}
			}
			r.Check(len(left) == 0, "C13-R3", fi.Name()+"/exit-consumed", p.Pos(pos), "exit of "+fi.Name()+": removal result fully consumed",
				"on some path to this exit these parts of a removal result are never used: "+strings.Join(sortStrings(left), ", ")+" (dropped toClose ⇒ subscriber never completed; dropped cancel ⇒ upstream never cancelled; dropped removed/initialized ⇒ counters never return to zero)")
		},
	}
	in.Run(nil)
	return n
}

func sortStrings(s []string) []string {
	out := append([]string{}, s...)
	for i := 1; i < len(out); i++ {
		for j := i; j > 0 && out[j] < out[j-1]; j-- {
			out[j], out[j-1] = out[j-1], out[j]
		}
	}
	return out
}

// c13OwnTrigger (R8): triggers are registered under an id that is re-used (it is the hash of input and headers), so a
// callback that arrives late — subscriptionUpdater.Done() after the trigger was already removed, or the start goroutine of a
// trigger that was removed while Source.Start was still running — must not act on whatever trigger is registered under that
// id NOW. The Resolver methods through which these callbacks detach a trigger or mark it initialized compare the identity
// of the trigger they looked up (its updater, or the trigger itself) with the caller's before the effect.
func c13OwnTrigger(r *fw.Run) {
	p := r.Prog
	r.Rule("C13-R8", "the Resolver methods through which a data source callback (subscriptionUpdater.Done) or the start goroutine detaches a trigger or marks it initialized act only after comparing the identity of the trigger found under the id with the caller's own (trigger.updater / trigger pointer against a parameter)")
	info := p.Pkg("resolve").TypesInfo
	// callers: subscriptionUpdater.Done and the goroutine literal(s) of the function that calls Source.Start
	callers := []ast.Node{}
	if fi := p.Func("resolve", "subscriptionUpdater.Done"); fi != nil {
		callers = append(callers, fi.Decl.Body)
	} else {
		r.Error("C13-R8: subscriptionUpdater.Done not found")
	}
	for _, fi := range p.Funcs("resolve") {
		fw.WalkAll(fi.Decl.Body, func(nd ast.Node) bool {
			gs, ok := nd.(*ast.GoStmt)
			if !ok {
				return true
			}
			lit, ok := gs.Call.Fun.(*ast.FuncLit)
			if !ok {
				return true
			}
			starts := false
			fw.WalkAll(lit.Body, func(m ast.Node) bool {
				if c, ok := m.(*ast.CallExpr); ok && fw.CallIs(info, c, "resolve", "SubscriptionDataSource.Start") {
					starts = true
				}
				return true
			})
			if starts {
				callers = append(callers, lit.Body)
			}
			return true
		})
	}
	targets := map[*types.Func]bool{}
	for _, body := range callers {
		fw.WalkAll(body, func(nd ast.Node) bool {
			if c, ok := nd.(*ast.CallExpr); ok {
				if fn := fw.Callee(info, c); fn != nil {
					if sig, _ := fn.Type().(*types.Signature); sig != nil && sig.Recv() != nil && fw.RecvName(sig.Recv().Type()) == "Resolver" {
						targets[fn] = true
					}
				}
			}
			return true
		})
	}
	isEffect := func(c *ast.CallExpr) string {
		if fw.CallIs(info, c, "resolve", "Resolver.detachTriggerLocked") {
			return "detach"
		}
		if sel, ok := ast.Unparen(c.Fun).(*ast.SelectorExpr); ok && sel.Sel.Name == "Store" && fw.IsFieldSel(info, sel.X, "resolve", "trigger", "initialized") {
			return "mark-initialized"
		}
		return ""
	}
	n := 0
	for fn := range targets {
		fi := p.FuncOf(fn)
		if fi == nil {
			continue
		}
		has := false
		fw.WalkAll(fi.Decl.Body, func(nd ast.Node) bool {
			if c, ok := nd.(*ast.CallExpr); ok && isEffect(c) != "" {
				has = true
			}
			return true
		})
		if !has {
			continue
		}
		sig := fn.Type().(*types.Signature)
		params := map[types.Object]bool{}
		for i := 0; i < sig.Params().Len(); i++ {
			params[sig.Params().At(i)] = true
		}
		isOwn := func(e ast.Expr) bool { // the caller's identity: a parameter (updater / trigger), possibly a field of it
			o := fw.RootObj(info, e)
			return o != nil && params[o]
		}
		isFound := func(e ast.Expr) bool { // identity of the trigger found in the registry: X.updater, or a *trigger value that is not a parameter
			e = ast.Unparen(e)
			if fw.IsFieldSel(info, e, "resolve", "trigger", "updater") {
				return !isOwn(e)
			}
			if t := info.TypeOf(e); t != nil && fw.TypeIs(t, "resolve", "trigger") {
				return !isOwn(e)
			}
			return false
		}
		in := fw.NewInterp(fi)
		in.H = fw.Hooks{
			Cond: func(e ast.Expr, branch bool, st *fw.State) {
				be, ok := ast.Unparen(e).(*ast.BinaryExpr)
				if !ok || (be.Op != token.EQL && be.Op != token.NEQ) {
					return
				}
				if (be.Op == token.EQL) != branch {
					return
				}
				if (isFound(be.X) && isOwn(be.Y)) || (isFound(be.Y) && isOwn(be.X)) {
					st.Set("own-trigger")
				}
			},
			Node: func(nd ast.Node, st *fw.State) {
				c, ok := nd.(*ast.CallExpr)
				if !ok || !in.Final() {
					return
				}
				if eff := isEffect(c); eff != "" {
					n++
					r.Check(st.Must("own-trigger"), "C13-R8", fi.Name()+"/"+eff+"-own-trigger-only", p.Pos(c.Pos()), fi.Name()+" "+eff+"s only the caller's own trigger",
						"the trigger is looked up by id and "+eff+"ed without comparing it with the caller's: the id is the hash of input and headers and is re-used, so a late callback of a trigger that was already removed (the source calls Done() after its context was cancelled; Start returns after the last subscriber left) tears down, or counts, the NEW trigger that another subscriber registered under the same id — that subscriber is closed without Complete and its upstream is cancelled")
				}
			},
		}
		in.Run(nil)
	}
	r.Expect("C13-R8", "detach / mark-initialized effects reachable from late callbacks", n, 2)
}

// c13LookupInsertAtomic (R9, added after a seeded change released Resolver.mu between the two): in addSubscription the
// lookup of the trigger (read of Resolver.triggers[id]) and the registration of a new one (store into Resolver.triggers) are
// in one critical section of Resolver.mu. Otherwise two concurrent first subscribers both miss, both create a trigger and
// start the source, and the second insert overwrites the first (an orphaned trigger whose subscriber is never completed).
func c13LookupInsertAtomic(r *fw.Run) {
	p := r.Prog
	r.Rule("C13-R9", "in addSubscription the lookup of Resolver.triggers[id] and the insertion of a new trigger happen in the same critical section of Resolver.mu (no unlock in between): a trigger is started exactly once per live period")
	fi := p.Func("resolve", "Resolver.addSubscription")
	if fi == nil {
		r.Error("C13-R9: Resolver.addSubscription not found")
		return
	}
	info := fi.Info()
	const lk = "resolve.Resolver.mu"
	n := 0
	in := fw.NewInterp(fi)
	in.H = fw.Hooks{
		Lit: func(l *ast.FuncLit, ctx fw.LitCtx, st *fw.State) fw.LitMode { return fw.LitSkip },
		Node: func(nd ast.Node, st *fw.State) {
			switch x := nd.(type) {
			case *ast.CallExpr:
				if op, ok := fw.LockOpOf(info, x); ok {
					fw.ApplyLockOp(op, st)
				}
			case *ast.AssignStmt:
				stored := false
				for _, l := range x.Lhs {
					if ix, ok := ast.Unparen(l).(*ast.IndexExpr); ok && fw.IsFieldSel(info, ix.X, "resolve", "Resolver", "triggers") {
						stored = true
					}
				}
				if stored && in.Final() {
					n++
					r.Check(st.Must("under:"+lk+":looked-up"), "C13-R9", fi.Name()+"/insert-in-the-critical-section-of-the-lookup", p.Pos(x.Pos()), "the new trigger is inserted in the critical section that looked it up",
						"Resolver.mu was released between the lookup of the trigger id and the insertion of the new trigger: two concurrent first subscribers of the same input both miss, both call Source.Start, and the second insert overwrites the first — the orphaned trigger's subscriber is never completed, never counted down, and its upstream is never cancelled")
					return
				}
				for _, rh := range x.Rhs {
					fw.WalkAll(rh, func(m ast.Node) bool {
						if ix, ok := m.(*ast.IndexExpr); ok && fw.IsFieldSel(info, ix.X, "resolve", "Resolver", "triggers") {
							st.Set("under:" + lk + ":looked-up")
						}
						return true
					})
				}
			}
		},
	}
	in.Run(nil)
	r.Expect("C13-R9", "insertions into Resolver.triggers in addSubscription", n, 1)
}

// c13SourceHashCoversInput (part of R5, added after a seeded change hashed url and body only): the GraphQL subscription
// source hashes its whole input, or at least every option the input carries that Start acts on — every JSON key of the
// options struct the input is decoded into, except the header object (the resolver hashes the forwarded headers itself).
func c13SourceHashCoversInput(r *fw.Run) {
	p := r.Prog
	pk := p.Pkg("gqlds")
	if pk == nil {
		r.Error("C13-R5: package graphql_datasource not loaded")
		return
	}
	info := pk.TypesInfo
	fi := p.Func("gqlds", "SubscriptionSource.HashTriggerInput")
	if fi == nil {
		r.Error("C13-R5: SubscriptionSource.HashTriggerInput not found")
		return
	}
	sig := fi.Obj.Type().(*types.Signature)
	input := sig.Params().At(0)
	whole := false
	keys := map[string]bool{}
	fw.WalkAll(fi.Decl.Body, func(nd ast.Node) bool {
		c, ok := nd.(*ast.CallExpr)
		if !ok {
			return true
		}
		fn := fw.Callee(info, c)
		if fn == nil {
			return true
		}
		if fn.Name() == "Write" && len(c.Args) == 1 {
			if id, ok := ast.Unparen(c.Args[0]).(*ast.Ident); ok && info.Uses[id] == input {
				whole = true
			}
		}
		if fn.Name() == "Get" && len(c.Args) >= 2 {
			if cv, ok := fw.ConstVal(info, c.Args[1]); ok {
				keys[strings.Trim(cv, "\"")] = true
			}
		}
		return true
	})
	// unconditional whole-input hashing: every exit passed Write(input)
	wholeOnAllPaths := false
	if whole {
		in := fw.NewInterp(fi)
		ok := true
		in.H = fw.Hooks{
			Node: func(nd ast.Node, st *fw.State) {
				if c, isC := nd.(*ast.CallExpr); isC {
					if fn := fw.Callee(info, c); fn != nil && fn.Name() == "Write" && len(c.Args) == 1 {
						if id, isID := ast.Unparen(c.Args[0]).(*ast.Ident); isID && info.Uses[id] == input {
							st.Set("hashed-whole")
						}
					}
				}
			},
			Exit: func(ret *ast.ReturnStmt, lit *ast.FuncLit, st *fw.State) {
				if lit == nil && !st.Must("hashed-whole") {
					ok = false
				}
			},
		}
		in.Run(nil)
		wholeOnAllPaths = ok
	}
	var missing []string
	if !wholeOnAllPaths {
		if opt := p.Named("gqlds", "GraphQLSubscriptionOptions"); opt != nil {
			st := opt.Underlying().(*types.Struct)
			for i := 0; i < st.NumFields(); i++ {
				tag := reflectTag(st.Tag(i), "json")
				if tag == "" || tag == "-" || tag == "header" {
					continue
				}
				if !keys[tag] {
					missing = append(missing, tag)
				}
			}
		} else {
			r.Error("C13-R5: GraphQLSubscriptionOptions not found")
		}
	}
	sort.Strings(missing)
	r.Check(wholeOnAllPaths || len(missing) == 0, "C13-R5", fi.Name()+"/hash-covers-every-option", fi.Pos(), "the subscription source feeds its whole input (or every option of it) to the trigger hash",
		"the trigger id no longer depends on: "+strings.Join(missing, ", ")+" — two subscriptions that differ only there (e.g. in the connection_init payload that identifies the user) share one upstream subscription: one client receives the other's events")
}

// reflectTag extracts key from a struct tag without importing reflect's runtime semantics (same syntax).
func reflectTag(tag, key string) string {
	for tag != "" {
		i := 0
		for i < len(tag) && tag[i] == ' ' {
			i++
		}
		tag = tag[i:]
		if tag == "" {
			break
		}
		i = 0
		for i < len(tag) && tag[i] > ' ' && tag[i] != ':' && tag[i] != '"' {
			i++
		}
		if i == 0 || i+1 >= len(tag) || tag[i] != ':' || tag[i+1] != '"' {
			break
		}
		name := tag[:i]
		tag = tag[i+1:]
		i = 1
		for i < len(tag) && tag[i] != '"' {
			if tag[i] == '\\' {
				i++
			}
			i++
		}
		if i >= len(tag) {
			break
		}
		val := tag[1:i]
		tag = tag[i+1:]
		if name == key {
			if c := strings.IndexByte(val, ','); c >= 0 {
				val = val[:c]
			}
			return val
		}
	}
	return ""
}

// c13InitializedUnderRegistryLock (R10): every removal reads trigger.initialized under Resolver.mu to decide whether the
// trigger had been counted (TriggerCountDec). The flag is therefore set to true only with Resolver.mu held, in the critical
// section that found the trigger still registered (read of Resolver.triggers). Set outside the lock, a removal between the
// lookup and the store sees false, skips the decrement, and the increment that follows is never undone: the trigger gauge
// stays above zero with no subscriber left.
func c13InitializedUnderRegistryLock(r *fw.Run) {
	p := r.Prog
	r.Rule("C13-R10", "trigger.initialized is set to true only with Resolver.mu held, in the critical section that found the trigger still registered (removals read it under that lock to decide about TriggerCountDec)")
	info := p.Pkg("resolve").TypesInfo
	const lk = "resolve.Resolver.mu"
	n := 0
	for _, fi := range p.Funcs("resolve") {
		has := false
		fw.WalkAll(fi.Decl.Body, func(nd ast.Node) bool {
			if c, ok := nd.(*ast.CallExpr); ok {
				if sel, ok := ast.Unparen(c.Fun).(*ast.SelectorExpr); ok && sel.Sel.Name == "Store" && fw.IsFieldSel(info, sel.X, "resolve", "trigger", "initialized") {
					has = true
				}
			}
			return true
		})
		if !has {
			continue
		}
		in := fw.NewInterp(fi)
		in.H = fw.Hooks{
			Lit: func(l *ast.FuncLit, ctx fw.LitCtx, st *fw.State) fw.LitMode { return fw.LitSkip },
			Node: func(nd ast.Node, st *fw.State) {
				switch x := nd.(type) {
				case *ast.CallExpr:
					if op, ok := fw.LockOpOf(info, x); ok {
						fw.ApplyLockOp(op, st)
						return
					}
					if sel, ok := ast.Unparen(x.Fun).(*ast.SelectorExpr); ok && sel.Sel.Name == "Store" && fw.IsFieldSel(info, sel.X, "resolve", "trigger", "initialized") && in.Final() {
						if len(x.Args) == 1 {
							if cv, isC := fw.ConstVal(info, x.Args[0]); isC && cv != "true" {
								return
							}
						}
						n++
						r.Check(fw.Held(st, lk, false) && st.Must("under:"+lk+":registered"), "C13-R10", fi.Name()+"/initialized-set-under-registry-lock", p.Pos(x.Pos()), "initialized.Store(true) in "+fi.Name()+" happens under Resolver.mu after the trigger was found registered in the same critical section",
							"the flag is set outside the critical section that looked the trigger up: a removal that runs in between reads initialized == false and skips TriggerCountDec, then the flag is set and TriggerCountInc runs — the trigger gauge never returns to zero although no subscriber is left")
					}
				case *ast.IndexExpr:
					if fw.IsFieldSel(info, x.X, "resolve", "Resolver", "triggers") {
						st.Set("under:" + lk + ":registered")
					}
				}
			},
		}
		in.Run(nil)
	}
	r.Expect("C13-R10", "stores of true into trigger.initialized", n, 1)
}

// c13RemovedFlagOnlyByTheRemover (R11): subscriptionState.removed is the hand-over token of a subscription: whoever wins
// CompareAndSwap(false,true) owns the duty to complete the subscriber (it puts the state on a toClose list, whose consumers
// close `completed`, C13-R3). Any other write of the flag — a Store(true) "to silence the writer" — takes the token without
// the duty: the real removal then loses its CAS, nobody closes completed, and the blocking ResolveGraphQLSubscription of
// that client hangs until the resolver shuts down. The rule: every mutating call on the field is CompareAndSwap(false,true)
// used as a condition whose true edge appends the subscription to a to-close list (or calls its done()).
func c13RemovedFlagOnlyByTheRemover(r *fw.Run) {
	p := r.Prog
	r.Rule("C13-R11", "subscriptionState.removed is written only by CompareAndSwap(false,true) whose winner hands the subscription to a to-close list (or completes it): no Store/Swap of the flag anywhere in package resolve")
	n := 0
	for _, fi := range p.Funcs("resolve") {
		info := fi.Info()
		ord := 0
		// CAS calls that appear as a condition, with the statement list of their true edge
		winBody := map[*ast.CallExpr]*ast.BlockStmt{}
		fw.WalkAll(fi.Decl.Body, func(nd ast.Node) bool {
			if is, ok := nd.(*ast.IfStmt); ok {
				if c, isCall := ast.Unparen(is.Cond).(*ast.CallExpr); isCall {
					winBody[c] = is.Body
				}
			}
			return true
		})
		fw.WalkAll(fi.Decl.Body, func(nd ast.Node) bool {
			c, ok := nd.(*ast.CallExpr)
			if !ok {
				return true
			}
			var method string
			for _, m := range []string{"Store", "Swap", "CompareAndSwap"} {
				if cc, isM := fw.AtomicFieldCall(info, c, "resolve", "subscriptionState", "removed", m); isM && cc == c {
					method = m
				}
			}
			if method == "" {
				return true
			}
			n++
			ord++
			key := fi.Name() + "/removed-flag-write#" + itoa(ord)
			if method != "CompareAndSwap" {
				r.Fail("C13-R11", key, p.Pos(c.Pos()), "the removed flag is written only by the remover's CompareAndSwap",
					"removed."+method+"(…) takes the hand-over token without the duty that goes with it: the removal that follows loses its CompareAndSwap, so the subscription is never put on a to-close list, `completed` is never closed and the client's blocking ResolveGraphQLSubscription hangs until the resolver shuts down (registry and counters look clean)")
				return true
			}
			a0, _ := fw.ConstVal(info, c.Args[0])
			a1, _ := fw.ConstVal(info, c.Args[1])
			body := winBody[c]
			hands := false
			if body != nil {
				fw.WalkAll(body, func(m ast.Node) bool {
					if call, isCall := m.(*ast.CallExpr); isCall {
						if fw.Builtin(info, call) == "append" && len(call.Args) >= 2 {
							if tv, okT := info.Types[call.Args[1]]; okT && fw.TypeIs(derefT(tv.Type), "resolve", "subscriptionState") {
								hands = true
							}
						}
						if fw.CallIs(info, call, "resolve", "subscriptionState.done") {
							hands = true
						}
					}
					if cl, isClose := m.(*ast.CallExpr); isClose && fw.Builtin(info, cl) == "close" && len(cl.Args) == 1 && fw.IsFieldSel(info, cl.Args[0], "resolve", "subscriptionState", "completed") {
						hands = true
					}
					return true
				})
			}
			r.Check(a0 == "false" && a1 == "true" && hands, "C13-R11", key, p.Pos(c.Pos()), "removed.CompareAndSwap(false,true) in "+fi.Name()+" is a condition whose winner hands the subscription over for completion",
				"the flag is flipped but the winner does not append the subscription to a to-close list nor complete it: the subscriber is never completed")
			return true
		})
	}
	r.Expect("C13-R11", "writes of subscriptionState.removed", n, 2)
}

// c13RegistrationNeverOverwrites (R12): the registry indexes subscriptions by their identifier (subscriptionsByID, the
// per-connection index, trigger.subscriptions). registerSubscriptionLocked stores with plain map assignments, so a second
// registration under a live identifier overwrites the first record in the indexes: it can no longer be unsubscribed, its
// completed channel is never closed, and — when the two have different upstream inputs — its trigger and upstream
// subscription leak until the resolver shuts down. Every call of registerSubscriptionLocked must therefore be dominated
// by a failed lookup of the identifier in subscriptionsByID (made under the same registry lock: the caller holds r.mu for
// its whole body, C13-R1).
func c13RegistrationNeverOverwrites(r *fw.Run) {
	p := r.Prog
	r.Rule("C13-R12", "every call of Resolver.registerSubscriptionLocked is dominated by the 'not found' edge of a lookup of the subscription identifier in Resolver.subscriptionsByID: a live identifier is never overwritten in the indexes")
	n := 0
	for _, fi := range p.Funcs("resolve") {
		info := fi.Info()
		okVars := map[types.Object]bool{}
		fw.WalkAll(fi.Decl.Body, func(nd ast.Node) bool {
			as, ok := nd.(*ast.AssignStmt)
			if !ok || len(as.Lhs) != 2 || len(as.Rhs) != 1 {
				return true
			}
			ix, isIx := ast.Unparen(as.Rhs[0]).(*ast.IndexExpr)
			if !isIx || !fw.IsFieldSel(info, ix.X, "resolve", "Resolver", "subscriptionsByID") {
				return true
			}
			if id, isID := as.Lhs[1].(*ast.Ident); isID {
				o := info.Defs[id]
				if o == nil {
					o = info.Uses[id]
				}
				if o != nil {
					okVars[o] = true
				}
			}
			return true
		})
		ord := 0
		in := fw.NewInterp(fi)
		in.H = fw.Hooks{
			Cond: func(e ast.Expr, branch bool, st *fw.State) {
				if id, ok := ast.Unparen(e).(*ast.Ident); ok && okVars[info.Uses[id]] && !branch {
					st.Set("id-absent")
				}
			},
			Node: func(nd ast.Node, st *fw.State) {
				c, ok := nd.(*ast.CallExpr)
				if !ok || !in.Final() || !fw.CallIs(info, c, "resolve", "Resolver.registerSubscriptionLocked") {
					return
				}
				n++
				ord++
				r.Check(st.Must("id-absent"), "C13-R12", fi.Name()+"/registers-only-an-unused-id#"+itoa(ord), p.Pos(c.Pos()), "registerSubscriptionLocked in "+fi.Name()+" is reached only after the identifier was looked up in subscriptionsByID and not found",
					"a subscription is registered without checking that its identifier is unused: a second subscription under a live identifier overwrites the first in the indexes — the first can never be unsubscribed, its completed channel is never closed, the reported subscription count never returns to zero, and with a different upstream input its trigger and upstream subscription leak")
			},
		}
		in.Run(nil)
	}
	r.Expect("C13-R12", "calls of registerSubscriptionLocked", n, 2)
}

// c13DeliveryOwnTrigger (R13): the sibling of R8 for the delivering callbacks. subscriptionUpdater.Update,
// UpdateSubscription, Complete and Error drop a call only when the trigger's context is already cancelled — but a trigger
// is deleted from the registry first and cancelled after its subscribers were closed (which can block on a slow client
// write). In that window a new subscriber may register a new trigger under the same id (the id is a hash of input and
// headers), and the stale source's callback, looking the trigger up by id, delivers into it: a duplicate message, a foreign
// `complete`, data after the complete. The Resolver methods those four callbacks call may use the subscribers of the
// trigger they found (snapshotSubscriptions / filterSubscriptions / filterSubscription) only after comparing the found
// trigger's updater with the caller's.
func c13DeliveryOwnTrigger(r *fw.Run) {
	p := r.Prog
	r.Rule("C13-R13", "the Resolver methods through which subscriptionUpdater.Update / UpdateSubscription / Complete / Error deliver to subscribers use the subscribers of the trigger found under the id only after comparing that trigger's updater with the calling updater")
	info := p.Pkg("resolve").TypesInfo
	targets := map[*types.Func]bool{}
	for _, name := range []string{"Update", "UpdateSubscription", "Complete", "Error"} {
		fi := p.Func("resolve", "subscriptionUpdater."+name)
		if fi == nil {
			r.Error("C13-R13: subscriptionUpdater.%s not found", name)
			continue
		}
		fw.WalkAll(fi.Decl.Body, func(nd ast.Node) bool {
			if c, ok := nd.(*ast.CallExpr); ok {
				if fn := fw.Callee(info, c); fn != nil {
					if sig, _ := fn.Type().(*types.Signature); sig != nil && sig.Recv() != nil && fw.RecvName(sig.Recv().Type()) == "Resolver" {
						targets[fn] = true
					}
				}
			}
			return true
		})
	}
	uses := func(c *ast.CallExpr) string {
		for _, m := range []string{"snapshotSubscriptions", "filterSubscriptions", "filterSubscription"} {
			if fw.CallIs(info, c, "resolve", "trigger."+m) {
				return m
			}
		}
		return ""
	}
	n := 0
	var names []*types.Func
	for fn := range targets {
		names = append(names, fn)
	}
	sort.Slice(names, func(i, j int) bool { return names[i].Name() < names[j].Name() })
	for _, fn := range names {
		fi := p.FuncOf(fn)
		if fi == nil {
			continue
		}
		sig := fn.Type().(*types.Signature)
		params := map[types.Object]bool{}
		for i := 0; i < sig.Params().Len(); i++ {
			params[sig.Params().At(i)] = true
		}
		isOwn := func(e ast.Expr) bool {
			o := fw.RootObj(info, e)
			return o != nil && params[o] && fw.TypeIs(info.TypeOf(e), "resolve", "subscriptionUpdater")
		}
		isFound := func(e ast.Expr) bool {
			return fw.IsFieldSel(info, ast.Unparen(e), "resolve", "trigger", "updater") && !params[fw.RootObj(info, e)]
		}
		in := fw.NewInterp(fi)
		in.H = fw.Hooks{
			Cond: func(e ast.Expr, branch bool, st *fw.State) {
				a := fw.Atom(info, e, branch)
				if a.Kind == "Eq" && ((isFound(a.X) && isOwn(a.Y)) || (isFound(a.Y) && isOwn(a.X))) {
					st.Set("own-trigger")
				}
				// a helper that returns (trigger, ok) only for the caller's own trigger: ok true
				if id, ok := ast.Unparen(e).(*ast.Ident); ok && branch && fw.VarFromCall(fi, info.Uses[id], id.Pos(), "resolve", "Resolver.triggerOf", 1) {
					st.Set("own-trigger")
				}
			},
			Node: func(nd ast.Node, st *fw.State) {
				c, ok := nd.(*ast.CallExpr)
				if !ok || !in.Final() {
					return
				}
				if m := uses(c); m != "" {
					n++
					r.Check(st.Must("own-trigger"), "C13-R13", fi.Name()+"/"+m+"-of-own-trigger-only", p.Pos(c.Pos()), fi.Name()+" delivers only to the subscribers of the caller's own trigger",
						"the trigger is looked up by id and its subscribers are used without comparing it with the calling updater: between the removal of a trigger from the registry and the cancellation of its context (which waits for slow client writes) a new trigger can be registered under the same id, and the stale source's Update / Complete / Error is delivered to the new trigger's subscribers — a duplicate message, a foreign complete, data after the complete")
				}
			},
		}
		in.Run(nil)
	}
	r.Expect("C13-R13", "uses of a found trigger's subscribers reachable from delivering callbacks", n, 4)
}

// c13InternalCleanupByIdentity (R14): subscription identifiers are chosen by clients and re-used (an operation id is free
// again as soon as its operation has ended). Resolver-internal clean-up that runs asynchronously — the late failure of a
// joining subscriber's startup hook, a failed flush or heartbeat — knows exactly which subscription it is cleaning up: it
// holds the *subscriptionState. Removing by id instead removes whoever holds the id *now*: the successor operation loses
// its record, its completed channel is closed without an error or complete, and if it was the only subscriber its
// upstream is cancelled. The by-id API (UnsubscribeSubscription) is for callers that have nothing but the id: inside
// package resolve it is never called with the id of a subscription state or of an add request (x.id); clean-up that
// holds the state uses the identity-checked removal.
func c13InternalCleanupByIdentity(r *fw.Run) {
	p := r.Prog
	r.Rule("C13-R14", "inside package resolve the by-id removal (UnsubscribeSubscription) is never called with the id field of a subscription state or add request: clean-up that holds the subscription removes it by identity (the id may belong to a successor by then)")
	nCalls, nBad := 0, 0
	for _, fi := range p.Funcs("resolve") {
		info := fi.Info()
		ord := 0
		fw.WalkAll(fi.Decl.Body, func(nd ast.Node) bool {
			c, ok := nd.(*ast.CallExpr)
			if !ok || !fw.CallIs(info, c, "resolve", "Resolver.UnsubscribeSubscription") || len(c.Args) != 1 {
				return true
			}
			nCalls++
			sel, isSel := ast.Unparen(c.Args[0]).(*ast.SelectorExpr)
			if !isSel || sel.Sel.Name != "id" {
				return true
			}
			tv, okT := info.Types[sel.X]
			if !okT || !(fw.TypeIs(tv.Type, "resolve", "subscriptionState") || fw.TypeIs(tv.Type, "resolve", "addSubscription")) {
				return true
			}
			nBad++
			ord++
			r.Fail("C13-R14", fi.Name()+"/removes-by-id-although-it-holds-the-subscription#"+itoa(ord), p.Pos(c.Pos()), "clean-up that holds the subscription removes it by identity",
				"the subscription is removed by its id although the caller holds the subscription itself: by the time this asynchronous clean-up runs (a late startup-hook failure, a failed write) the client may have ended that operation and started a new one under the same id — the new operation's record is removed, its completed channel closed without error or complete, and a trigger it alone kept alive is cancelled")
			return true
		})
	}
	r.Check(nBad == 0, "C13-R14", "no-internal-removal-by-id", "-", "none of the "+itoa(nCalls)+" UnsubscribeSubscription calls in package resolve passes the id of a held subscription", "see the individual sites")
	r.Expect("C13-R14", "UnsubscribeSubscription calls in package resolve", nCalls, 2)
}
