package rules

import (
	"go/ast"
	"go/types"
	"strings"

	"verif/checker/fw"
)

const (
	gqldsGo       = "v2/pkg/engine/datasource/graphql_datasource/graphql_datasource.go"
	planVisitorGo = "v2/pkg/engine/plan/visitor.go"
	reqFieldsGo   = "v2/pkg/engine/plan/required_fields_visitor.go"
	nodeSelGo     = "v2/pkg/engine/plan/node_selection_visitor.go"
)

func init() {
	Registry["C01"] = Spec{
		Pkgs: map[string][]string{"v2": {"plan", "gqlds", "resolve", "postprocess"}, "execution": {"engine"}},
		Run:  runC01,
		Explanation: "Decides a thin structural slice of 'federated execution equals monolithic execution': every upstream operation the GraphQL data source emits passed, on every path that returns it, normalization and validation against that subgraph's own schema (the same document is normalized, validated and printed); " +
			"every field the planner synthesises into the client operation (keys, @requires fields, __typename) is recorded in a skip list on all paths, every producer of such lists is consumed by the node-selection visitor, the response-shape visitor takes the list from the selection result, constructs response fields only for non-skipped refs and skips symmetrically on leave; " +
			"the loader's fetch-kind dispatch covers every fetch implementation; every planner callback is registered with its walker. " +
			"NOT decided (no honest structural proxy): data(gateway) == data(monolith), error equivalence, planning totality, field ownership of subgraph requests.",
		Mutants: []Mutant{
			{Name: "the config factory drops resolvable: false again (reverts part of the F84 fix)", File: "execution/engine/config_factory_federation.go", Rule: "C01-R14", Key: "Keys/DisableEntityResolver",
				Old: "\t\t\tDisableEntityResolver: keyConfiguration.DisableEntityResolver,\n", New: ""},
			{Name: "the field configuration is looked up by the response name (positive control of the response-name taint rule)", File: "v2/pkg/engine/datasource/graphql_datasource/graphql_datasource.go", Rule: "C01-R13", Key: "Planner.EnterField/schema-lookup-by-schema-name:ForTypeField",
				Old: "\tfieldConfiguration := p.visitor.Config.Fields.ForTypeField(typeName, fieldName)\n\n\tfor i := range p.config.customScalarTypeFields {", New: "\tfieldConfiguration := p.visitor.Config.Fields.ForTypeField(typeName, p.visitor.Operation.FieldAliasOrNameString(ref))\n\n\tfor i := range p.config.customScalarTypeFields {"},
			{Name: "@provides looked up by field name only (seeded change C01-22)", File: "v2/pkg/engine/plan/datasource_filter_collect_nodes_visitor.go", Rule: "C01-R9", Key: "hasProvidesConfiguration/field-name-lookup-also-compares-type-name",
				Old: "\t\treturn provide.TypeName == typeName && provide.FieldName == fieldName\n", New: "\t\treturn provide.FieldName == fieldName\n"},
			{Name: "merged scope is unscoped only when both sides are (seeded change C01-1)", File: "v2/pkg/engine/postprocess/deduplicate_single_fetches.go", Rule: "C01-R10", Key: "mergeTypeNames/empty-scope-absorbs",
				Old: "\tif len(left) == 0 || len(right) == 0 {\n\t\treturn nil", New: "\tif len(left) == 0 && len(right) == 0 {\n\t\treturn nil"},
			{Name: "only the last path element's scope is merged (seeded change C01-12)", File: "v2/pkg/engine/postprocess/deduplicate_single_fetches.go", Rule: "C01-R12", Key: "deduplicateSingleFetches.mergeFetchPath/scope-merged-at-every-element",
				Old: "\tfor i := range left {\n\t\tleft[i].TypeNames = d.mergeTypeNames(left[i].TypeNames, right[i].TypeNames)\n\t}\n", New: "\tif i := len(left) - 1; i >= 0 {\n\t\tleft[i].TypeNames = d.mergeTypeNames(left[i].TypeNames, right[i].TypeNames)\n\t}\n"},
			{Name: "merged fetch keeps the fragment scope of its first member (seeded change C01-21)", File: "v2/pkg/engine/postprocess/deduplicate_single_fetches.go", Rule: "C01-R10", Key: "mergeTypeNames/empty-scope-absorbs",
				Old: "\tif len(left) == 0 || len(right) == 0 {\n\t\treturn nil // if either side is empty, fetch is unscoped\n\t}\n", New: "\tif len(left) == 0 {\n\t\treturn nil\n\t}\n\tif len(right) == 0 {\n\t\treturn left\n\t}\n"},
			{Name: "enclosing type of a field resolved in the operation document by the path builder", File: "v2/pkg/engine/plan/path_builder_visitor.go", Rule: "C01-R8", Key: "pathBuilderVisitor.EnterField/Node.NameString",
				Old: "\ttypeName := c.walker.EnclosingTypeDefinition.NameString(c.definition)\n\n\tc.debugPrint(\"EnterField ref:\"", New: "\ttypeName := c.walker.EnclosingTypeDefinition.NameString(c.operation)\n\n\tc.debugPrint(\"EnterField ref:\""},
			{Name: "upstream operation printed without self-validation", File: gqldsGo, Rule: "C01-R1", Key: "validated",
				Old: "\tkit.validator.Validate(p.upstreamOperation, definition, kit.report)\n\tif kit.report.HasErrors() {\n\t\tp.stopWithError(errors.WithStack(fmt.Errorf(\"printOperation planner id: %d: validation failed: %w\", p.id, kit.report)))\n\t\treturn nil, nil\n\t}\n", New: ""},
			{Name: "validation errors of the upstream operation only logged", File: gqldsGo, Rule: "C01-R1", Key: "validated",
				Old: "\t\tp.stopWithError(errors.WithStack(fmt.Errorf(\"printOperation planner id: %d: validation failed: %w\", p.id, kit.report)))\n\t\treturn nil, nil\n", New: "\t\tp.stopWithError(errors.WithStack(fmt.Errorf(\"printOperation planner id: %d: validation failed: %w\", p.id, kit.report)))\n"},
			{Name: "synthesised __typename of a key selection not hidden", File: reqFieldsGo, Rule: "C01-R2", Key: "addTypenameSelection",
				Old: "\tv.skipFieldRefs = append(v.skipFieldRefs, field.Ref)\n\n\tv.applyDeferInternalDirective(field.Ref)\n", New: "\tv.applyDeferInternalDirective(field.Ref)\n"},
			{Name: "skip refs of required key fields dropped by the node selection visitor", File: nodeSelGo, Rule: "C01-R3", Key: "skip-list-consumed",
				Old: "\t\tc.addNewSkipFieldRefs(addFieldsResult.skipFieldRefs...)\n\n\t\t// setup deps between key chain items", New: "\t\t// setup deps between key chain items"},
			{Name: "multi entity fetches silently skipped by the loader", File: loaderGo, Rule: "C01-R4", Key: "preparePhase",
				Old: "\tcase *MultiEntityFetch:\n\t\terr := l.prepareMultiEntityFetch(item, fetch, res, prepared)\n\t\treturn prepared, err\n\tdefault:", New: "\tdefault:"},
			{Name: "multi-entity de-dup table stores the item index instead of the bucket index", File: "v2/pkg/engine/resolve/loader_multi_entity.go", Rule: "C01-R7", Key: "renderEntryRepresentations",
				Old: "\t\ttools.batchHashToIndex[itemHash] = batchItemIndex\n", New: "\t\ttools.batchHashToIndex[itemHash] = i\n"},
			{Name: "batch de-dup counter advanced for duplicates too", File: loaderGo, Rule: "C01-R7", Key: "prepareBatchEntityFetch",
				Old: "\t\t\t\tbatchStats = arena.SliceAppend(res.tools.a, batchStats, bucket)\n\t\t\t\tbatchItemIndex++\n", New: "\t\t\t\tbatchStats = arena.SliceAppend(res.tools.a, batchStats, bucket)\n\t\t\t}\n\t\t\tbatchItemIndex++\n\t\t\tif false {\n"},
			{Name: "LeaveField no longer skips planner-added fields (unbalanced object stack)", File: planVisitorGo, Rule: "C01-R6", Key: "LeaveField",
				Old: "\tif v.skipField(fieldRef) {\n\t\t// we should also check skips on field leave\n\t\t// cause on nested keys we could mistakenly remove wrong object\n\t\t// from the stack of the current objects\n\t\treturn\n\t}\n", New: ""},
		},
	}
}

func runC01(r *fw.Run) {
	p := r.Prog

	// ---- R1 upstream self-validation -------------------------------------------------------------
	r.Rule("C01-R1", "Planner.printOperation returns operation bytes only on paths that normalized, then validated (report without errors each time), then printed the same upstream document against the schema obtained from UpstreamSchema()")
	if fi := p.Func("gqlds", "Planner.printOperation"); fi == nil {
		r.Error("C01-R1: gqlds Planner.printOperation not found")
	} else {
		info := fi.Info()
		var opKey, defKey string
		sameDoc := true
		nOK := 0
		in := fw.NewInterp(fi)
		in.H = fw.Hooks{
			Cond: func(e ast.Expr, branch bool, st *fw.State) {
				c, ok := ast.Unparen(e).(*ast.CallExpr)
				if !ok || !fw.CallIs(info, c, "opreport", "Report.HasErrors") || branch {
					return
				}
				if st.Must("validate-called") {
					st.Set("validated")
				} else if st.Must("normalize-called") {
					st.Set("normalized")
				}
			},
			Node: func(nd ast.Node, st *fw.State) {
				if as, ok := nd.(*ast.AssignStmt); ok && len(as.Rhs) == 1 {
					if c, ok := ast.Unparen(as.Rhs[0]).(*ast.CallExpr); ok {
						if fn := fw.Callee(info, c); fn != nil && fn.Name() == "UpstreamSchema" {
							defKey = fw.ExprKey(info, as.Lhs[0])
						}
					}
				}
				c, ok := nd.(*ast.CallExpr)
				if !ok {
					return
				}
				fn := fw.Callee(info, c)
				if fn == nil {
					return
				}
				note := func(opArg, defArg ast.Expr) {
					k := fw.ExprKey(info, opArg)
					if opKey == "" {
						opKey = k
					} else if opKey != k {
						sameDoc = false
					}
					if defArg != nil && defKey != "" && fw.ExprKey(info, defArg) != defKey {
						sameDoc = false
					}
				}
				switch {
				case fw.FuncIs(fn, "astnorm", "OperationNormalizer.NormalizeOperation") && len(c.Args) == 3:
					st.Set("normalize-called")
					note(c.Args[0], c.Args[1])
				case fw.FuncIs(fn, "astvalidation", "OperationValidator.Validate") && len(c.Args) == 3:
					if st.Must("normalized") {
						st.Set("validate-called")
					}
					note(c.Args[0], c.Args[1])
				case fw.FuncIs(fn, "astprinter", "Printer.Print") && len(c.Args) == 2:
					if st.Must("validated") {
						st.Set("printed")
					}
					note(c.Args[0], nil)
				}
			},
			Exit: func(ret *ast.ReturnStmt, lit *ast.FuncLit, st *fw.State) {
				if ret == nil || lit != nil || !in.Final() || len(ret.Results) != 2 {
					return
				}
				if info.Types[ret.Results[0]].IsNil() {
					return
				}
				nOK++
				for _, f := range []string{"normalized", "validated", "printed"} {
					r.Check(st.Must(f), "C01-R1", "Planner.printOperation/returns-bytes-only-when:"+f, p.Pos(ret.Pos()), "operation bytes are returned only after the upstream operation was "+f+" (in that order, report without errors)",
						"a path returns request text for a subgraph without the operation having been "+f+": the gateway can send an operation that is not valid against that subgraph's own schema (golden tests only contain valid operations)")
				}
			},
		}
		in.Run(nil)
		r.Expect("C01-R1", "returns of operation bytes", nOK, 1)
		r.Check(sameDoc && opKey != "" && defKey != "", "C01-R1", "Planner.printOperation/same-document", fi.Pos(), "normalizer, validator and printer receive the same upstream document, and normalizer/validator the definition returned by UpstreamSchema()",
			"another document (or schema) is validated than the one that is printed and sent")
	}

	// ---- R2 synthesised fields are tracked ------------------------------------------------------------
	r.Rule("C01-R2", "every field the planner adds to the client operation (Document.AddField on an `operation` document in package plan) is appended to a skipFieldRefs list on all paths, or returned to a caller that does so")
	pk := p.Pkg("plan")
	if pk == nil {
		r.Error("package plan not loaded")
		return
	}
	info := pk.TypesInfo
	nAdd := 0
	returning := map[*types.Func]bool{} // functions that hand the new ref to their caller instead of tracking it
	for _, fi := range p.Funcs("plan") {
		var addCalls []*ast.CallExpr
		fw.WalkAll(fi.Decl.Body, func(n ast.Node) bool {
			if c, ok := n.(*ast.CallExpr); ok && fw.CallIs(info, c, "ast", "Document.AddField") {
				if sel, ok := ast.Unparen(c.Fun).(*ast.SelectorExpr); ok {
					if v, _ := fw.Field(info, sel.X); v != nil && v.Name() == "operation" {
						addCalls = append(addCalls, c)
					}
				}
			}
			return true
		})
		for _, call := range addCalls {
			nAdd++
			var resObj types.Object
			d := fw.NewPureDeriver(fi)
			fromNew := func(e ast.Expr) bool {
				return d.Derives(e, func(x ast.Expr) bool {
					if x == ast.Expr(call) {
						return true
					}
					id, ok := x.(*ast.Ident)
					return ok && resObj != nil && info.Uses[id] == resObj
				})
			}
			tracked, returned := true, false
			in := fw.NewInterp(fi)
			in.H = fw.Hooks{
				Node: func(nd ast.Node, st *fw.State) {
					if as, ok := nd.(*ast.AssignStmt); ok {
						for i, rhs := range as.Rhs {
							if ast.Unparen(rhs) == ast.Expr(call) && i < len(as.Lhs) {
								resObj = fw.RootObj(info, as.Lhs[i])
								st.Set("added")
							}
						}
						for i, l := range as.Lhs {
							if v, _ := fw.Field(info, l); v != nil && v.Name() == "skipFieldRefs" && i < len(as.Rhs) {
								if c, ok := ast.Unparen(as.Rhs[i]).(*ast.CallExpr); ok && fw.Builtin(info, c) == "append" && len(c.Args) >= 2 && fromNew(c.Args[1]) {
									st.Set("tracked")
								}
							}
						}
					}
				},
				Exit: func(ret *ast.ReturnStmt, lit *ast.FuncLit, st *fw.State) {
					if lit != nil || !in.Final() || !st.May("added") {
						return
					}
					if st.Must("tracked") {
						return
					}
					if ret != nil {
						for _, res := range ret.Results {
							if fromNew(res) {
								returned = true
								return
							}
						}
					}
					tracked = false
				},
			}
			in.Run(nil)
			if returned {
				returning[fi.Obj] = true
			}
			r.Check(tracked, "C01-R2", fi.Name()+"/added-field-tracked", p.Pos(call.Pos()), "the field added to the client operation in "+fi.Name()+" is recorded in a skip list (or returned) on every path",
				"an exit is reachable on which the synthesised field's ref is neither appended to skipFieldRefs nor returned: the key/@requires/__typename field the planner added appears in the client's response — a response-shape difference from the monolith for every query that crosses an entity boundary")
		}
	}
	r.Expect("C01-R2", "planner AddField sites on the client operation", nAdd, 3)
	for fn := range returning {
		n := 0
		fw.EachCall(p.Funcs("plan"), func(fi *fw.FuncInfo, c *ast.CallExpr, stack []ast.Node) {
			if fw.Callee(info, c) != fn {
				return
			}
			n++
			// the caller appends one of the call's results to skipFieldRefs
			ok := false
			var resObjs []types.Object
			fw.WalkAll(fi.Decl.Body, func(m ast.Node) bool {
				if as, isAs := m.(*ast.AssignStmt); isAs && len(as.Rhs) == 1 && ast.Unparen(as.Rhs[0]) == ast.Expr(c) {
					for _, l := range as.Lhs {
						if o := fw.RootObj(info, l); o != nil {
							resObjs = append(resObjs, o)
						}
					}
				}
				return true
			})
			fw.WalkAll(fi.Decl.Body, func(m ast.Node) bool {
				as, isAs := m.(*ast.AssignStmt)
				if !isAs {
					return true
				}
				for i, l := range as.Lhs {
					if v, _ := fw.Field(info, l); v != nil && v.Name() == "skipFieldRefs" && i < len(as.Rhs) {
						if ac, isC := ast.Unparen(as.Rhs[i]).(*ast.CallExpr); isC && fw.Builtin(info, ac) == "append" {
							for _, a := range ac.Args[1:] {
								for _, o := range resObjs {
									if fw.RootObj(info, a) == o {
										ok = true
									}
								}
							}
						}
					}
				}
				return true
			})
			r.Check(ok, "C01-R2", fi.Name()+"/tracks-returned-ref:"+fn.Name(), p.Pos(c.Pos()), "the caller of "+fn.Name()+" records the returned field ref in its skip list",
				"the synthesised field returned by "+fn.Name()+" is not recorded by this caller")
		})
		r.Expect("C01-R2", "callers of "+fn.Name(), n, 1)
	}

	// ---- R3 skip lists are consumed ----------------------------------------------------------------------
	r.Rule("C01-R3", "every skip list a helper produces reaches nodeSelectionVisitor.addNewSkipFieldRefs on all non-error paths; the response-shape Visitor takes its list from the selection result")
	nCons := 0
	for _, fi := range p.Funcs("plan") {
		if !strings.HasPrefix(fi.Name(), "nodeSelectionVisitor.") {
			continue
		}
		// producers: local variables whose type has a field named skipFieldRefs
		producers := map[types.Object]bool{}
		fw.WalkAll(fi.Decl.Body, func(n ast.Node) bool {
			if id, ok := n.(*ast.Ident); ok {
				if v, ok := info.Defs[id].(*types.Var); ok && !v.IsField() && hasField(v.Type(), "skipFieldRefs") {
					producers[v] = true
				}
			}
			return true
		})
		if len(producers) == 0 {
			continue
		}
		in := fw.NewInterp(fi)
		in.H = fw.Hooks{
			Cond: func(e ast.Expr, branch bool, st *fw.State) {
				// error edges end the walk (StopWithInternalErr): nothing to consume
				a := fw.Atom(info, e, branch)
				if a.Kind == "NonNil" || (a.Kind == "True" && mentionsCall(info, a.X, "opreport", "Report.HasErrors")) {
					st.KillPrefix("pending:")
					st.Set("error-edge")
				}
				// `result.rewritten` false: nothing was rewritten, the rewriter added nothing
				if v, _ := fw.Field(info, a.X); v != nil && v.Name() == "rewritten" && a.Kind == "False" {
					st.KillPrefix("pending:")
				}
			},
			Node: func(nd ast.Node, st *fw.State) {
				if as, ok := nd.(*ast.AssignStmt); ok {
					for _, l := range as.Lhs {
						if o := fw.RootObj(info, l); o != nil && producers[o] {
							if _, isIdent := ast.Unparen(l).(*ast.Ident); isIdent {
								st.Set("pending:" + o.Name())
							}
						}
					}
				}
				if c, ok := nd.(*ast.CallExpr); ok && fw.CallIs(info, c, "plan", "nodeSelectionVisitor.addNewSkipFieldRefs") {
					for _, a := range c.Args {
						if v, sel := fw.Field(info, a); v != nil && v.Name() == "skipFieldRefs" {
							if o := fw.RootObj(info, sel.X); o != nil {
								st.Kill("pending:" + o.Name())
							}
						}
					}
				}
			},
			Exit: func(ret *ast.ReturnStmt, lit *ast.FuncLit, st *fw.State) {
				if lit != nil || !in.Final() {
					return
				}
				var left []string
				for k, v := range st.F {
					if strings.HasPrefix(k, "pending:") && v.Max > 0 {
						left = append(left, strings.TrimPrefix(k, "pending:"))
					}
				}
				if len(left) == 0 {
					return
				}
				pos := fi.Decl.End()
				if ret != nil {
					pos = ret.Pos()
				}
				r.Fail("C01-R3", fi.Name()+"/skip-list-consumed", p.Pos(pos), "exit of "+fi.Name()+" with an unconsumed skip list",
					"the skip list of "+strings.Join(sortStrings(left), ", ")+" is not passed to addNewSkipFieldRefs on a non-error path: the fields that helper synthesised are rendered to the client")
			},
		}
		in.Run(nil)
		for range producers {
			nCons++
		}
		r.Pass("C01-R3", fi.Name()+"/skip-lists", fi.Pos(), "skip lists produced in "+fi.Name()+" are consumed (checked on every exit)", true)
	}
	r.Expect("C01-R3", "skip-list producers in nodeSelectionVisitor methods", nCons, 3)
	// the Visitor's list comes from the selection result, and only from there
	nVW := 0
	fw.EachNode(p.Funcs("plan"), func(fi *fw.FuncInfo, n ast.Node, stack []ast.Node) {
		as, ok := n.(*ast.AssignStmt)
		if !ok {
			return
		}
		for i, l := range as.Lhs {
			if !fw.IsFieldSel(info, l, "plan", "Visitor", "skipFieldsRefs") || i >= len(as.Rhs) {
				continue
			}
			nVW++
			v, _ := fw.Field(info, as.Rhs[i])
			r.Check(v != nil && v.Name() == "skipFieldsRefs", "C01-R3", fi.Name()+"/visitor-list-source", p.Pos(as.Pos()), "Visitor.skipFieldsRefs is assigned from the selection result's skipFieldsRefs",
				"the response-shape visitor does not receive the list of planner-added fields that node selection collected")
		}
	})
	r.Expect("C01-R3", "assignments of Visitor.skipFieldsRefs", nVW, 1)

	// ---- R4 fetch kinds ------------------------------------------------------------------------------------
	r.Rule("C01-R4", "Loader.preparePhase dispatches every fetch implementation of package resolve (its default arm silently skips the fetch)")
	if fi := p.Func("resolve", "Loader.preparePhase"); fi == nil {
		r.Error("C01-R4: Loader.preparePhase not found")
	} else {
		rpk := p.Pkg("resolve")
		fetchT := p.Named("resolve", "Fetch")
		kinds := fw.ImplementerNames(rpk.Types, fetchT.Underlying().(*types.Interface))
		sws := fw.TypeSwitches(fi, fetchT)
		r.Expect("C01-R4", "type switch over Fetch in preparePhase", len(sws), 1)
		for _, sw := range sws {
			miss := fw.MissingFrom(sw.Covered, kinds)
			r.Check(len(miss) == 0, "C01-R4", "Loader.preparePhase/covers-fetch-kinds", p.Pos(sw.Stmt.Pos()), "preparePhase has an arm for each of the "+itoa(len(kinds))+" fetch kinds",
				"fetch kinds without an arm: "+strings.Join(miss, ", ")+" — the default arm returns (nil, nil): the fetch is skipped without any error and every field it should have loaded is null")
		}
		r.Expect("C01-R4", "Fetch implementations", len(kinds), 4)
	}

	// ---- R5 wiring -------------------------------------------------------------------------------------------
	r.Rule("C01-R5", "every astvisitor callback a planner visitor (packages plan and graphql_datasource) implements is registered with its walker")
	wiringObligations(r, "C01-R5", "plan", map[string]string{
		"keyInfoVisitor.LeaveField": "deliberately unregistered: the source comment on keyInfoSelectionPopper says the method is intentionally not registered (the popper is registered instead)",
	})
	wiringObligations(r, "C01-R5", "gqlds", nil)

	// ---- R6 hidden fields never enter the response shape ---------------------------------------------------------
	r.Rule("C01-R6", "plan.Visitor constructs a response field only on the false edge of skipField(ref), and LeaveField returns on the same predicate before it touches the object stacks")
	if fi := p.Func("plan", "Visitor.EnterField"); fi == nil {
		r.Error("C01-R6: Visitor.EnterField not found")
	} else {
		g := fw.NewGuards(info, fw.GuardSpec{Name: "not-skipped", Sticky: true, Match: fw.AtomCall("False", "plan", "Visitor.skipField")})
		n := 0
		in := fw.NewInterp(fi)
		in.H = fw.Hooks{Cond: g.Cond, Node: func(nd ast.Node, st *fw.State) {
			cl, ok := nd.(*ast.CompositeLit)
			if !ok || !in.Final() || !fw.TypeIs(info.TypeOf(cl), "resolve", "Field") {
				return
			}
			n++
			r.Check(g.Has(st, "not-skipped"), "C01-R6", "Visitor.EnterField/field-only-when-not-skipped", p.Pos(cl.Pos()), "resolve.Field is constructed only for refs that skipField rejected",
				"a response field is built for a planner-added ref: key/@requires/__typename helper fields leak into the client's data")
		}}
		in.Run(nil)
		r.Expect("C01-R6", "resolve.Field literals in EnterField", n, 1)
	}
	if fi := p.Func("plan", "Visitor.LeaveField"); fi == nil {
		r.Error("C01-R6: Visitor.LeaveField not found")
	} else {
		g := fw.NewGuards(info, fw.GuardSpec{Name: "not-skipped", Sticky: true, Match: fw.AtomCall("False", "plan", "Visitor.skipField")})
		n := 0
		in := fw.NewInterp(fi)
		in.H = fw.Hooks{Cond: g.Cond, Node: func(nd ast.Node, st *fw.State) {
			if !in.Final() {
				return
			}
			for _, t := range fw.WriteTargets(info, nd) {
				v, sel := fw.Field(info, t)
				if v == nil {
					continue
				}
				if _, tn := fw.FieldOwner(info, sel); tn != "Visitor" {
					continue
				}
				n++
				r.Check(g.Has(st, "not-skipped"), "C01-R6", "Visitor.LeaveField/stack-write-only-when-not-skipped:"+v.Name(), p.Pos(nd.Pos()), "LeaveField modifies Visitor."+v.Name()+" only for refs that skipField rejected",
					"LeaveField pops/attaches for a field that EnterField skipped: the object stack is unbalanced and a later field is attached to the wrong parent object for every entity-crossing query")
			}
		}}
		in.Run(nil)
		r.Expect("C01-R6", "Visitor state writes in LeaveField", n, 2)
	}
	c01BatchDedupIndex(r)
	c01CoordinateCompleteness(r)
	c01MergedScopeKeepsUnscoped(r)
	c01ScopeMergedAtEveryElement(r)
	c01ConfigFactoryCopiesWhatThePlannerReads(r)

	r.Rule("C01-R11", "in the GraphQL data source planner the ref of an ast.Value is handed to an accessor of kind K only where the value's kind is known to be K (one frozen, reasoned exception)")
	nKR := kindRefAgreement(r, "C01-R11", []string{"gqlds"}, map[string]string{
		"Planner.addDirectiveToNode": "the local list `variables` is filled a few lines above, in the same function, only with argument values whose Kind == ValueKindVariable; the loop reads the elements of that list",
	})
	r.Expect("C01-R11", "kind-specific uses of a value's ref in graphql_datasource", nKR, 1)
	r.Rule("C01-R13", "in the GraphQL data source planner a response name (alias or name) never reaches a lookup keyed by the schema-side field name")
	nRN := responseNamesNeverReachSchemaLookups(r, "C01-R13", []string{"gqlds"})
	r.Expect("C01-R13", "schema-side field name arguments in graphql_datasource", nRN, 1)

	r.Rule("C01-R8", "in every planner visitor (packages plan and graphql_datasource) a node is looked up only in the document it came from: a definition node (Walker.EnclosingTypeDefinition, TypeDefinitions, a lookup in the definition) is never handed to a method of the operation document, nor the other way round")
	documentProvenance(r, "C01-R8", []string{"plan", "gqlds"}, 28)
}

func hasField(t types.Type, name string) bool {
	for {
		switch u := t.(type) {
		case *types.Pointer:
			t = u.Elem()
			continue
		case *types.Named:
			t = u.Underlying()
			continue
		case *types.Alias:
			t = types.Unalias(u)
			continue
		}
		break
	}
	st, ok := t.(*types.Struct)
	if !ok {
		return false
	}
	for i := 0; i < st.NumFields(); i++ {
		if st.Field(i).Name() == name {
			return true
		}
	}
	return false
}

// c01BatchDedupIndex (R7, added after a seeded change was missed): when entity representations are de-duplicated,
// the table hash → index must hold the index of the representation's bucket in batchStats, i.e. the counter that is
// incremented together with the append of a new bucket — in both sibling implementations (batch entity fetch and
// multi entity entries).
func c01BatchDedupIndex(r *fw.Run) {
	p := r.Prog
	r.Rule("C01-R7", "the value stored in batchEntityTools.batchHashToIndex is the bucket counter: the variable incremented right where a new bucket is appended to batchStats (both sibling implementations)")
	info := p.Pkg("resolve").TypesInfo
	n := 0
	for _, fi := range p.Funcs("resolve") {
		fw.WalkAll(fi.Decl.Body, func(nd ast.Node) bool {
			as, ok := nd.(*ast.AssignStmt)
			if !ok || len(as.Lhs) != 1 || len(as.Rhs) != 1 {
				return true
			}
			ix, ok := ast.Unparen(as.Lhs[0]).(*ast.IndexExpr)
			if !ok || !fw.IsFieldSel(info, ix.X, "resolve", "batchEntityTools", "batchHashToIndex") {
				return true
			}
			n++
			stored := fw.RootObj(info, as.Rhs[0])
			_, isIdent := ast.Unparen(as.Rhs[0]).(*ast.Ident)
			// the counter: a variable incremented in a block that also appends to a variable named like the stats slice
			isCounter := false
			fw.WalkAll(fi.Decl.Body, func(m ast.Node) bool {
				blk, isBlk := m.(*ast.BlockStmt)
				if !isBlk {
					return true
				}
				incs, appends := false, false
				for _, st := range blk.List {
					if inc, isInc := st.(*ast.IncDecStmt); isInc && inc.Tok.String() == "++" && fw.RootObj(info, inc.X) == stored {
						incs = true
					}
					if a2, isAs := st.(*ast.AssignStmt); isAs && len(a2.Rhs) == 1 {
						if c, isC := ast.Unparen(a2.Rhs[0]).(*ast.CallExpr); isC {
							if fn := fw.Callee(info, c); fn != nil && fn.Name() == "SliceAppend" && len(c.Args) == 3 {
								if t := info.TypeOf(c.Args[1]); t != nil && strings.Contains(t.String(), "[][]") {
									appends = true
								}
							}
						}
					}
				}
				if incs && appends {
					isCounter = true
				}
				return true
			})
			// equivalent form: len(<bucket slice>) taken before the append
			isLen := false
			if c, isC := ast.Unparen(as.Rhs[0]).(*ast.CallExpr); isC && fw.Builtin(info, c) == "len" && len(c.Args) == 1 {
				if t := info.TypeOf(c.Args[0]); t != nil && strings.Contains(t.String(), "[][]") {
					isLen = true
				}
			}
			r.Check((isIdent && isCounter) || isLen, "C01-R7", fi.Name()+"/dedup-index-is-bucket-counter", p.Pos(as.Pos()), "batchHashToIndex stores the bucket counter in "+fi.Name(),
				"the table stores `"+types.ExprString(as.Rhs[0])+"`, which is not the counter incremented with each new bucket (e.g. the item index): after a duplicate or skipped item, a repeated representation is merged into another entity's bucket (wrong entity data for a parent) or indexes out of range")
			return true
		})
	}
	r.Expect("C01-R7", "stores into batchHashToIndex", n, 2)
}

// c01CoordinateCompleteness (R9): federation metadata and field configuration are keyed by the coordinate (type name,
// field name). A lookup that matches the field name only confuses same-named fields of different types:
// `Comment.author` is treated like `Review.author @provides(...)`, and the gateway asks a subgraph for an @external field
// it does not own. For every comparison of the FieldName of a configuration record (a struct of package plan that has
// both a TypeName and a FieldName field) with a non-constant name, the same declared function also compares the TypeName
// of the same record with a non-constant name.
func c01CoordinateCompleteness(r *fw.Run) {
	p := r.Prog
	r.Rule("C01-R9", "every lookup in the planner's per-coordinate configuration (records with TypeName and FieldName) that compares FieldName with a field name also compares the TypeName of the same record in the same function")
	n := 0
	for _, fi := range p.Funcs("plan") {
		info := fi.Info()
		isCoordRecord := func(t types.Type) bool {
			st, ok := derefT(t).Underlying().(*types.Struct)
			if !ok {
				return false
			}
			hasT, hasF := false, false
			for i := 0; i < st.NumFields(); i++ {
				switch st.Field(i).Name() {
				case "TypeName":
					hasT = true
				case "FieldName":
					hasF = true
				}
			}
			return hasT && hasF
		}
		// comparisons of <record>.<field> with a non-constant
		type cmp struct {
			rec string
			pos ast.Node
		}
		collect := func(field string) []cmp {
			var out []cmp
			fw.WalkAll(fi.Decl.Body, func(nd ast.Node) bool {
				be, ok := nd.(*ast.BinaryExpr)
				if !ok || (be.Op.String() != "==" && be.Op.String() != "!=") {
					return true
				}
				for _, pr := range [][2]ast.Expr{{be.X, be.Y}, {be.Y, be.X}} {
					sel, isSel := ast.Unparen(pr[0]).(*ast.SelectorExpr)
					if !isSel || sel.Sel.Name != field {
						continue
					}
					tv, okT := info.Types[sel.X]
					if !okT || !isCoordRecord(tv.Type) {
						continue
					}
					if _, isConst := fw.ConstVal(info, pr[1]); isConst {
						continue // FieldName == "" (a key record), == "__typename": not a coordinate lookup
					}
					if !isSearchedElement(fi, sel.X) {
						continue // the coordinates of the node at hand, not an element of a table being searched
					}
					// both sides records (a.FieldName == b.FieldName): an equality of records, handled by the sibling comparison
					out = append(out, cmp{rec: fw.ExprKey(info, sel.X), pos: be})
				}
				return true
			})
			return out
		}
		fields := collect("FieldName")
		if len(fields) == 0 {
			continue
		}
		types_ := collect("TypeName")
		for i, c := range fields {
			n++
			ok := false
			for _, t := range types_ {
				if t.rec == c.rec {
					ok = true
				}
			}
			key := fi.Name() + "/field-name-lookup-also-compares-type-name"
			if i > 0 {
				key += "#" + itoa(i+1)
			}
			r.Check(ok, "C01-R9", key, p.Pos(c.pos.Pos()), "the FieldName comparison in "+fi.Name()+" is accompanied by a TypeName comparison of the same record",
				"the record is matched by field name alone: a same-named field of another type picks up this type's configuration (@provides / @requires / field mapping) — e.g. the gateway treats Comment.author like Review.author @provides and requests an @external field from a subgraph that does not own it")
		}
	}
	r.Expect("C01-R9", "field-name lookups in per-coordinate configuration", n, 7)
}

// isSearchedElement: e denotes an element of a collection that is being searched — an index expression (f[i], (*f)[i],
// x.items[i]), a range variable, or the parameter of a function literal (slices.IndexFunc / ContainsFunc predicates).
func isSearchedElement(fi *fw.FuncInfo, e ast.Expr) bool {
	info := fi.Info()
	e = ast.Unparen(e)
	if st, ok := e.(*ast.StarExpr); ok {
		e = ast.Unparen(st.X)
	}
	if _, ok := e.(*ast.IndexExpr); ok {
		return true
	}
	id, ok := e.(*ast.Ident)
	if !ok {
		return false
	}
	obj := info.Uses[id]
	found := false
	fw.WalkAll(fi.Decl.Body, func(n ast.Node) bool {
		switch x := n.(type) {
		case *ast.RangeStmt:
			for _, kv := range []ast.Expr{x.Key, x.Value} {
				if kid, isID := kv.(*ast.Ident); isID && info.Defs[kid] == obj {
					found = true
				}
			}
		case *ast.FuncLit:
			for _, f := range x.Type.Params.List {
				for _, nm := range f.Names {
					if info.Defs[nm] == obj {
						found = true
					}
				}
			}
		}
		return !found
	})
	return found
}

// c01MergedScopeKeepsUnscoped (R10): a fetch path element with no type names is unscoped — it applies to every concrete
// type. When two identical fetches are de-duplicated their scopes are merged; the merge of "everything" with anything is
// "everything". The function that computes the TypeNames of a merged path element must therefore return an empty scope on
// every path on which either input scope is empty. Returning the other side instead narrows the surviving fetch to that
// side's types: parents of any other concrete type silently get null.
func c01MergedScopeKeepsUnscoped(r *fw.Run) {
	p := r.Prog
	r.Rule("C01-R10", "when two fetches are de-duplicated, the function computing the merged TypeNames scope of a path element returns an empty (unscoped) result on every path on which either input scope is empty")
	n := 0
	for _, caller := range p.Funcs("postprocess") {
		cinfo := caller.Info()
		fw.WalkAll(caller.Decl.Body, func(nd ast.Node) bool {
			as, ok := nd.(*ast.AssignStmt)
			if !ok || len(as.Lhs) != 1 || len(as.Rhs) != 1 || !fw.IsFieldSel(cinfo, as.Lhs[0], "resolve", "FetchItemPathElement", "TypeNames") {
				return true
			}
			call, isCall := ast.Unparen(as.Rhs[0]).(*ast.CallExpr)
			if !isCall {
				return true
			}
			fi := p.FuncOf(fw.Callee(cinfo, call))
			if fi == nil {
				return true
			}
			sig := fi.Obj.Type().(*types.Signature)
			var params []*types.Var
			for i := 0; i < sig.Params().Len(); i++ {
				if _, isSlice := sig.Params().At(i).Type().Underlying().(*types.Slice); isSlice {
					params = append(params, sig.Params().At(i))
				}
			}
			if len(params) != 2 {
				return true
			}
			n++
			info := fi.Info()
			covered := map[string]bool{}
			bad := ""
			in := fw.NewInterp(fi)
			in.H = fw.Hooks{
				Cond: func(e ast.Expr, branch bool, st *fw.State) {
					// one atom (len(p) == 0), a conjunction, or a disjunction of such atoms (len(l) == 0 || len(r) == 0: one of the
					// scopes is empty — whichever it is, the result has to be unscoped, so the exit counts for every scope named)
					op, leaves := fw.NNF(info, e, branch)
					var named []string
					for _, a := range leaves {
						id, isID := ast.Unparen(a.X).(*ast.Ident)
						isEmpty := isID && (a.Kind == "Empty" || a.Kind == "Nil")
						matched := false
						if isEmpty {
							for _, pv := range params {
								if info.Uses[id] == pv {
									named = append(named, pv.Name())
									matched = true
								}
							}
						}
						if !matched && op == "or" {
							return // a disjunct that says nothing about the scopes: the edge does not imply an empty scope
						}
					}
					if op == "mixed" {
						return
					}
					for _, nm := range named {
						st.Set("empty:" + nm)
					}
					// the converse knowledge: a scope known to be non-empty (an atom or a conjunct; a disjunct establishes nothing)
					if op == "atom" || op == "and" {
						for _, a := range leaves {
							if id, isID := ast.Unparen(a.X).(*ast.Ident); isID && (a.Kind == "NonEmpty" || a.Kind == "NonNil") {
								for _, pv := range params {
									if info.Uses[id] == pv {
										st.Set("nonempty:" + pv.Name())
									}
								}
							}
						}
					}
				},
				Node: func(nd ast.Node, st *fw.State) {
					for _, t := range fw.WriteTargets(info, nd) {
						for _, pv := range params {
							if fw.RootObj(info, t) == pv {
								st.Kill("empty:" + pv.Name())
								st.Kill("nonempty:" + pv.Name())
							}
						}
					}
				},
				Exit: func(ret *ast.ReturnStmt, lit *ast.FuncLit, st *fw.State) {
					if lit != nil || ret == nil || !in.Final() || len(ret.Results) != 1 {
						return
					}
					isNil := false
					if id, isID := ast.Unparen(ret.Results[0]).(*ast.Ident); isID && info.Uses[id] == types.Universe.Lookup("nil") {
						isNil = true
					}
					if cl, isCL := ast.Unparen(ret.Results[0]).(*ast.CompositeLit); isCL && len(cl.Elts) == 0 {
						isNil = true
					}
					// returning an input that is known to be empty is returning the empty scope
					if id, isID := ast.Unparen(ret.Results[0]).(*ast.Ident); isID {
						for _, pv := range params {
							if info.Uses[id] == pv && st.Must("empty:"+pv.Name()) {
								isNil = true
							}
						}
					}
					for _, pv := range params {
						if !st.Must("empty:" + pv.Name()) {
							continue
						}
						if isNil {
							covered[pv.Name()] = true
						} else {
							bad = p.Pos(ret.Pos()) + " (scope " + pv.Name() + " empty)"
						}
					}
					// a scoped result is only right where both inputs are known to be scoped
					if !isNil {
						for _, pv := range params {
							if !st.Must("nonempty:" + pv.Name()) {
								bad = p.Pos(ret.Pos()) + " (a scoped result is returned although scope " + pv.Name() + " may be empty)"
							}
						}
					}
				},
			}
			in.Run(nil)
			okAll := bad == ""
			for _, pv := range params {
				if !covered[pv.Name()] {
					okAll = false
				}
			}
			r.Check(okAll, "C01-R10", fi.Name()+"/empty-scope-absorbs", fi.Pos(), fi.Name()+" returns an unscoped result whenever one of the merged scopes is unscoped (both inputs have such an exit, none returns a non-empty scope)",
				"an unscoped fetch merged with a fragment-scoped duplicate keeps (or takes) the fragment's type scope"+map[bool]string{true: "", false: " at " + bad}[bad == ""]+": the surviving fetch is skipped for parents of every other concrete type, which silently get null")
			return true
		})
	}
	r.Expect("C01-R10", "functions computing a merged TypeNames scope", n, 1)
}

// c01ScopeMergedAtEveryElement (R12): the type condition of a fetch can sit on any element of its path (the fragment may be
// several object levels above the entity). When two fetches are de-duplicated the scopes are merged per element; a merge
// that visits only some elements leaves the surviving fetch with the first member's scope on the others, and the parents
// that only the second member covered silently get null. The assignment of the merged TypeNames therefore sits directly in
// a loop that ranges over one of the merged paths, is indexed by that loop's variable, and is reached on every iteration
// (no continue / break / return before it).
func c01ScopeMergedAtEveryElement(r *fw.Run) {
	p := r.Prog
	r.Rule("C01-R12", "the per-element merge of TypeNames scopes of two de-duplicated fetch paths runs for every element: the assignment is in a range loop over a merged path, indexed by the loop variable, with no early continue/break/return")
	n := 0
	for _, fi := range p.Funcs("postprocess") {
		info := fi.Info()
		var loops []ast.Stmt
		var visit func(nd ast.Node) bool
		check := func(as *ast.AssignStmt) {
			call, isCall := ast.Unparen(as.Rhs[0]).(*ast.CallExpr)
			if !isCall || p.FuncOf(fw.Callee(info, call)) == nil {
				return
			}
			n++
			sel := ast.Unparen(as.Lhs[0]).(*ast.SelectorExpr)
			ix, isIx := ast.Unparen(sel.X).(*ast.IndexExpr)
			why := ""
			var rs *ast.RangeStmt
			if len(loops) > 0 {
				rs, _ = loops[len(loops)-1].(*ast.RangeStmt)
			}
			switch {
			case !isIx:
				why = "the element is not addressed by an index"
			case rs == nil:
				why = "the assignment is not in a range loop"
			default:
				key, _ := rs.Key.(*ast.Ident)
				idx, _ := ast.Unparen(ix.Index).(*ast.Ident)
				if key == nil || idx == nil || info.ObjectOf(key) == nil || info.ObjectOf(key) != info.ObjectOf(idx) {
					why = "the element index is not the loop variable"
				} else if _, isSlice := info.TypeOf(rs.X).Underlying().(*types.Slice); !isSlice || !fw.TypeIs(elemOf(info.TypeOf(rs.X)), "resolve", "FetchItemPathElement") {
					why = "the loop does not range over a fetch path"
				} else {
					// reached on every iteration
					in := fw.NewInterp(fi)
					in.H = fw.Hooks{
						Node: func(nd ast.Node, st *fw.State) {
							if nd == ast.Node(as) {
								st.Set("merged")
							}
						},
						Exit: func(ret *ast.ReturnStmt, lit *ast.FuncLit, st *fw.State) {
							if lit == nil {
								why = "the loop body returns at " + p.Pos(ret.Pos())
							}
						},
					}
					next, brk := in.RunLoopBody(rs.Body.List, nil)
					if brk != nil {
						why = "the loop body breaks out"
					} else if next == nil || !next.Must("merged") {
						why = "an iteration can skip the merge"
					}
				}
			}
			r.Check(why == "", "C01-R12", fi.Name()+"/scope-merged-at-every-element", p.Pos(as.Pos()), fi.Name()+" merges the TypeNames scope of every path element (range loop over the path, indexed by its variable, reached on every iteration)",
				"the scopes of two de-duplicated fetches are merged only for some path elements ("+why+"): a type condition carried by another element keeps the first member's scope, and parents that only the second member covered silently get null")
		}
		visit = func(nd ast.Node) bool {
			switch x := nd.(type) {
			case *ast.RangeStmt:
				loops = append(loops, x)
				ast.Inspect(x.Body, visit)
				loops = loops[:len(loops)-1]
				return false
			case *ast.ForStmt:
				loops = append(loops, x)
				ast.Inspect(x.Body, visit)
				loops = loops[:len(loops)-1]
				return false
			case *ast.IfStmt, *ast.SwitchStmt, *ast.TypeSwitchStmt, *ast.SelectStmt:
				// a conditional between the loop and the assignment is seen by the body interpretation below; one that
				// contains the whole loop is irrelevant
			case *ast.FuncLit:
				saved := loops
				loops = nil
				ast.Inspect(x.Body, visit)
				loops = saved
				return false
			case *ast.AssignStmt:
				if len(x.Lhs) == 1 && len(x.Rhs) == 1 && fw.IsFieldSel(info, x.Lhs[0], "resolve", "FetchItemPathElement", "TypeNames") {
					check(x)
				}
			}
			return true
		}
		ast.Inspect(fi.Decl.Body, visit)
	}
	r.Expect("C01-R12", "per-element scope merges", n, 1)
}

func elemOf(t types.Type) types.Type {
	if t == nil {
		return nil
	}
	if s, ok := t.Underlying().(*types.Slice); ok {
		return s.Elem()
	}
	return nil
}

// c01ConfigFactoryCopiesWhatThePlannerReads (R14): the federation config factory turns the router configuration (protobuf
// messages) into the planner's metadata structs, field by field, in hand-written literals. A field that both sides
// declare under the same name and that the literal does not set is configuration the composition computed and the planner
// reads, silently dropped on the way: the planner then plans as if it had not been said (a key declared
// `resolvable: false` is used for an `_entities` fetch). For every literal of a struct of package plan that is built
// inside a loop over a repeated field of a configuration message, each exported field name the message element and the
// struct have in common is set in the literal. Two fields are exempt for two of the targets, with the reason the struct's
// own documentation gives.
func c01ConfigFactoryCopiesWhatThePlannerReads(r *fw.Run) {
	p := r.Prog
	r.Rule("C01-R14", "in the federation config factory every literal of a planner metadata struct built from a configuration message sets each exported field the message and the struct have in common by name")
	exempt := map[string]string{
		"Provides/DisableEntityResolver":     "plan.FederationFieldConfiguration documents the field as applicable to keys only",
		"Provides/Conditions":                "conditions describe where an implicit key may be used; they apply to keys only",
		"Requires/DisableEntityResolver":     "plan.FederationFieldConfiguration documents the field as applicable to keys only",
		"Requires/Conditions":                "conditions describe where an implicit key may be used; they apply to keys only",
		"Fields/SubscriptionFilterCondition": "subscription filters belong to event-driven (pubsub) data sources; this factory rejects every data source kind but GRAPHQL",
		"RootNodes/ExternalFieldNames":       "the drop is asserted by the existing TestEngineConfigFactory_EngineConfiguration (its expected metadata has ExternalFieldNames nil although the router config carries `username`), copying the field fails that test; its run-time effect was reported by a sub-agent's harness and not reproduced here, so it is listed in DESIGN §9, not as a finding",
		"ChildNodes/ExternalFieldNames":      "as RootNodes/ExternalFieldNames",
	}
	n := 0
	for _, fi := range p.Funcs("engine") {
		if !strings.HasPrefix(fi.Name(), "FederationEngineConfigFactory.") {
			continue
		}
		info := fi.Info()
		fw.WalkAll(fi.Decl.Body, func(nd ast.Node) bool {
			rs, ok := nd.(*ast.RangeStmt)
			if !ok || rs.Value == nil {
				return true
			}
			vid, isID := rs.Value.(*ast.Ident)
			if !isID || info.ObjectOf(vid) == nil {
				return true
			}
			// element: pointer to a struct of another module (the configuration message)
			et := info.TypeOf(vid)
			pt, isPtr := et.(*types.Pointer)
			if !isPtr {
				return true
			}
			mnamed, isNamed := pt.Elem().(*types.Named)
			if !isNamed || mnamed.Obj().Pkg() == nil || !strings.Contains(mnamed.Obj().Pkg().Path(), "/node/v1") {
				return true
			}
			mst, isStruct := mnamed.Underlying().(*types.Struct)
			if !isStruct {
				return true
			}
			msgFields := map[string]bool{}
			for i := 0; i < mst.NumFields(); i++ {
				if mst.Field(i).Exported() {
					msgFields[mst.Field(i).Name()] = true
				}
			}
			// the target: the field of the metadata the literal is appended to (directly in the loop body)
			for _, st := range rs.Body.List {
				as, isAs := st.(*ast.AssignStmt)
				if !isAs || len(as.Lhs) != 1 || len(as.Rhs) != 1 {
					continue
				}
				call, isCall := ast.Unparen(as.Rhs[0]).(*ast.CallExpr)
				if !isCall || fw.Builtin(info, call) != "append" || len(call.Args) != 2 {
					continue
				}
				cl, isCL := ast.Unparen(call.Args[1]).(*ast.CompositeLit)
				if !isCL {
					continue
				}
				tnamed, isT := info.TypeOf(cl).(*types.Named)
				if !isT || tnamed.Obj().Pkg() == nil || tnamed.Obj().Pkg().Path() != fw.PkgPath("plan") {
					continue
				}
				tst, isTS := tnamed.Underlying().(*types.Struct)
				if !isTS {
					continue
				}
				target := ""
				if fv, _ := fw.Field(info, as.Lhs[0]); fv != nil {
					target = fv.Name()
				} else if star, isStar := ast.Unparen(as.Lhs[0]).(*ast.StarExpr); isStar {
					if fv, _ := fw.Field(info, star.X); fv != nil {
						target = fv.Name()
					}
				}
				set := map[string]bool{}
				for _, el := range cl.Elts {
					if kv, isKV := el.(*ast.KeyValueExpr); isKV {
						if k, isK := kv.Key.(*ast.Ident); isK {
							set[k.Name] = true
						}
					}
				}
				for i := 0; i < tst.NumFields(); i++ {
					f := tst.Field(i)
					if !f.Exported() || !msgFields[f.Name()] {
						continue
					}
					n++
					key := target + "/" + f.Name()
					if why, isExempt := exempt[key]; isExempt && !set[f.Name()] {
						r.Pass("C01-R14", key, p.Pos(cl.Pos()), tnamed.Obj().Name()+"."+f.Name()+" for "+target+" (exempt: "+why+")", false)
						continue
					}
					r.Check(set[f.Name()], "C01-R14", key, p.Pos(cl.Pos()), "the "+tnamed.Obj().Name()+" literal for "+target+" copies "+f.Name()+" from the "+mnamed.Obj().Name()+" message",
						"the router configuration carries "+mnamed.Obj().Name()+"."+f.Name()+" and the planner reads "+tnamed.Obj().Name()+"."+f.Name()+", but the literal built for "+target+" does not set it: what the composition computed is dropped on the way and the planner plans as if it had not been said")
				}
			}
			return true
		})
	}
	r.Expect("C01-R14", "common fields of configuration messages and planner metadata literals", n, 15)
}
