package rules

import (
	"go/ast"
	"go/types"
	"sort"
	"strings"

	"verif/checker/fw"
)

// copyEqualAgreement: package ast defines, per node type T, what the content of a node is twice — Document.CopyT says
// which fields make up a node (positions are not copied), Document.TsAreEqual(s) says which fields distinguish two nodes.
// Field de-duplication (normalization), field-merge validation and variable extraction all decide "same argument value"
// through the equality functions. The rule takes the fields CopyT fills in the node literal as the reference and requires
// the equality function of the same T to read each of them (directly or through accessors of package ast it calls). A
// content field the equality never looks at makes two different nodes equal: `f(i: 1) f(i: -1)` merges when the sign flag
// is not compared.
func copyEqualAgreement(r *fw.Run, rule string, minPairs int) {
	p := r.Prog
	pk := p.Pkg("ast")
	if pk == nil {
		r.Error("%s: package ast not loaded", rule)
		return
	}
	info := pk.TypesInfo
	byName := map[string]*fw.FuncInfo{}
	for _, fi := range p.Funcs("ast") {
		byName[fi.Name()] = fi
	}
	// frozen, reasoned exceptions: fields that Copy fills but that carry no information of their own
	frozen := map[string]string{
		"Directive.HasArguments": "derived flag: true exactly when Arguments.Refs is non-empty, which the comparison of the argument sets covers",
		"Field.HasArguments":     "derived flag: true exactly when Arguments.Refs is non-empty, which the comparison of the argument sets covers",
		"Field.HasDirectives":    "derived flag: true exactly when Directives.Refs is non-empty, which the comparison of the directive sets covers",
		"Field.SelectionSet":     "the flat equality answers true only when neither field has selections (HasSelections is read; decided by C03-R3), so the selection-set ref never distinguishes two equal fields",
	}
	// fields of struct T (declared in package ast) read in fi or in the Document methods it calls (depth ≤ 3)
	var reads func(fi *fw.FuncInfo, T *types.Named, depth int, seen map[*fw.FuncInfo]bool, out map[string]bool)
	reads = func(fi *fw.FuncInfo, T *types.Named, depth int, seen map[*fw.FuncInfo]bool, out map[string]bool) {
		if fi == nil || seen[fi] || depth > 3 {
			return
		}
		seen[fi] = true
		fw.WalkAll(fi.Decl.Body, func(n ast.Node) bool {
			switch x := n.(type) {
			case *ast.SelectorExpr:
				if fv, sel := fw.Field(info, x); fv != nil {
					if tv, ok := info.Types[sel.X]; ok && types.Identical(derefT(tv.Type), T) {
						out[fv.Name()] = true
					}
				}
			case *ast.CallExpr:
				if fn := fw.Callee(info, x); fn != nil && fn.Pkg() == pk.Types {
					reads(p.FuncOf(fn), T, depth+1, seen, out)
				}
			}
			return true
		})
	}
	nPairs := 0
	var names []string
	for n := range byName {
		names = append(names, n)
	}
	sort.Strings(names)
	for _, name := range names {
		if !strings.HasPrefix(name, "Document.Copy") {
			continue
		}
		tn := strings.TrimPrefix(name, "Document.Copy")
		obj := pk.Types.Scope().Lookup(tn)
		if obj == nil {
			continue
		}
		T, ok := obj.Type().(*types.Named)
		if !ok {
			continue
		}
		if _, isStruct := T.Underlying().(*types.Struct); !isStruct {
			continue
		}
		var eq *fw.FuncInfo
		for _, cand := range []string{tn + "sAreEqual", tn + "sAreEquals", tn + "sAreEqualDeep", tn + "sAreEqualFlat"} {
			if f := byName["Document."+cand]; f != nil {
				eq = f
			}
		}
		if eq == nil {
			continue
		}
		// fields the copy fills
		cp := byName[name]
		filled := map[string]bool{}
		fw.WalkAll(cp.Decl.Body, func(n ast.Node) bool {
			cl, ok := n.(*ast.CompositeLit)
			if !ok {
				return true
			}
			if tv, okT := info.Types[cl]; !okT || !types.Identical(tv.Type, T) {
				return true
			}
			for _, el := range cl.Elts {
				if kv, isKV := el.(*ast.KeyValueExpr); isKV {
					if id, isID := kv.Key.(*ast.Ident); isID {
						filled[id.Name] = true
					}
				}
			}
			return true
		})
		if len(filled) == 0 {
			continue
		}
		nPairs++
		got := map[string]bool{}
		reads(eq, T, 0, map[*fw.FuncInfo]bool{}, got)
		var fields []string
		for f := range filled {
			fields = append(fields, f)
		}
		sort.Strings(fields)
		for _, f := range fields {
			key := tn + "." + f
			if why, isFrozen := frozen[key]; isFrozen {
				r.Pass(rule, "copy-equal/"+key, eq.Pos(), key+" — frozen exception: "+why, false)
				continue
			}
			r.Check(got[f], rule, "copy-equal/"+key, eq.Pos(), eq.Name()+" looks at "+key+", which "+name+" treats as content of the node",
				"two "+tn+" nodes that differ only in "+f+" compare equal: de-duplication, field merging and variable extraction treat different values as the same (e.g. `f(i: 1) f(i: -1)` is merged into one field when the sign flag of an Int is not compared)")
		}
	}
	r.Expect(rule, "node types with both a Copy and an equality function", nPairs, minPairs)
}
