package rules

import (
	"go/ast"
	"go/constant"
	"go/token"
	"go/types"
	"sort"
	"strings"

	"verif/checker/fw"
)

const (
	lexerGo     = "v2/pkg/lexer/lexer.go"
	tokenizerGo = "v2/pkg/astparser/tokenizer.go"
	astValueGo  = "v2/pkg/ast/ast_value.go"
	printerGo   = "v2/pkg/astprinter/astprinter.go"
)

func init() {
	Registry["C05"] = Spec{
		Pkgs: map[string][]string{"v2": {"lexer", "astparser", "astprinter", "astvisitor", "ast", "cachectl", "identkeyword"}},
		Run:  runC05,
		Explanation: "Decides the structural half of 'lexing terminates and every parsed kind is printed': every unbounded loop of the lexer, the tokenizer and the Cache-Control lexer/parser advances the input position (directly or through a function that does so on all its paths) on every cycle that returns to the loop head, and has an exit guarded by an end-of-input test (EOF case, bounds test, or the negation of a character-class predicate that rejects EOF); " +
			"the value-kind dispatches of the printer / JSON writer / copier / comparer cover all nine value kinds or fail loudly; every printer callback is registered and the Definition/Extension sibling handlers of each type kind set the same printer state and print the same parts of the node; every content field of an AST node that the parser fills is read on the print path (printer callbacks, the SimpleWalker that drives them, their callees), per Document slice the node ends up in. " +
			"every cycle of every unbounded loop of the recursive-descent parser consumes a real (known non-EOF) token before it returns to the loop head, or leaves the loop (consume / consume-or-report summaries with and without a peeked token, report.HasErrors() edges). " +
			"Not decided: absence of panics on arbitrary bytes, positions inside the input, print∘parse round-trip equality as values, limit accounting (value level), depth of recursion.",
		Mutants: []Mutant{
			{Name: "any byte that starts no other token starts an identifier (reverts part of the F101 fix)", File: "v2/pkg/lexer/lexer.go", Rule: "C05-R15", Key: "Lexer.Read/ident-token-starts-with-a-name-start",
				Old: "\tif !runeIsNameStart(next) {", New: "\tif false && !runeIsNameStart(next) {"},
			{Name: "a NUL byte read from the input is handed out as the EOF sentinel (reverts part of the F101 fix)", File: "v2/pkg/lexer/lexer.go", Rule: "C05-R16", Key: "Lexer.readRune/sentinel-not-read-from-the-input",
				Old: "\t\tif r == runes.EOF {\n\t\t\t// a NUL byte in the input is not the end of the input", New: "\t\tif false {\n\t\t\t// a NUL byte in the input is not the end of the input"},
			{Name: "an anonymous query with a description is printed in shorthand form (reverts the F97 fix)", File: "v2/pkg/astprinter/astprinter.go", Rule: "C05-R14", Key: "printVisitor.EnterOperationDefinition/description-followed-by-a-head",
				Old: "if hasName || hasVariables || hasDirectives || hasDescription {", New: "if hasName || hasVariables || hasDirectives {"},
			{Name: "the exponent sign is not looked for when the number has no fraction (reverts the F82 fix)", File: "v2/pkg/lexer/lexer.go", Rule: "C05-R13", Key: "Lexer.readFloat/exponent-sign-before-digits",
				Old: "\tif hasReadExponentAlready {\n\t\t// ExponentPart is", New: "\tif hasReadExponentAlready && tok == nil {\n\t\t// ExponentPart is"},
			{Name: "after a description any token is taken as the name of an input value (reverts the F62 fix)", File: "v2/pkg/astparser/parser.go", Rule: "C05-R12", Key: "Parser.parseInputValueDefinition/name-from-ident-token",
				Old: "\tinputValueDefinition.Name = p.mustRead(keyword.IDENT).Literal\n", New: "\tinputValueDefinition.Name = p.read().Literal\n"},
			{Name: "an operation name is read without looking at the token (positive control)", File: "v2/pkg/astparser/parser.go", Rule: "C05-R12", Key: "name-from-ident-token",
				Old: "\tif p.peekEquals(keyword.IDENT) {\n\t\toperationDefinition.Name = p.read().Literal\n\t}\n", New: "\tif !p.peekEquals(keyword.LPAREN) {\n\t\toperationDefinition.Name = p.read().Literal\n\t}\n"},
			{Name: "list types are parsed without the nesting guard (reverts part of the F61 fix)", File: "v2/pkg/astparser/parser.go", Rule: "C05-R11", Key: "recursion-cycle-is-bounded:Parser.ParseType",
				Old: "func (p *Parser) ParseType() (ref int) {\n\tif !p.enterNested() {\n\t\treturn ast.InvalidRef\n\t}\n\tdefer p.leaveNested()\n", New: "func (p *Parser) ParseType() (ref int) {\n"},
			{Name: "the nesting guard counts but never refuses (reverts part of the F61 fix)", File: "v2/pkg/astparser/parser.go", Rule: "C05-R11", Key: "recursion-cycle-is-bounded",
				Old: "\tif p.nesting > maxNestingDepth {\n", New: "\tif p.nesting < 0 {\n"},
			{Name: "keyword table reads the first byte before looking at the length (seeded change C05-22)", File: "v2/pkg/lexer/identkeyword/identkeyword.go", Rule: "C05-R9", Key: "KeywordFromLiteral/literal[0]-under-length-test",
				Old: "func KeywordFromLiteral(literal []byte) IdentKeyword {\n\tswitch len(literal) {", New: "func KeywordFromLiteral(literal []byte) IdentKeyword {\n\tif c := literal[0]; c < 'd' || c > 'u' {\n\t\treturn UNDEFINED\n\t}\n\tswitch len(literal) {"},
			{Name: "VariableDefinitionsBefore answers for the first operation that has variables (seeded change C05-21)", File: "v2/pkg/ast/ast_variable_definition.go", Rule: "C05-R10", Key: "VariableDefinitionsBefore/return-in-search-loop-follows-a-test-of-the-ref",
				Old: "\t\tfor j, k := range d.OperationDefinitions[i].VariableDefinitions.Refs {\n\t\t\tif k == variableDefinition {\n\t\t\t\treturn j != 0\n\t\t\t}\n\t\t}\n",
				New: "\t\tfor j, k := range d.OperationDefinitions[i].VariableDefinitions.Refs {\n\t\t\tif k >= 0 {\n\t\t\t\treturn j != 0\n\t\t\t}\n\t\t}\n"},
			{Name: "spread flag survives an opening brace (seeded changes C05-1 / C05-11)", File: "v2/pkg/astparser/tokenizer.go", Rule: "C05-R8", Key: "depth-arm-clears-spread-flag:keyword.LBRACE",
				Old: "\t\t\t\tlocalDepthPeak = localDepth\n\t\t\t}\n\t\t\tlastWasSpread = false\n", New: "\t\t\t\tlocalDepthPeak = localDepth\n\t\t\t}\n"},
			{Name: "definition keywords reset the field accounting inside selection sets (the repaired defect F26)", File: "v2/pkg/astparser/tokenizer.go", Rule: "C05-R8", Key: "TokenizeWithLimits/identifier-arm-counts-every-field",
				Old: "\t\t\tif isDefinitionKeyword && localDepth == 0 {", New: "\t\t\tif isDefinitionKeyword {"},
			{Name: "closing brace of a schema definition written blindly (the repaired defect F22)", File: "v2/pkg/astprinter/astprinter.go", Rule: "C05-R3", Key: "printer-siblings-content/Leave:Schema",
				Old: "\tif len(p.document.SchemaDefinitions[ref].RootOperationTypeDefinitions.Refs) == 0 {\n\t\t// the opening brace is written by the first root operation type definition\n\t\tp.write(literal.LBRACE)\n\t}\n", New: ""},
			{Name: "shorthand query chosen although the operation has directives (the repaired defect F21)", File: "v2/pkg/astprinter/astprinter.go", Rule: "C05-R7", Key: "EnterOperationDefinition/query-keyword-guard",
				Old: "\t\tif hasName || hasVariables || hasDirectives || hasDescription {", New: "\t\t_ = hasDirectives\n\t\tif hasName || hasVariables || hasDescription {"},
			{Name: "SimpleWalker no longer visits the directives of a schema definition (seeded change C05-12, sibling view)", File: "v2/pkg/astvisitor/simplevisitor.go", Rule: "C05-R6", Key: "walker-siblings/walkSchemaDefinition",
				Old: "\tif w.document.SchemaDefinitions[ref].HasDirectives {\n\t\tfor _, i := range w.document.SchemaDefinitions[ref].Directives.Refs {\n\t\t\tw.walkDirective(i)\n\t\t}\n\t}\n", New: ""},
			{Name: "list value loop no longer leaves on a reported error (hangs on a truncated list)", File: "v2/pkg/astparser/parser.go", Rule: "C05-R5", Key: "Parser.parseValueList/loop1",
				Old: "\t\t\tlist.Refs = append(list.Refs, ref)\n\t\t}\n\n\t\tif p.report.HasErrors() {\n\t\t\treturn ast.InvalidRef\n\t\t}\n", New: "\t\t\tlist.Refs = append(list.Refs, ref)\n\t\t}\n"},
			{Name: "object value loop: unexpected token reported by peeking, not reading", File: "v2/pkg/astparser/parser.go", Rule: "C05-R5", Key: "Parser.parseObjectValue/loop1",
				Old: "\t\tdefault:\n\t\t\tp.errUnexpectedToken(p.read(), keyword.IDENT, keyword.RBRACE)\n\t\t\treturn ast.InvalidRef, position.Position{}\n\t\t}\n\n\t\tif p.report.HasErrors() {\n\t\t\treturn ast.InvalidRef, position.Position{}\n\t\t}\n", New: "\t\tdefault:\n\t\t\tif p.reportInternalErrors {\n\t\t\t\tp.errUnexpectedToken(p.read(), keyword.IDENT, keyword.RBRACE)\n\t\t\t\treturn ast.InvalidRef, position.Position{}\n\t\t\t}\n\t\t}\n\n\t\tif p.report.HasErrors() {\n\t\t\treturn ast.InvalidRef, position.Position{}\n\t\t}\n"},
			{Name: "directive list reads the @ only when a name follows", File: "v2/pkg/astparser/parser.go", Rule: "C05-R5", Key: "Parser.parseDirectiveList/loop1",
				Old: "\t\tat := p.read()\n\t\tname := p.mustRead(keyword.IDENT)\n", New: "\t\tat := p.tokenizer.Peek()\n\t\tif p.reportInternalErrors {\n\t\t\tp.read()\n\t\t}\n\t\tname := p.tokenizer.Peek()\n"},
			{Name: "schema description not printed (the repaired defect F13)", File: "v2/pkg/astprinter/astprinter.go", Rule: "C05-R4", Key: "parsed-is-printed/SchemaDefinitions:SchemaDefinition.Description",
				Old: "\tif p.document.SchemaDefinitions[ref].Description.IsDefined {\n\t\tp.must(p.document.PrintDescription(p.document.SchemaDefinitions[ref].Description, nil, 0, p.out))\n\t\tp.write(literal.LINETERMINATOR)\n\t}\n", New: ""},
			{Name: "simple walker no longer visits the directives of a schema definition (seeded change C05-12)", File: "v2/pkg/astvisitor/simplevisitor.go", Rule: "C05-R4", Key: "parsed-is-printed/SchemaDefinitions:SchemaDefinition.HasDirectives",
				Old: "\tif w.document.SchemaDefinitions[ref].HasDirectives {\n\t\tfor _, i := range w.document.SchemaDefinitions[ref].Directives.Refs {\n\t\t\tw.walkDirective(i)\n\t\t}\n\t}\n", New: ""},
			{Name: "implements clause of interface extensions not printed (the repaired defect F11)", File: "v2/pkg/astprinter/astprinter.go", Rule: "C05-R3", Key: "printer-siblings-content/InterfaceType",
				Old: "\tif len(p.document.InterfaceTypeExtensions[ref].ImplementsInterfaces.Refs) != 0 {\n\t\tp.write(literal.IMPLEMENTS)\n\t\tp.write(literal.SPACE)\n\t\tfor i, j := range p.document.InterfaceTypeExtensions[ref].ImplementsInterfaces.Refs {",
				New: "\tif false {\n\t\tp.write(literal.IMPLEMENTS)\n\t\tp.write(literal.SPACE)\n\t\tfor i, j := range []int{} {"},
			{Name: "comment reader peeks instead of reading", File: lexerGo, Rule: "C05-R1", Key: "readComment",
				Old: "\tfor {\n\t\tnext := l.readRune()\n\t\tswitch next {\n\t\tcase runes.EOF:\n\t\t\treturn\n\t\tcase runes.CARRIAGERETURN, runes.LINETERMINATOR:", New: "\tfor {\n\t\tnext := l.peekRune(false)\n\t\tswitch next {\n\t\tcase runes.EOF:\n\t\t\treturn\n\t\tcase runes.CARRIAGERETURN, runes.LINETERMINATOR:"},
			{Name: "string reader has no EOF exit", File: lexerGo, Rule: "C05-R1", Key: "readSingleLineString",
				Old: "\t\tcase runes.SPACE, runes.TAB:\n\t\t\tescaped = false\n\t\tcase runes.EOF:\n\t\t\ttok.SetEnd(l.input.InputPosition, l.input.TextPosition)\n\t\t\treturn\n\t\tcase runes.QUOTE, runes.CARRIAGERETURN, runes.LINETERMINATOR:",
				New: "\t\tcase runes.SPACE, runes.TAB:\n\t\t\tescaped = false\n\t\tcase runes.QUOTE, runes.CARRIAGERETURN, runes.LINETERMINATOR:"},
			{Name: "whitespace predicate accepts EOF", File: lexerGo, Rule: "C05-R1", Key: "Lexer.Read",
				Old: "\tcase runes.SPACE, runes.TAB, runes.CARRIAGERETURN, runes.LINETERMINATOR, runes.COMMA:\n\t\treturn true\n\tdefault:\n\t\treturn false\n\t}\n}\n\nfunc (l *Lexer) readBlockString",
				New: "\tcase runes.SPACE, runes.TAB, runes.CARRIAGERETURN, runes.LINETERMINATOR, runes.COMMA, runes.EOF:\n\t\treturn true\n\tdefault:\n\t\treturn false\n\t}\n}\n\nfunc (l *Lexer) readBlockString"},
			{Name: "cache-control token reader forgets to advance", File: "v2/pkg/engine/cache/lex.go", Rule: "C05-R1", Key: "readIdent",
				Old: "\t\tif !l.isPrintableCharacter(next) || l.isInvalidTokenCharacter(next) {\n\t\t\treturn fmt.Errorf(\"invalid character %q found in input at position %d\", next, l.pos)\n\t\t}\n\n\t\tl.advance(1)\n", New: "\t\tif !l.isPrintableCharacter(next) || l.isInvalidTokenCharacter(next) {\n\t\t\treturn fmt.Errorf(\"invalid character %q found in input at position %d\", next, l.pos)\n\t\t}\n"},
			{Name: "enum values no longer printed", File: astValueGo, Rule: "C05-R2", Key: "PrintValue",
				Old: "\tcase ValueKindEnum:\n\t\t_, err = w.Write(d.Input.ByteSlice(d.EnumValues[value.Ref].Name))\n", New: ""},
			{Name: "interface extension forgets the argument delimiters (sibling drift)", File: printerGo, Rule: "C05-R3", Key: "InterfaceType",
				Old: "\tp.inputValueDefinitionOpener = literal.LPAREN\n\tp.inputValueDefinitionCloser = literal.RPAREN\n}\n\nfunc (p *printVisitor) LeaveInterfaceTypeExtension(ref int) {",
				New: "}\n\nfunc (p *printVisitor) LeaveInterfaceTypeExtension(ref int) {"},
		},
	}
}

// progressConfig describes, for one package, what "advancing the input" means.
type progressConfig struct {
	pkg string
	// position fields: a write (assign / inc) to one of them is a consume event
	posFields [][2]string // {Type, field}
	// callees of other packages that always advance
	extConsumers []string // "pkg:Recv.Name"
	// functions (Recv.Name) whose loops are checked; empty = all functions of the package
	only []string
}

func runC05(r *fw.Run) {
	defer c05ParserRecursionIsBounded(r)
	defer c05NamesComeFromIdentTokens(r)
	defer c05ExponentSignOnEveryPath(r)
	defer c05PrintedDescriptionIsFollowedByTheDefinitionHead(r)
	defer c05IdentTokensStartWithANameStart(r)
	defer c05SentinelIsNotReadFromTheInput(r)

	// ---- R1 loop progress ------------------------------------------------------------------------
	r.Rule("C05-R1", "every unbounded loop of the lexer, the tokenizer and the Cache-Control lexer/parser consumes input on each cycle back to its head and has an exit guarded by an end-of-input test")
	nLoops := 0
	for _, cfg := range []progressConfig{
		{pkg: "lexer", posFields: [][2]string{{"Input", "InputPosition"}}},
		{pkg: "astparser", posFields: [][2]string{{"Tokenizer", "currentToken"}}, extConsumers: []string{"lexer:Lexer.Read"}, only: []string{"Tokenizer."}},
		{pkg: "cachectl", posFields: [][2]string{{"lexer", "pos"}, {"lexer", "tokenPos"}}},
	} {
		nLoops += checkProgress(r, "C05-R1", cfg)
	}
	r.Expect("C05-R1", "unbounded loops checked", nLoops, 14)

	// ---- R2 value kinds -----------------------------------------------------------------------------
	r.Rule("C05-R2", "every dispatch over ast.ValueKind in the printer, JSON writer, copier and comparer names all nine value kinds or ends in a default arm that fails loudly")
	valueKindCoverage(r, "C05-R2", []string{"Document.PrintValue", "Document.writeJSONValue", "Document.copyValueRef", "Document.ValuesAreEqual"})

	// ---- R3 printer wiring + sibling agreement ----------------------------------------------------------
	r.Rule("C05-R3", "every astvisitor callback the printer implements is registered; for each type kind the Definition and Extension handlers of the printer assign the same printer state fields")
	wiringObligations(r, "C05-R3", "astprinter", nil)
	definitionExtensionSiblings(r, "C05-R3")

	// ---- R4 parser/printer agreement ------------------------------------------------------------------
	r.Rule("C05-R4", "every content field of an AST node that the parser fills is read on the print path (printer callbacks, the SimpleWalker driving them, and their callees)")
	parsePrintAgreement(r, "C05-R4")

	r.Rule("C05-R6", "the tree walker that drives validation/normalization (astvisitor.Walker) and the one that drives the printer (SimpleWalker) descend into the same children of every node kind")
	walkerSiblings(r, "C05-R6")

	// ---- R5 parser termination ------------------------------------------------------------------------
	r.Rule("C05-R5", "every cycle of every unbounded loop of the recursive-descent parser consumes a real (non-EOF) token before it returns to the loop head, or leaves the loop")
	checkParserProgress(r, "C05-R5")

	// ---- R7 shorthand query ----------------------------------------------------------------------------
	shorthandQueryGuard(r)

	// ---- R8 limit accounting ---------------------------------------------------------------------------
	limitCountsEveryField(r)

	// ---- R9 constant indexes --------------------------------------------------------------------------
	c05ConstantIndexUnderLength(r, []string{"identkeyword", "lexer", "astparser"})

	// ---- R10 sibling-position helpers -----------------------------------------------------------------
	c05SearchReturnsOnMatch(r)
}

// checkProgress implements the loop-progress rule for one package and returns the number of loops examined.
func checkProgress(r *fw.Run, rule string, cfg progressConfig) int {
	p := r.Prog
	pk := p.Pkg(cfg.pkg)
	if pk == nil {
		r.Error("%s: package %s not loaded", rule, cfg.pkg)
		return 0
	}
	info := pk.TypesInfo
	isPosWrite := func(n ast.Node) bool {
		for _, t := range fw.WriteTargets(info, n) {
			for _, pf := range cfg.posFields {
				if v, sel := fw.Field(info, t); v != nil && v.Name() == pf[1] {
					if _, tn := fw.FieldOwner(info, sel); tn == pf[0] {
						return true
					}
				}
			}
		}
		return false
	}
	must := map[*types.Func]bool{}
	isConsume := func(n ast.Node) bool {
		if isPosWrite(n) {
			return true
		}
		if c, ok := n.(*ast.CallExpr); ok {
			fn := fw.Callee(info, c)
			if fn == nil {
				return false
			}
			if must[fn] {
				return true
			}
			for _, ext := range cfg.extConsumers {
				i := strings.IndexByte(ext, ':')
				if fw.FuncIs(fn, ext[:i], ext[i+1:]) {
					return true
				}
			}
		}
		return false
	}
	coe := map[*types.Func]bool{} // consume-or-end: every return either consumed or passed an end-of-input edge
	var endTest func(e ast.Expr, branch bool) bool
	var rejects map[*types.Func]bool
	eofValues := func(vals []ast.Expr) (allNonEOF, anyEOF bool) {
		allNonEOF = len(vals) > 0
		for _, v := range vals {
			if c := fw.ConstObj(info, v); c != nil && strings.Contains(c.Name(), "EOF") {
				anyEOF, allNonEOF = true, false
				continue
			}
			if _, isConst := fw.ConstVal(info, v); !isConst {
				allNonEOF = false
			}
		}
		return
	}
	hooks := func(in *fw.Interp) fw.Hooks {
		return fw.Hooks{
			Node: func(n ast.Node, st *fw.State) {
				if isConsume(n) {
					st.Set("consumed")
					st.Set("coe")
				}
				if c, ok := n.(*ast.CallExpr); ok {
					if fn := fw.Callee(info, c); fn != nil && coe[fn] {
						if st.Must("not-eof") {
							// input known to be non-empty (peek-then-read idiom): the call consumes
							st.Set("consumed")
							st.Set("coe")
							st.Kill("not-eof")
						} else {
							st.Set("coe-called") // read-then-test idiom: consumed unless the value read is EOF
						}
					}
				}
			},
			Cond: func(e ast.Expr, branch bool, st *fw.State) {
				if endTest != nil && endTest(e, branch) {
					st.Set("coe") // an end-of-input edge: nothing left to consume
				}
				if endTest != nil && endTest(e, !branch) {
					st.Set("not-eof")
				}
				// classPredicate(x) true, predicate rejects EOF
				if c, ok := ast.Unparen(e).(*ast.CallExpr); ok && branch {
					if fn := fw.Callee(info, c); fn != nil && rejects[fn] {
						st.Set("not-eof")
					}
				}
			},
			Case: func(tag ast.Expr, vals []ast.Expr, match bool, st *fw.State) {
				allNonEOF, anyEOF := eofValues(vals)
				if match && vals == nil { // default arm: every listed case (incl. an EOF case, if any) was passed
					return
				}
				if match && allNonEOF {
					st.Set("not-eof")
				}
				if !match && anyEOF {
					st.Set("not-eof")
				}
				if match && anyEOF {
					st.Set("coe")
				}
			},
		}
	}
	// must-consume summaries: least fixed point
	for changed := true; changed; {
		changed = false
		for _, fi := range p.Funcs(cfg.pkg) {
			if must[fi.Obj] {
				continue
			}
			in := fw.NewInterp(fi)
			in.H = hooks(in)
			exit := in.Run(nil)
			if exit != nil && exit.Must("consumed") {
				must[fi.Obj] = true
				changed = true
			}
		}
	}
	// class predicates that reject EOF
	rejectsEOF := map[*types.Func]bool{}
	for _, fi := range p.Funcs(cfg.pkg) {
		if predicateRejectsZero(fi) {
			rejectsEOF[fi.Obj] = true
		}
	}
	rejects = rejectsEOF
	endTest = func(e ast.Expr, branch bool) bool {
		return isEndOfInputTest(fiAny(p, cfg.pkg), info, e, branch, rejectsEOF, cfg)
	}
	for changed := true; changed; {
		changed = false
		for _, fi := range p.Funcs(cfg.pkg) {
			if coe[fi.Obj] {
				continue
			}
			in := fw.NewInterp(fi)
			in.H = hooks(in)
			exit := in.Run(nil)
			if exit != nil && exit.Must("coe") {
				coe[fi.Obj] = true
				changed = true
			}
		}
	}
	n := 0
	for _, fi := range p.Funcs(cfg.pkg) {
		if len(cfg.only) > 0 {
			ok := false
			for _, pre := range cfg.only {
				if strings.HasPrefix(fi.Name(), pre) {
					ok = true
				}
			}
			if !ok {
				continue
			}
		}
		ord := 0
		fw.WalkAll(fi.Decl.Body, func(nd ast.Node) bool {
			fs, ok := nd.(*ast.ForStmt)
			if !ok {
				return true
			}
			ord++
			key := fi.Name() + "/loop" + itoa(ord)
			if isCountedLoop(info, fs) {
				r.Pass(rule, key, p.Pos(fs.Pos()), "loop in "+fi.Name()+" is bounded by its counter (trivial)", false)
				return true
			}
			n++
			in := fw.NewInterp(fi)
			in.H = hooks(in)
			entry := fw.NewState()
			body := fs.Body.List
			next, _ := in.RunLoopBody(body, entry)
			progress := next == nil || next.Must("consumed") || (next.Must("coe-called") && next.Must("not-eof"))
			r.Check(progress, rule, key+"/consumes", p.Pos(fs.Pos()), "every cycle of the loop in "+fi.Name()+" advances the input position",
				"a path returns to the loop head without a consuming call / position increment: the first input that takes this path makes the lexer spin for ever (no example test hangs because none contains that byte at that place)")
			// end-of-input exit
			eofExit := loopHasEOFExit(fi, fs, rejectsEOF, cfg)
			r.Check(eofExit, rule, key+"/eof-exit", p.Pos(fs.Pos()), "the loop in "+fi.Name()+" has an exit guarded by an end-of-input test",
				"no exit of the loop is guarded by an EOF case, a position/length bounds test, or the negation of a character-class predicate that rejects EOF: at end of input the read primitive stops advancing and the loop never ends")
			return true
		})
	}
	return n
}

func isCountedLoop(info *types.Info, fs *ast.ForStmt) bool {
	if fs.Cond == nil || fs.Post == nil {
		return false
	}
	inc, ok := fs.Post.(*ast.IncDecStmt)
	if !ok {
		return false
	}
	v := fw.RootObj(info, inc.X)
	b, ok := ast.Unparen(fs.Cond).(*ast.BinaryExpr)
	if !ok || v == nil {
		return false
	}
	return fw.RootObj(info, b.X) == v || fw.RootObj(info, b.Y) == v
}

// predicateRejectsZero: a bool function of one byte/rune parameter whose true-returning switch
// arms are constants ≠ 0 or ranges with a positive lower bound (so f(EOF) is false when EOF == 0),
// or a direct boolean expression of the same shape.
func predicateRejectsZero(fi *fw.FuncInfo) bool {
	info := fi.Info()
	sig := fi.Obj.Type().(*types.Signature)
	if sig.Results().Len() != 1 || !types.Identical(sig.Results().At(0).Type(), types.Typ[types.Bool]) || sig.Params().Len() != 1 {
		return false
	}
	param := sig.Params().At(0)
	// evalAt folds the predicate expression e for param = v: 1 true, 0 false, -1 unknown. Only comparisons
	// between the parameter and constants, joined by !, && and ||, are folded — in any spelling or operand order.
	var evalAt func(e ast.Expr, v constant.Value) int
	evalAt = func(e ast.Expr, v constant.Value) int {
		e = ast.Unparen(e)
		operand := func(x ast.Expr) constant.Value {
			x = ast.Unparen(x)
			if id, isID := x.(*ast.Ident); isID && info.Uses[id] == param {
				return v
			}
			if tv, ok := info.Types[x]; ok && tv.Value != nil {
				if iv := constant.ToInt(tv.Value); iv.Kind() == constant.Int {
					return iv
				}
			}
			return nil
		}
		switch x := e.(type) {
		case *ast.UnaryExpr:
			if x.Op == token.NOT {
				if r := evalAt(x.X, v); r >= 0 {
					return 1 - r
				}
			}
			return -1
		case *ast.BinaryExpr:
			switch x.Op {
			case token.LAND, token.LOR:
				l, r := evalAt(x.X, v), evalAt(x.Y, v)
				absorbing := 0 // false decides &&
				if x.Op == token.LOR {
					absorbing = 1
				}
				switch {
				case l == absorbing || r == absorbing:
					return absorbing
				case l < 0 || r < 0:
					return -1
				}
				return 1 - absorbing
			case token.EQL, token.NEQ, token.LSS, token.LEQ, token.GTR, token.GEQ:
				l, r := operand(x.X), operand(x.Y)
				if l == nil || r == nil {
					return -1
				}
				if constant.Compare(l, x.Op, r) {
					return 1
				}
				return 0
			}
		}
		return -1
	}
	admitsZero := func(e ast.Expr) bool {
		// a case value / returned expression that is a constant: in a tag-less switch or `return c` it is a
		// boolean, in a tagged switch it is the value compared with the parameter
		if tv, ok := info.Types[e]; ok && tv.Value != nil {
			if tv.Value.Kind() == constant.Int {
				v, _ := constant.Int64Val(tv.Value)
				return v == 0 || v == -1 // EOF is 0 for the GraphQL lexer, -1 for the cache-control lexer
			}
			return false
		}
		// anything that does not fold to false at both EOF values may admit EOF (unknown shape: be conservative)
		return evalAt(e, constant.MakeInt64(0)) != 0 || evalAt(e, constant.MakeInt64(-1)) != 0
	}
	ok, sawTrue := true, false
	fw.WalkAll(fi.Decl.Body, func(n ast.Node) bool {
		switch x := n.(type) {
		case *ast.SwitchStmt:
			for _, cl := range x.Body.List {
				cc := cl.(*ast.CaseClause)
				returnsTrue := false
				fw.WalkAll(cc, func(m ast.Node) bool {
					if ret, isRet := m.(*ast.ReturnStmt); isRet && len(ret.Results) == 1 {
						if v, isC := fw.ConstVal(info, ret.Results[0]); isC && v == "true" {
							returnsTrue = true
						}
					}
					return true
				})
				if !returnsTrue {
					continue
				}
				sawTrue = true
				if cc.List == nil {
					ok = false // default returns true
				}
				for _, e := range cc.List {
					if admitsZero(e) {
						ok = false
					}
				}
			}
		case *ast.ReturnStmt:
			if len(x.Results) == 1 {
				if _, isC := fw.ConstVal(info, x.Results[0]); !isC {
					// `return r == A || r == B`
					sawTrue = true
					for _, d := range flattenOr(x.Results[0]) {
						if admitsZero(d) {
							ok = false
						}
					}
				}
			}
		}
		return true
	})
	return ok && sawTrue
}

func flattenOr(e ast.Expr) []ast.Expr {
	if b, ok := ast.Unparen(e).(*ast.BinaryExpr); ok && b.Op == token.LOR {
		return append(flattenOr(b.X), flattenOr(b.Y)...)
	}
	return []ast.Expr{e}
}

// loopHasEOFExit: some statement that leaves the loop (return, break of this loop) is guarded by an
// end-of-input test.
func loopHasEOFExit(fi *fw.FuncInfo, fs *ast.ForStmt, rejectsEOF map[*types.Func]bool, cfg progressConfig) bool {
	info := fi.Info()
	isEOFConst := func(e ast.Expr) bool {
		c := fw.ConstObj(info, e)
		return c != nil && strings.Contains(c.Name(), "EOF")
	}
	isEndTest := func(e ast.Expr, branch bool) bool {
		return isEndOfInputTest(fi, info, e, branch, rejectsEOF, cfg)
	}
	_ = isEOFConst
	found := false
	in := fw.NewInterp(fi)
	in.H = fw.Hooks{
		Cond: func(e ast.Expr, branch bool, st *fw.State) {
			if isEndTest(e, branch) {
				st.Set("at-end")
			}
		},
		Case: func(tag ast.Expr, vals []ast.Expr, match bool, st *fw.State) {
			if !match {
				return
			}
			for _, v := range vals {
				if isEOFConst(v) {
					st.Set("at-end")
				}
			}
		},
		Exit: func(ret *ast.ReturnStmt, lit *ast.FuncLit, st *fw.State) {
			if st.Must("at-end") {
				found = true
			}
		},
	}
	_, brk := in.RunLoopBody(fs.Body.List, nil)
	if brk != nil && brk.May("at-end") {
		found = true
	}
	if fs.Cond != nil {
		// `for pos < length {` style
		if isEndTest(fs.Cond, false) {
			found = true
		}
	}
	return found
}

func fiAny(p *fw.Prog, pkg string) *fw.FuncInfo {
	fs := p.Funcs(pkg)
	if len(fs) == 0 {
		return nil
	}
	return fs[0]
}

// isEndOfInputTest: condition e with outcome branch means "no input left": !classPredicate(x) for a
// predicate rejecting EOF, atEnd()-like helper true, x == EOF, position >= length.
func isEndOfInputTest(fi *fw.FuncInfo, info *types.Info, e ast.Expr, branch bool, rejectsEOF map[*types.Func]bool, cfg progressConfig) bool {
	isEOFConst := func(e ast.Expr) bool {
		c := fw.ConstObj(info, e)
		return c != nil && strings.Contains(c.Name(), "EOF")
	}
	{
		a := fw.Atom(info, e, branch)
		switch a.Kind {
		case "True", "False":
			if c, ok := ast.Unparen(a.X).(*ast.CallExpr); ok {
				fn := fw.Callee(info, c)
				if fn != nil && rejectsEOF[fn] && a.Kind == "False" {
					return true // !classPredicate(x): EOF takes this edge
				}
				if fn != nil && a.Kind == "True" {
					// atEnd()-like helper: a bool function without parameters comparing a position field with a length
					if hf := fi.Prog.FuncOf(fn); hf != nil && isBoundsHelper(hf, cfg) {
						return true
					}
				}
			}
		case "Eq":
			return isEOFConst(a.X) || isEOFConst(a.Y)
		case "Ge", "Gt", "Le", "Lt":
			// the edge on which position >= length
			mentionsPos := func(x ast.Expr) bool {
				for _, pf := range cfg.posFields {
					if mentionsFieldAny(info, x, pf[0], pf[1]) {
						return true
					}
				}
				return false
			}
			if (a.Kind == "Ge" || a.Kind == "Gt") && mentionsPos(a.X) {
				return true
			}
			if (a.Kind == "Le" || a.Kind == "Lt") && mentionsPos(a.Y) {
				return true
			}
		}
		return false
	}
}

func isBoundsHelper(fi *fw.FuncInfo, cfg progressConfig) bool {
	info := fi.Info()
	sig := fi.Obj.Type().(*types.Signature)
	if sig.Params().Len() != 0 || sig.Results().Len() != 1 {
		return false
	}
	ok := false
	fw.WalkAll(fi.Decl.Body, func(n ast.Node) bool {
		if ret, isRet := n.(*ast.ReturnStmt); isRet && len(ret.Results) == 1 {
			// pos >= len, in either operand order
			a := fw.Atom(info, ret.Results[0], true)
			var posSide ast.Expr
			switch a.Kind {
			case "Ge", "Gt":
				posSide = a.X
			case "Le", "Lt":
				posSide = a.Y
			}
			if posSide != nil {
				for _, pf := range cfg.posFields {
					if mentionsFieldAny(info, posSide, pf[0], pf[1]) {
						ok = true
					}
				}
			}
		}
		return true
	})
	return ok
}

// mentionsFieldAny: e mentions a selection of field `field` declared in a struct type named typ (any package).
func mentionsFieldAny(info *types.Info, e ast.Expr, typ, field string) bool {
	found := false
	fw.WalkAll(e, func(n ast.Node) bool {
		if sel, ok := n.(*ast.SelectorExpr); ok {
			if v, s := fw.Field(info, sel); v != nil && v.Name() == field {
				if _, tn := fw.FieldOwner(info, s); tn == typ {
					found = true
				}
			}
		}
		return !found
	})
	return found
}

// valueKindCoverage: each listed function of package ast switches over ast.ValueKind covering all
// constants (ValueKindUnknown excepted) or has a default arm that returns an error / panics.
func valueKindCoverage(r *fw.Run, rule string, funcs []string) {
	valueKindCoverageIn(r, rule, "ast", funcs)
}

// valueKindCoverageIn: like valueKindCoverage for functions of another package that dispatch over ast.ValueKind.
func valueKindCoverageIn(r *fw.Run, rule, inPkg string, funcs []string) {
	p := r.Prog
	pk := p.Pkg("ast")
	if pk == nil {
		r.Error("%s: package ast not loaded", rule)
		return
	}
	vk := p.Named("ast", "ValueKind")
	if vk == nil {
		r.Error("%s: ast.ValueKind not found", rule)
		return
	}
	var want []string
	for _, c := range fw.ConstNames(pk.Types, vk) {
		if c != "ValueKindUnknown" {
			want = append(want, c)
		}
	}
	if len(want) < 9 {
		r.Error("%s: expected at least 9 value kinds, found %d", rule, len(want))
	}
	for _, name := range funcs {
		fi := p.Func(inPkg, name)
		if fi == nil {
			r.Error("%s: %s.%s not found", rule, inPkg, name)
			continue
		}
		sws := fw.ConstSwitches(fi, vk)
		if len(sws) == 0 {
			r.Error("%s: no switch over ValueKind in %s.%s", rule, inPkg, name)
			continue
		}
		for i, sw := range sws {
			miss := fw.MissingFrom(sw.Covered, want)
			loud := sw.HasDefault && defaultFailsLoudly(fi, sw.Default)
			r.Check(len(miss) == 0 || loud, rule, name+"/value-kinds#"+itoa(i+1), p.Pos(sw.Stmt.Pos()), "the ValueKind dispatch in "+inPkg+"."+name+" covers all value kinds (or its default arm fails loudly)",
				"value kinds without an arm and without a failing default: "+strings.Join(miss, ", ")+" — a value of that kind is silently printed as nothing / copied as garbage / compared as equal, so a parsed document does not round-trip")
		}
	}
}

func defaultFailsLoudly(fi *fw.FuncInfo, cc *ast.CaseClause) bool {
	info := fi.Info()
	loud := false
	fw.WalkAll(cc, func(n ast.Node) bool {
		switch x := n.(type) {
		case *ast.CallExpr:
			if fw.Builtin(info, x) == "panic" {
				loud = true
			}
			if fn := fw.Callee(info, x); fn != nil && (fn.Name() == "Errorf" || fn.Name() == "New") {
				loud = true
			}
		case *ast.ReturnStmt:
			for _, res := range x.Results {
				if v, ok := fw.ConstVal(info, res); ok && v == "false" {
					loud = true // comparer: unknown kinds are never equal
				}
			}
		}
		return true
	})
	return loud
}

// definitionExtensionSiblings: Enter<K>TypeDefinition and Enter<K>TypeExtension of the printer assign
// the same set of printVisitor fields with the same package-level values.
func definitionExtensionSiblings(r *fw.Run, rule string) {
	p := r.Prog
	pk := p.Pkg("astprinter")
	if pk == nil {
		r.Error("%s: package astprinter not loaded", rule)
		return
	}
	info := pk.TypesInfo
	assigns := func(fi *fw.FuncInfo) map[string]string {
		out := map[string]string{}
		fw.WalkAll(fi.Decl.Body, func(n ast.Node) bool {
			as, ok := n.(*ast.AssignStmt)
			if !ok {
				return true
			}
			for i, l := range as.Lhs {
				v, sel := fw.Field(info, l)
				if v == nil {
					continue
				}
				if _, tn := fw.FieldOwner(info, sel); tn != "printVisitor" {
					continue
				}
				val := "?"
				if i < len(as.Rhs) {
					if o := fw.RootObj(info, as.Rhs[i]); o != nil && o.Pkg() != nil && o.Parent() == o.Pkg().Scope() {
						val = o.Pkg().Name() + "." + o.Name()
					} else if cv, ok := fw.ConstVal(info, as.Rhs[i]); ok {
						val = cv
					}
				}
				out[v.Name()] = val
			}
			return true
		})
		return out
	}
	n := 0
	for _, kind := range []string{"ObjectType", "InterfaceType", "ScalarType", "UnionType", "EnumType", "InputObjectType"} {
		def := p.Func("astprinter", "printVisitor.Enter"+kind+"Definition")
		ext := p.Func("astprinter", "printVisitor.Enter"+kind+"Extension")
		if def == nil || ext == nil {
			r.Error("%s: printer handlers for %s not found", rule, kind)
			continue
		}
		n++
		a, b := assigns(def), assigns(ext)
		var diff []string
		for f, v := range a {
			if bv, ok := b[f]; !ok {
				diff = append(diff, f+" (set only by Definition)")
			} else if v != "?" && bv != "?" && v != bv {
				diff = append(diff, f+" ("+v+" vs "+bv+")")
			}
		}
		for f := range b {
			if _, ok := a[f]; !ok {
				diff = append(diff, f+" (set only by Extension)")
			}
		}
		sort.Strings(diff)
		r.Check(len(diff) == 0, rule, "printer-siblings/"+kind, ext.Pos(), "Enter"+kind+"Definition and Enter"+kind+"Extension set the same printer state",
			"the sibling handlers disagree on: "+strings.Join(diff, ", ")+" — e.g. arguments of an `extend` definition are printed with whatever delimiters the previous definition left behind, producing text that does not parse (the golden fixture hides it when the previous definition happens to set the same state)")
	}
	r.Expect(rule, "definition/extension handler pairs", n, 6)

	// The same pairs must also print the same parts of the node: every content field of the definition struct that the
	// Definition handler reads (through document.<Kind>Definitions[ref]) is read by the Extension handler through
	// document.<Kind>Extensions[ref] (the extension struct embeds the definition struct), and vice versa.
	reads := func(fi *fw.FuncInfo, slice string) map[string]bool {
		out := map[string]bool{}
		fw.WalkAll(fi.Decl.Body, func(nd ast.Node) bool {
			sel, ok := nd.(*ast.SelectorExpr)
			if !ok {
				return true
			}
			// the chain below the element of the slice: d.<slice>[ref].A.B — every (non-embedded) field on the way counts
			var ix *ast.IndexExpr
			for x := ast.Unparen(sel.X); ix == nil; {
				switch y := x.(type) {
				case *ast.IndexExpr:
					ix = y
				case *ast.SelectorExpr:
					x = ast.Unparen(y.X)
				default:
					return true
				}
			}
			v, _ := fw.Field(info, ix.X)
			if v == nil || v.Name() != slice {
				return true
			}
			// only fields of the node itself (or of the definition it embeds), not of the sub-structures below
			elemName := strings.TrimSuffix(slice, "s")
			if _, owner := fw.FieldOwner(info, sel); owner != elemName && owner != strings.Replace(elemName, "Extension", "Definition", 1) {
				return true
			}
			if fv, _ := info.Uses[sel.Sel].(*types.Var); fv != nil && fv.IsField() && !fv.Embedded() {
				if named, _ := fv.Type().(*types.Named); named != nil && named.Obj().Pkg() != nil && named.Obj().Pkg().Name() == "position" {
					return true
				}
				out[fv.Name()] = true
			}
			return true
		})
		return out
	}
	m := 0
	type pair struct{ kind, phase, defSlice, extSlice, defFn, extFn string }
	var pairs []pair
	for _, kind := range []string{"ObjectType", "InterfaceType", "ScalarType", "UnionType", "EnumType", "InputObjectType"} {
		for _, phase := range []string{"Enter", "Leave"} {
			pairs = append(pairs, pair{kind, phase, kind + "Definitions", kind + "Extensions", phase + kind + "Definition", phase + kind + "Extension"})
		}
	}
	for _, phase := range []string{"Enter", "Leave"} {
		pairs = append(pairs, pair{"Schema", phase, "SchemaDefinitions", "SchemaExtensions", phase + "SchemaDefinition", phase + "SchemaExtension"})
	}
	for _, pr := range pairs {
		kind := pr.kind
		def := p.Func("astprinter", "printVisitor."+pr.defFn)
		ext := p.Func("astprinter", "printVisitor."+pr.extFn)
		if def == nil || ext == nil {
			continue
		}
		m++
		if pr.phase == "Leave" || kind == "Schema" {
			kind = pr.phase + ":" + kind
		}
		a, b := reads(def, pr.defSlice), reads(ext, pr.extSlice)
		var diff []string
		for f := range a {
			if !b[f] {
				diff = append(diff, f+" (printed only for the definition)")
			}
		}
		for f := range b {
			if !a[f] && f != pr.kind+"Definition" {
				diff = append(diff, f+" (printed only for the extension)")
			}
		}
		if pr.kind == "Schema" { // `extend schema` has no description in the grammar; the parser never records one for extensions
			var kept []string
			for _, d := range diff {
				if !strings.HasPrefix(d, "Description ") {
					kept = append(kept, d)
				}
			}
			diff = kept
		}
		sort.Strings(diff)
		r.Check(len(diff) == 0, rule, "printer-siblings-content/"+kind, ext.Pos(), pr.defFn+" and "+pr.extFn+" print the same parts of the node",
			"the sibling handlers disagree on: "+strings.Join(diff, ", ")+" — that part of an `extend` definition is parsed but never printed, so print(parse(x)) re-parses to a different document")
	}
	r.Expect(rule, "definition/extension handler pairs (content)", m, 14)
}

// parsePrintAgreement (R4): every content field of an AST node that the parser fills is read on the print path (the
// printer's callbacks, the SimpleWalker that drives them, and the functions they call). A field that is parsed but never
// looked at while printing cannot survive print∘parse.
func parsePrintAgreement(r *fw.Run, rule string) {
	p := r.Prog
	astPk, parserPk := p.Pkg("ast"), p.Pkg("astparser")
	if astPk == nil || parserPk == nil || p.Pkg("astprinter") == nil || p.Pkg("astvisitor") == nil {
		r.Error("%s: packages ast/astparser/astprinter/astvisitor not loaded", rule)
		return
	}
	// node struct types: element types of the slices of ast.Document
	nodeTypes := map[string]*types.Struct{}
	if doc := p.Named("ast", "Document"); doc != nil {
		if st, ok := doc.Underlying().(*types.Struct); ok {
			for i := 0; i < st.NumFields(); i++ {
				if sl, ok := st.Field(i).Type().Underlying().(*types.Slice); ok {
					if n, ok := sl.Elem().(*types.Named); ok && n.Obj().Pkg() == astPk.Types {
						if s2, ok := n.Underlying().(*types.Struct); ok {
							nodeTypes[n.Obj().Name()] = s2
						}
					}
				}
			}
		}
	}
	isAstNode := func(pkgPath, tn string) bool {
		return strings.HasSuffix(pkgPath, "/pkg/ast") && nodeTypes[tn] != nil
	}
	// W: written by the parser
	written := map[string]map[string]token.Pos{}
	writtenTo := map[string]map[string]bool{} // "Type.Field" → Document slices the written node ends up in ("*": unknown)
	var appendsTo map[string]bool             // Document slices the current parser function appends to
	noteW := func(tn, f string, pos token.Pos) {
		if written[tn] == nil {
			written[tn] = map[string]token.Pos{}
		}
		if _, ok := written[tn][f]; !ok {
			written[tn][f] = pos
		}
		if writtenTo[tn+"."+f] == nil {
			writtenTo[tn+"."+f] = map[string]bool{}
		}
		if len(appendsTo) == 0 {
			writtenTo[tn+"."+f]["*"] = true
		}
		for sl := range appendsTo {
			writtenTo[tn+"."+f][sl] = true
		}
	}
	pinfo := parserPk.TypesInfo
	for _, fi := range p.Funcs("astparser") {
		if !strings.HasPrefix(fi.Name(), "Parser.") {
			continue
		}
		appendsTo = map[string]bool{}
		fw.WalkAll(fi.Decl.Body, func(nd ast.Node) bool {
			if c, ok := nd.(*ast.CallExpr); ok && fw.Builtin(pinfo, c) == "append" && len(c.Args) > 0 {
				if v, sel := fw.Field(pinfo, c.Args[0]); v != nil {
					if pkgPath, tn := fw.FieldOwner(pinfo, sel); tn == "Document" && strings.HasSuffix(pkgPath, "/pkg/ast") {
						if sl, ok := v.Type().Underlying().(*types.Slice); ok {
							if n, ok := sl.Elem().(*types.Named); ok && nodeTypes[n.Obj().Name()] != nil {
								appendsTo[v.Name()] = true
							}
						}
					}
				}
			}
			return true
		})
		fw.WalkAll(fi.Decl.Body, func(nd ast.Node) bool {
			switch x := nd.(type) {
			case *ast.CompositeLit:
				if n, ok := pinfo.TypeOf(x).(*types.Named); ok && n.Obj().Pkg() != nil && isAstNode(n.Obj().Pkg().Path(), n.Obj().Name()) {
					for _, el := range x.Elts {
						if kv, ok := el.(*ast.KeyValueExpr); ok {
							if id, isID := kv.Key.(*ast.Ident); isID {
								if fv, _ := pinfo.Uses[id].(*types.Var); fv != nil && fv.Embedded() {
									continue // the embedded definition of an extension: its fields are recorded where they are written
								}
							}
							noteW(n.Obj().Name(), types.ExprString(kv.Key), kv.Pos())
						}
					}
				}
			default:
				for _, t := range fw.WriteTargets(pinfo, nd) {
					if v, sel := fw.Field(pinfo, t); v != nil {
						if pkgPath, tn := fw.FieldOwner(pinfo, sel); isAstNode(pkgPath, tn) {
							noteW(tn, v.Name(), t.Pos())
						}
					}
				}
			}
			return true
		})
	}
	// Document slices per element type; extension slices also hold the node type they embed
	docSlices := map[string][]string{} // node type → slices whose elements contain it (directly or embedded)
	if doc := p.Named("ast", "Document"); doc != nil {
		st := doc.Underlying().(*types.Struct)
		for i := 0; i < st.NumFields(); i++ {
			sl, ok := st.Field(i).Type().Underlying().(*types.Slice)
			if !ok {
				continue
			}
			n, ok := sl.Elem().(*types.Named)
			if !ok || nodeTypes[n.Obj().Name()] == nil {
				continue
			}
			docSlices[n.Obj().Name()] = append(docSlices[n.Obj().Name()], st.Field(i).Name())
			es := nodeTypes[n.Obj().Name()]
			for j := 0; j < es.NumFields(); j++ {
				if es.Field(j).Embedded() {
					if en, ok := es.Field(j).Type().(*types.Named); ok && nodeTypes[en.Obj().Name()] != nil {
						docSlices[en.Obj().Name()] = append(docSlices[en.Obj().Name()], st.Field(i).Name())
					}
				}
			}
		}
	}
	// R: read on the print path = closure of static callees from the printer's methods and the SimpleWalker's methods.
	// A read is attributed to the Document slice it goes through (d.<Slice>[i]. … .F, also through a local alias of the
	// element); a read whose root cannot be resolved counts for every slice.
	work := []*fw.FuncInfo{}
	seen := map[*types.Func]bool{}
	push := func(fi *fw.FuncInfo) {
		if fi != nil && !seen[fi.Obj] {
			seen[fi.Obj] = true
			work = append(work, fi)
		}
	}
	for _, fi := range p.Funcs("astprinter") {
		push(fi)
	}
	for _, fi := range p.Funcs("astvisitor") {
		if strings.HasPrefix(fi.Name(), "SimpleWalker.") {
			push(fi)
		}
	}
	read := map[string]map[string]bool{} // slice ("*" = any) → "Type.Field"
	noteR := func(slice, tf string) {
		if read[slice] == nil {
			read[slice] = map[string]bool{}
		}
		read[slice][tf] = true
	}
	for len(work) > 0 {
		fi := work[len(work)-1]
		work = work[:len(work)-1]
		info := fi.Info()
		alias := map[types.Object]string{}
		var sliceOf func(e ast.Expr) string
		sliceOf = func(e ast.Expr) string {
			for {
				switch x := ast.Unparen(e).(type) {
				case *ast.SelectorExpr:
					e = x.X
				case *ast.StarExpr:
					e = x.X
				case *ast.UnaryExpr:
					e = x.X
				case *ast.IndexExpr:
					if v, sel := fw.Field(info, x.X); v != nil {
						if pkgPath, tn := fw.FieldOwner(info, sel); tn == "Document" && strings.HasSuffix(pkgPath, "/pkg/ast") {
							return v.Name()
						}
					}
					e = x.X
				case *ast.Ident:
					return alias[info.Uses[x]]
				default:
					return ""
				}
			}
		}
		fw.WalkAll(fi.Decl.Body, func(nd ast.Node) bool {
			if as, ok := nd.(*ast.AssignStmt); ok && len(as.Lhs) == len(as.Rhs) {
				for i, l := range as.Lhs {
					if id, ok := l.(*ast.Ident); ok {
						if o := info.Defs[id]; o != nil {
							if sl := sliceOf(as.Rhs[i]); sl != "" {
								alias[o] = sl
							}
						}
					}
				}
			}
			return true
		})
		fw.WalkAll(fi.Decl.Body, func(nd ast.Node) bool {
			switch x := nd.(type) {
			case *ast.CallExpr:
				if fn := fw.Callee(info, x); fn != nil {
					push(p.FuncOf(fn))
				}
			case *ast.SelectorExpr:
				if v, sel := fw.Field(info, x); v != nil {
					if pkgPath, tn := fw.FieldOwner(info, sel); isAstNode(pkgPath, tn) {
						sl := sliceOf(x.X)
						if sl == "" {
							sl = "*"
						}
						noteR(sl, tn+"."+v.Name())
					}
				}
			}
			return true
		})
	}
	n := 0
	var tns []string
	for tn := range written {
		tns = append(tns, tn)
	}
	sort.Strings(tns)
	for _, tn := range tns {
		var fs []string
		for f := range written[tn] {
			fs = append(fs, f)
		}
		sort.Strings(fs)
		st := nodeTypes[tn]
		for _, f := range fs {
			// positions are not content
			isPos := false
			for i := 0; i < st.NumFields(); i++ {
				if st.Field(i).Name() == f {
					if named, _ := st.Field(i).Type().(*types.Named); named != nil && named.Obj().Pkg() != nil && named.Obj().Pkg().Name() == "position" {
						isPos = true
					}
				}
			}
			if isPos {
				continue
			}
			var slices []string
			for _, sl := range docSlices[tn] {
				if writtenTo[tn+"."+f][sl] || writtenTo[tn+"."+f]["*"] {
					slices = append(slices, sl)
				}
			}
			if len(slices) == 0 {
				slices = []string{"*"}
			}
			for _, sl := range slices {
				n++
				key := "parsed-is-printed/" + sl + ":" + tn + "." + f
				if sl == "*" {
					key = "parsed-is-printed/" + tn + "." + f
				}
				ok := read[sl][tn+"."+f] || read["*"][tn+"."+f]
				if sl == "*" { // destination unknown: read through any slice counts
					for _, m := range read {
						if m[tn+"."+f] {
							ok = true
						}
					}
				}
				r.Check(ok, rule, key, p.Pos(written[tn][f]), tn+"."+f+", which the parser fills, is read on the print path for the nodes of Document."+sl,
					"the parser stores "+tn+"."+f+" but neither the printer, nor the SimpleWalker that drives it, nor any function they call ever reads it for the elements of Document."+sl+": that part of a document is dropped by print, so parse(print(d)) is structurally different from d")
			}
		}
	}
	r.Expect(rule, "content fields of AST nodes filled by the parser", n, 150)
}

// checkParserProgress (R5): the recursive-descent parser terminates. Every cycle of every unbounded loop of Parser
// definitely consumes a real token (one that is known not to be EOF when it is read, or whose keyword was compared equal to
// a non-EOF constant afterwards) before it returns to the loop head, or leaves the loop. A raw read at end of input
// does not advance the tokenizer and therefore never counts. Since every cycle removes at least one of finitely many tokens,
// the loop ends. (The depth of the recursion is not bounded by this rule; see DESIGN §9.)
//
// Facts (per path): C = a real token was consumed; E = an error is in the report; P = C ∨ E (one correlated fact);
// NE = the next token is known not to be EOF (peek test). On the false edge of report.HasErrors() nothing was reported,
// so P implies C there. Function summaries (least fixed point): mustC, mustP, mustE.
func checkParserProgress(r *fw.Run, rule string) {
	p := r.Prog
	pk := p.Pkg("astparser")
	if pk == nil {
		r.Error("%s: package astparser not loaded", rule)
		return
	}
	info := pk.TypesInfo
	isParserMethod := func(fn *types.Func, names ...string) bool {
		if fn == nil {
			return false
		}
		sig, _ := fn.Type().(*types.Signature)
		if sig == nil || sig.Recv() == nil || fw.RecvName(sig.Recv().Type()) != "Parser" || fn.Pkg() != pk.Types {
			return false
		}
		for _, n := range names {
			if fn.Name() == n {
				return true
			}
		}
		return false
	}
	isEOFConst := func(e ast.Expr) bool {
		c := fw.ConstObj(info, e)
		return c != nil && c.Name() == "EOF"
	}
	isNonEOFConst := func(e ast.Expr) bool {
		c := fw.ConstObj(info, e)
		return c != nil && c.Name() != "EOF" && (strings.HasSuffix(c.Pkg().Path(), "/keyword") || strings.HasSuffix(c.Pkg().Path(), "/identkeyword"))
	}
	// the checked-read helpers: read exactly one token first, report an error unless it is the expected (non-EOF) kind
	checkedRead := map[string]bool{"mustRead": true, "mustReadIdentKey": true, "mustReadExceptIdentKey": true, "mustReadOneOf": true}
	mustC, mustP, mustE := map[*types.Func]bool{}, map[*types.Func]bool{}, map[*types.Func]bool{}
	mustCne, mustPne := map[*types.Func]bool{}, map[*types.Func]bool{} // the same when the function is entered with NE (the caller peeked)
	// falseE: a boolean parser method whose every `return false` has an error in the report (the nesting guard: refusing
	// reports). On the false edge of a call of such a method the caller knows E.
	falseE := map[*types.Func]bool{}

	type fnState struct {
		peekVars map[types.Object]bool // locals holding the peeked keyword
		rawVars  map[types.Object]bool // locals holding a token read without knowing it is not EOF
	}
	hooks := func(fi *fw.FuncInfo, in *fw.Interp) fw.Hooks {
		fs := &fnState{peekVars: map[types.Object]bool{}, rawVars: map[types.Object]bool{}}
		// pre-scan assignments: x := p.peek() / x, _ := p.peekLiteral() / x := p.read()
		fw.WalkAll(fi.Decl.Body, func(nd ast.Node) bool {
			as, ok := nd.(*ast.AssignStmt)
			if !ok || len(as.Rhs) != 1 {
				return true
			}
			c, ok := ast.Unparen(as.Rhs[0]).(*ast.CallExpr)
			if !ok {
				return true
			}
			fn := fw.Callee(info, c)
			if id, isID := as.Lhs[0].(*ast.Ident); isID {
				o := info.Defs[id]
				if o == nil {
					o = info.Uses[id]
				}
				if o != nil && isParserMethod(fn, "peek", "peekLiteral") {
					fs.peekVars[o] = true
				}
				if o != nil && isParserMethod(fn, "read") {
					fs.rawVars[o] = true
				}
			}
			return true
		})
		isPeek := func(e ast.Expr) bool {
			e = ast.Unparen(e)
			if c, ok := e.(*ast.CallExpr); ok {
				return isParserMethod(fw.Callee(info, c), "peek")
			}
			if id, ok := e.(*ast.Ident); ok {
				return fs.peekVars[info.Uses[id]]
			}
			return false
		}
		isRawKeyword := func(e ast.Expr) bool { // x.Keyword for a raw-read token x
			sel, ok := ast.Unparen(e).(*ast.SelectorExpr)
			if !ok || sel.Sel.Name != "Keyword" {
				return false
			}
			id, ok := ast.Unparen(sel.X).(*ast.Ident)
			return ok && fs.rawVars[info.Uses[id]]
		}
		consumed := func(st *fw.State) {
			st.Set("C")
			st.Set("P")
			st.Kill("NE")
		}
		return fw.Hooks{
			Lit: func(l *ast.FuncLit, ctx fw.LitCtx, st *fw.State) fw.LitMode { return fw.LitSkip },
			Node: func(nd ast.Node, st *fw.State) {
				c, ok := nd.(*ast.CallExpr)
				if !ok {
					return
				}
				fn := fw.Callee(info, c)
				if fn == nil {
					return
				}
				switch {
				case isParserMethod(fn, "read"):
					if st.Must("NE") {
						consumed(st)
					} else {
						st.Set("raw-read")
					}
				case fn.Pkg() == pk.Types && checkedRead[fn.Name()] && isParserMethod(fn, fn.Name()):
					expectsReal := fn.Name() != "mustRead" || (len(c.Args) == 1 && isNonEOFConst(c.Args[0]))
					if st.Must("NE") {
						consumed(st)
					} else if expectsReal {
						st.Set("P")
						st.Kill("NE")
					}
				case fn.Pkg() != nil && strings.HasSuffix(fn.Pkg().Path(), "/operationreport") && strings.HasPrefix(fn.Name(), "Add") && strings.HasSuffix(fn.Name(), "Error"):
					st.Set("E")
					st.Set("P")
				case mustC[fn], st.Must("NE") && mustCne[fn]:
					consumed(st)
				case st.Must("NE") && mustPne[fn] && !mustP[fn]:
					st.Set("P")
					st.Kill("NE")
				case mustE[fn]:
					st.Set("E")
					st.Set("P")
					st.Kill("NE")
				case mustP[fn]:
					st.Set("P")
					st.Kill("NE")
				default:
					if fn.Pkg() == pk.Types && isParserMethod(fn, fn.Name()) && !isParserMethod(fn, "peek", "peekLiteral", "peekEquals", "peekEqualsIdentKey", "identKeywordToken", "identKeywordSliceRef") {
						// another parser method may consume: what is known about the next token is gone
						if p.FuncOf(fn) != nil && !isPureLookahead(p.FuncOf(fn)) {
							st.Kill("NE")
						}
					}
				}
			},
			Cond: func(e ast.Expr, branch bool, st *fw.State) {
				e = ast.Unparen(e)
				// report.HasErrors()
				if c, ok := e.(*ast.CallExpr); ok {
					fn := fw.Callee(info, c)
					if fn != nil && !branch && falseE[fn] {
						st.Set("E")
						st.Set("P")
						return
					}
					if fn != nil && fn.Name() == "HasErrors" && fn.Pkg() != nil && strings.HasSuffix(fn.Pkg().Path(), "/operationreport") {
						if branch {
							st.Set("E")
							st.Set("P")
						} else if st.Must("P") {
							st.Set("C") // nothing was reported, so the progress was a consumed token
						}
						return
					}
					// peekEquals(K) / peekEqualsIdentKey(k)
					if branch && isParserMethod(fn, "peekEqualsIdentKey") {
						st.Set("NE")
					}
					if branch && isParserMethod(fn, "peekEquals") && len(c.Args) == 1 && isNonEOFConst(c.Args[0]) {
						st.Set("NE")
					}
					return
				}
				be, ok := e.(*ast.BinaryExpr)
				if !ok || (be.Op != token.EQL && be.Op != token.NEQ) {
					return
				}
				eq := (be.Op == token.EQL) == branch
				for _, pr := range [][2]ast.Expr{{be.X, be.Y}, {be.Y, be.X}} {
					if isPeek(pr[0]) {
						if eq && isNonEOFConst(pr[1]) {
							st.Set("NE")
						}
						if !eq && isEOFConst(pr[1]) {
							st.Set("NE")
						}
					}
					if isRawKeyword(pr[0]) && st.Must("raw-read") && eq && isNonEOFConst(pr[1]) {
						consumed(st) // the token read turned out to be a real one
					}
				}
			},
			Case: func(tag ast.Expr, vals []ast.Expr, match bool, st *fw.State) {
				if vals == nil {
					return
				}
				all, anyEOF := true, false
				for _, v := range vals {
					if isEOFConst(v) {
						anyEOF = true
					}
					if !isNonEOFConst(v) {
						all = false
					}
				}
				if isPeek(tag) {
					if match && all {
						st.Set("NE")
					}
					if !match && anyEOF {
						st.Set("NE")
					}
				}
				if isRawKeyword(tag) && st.Must("raw-read") && match && all {
					consumed(st)
				}
			},
		}
	}
	var funcs []*fw.FuncInfo
	for _, fi := range p.Funcs("astparser") {
		if fi.Decl.Recv != nil && strings.HasPrefix(fi.Name(), "Parser.") {
			funcs = append(funcs, fi)
		}
	}
	for changed := true; changed; {
		changed = false
		for _, fi := range funcs {
			if checkedRead[fi.Obj.Name()] || fi.Obj.Name() == "read" {
				continue
			}
			in := fw.NewInterp(fi)
			in.H = hooks(fi, in)
			exit := in.Run(nil)
			if exit == nil {
				continue
			}
			for _, s := range []struct {
				m map[*types.Func]bool
				f string
			}{{mustC, "C"}, {mustP, "P"}, {mustE, "E"}} {
				if !s.m[fi.Obj] && exit.Must(s.f) {
					s.m[fi.Obj] = true
					changed = true
				}
			}
			if sig := fi.Obj.Type().(*types.Signature); !falseE[fi.Obj] && sig.Results().Len() == 1 && types.Identical(sig.Results().At(0).Type(), types.Typ[types.Bool]) {
				in3 := fw.NewInterp(fi)
				h := hooks(fi, in3)
				nFalse, allE := 0, true
				h.Exit = func(ret *ast.ReturnStmt, lit *ast.FuncLit, st *fw.State) {
					if lit != nil || ret == nil || !in3.Final() || len(ret.Results) != 1 {
						return
					}
					if v, isConst := fw.ConstVal(info, ret.Results[0]); isConst && v == "false" {
						nFalse++
						if !st.Must("E") {
							allE = false
						}
					} else if !isConst {
						allE = false // a computed result may be false without a report
					}
				}
				in3.H = h
				in3.Run(nil)
				if nFalse > 0 && allE {
					falseE[fi.Obj] = true
					changed = true
				}
			}
			in2 := fw.NewInterp(fi)
			in2.H = hooks(fi, in2)
			ne := fw.NewState()
			ne.Set("NE")
			if exit2 := in2.Run(ne); exit2 != nil {
				if !mustCne[fi.Obj] && exit2.Must("C") {
					mustCne[fi.Obj] = true
					changed = true
				}
				if !mustPne[fi.Obj] && exit2.Must("P") {
					mustPne[fi.Obj] = true
					changed = true
				}
			}
		}
	}
	// sanity of the frozen helper table: each checked-read helper calls read exactly once on every path
	for name := range checkedRead {
		fi := p.Func("astparser", "Parser."+name)
		if fi == nil {
			r.Error("%s: helper Parser.%s not found", rule, name)
			continue
		}
		in := fw.NewInterp(fi)
		in.H = fw.Hooks{Node: func(nd ast.Node, st *fw.State) {
			if c, ok := nd.(*ast.CallExpr); ok && isParserMethod(fw.Callee(info, c), "read") {
				st.Inc("reads")
			}
		}}
		exit := in.Run(nil)
		r.Check(exit != nil && exit.Get("reads") == fw.Cnt{Min: 1, Max: 1}, rule, "Parser."+name+"/reads-exactly-one-token", fi.Pos(), "Parser."+name+" reads exactly one token on every path",
			"the helper that the rule treats as 'reads one token and reports an error unless it is the expected kind' no longer reads exactly one token: the progress argument for every loop that uses it is void")
	}
	nLoops := 0
	for _, fi := range funcs {
		ord := 0
		fw.WalkAll(fi.Decl.Body, func(nd ast.Node) bool {
			fs, ok := nd.(*ast.ForStmt)
			if !ok {
				return true
			}
			ord++
			key := fi.Name() + "/loop" + itoa(ord)
			if isCountedLoop(info, fs) {
				return true
			}
			nLoops++
			in := fw.NewInterp(fi)
			h := hooks(fi, in)
			in.H = h
			entry := fw.NewState()
			if fs.Cond != nil {
				for _, a := range flattenAnd(fs.Cond) {
					h.Cond(a, true, entry)
				}
			}
			next, _ := in.RunLoopBody(fs.Body.List, entry)
			r.Check(next == nil || next.Must("C"), rule, key+"/consumes-a-token", p.Pos(fs.Pos()), "every cycle of the loop in "+fi.Name()+" consumes a real token before it returns to the loop head",
				"a path returns to the loop head without having consumed a token that is known not to be EOF (and without passing the false edge of report.HasErrors() after a step that consumes or reports): on the first document that takes this path — typically a malformed or truncated one — the parser spins for ever; no example test hangs because none contains that token at that place")
			return true
		})
	}
	r.Expect(rule, "unbounded loops of the parser", nLoops, 10)
}

// isPureLookahead: the function calls neither read nor anything that may read (no Parser method other than peeks).
func isPureLookahead(fi *fw.FuncInfo) bool {
	info := fi.Info()
	pure := true
	fw.WalkAll(fi.Decl.Body, func(nd ast.Node) bool {
		if c, ok := nd.(*ast.CallExpr); ok {
			if fn := fw.Callee(info, c); fn != nil && fn.Pkg() == fi.Obj.Pkg() {
				if sig, _ := fn.Type().(*types.Signature); sig != nil && sig.Recv() != nil && fw.RecvName(sig.Recv().Type()) == "Parser" {
					switch fn.Name() {
					case "peek", "peekLiteral", "peekEquals", "peekEqualsIdentKey", "identKeywordToken", "identKeywordSliceRef":
					default:
						pure = false
					}
				}
			}
		}
		return true
	})
	return pure
}

// shorthandQueryGuard (R7): the printer may omit the `query` keyword only for a bare selection set. The condition under
// which it writes the keyword has to look at every optional part of an operation definition that is printed between the
// keyword and the selection set: the name and every Has… flag of ast.OperationDefinition other than HasSelections.
// Otherwise an anonymous query that carries the forgotten part is printed without its keyword — text that does not parse.
func shorthandQueryGuard(r *fw.Run) {
	p := r.Prog
	r.Rule("C05-R7", "the printer writes the `query` keyword under a condition that reads the name and every Has… flag of ast.OperationDefinition except HasSelections (the shorthand form is only valid for a bare selection set)")
	fi := p.Func("astprinter", "printVisitor.EnterOperationDefinition")
	opDef := p.Named("ast", "OperationDefinition")
	if fi == nil || opDef == nil {
		r.Error("C05-R7: printVisitor.EnterOperationDefinition / ast.OperationDefinition not found")
		return
	}
	info := fi.Info()
	required := map[string]bool{"Name": true}
	st := opDef.Underlying().(*types.Struct)
	for i := 0; i < st.NumFields(); i++ {
		f := st.Field(i)
		if b, ok := f.Type().Underlying().(*types.Basic); ok && b.Info()&types.IsBoolean != 0 && strings.HasPrefix(f.Name(), "Has") && f.Name() != "HasSelections" {
			required[f.Name()] = true
		}
	}
	// fields of OperationDefinition an expression depends on, through local variables
	var fieldsOf func(e ast.Node, seen map[types.Object]bool, out map[string]bool)
	fieldsOf = func(e ast.Node, seen map[types.Object]bool, out map[string]bool) {
		fw.WalkAll(e, func(nd ast.Node) bool {
			switch x := nd.(type) {
			case *ast.SelectorExpr:
				if v, sel := fw.Field(info, x); v != nil {
					if _, tn := fw.FieldOwner(info, sel); tn == "OperationDefinition" {
						out[v.Name()] = true
					}
				}
			case *ast.Ident:
				o := info.Uses[x]
				if v, isVar := o.(*types.Var); isVar && !v.IsField() && !seen[o] && o.Parent() != o.Pkg().Scope() {
					seen[o] = true
					fw.WalkAll(fi.Decl.Body, func(m ast.Node) bool {
						if as, ok := m.(*ast.AssignStmt); ok {
							for i, l := range as.Lhs {
								if id, ok := l.(*ast.Ident); ok && (info.Defs[id] == o || info.Uses[id] == o) && i < len(as.Rhs) {
									fieldsOf(as.Rhs[i], seen, out)
								}
							}
						}
						return true
					})
				}
			}
			return true
		})
	}
	n := 0
	var walk func(nd ast.Node, guards []ast.Expr)
	walk = func(nd ast.Node, guards []ast.Expr) {
		switch x := nd.(type) {
		case *ast.IfStmt:
			walk(x.Body, append(append([]ast.Expr{}, guards...), x.Cond))
			if x.Else != nil {
				walk(x.Else, guards)
			}
			return
		case *ast.CallExpr:
			if len(x.Args) == 1 {
				if o := fw.RootObj(info, x.Args[0]); o != nil && o.Name() == "QUERY" && o.Pkg() != nil && o.Pkg().Name() == "literal" {
					n++
					got := map[string]bool{}
					for _, g := range guards {
						fieldsOf(g, map[types.Object]bool{}, got)
					}
					var missing []string
					for f := range required {
						if !got[f] && len(guards) > 0 {
							missing = append(missing, f)
						}
					}
					sort.Strings(missing)
					r.Check(len(missing) == 0, "C05-R7", fi.Name()+"/query-keyword-guard", p.Pos(x.Pos()), "the `query` keyword is written under a condition that considers every optional part of the operation",
						"the decision to omit the keyword ignores "+strings.Join(missing, ", ")+": an anonymous query that has it (e.g. `query @d { a }`) is printed without `query` — `@d {a}` — which does not parse")
				}
			}
		}
		// generic descent
		switch x := nd.(type) {
		case *ast.BlockStmt:
			for _, s := range x.List {
				walk(s, guards)
			}
		case *ast.ExprStmt:
			walk(x.X, guards)
		case *ast.SwitchStmt:
			walk(x.Body, guards)
		case *ast.CaseClause:
			for _, s := range x.Body {
				walk(s, guards)
			}
		}
	}
	walk(fi.Decl.Body, nil)
	r.Expect("C05-R7", "writes of the query keyword", n, 1)
}

// limitCountsEveryField (R8): ParseWithLimits counts fields while tokenizing. Inside a selection set every identifier that
// does not follow a spread is a field (or alias) and has to be counted: every path through the identifier arm of
// TokenizeWithLimits either increments the field counter, or passed an edge that says "not inside a selection set"
// (localDepth == 0) or "this is the name after a spread". An arm that treats some identifiers differently without looking
// at the depth (the definition keywords query / mutation / subscription / fragment are legal field names) lets a document
// through whose real field count exceeds the limit.
func limitCountsEveryField(r *fw.Run) {
	p := r.Prog
	r.Rule("C05-R8", "every path through the identifier arm of TokenizeWithLimits counts the identifier as a field, or passed an edge that says it is not inside a selection set (localDepth == 0) or that it follows a spread")
	fi := p.Func("astparser", "Tokenizer.TokenizeWithLimits")
	if fi == nil {
		r.Error("C05-R8: Tokenizer.TokenizeWithLimits not found")
		return
	}
	info := fi.Info()
	// the counter: the local that is compared with limits.MaxFields
	var counter, depth, spread types.Object
	fw.WalkAll(fi.Decl.Body, func(nd ast.Node) bool {
		if be, ok := nd.(*ast.BinaryExpr); ok {
			for _, pr := range [][2]ast.Expr{{be.X, be.Y}, {be.Y, be.X}} {
				if sel, isSel := ast.Unparen(pr[1]).(*ast.SelectorExpr); isSel && sel.Sel.Name == "MaxFields" {
					counter = fw.RootObj(info, pr[0])
				}
			}
		}
		if as, ok := nd.(*ast.AssignStmt); ok && len(as.Lhs) == 1 && len(as.Rhs) == 1 {
			if id, isID := as.Lhs[0].(*ast.Ident); isID {
				o := info.Defs[id]
				if o == nil {
					o = info.Uses[id]
				}
				if o != nil && strings.Contains(strings.ToLower(o.Name()), "localdepth") && !strings.Contains(strings.ToLower(o.Name()), "peak") {
					depth = o
				}
				if o != nil && strings.Contains(strings.ToLower(o.Name()), "spread") {
					spread = o
				}
			}
		}
		return true
	})
	if counter == nil || depth == nil || spread == nil {
		r.Error("C05-R8: field counter / selection depth / spread flag of TokenizeWithLimits not identified")
		return
	}
	// the identifier arm of the token dispatch
	var arm *ast.CaseClause
	fw.WalkAll(fi.Decl.Body, func(nd ast.Node) bool {
		if cc, ok := nd.(*ast.CaseClause); ok && arm == nil {
			for _, v := range cc.List {
				if c := fw.ConstObj(info, v); c != nil && c.Name() == "IDENT" && strings.HasSuffix(c.Pkg().Path(), "/keyword") {
					arm = cc
				}
			}
		}
		return true
	})
	if arm == nil {
		r.Error("C05-R8: identifier arm of TokenizeWithLimits not found")
		return
	}
	// depthIsZero: e evaluating to branch implies localDepth == 0 (or <= 0)
	depthIsZero := func(e ast.Expr, branch bool) bool {
		// in negation normal form the outcome is a conjunction one of whose members pins the depth to zero
		// (spelling and operand order do not matter: d == 0, 0 == d, !(d > 0), d < 1 …)
		op, leaves := fw.NNF(info, e, branch)
		if op != "atom" && op != "and" {
			return false
		}
		for _, a := range leaves {
			if a.Y == nil || fw.RootObj(info, a.X) != depth {
				continue
			}
			cv, isC := fw.ConstVal(info, a.Y)
			if !isC {
				continue
			}
			if (a.Kind == "Eq" && cv == "0") || (a.Kind == "Le" && cv == "0") || (a.Kind == "Lt" && cv == "1") {
				return true
			}
		}
		return false
	}
	zeroDepthFlag := func(o types.Object) bool {
		any, all := false, true
		fw.WalkAll(fi.Decl.Body, func(nd ast.Node) bool {
			as, ok := nd.(*ast.AssignStmt)
			if !ok {
				return true
			}
			for i, l := range as.Lhs {
				id, isID := l.(*ast.Ident)
				if !isID || (info.Defs[id] != o && info.Uses[id] != o) || i >= len(as.Rhs) {
					continue
				}
				any = true
				rhs := ast.Unparen(as.Rhs[i])
				if cv, isC := fw.ConstVal(info, rhs); isC && cv == "false" {
					continue
				}
				if !depthIsZero(rhs, true) {
					all = false
				}
			}
			return true
		})
		return any && all
	}
	in := fw.NewInterp(fi)
	in.H = fw.Hooks{
		Node: func(nd ast.Node, st *fw.State) {
			if inc, ok := nd.(*ast.IncDecStmt); ok && inc.Tok == token.INC && fw.RootObj(info, inc.X) == counter {
				st.Set("accounted")
			}
			if as, ok := nd.(*ast.AssignStmt); ok && as.Tok == token.ADD_ASSIGN && len(as.Lhs) == 1 && fw.RootObj(info, as.Lhs[0]) == counter {
				st.Set("accounted")
			}
		},
		Cond: func(e ast.Expr, branch bool, st *fw.State) {
			e = ast.Unparen(e)
			if id, ok := e.(*ast.Ident); ok && info.Uses[id] == spread && branch {
				st.Set("accounted") // the name of a fragment spread
			}
			if depthIsZero(e, branch) {
				st.Set("accounted") // not inside a selection set
			}
			// a boolean local that is only ever assigned false or a depth-is-zero test: true means "outside a selection set"
			if id, ok := e.(*ast.Ident); ok && branch {
				if o := info.Uses[id]; o != nil && o != spread {
					if _, isVar := o.(*types.Var); isVar && zeroDepthFlag(o) {
						st.Set("accounted")
					}
				}
			}
		},
	}
	// the spread flag means "the previous token was a spread": the arms that open or close a selection set (they change the
	// selection depth) clear it, so that the first field of `... { f }` is counted
	nDepthArms := 0
	fw.WalkAll(fi.Decl.Body, func(nd ast.Node) bool {
		cc, ok := nd.(*ast.CaseClause)
		if !ok || cc == arm {
			return true
		}
		changesDepth, clears := false, false
		for _, stm := range cc.Body {
			fw.WalkAll(stm, func(m ast.Node) bool {
				for _, tgt := range fw.WriteTargets(info, m) {
					if fw.RootObj(info, tgt) == depth {
						changesDepth = true
					}
				}
				if as, isAs := m.(*ast.AssignStmt); isAs && len(as.Lhs) == 1 && len(as.Rhs) == 1 && fw.RootObj(info, as.Lhs[0]) == spread {
					if cv, isC := fw.ConstVal(info, as.Rhs[0]); isC && cv == "false" {
						clears = true
					}
				}
				return true
			})
		}
		if !changesDepth {
			return true
		}
		nDepthArms++
		label := "arm"
		if len(cc.List) > 0 {
			label = types.ExprString(cc.List[0])
		}
		r.Check(clears, "C05-R8", fi.Name()+"/depth-arm-clears-spread-flag:"+label, p.Pos(cc.Pos()), "the "+label+" arm clears the spread flag",
			"the flag that dismisses the identifier after a spread survives the brace: the first field of an inline fragment without type condition (`... { f }`) is taken for the name after the spread and is not counted — 200 such fields pass MaxFields=199")
		return true
	})
	r.Expect("C05-R8", "token arms that change the selection depth", nDepthArms, 2)
	end := in.RunStmts(arm.Body, nil)
	r.Check(end == nil || end.Must("accounted"), "C05-R8", fi.Name()+"/identifier-arm-counts-every-field", p.Pos(arm.Pos()), "every path through the identifier arm counts the identifier, or knows it is outside a selection set / the name after a spread",
		"some identifiers leave the arm uncounted without the depth having been looked at: a field (or alias) that is spelled like a definition keyword — query, mutation, subscription, fragment are legal field names — is not counted and resets the per-definition bookkeeping, so the fields after it are not counted either: `{ query a a a … }` passes ParseWithLimits whatever MaxFields says")
}

// c05ConstantIndexUnderLength (R9): the keyword tables and the lexer look at single bytes of a literal through constant
// indexes (literal[0] == 'o' && literal[1] == 'n'). An empty literal does reach them — the EOF token of a truncated
// document, an empty string token — so every constant-index read of a []byte parameter must be dominated by a length test
// that covers the index: a clause of `switch len(p)` whose values are all > k, or a condition len(p) > k / >= k+1 / == n
// (n > k) / != 0. The first byte read of an unguarded literal panics with "index out of range" on exactly those inputs.
func c05ConstantIndexUnderLength(r *fw.Run, pkgs []string) {
	p := r.Prog
	r.Rule("C05-R9", "every constant-index read p[k] of a []byte parameter in the keyword table and the lexer is dominated by a length test covering k (a clause of switch len(p), or a len(p) comparison)")
	n := 0
	for _, pkgAlias := range pkgs {
		for _, fi := range p.Funcs(pkgAlias) {
			info := fi.Info()
			sig := fi.Obj.Type().(*types.Signature)
			params := map[types.Object]bool{}
			for i := 0; i < sig.Params().Len(); i++ {
				if sl, ok := sig.Params().At(i).Type().Underlying().(*types.Slice); ok {
					if b, isB := sl.Elem().Underlying().(*types.Basic); isB && b.Kind() == types.Uint8 {
						params[sig.Params().At(i)] = true
					}
				}
			}
			if len(params) == 0 {
				continue
			}
			lenOf := func(e ast.Expr) types.Object { // len(p) → p
				c, ok := ast.Unparen(e).(*ast.CallExpr)
				if !ok || fw.Builtin(info, c) != "len" || len(c.Args) != 1 {
					return nil
				}
				id, isID := ast.Unparen(c.Args[0]).(*ast.Ident)
				if !isID || !params[info.Uses[id]] {
					return nil
				}
				return info.Uses[id]
			}
			atLeast := func(st *fw.State, o types.Object, k int) { // len(o) >= k
				for i := 1; i <= k && i <= 64; i++ {
					st.Set("len>=" + itoa(i) + ":" + o.Name())
				}
			}
			constInt := func(e ast.Expr) (int, bool) {
				v, ok := fw.ConstVal(info, e)
				if !ok {
					return 0, false
				}
				k := 0
				for _, ch := range v {
					if ch < '0' || ch > '9' {
						return 0, false
					}
					k = k*10 + int(ch-'0')
				}
				return k, true
			}
			hasIdx := false
			ord := map[string]int{}
			in := fw.NewInterp(fi)
			in.H = fw.Hooks{
				Cond: func(e ast.Expr, branch bool, st *fw.State) {
					a := fw.Atom(info, e, branch)
					switch a.Kind {
					case "NonEmpty":
						if id, ok := ast.Unparen(a.X).(*ast.Ident); ok && params[info.Uses[id]] {
							atLeast(st, info.Uses[id], 1)
						}
					case "Eq", "Ge", "Gt":
						if o := lenOf(a.X); o != nil {
							if k, ok := constInt(a.Y); ok {
								if a.Kind == "Gt" {
									k++
								}
								atLeast(st, o, k)
							}
						}
					}
				},
				Case: func(tag ast.Expr, vals []ast.Expr, match bool, st *fw.State) {
					o := lenOf(tag)
					if o == nil || !match || len(vals) == 0 {
						return
					}
					min := -1
					for _, v := range vals {
						k, ok := constInt(v)
						if !ok {
							return
						}
						if min < 0 || k < min {
							min = k
						}
					}
					atLeast(st, o, min)
				},
				Node: func(nd ast.Node, st *fw.State) {
					for _, t := range fw.WriteTargets(info, nd) {
						if id, ok := ast.Unparen(t).(*ast.Ident); ok && params[info.Uses[id]] {
							for i := 1; i <= 64; i++ {
								st.Kill("len>=" + itoa(i) + ":" + id.Name)
							}
						}
					}
					ix, ok := nd.(*ast.IndexExpr)
					if !ok || !in.Final() {
						return
					}
					id, isID := ast.Unparen(ix.X).(*ast.Ident)
					if !isID || !params[info.Uses[id]] {
						return
					}
					k, isC := constInt(ix.Index)
					if !isC {
						return
					}
					hasIdx = true
					n++
					ordKey := id.Name + "[" + itoa(k) + "]"
					ord[ordKey]++
					r.Check(st.Must("len>="+itoa(k+1)+":"+id.Name), "C05-R9", fi.Name()+"/"+ordKey+"-under-length-test#"+itoa(ord[ordKey]), p.Pos(ix.Pos()), id.Name+"["+itoa(k)+"] in "+fi.Name()+" is read only where len("+id.Name+") > "+itoa(k)+" is known",
						"the byte is read on a path that has not established the length: an empty (or shorter) literal — the EOF token of a document truncated inside a definition header, an empty string token — panics with 'index out of range' instead of being reported as a parse error")
				},
			}
			in.Run(nil)
			_ = hasIdx
		}
	}
	r.Expect("C05-R9", "constant-index reads of []byte parameters", n, 100)
}

// c05SearchReturnsOnMatch (R10): the printer decides separators (", " "(" ")" " ") by asking package ast where a node sits
// among its siblings (VariableDefinitionsBefore/After, SelectionsAfter…, ArgumentsBefore/After). The helpers that search
// for the node in a loop must answer from inside the loop only after a condition that depends on the searched ref has been
// tested on that path; a return reached merely because the container is non-empty answers for the wrong container — the
// second operation of a document is printed as `query B($b: Int, ($c: Int)`, which the parser rejects.
func c05SearchReturnsOnMatch(r *fw.Run) {
	p := r.Prog
	r.Rule("C05-R10", "in every sibling-position helper of package ast that the printer calls and that searches in a loop, a return inside the loop is reached only through a condition that depends on the searched ref (an int parameter)")
	called := map[*types.Func]bool{}
	for _, fi := range p.Funcs("astprinter") {
		info := fi.Info()
		fw.WalkAll(fi.Decl.Body, func(nd ast.Node) bool {
			if c, ok := nd.(*ast.CallExpr); ok {
				if fn := fw.Callee(info, c); fn != nil && fn.Pkg() != nil && fn.Pkg().Path() == fw.PkgPath("ast") {
					called[fn] = true
				}
			}
			return true
		})
	}
	// one level of delegation inside package ast (SelectionsAfterField → SelectionsAfter)
	for _, fi := range p.Funcs("ast") {
		if !called[fi.Obj] {
			continue
		}
		info := fi.Info()
		fw.WalkAll(fi.Decl.Body, func(nd ast.Node) bool {
			if c, ok := nd.(*ast.CallExpr); ok {
				if fn := fw.Callee(info, c); fn != nil && fn.Pkg() == fi.Obj.Pkg() && p.FuncOf(fn) != nil {
					called[fn] = true
				}
			}
			return true
		})
	}
	n := 0
	for _, fi := range p.Funcs("ast") {
		if !called[fi.Obj] {
			continue
		}
		sig := fi.Obj.Type().(*types.Signature)
		if sig.Results().Len() != 1 {
			continue
		}
		if b, ok := sig.Results().At(0).Type().Underlying().(*types.Basic); !ok || b.Kind() != types.Bool {
			continue
		}
		intParams := map[types.Object]bool{}
		for i := 0; i < sig.Params().Len(); i++ {
			if b, ok := sig.Params().At(i).Type().Underlying().(*types.Basic); ok && b.Info()&types.IsInteger != 0 {
				intParams[sig.Params().At(i)] = true
			}
		}
		if len(intParams) == 0 {
			continue
		}
		info := fi.Info()
		inLoop := map[*ast.ReturnStmt]bool{}
		var walk func(nd ast.Node, depth int)
		walk = func(nd ast.Node, depth int) {
			ast.Inspect(nd, func(m ast.Node) bool {
				switch x := m.(type) {
				case *ast.FuncLit:
					return false
				case *ast.ForStmt:
					if x != nd {
						walk(x.Body, depth+1)
						return false
					}
				case *ast.RangeStmt:
					if x != nd {
						walk(x.Body, depth+1)
						return false
					}
				case *ast.ReturnStmt:
					if depth > 0 {
						inLoop[x] = true
					}
				}
				return true
			})
		}
		walk(fi.Decl.Body, 0)
		if len(inLoop) == 0 {
			continue
		}
		d := fw.NewPureDeriver(fi)
		isSearched := func(e ast.Expr) bool {
			id, ok := e.(*ast.Ident)
			return ok && intParams[info.Uses[id]]
		}
		ord := 0
		in := fw.NewInterp(fi)
		in.H = fw.Hooks{
			Cond: func(e ast.Expr, branch bool, st *fw.State) {
				if d.Derives(e, isSearched) {
					st.Set("ref-tested")
				}
			},
			Case: func(tag ast.Expr, vals []ast.Expr, match bool, st *fw.State) {
				if tag != nil && match && d.Derives(tag, isSearched) {
					st.Set("ref-tested")
				}
			},
			Node: func(nd ast.Node, st *fw.State) {
				switch nd.(type) {
				case *ast.RangeStmt, *ast.ForStmt:
					st.Kill("ref-tested")
				}
			},
			Exit: func(ret *ast.ReturnStmt, lit *ast.FuncLit, st *fw.State) {
				if lit != nil || ret == nil || !in.Final() || !inLoop[ret] {
					return
				}
				n++
				ord++
				r.Check(st.Must("ref-tested"), "C05-R10", fi.Name()+"/return-in-search-loop-follows-a-test-of-the-ref#"+itoa(ord), p.Pos(ret.Pos()), "the return inside the search loop of "+fi.Name()+" is reached only after a condition depending on the searched ref",
					"the helper answers from inside its loop without having compared anything with the node it was asked about: it answers for the first non-empty container, not for the one holding the node — the printer then places separators and parentheses of a later operation wrongly (`query B($b: Int, ($c: Int)`), output the parser rejects")
			},
		}
		in.Run(nil)
	}
	r.Expect("C05-R10", "returns inside search loops of printer position helpers", n, 3)
}

// c05ParserRecursionIsBounded (R11): the parser is a recursive-descent parser; list types, list and object values and
// selection sets nest without a grammatical bound, and every level is one Go call. Go's "stack overflow" is a fatal error,
// not a panic: it cannot be recovered and ends the process (2-3 MB of '[' suffice, with or without token limits, which
// count braces only). Totality therefore needs every cycle of the parser's call graph to pass through a depth guard:
// a call of a Parser method that increments a counter field of the parser and compares it (> / >=) with a constant, whose
// false result makes the caller return before it descends. The rule computes the strongly connected components of the
// static call graph of package astparser and requires such a guarded member in every cyclic component, on every cycle:
// removing the guarded functions must leave the component acyclic.
func c05ParserRecursionIsBounded(r *fw.Run) {
	p := r.Prog
	r.Rule("C05-R11", "every cycle of the parser's static call graph passes through a function that enters a bounded nesting counter (increment + comparison with a constant) and returns when it refuses")
	funcs := p.Funcs("astparser")
	idx := map[*fw.FuncInfo]int{}
	for i, fi := range funcs {
		idx[fi] = i
	}
	// guards: methods that increment a receiver field and compare it with a constant by > or >=
	isGuard := map[*fw.FuncInfo]bool{}
	for _, fi := range funcs {
		recv := receiverObj(fi)
		if recv == nil {
			continue
		}
		info := fi.Info()
		sig := fi.Obj.Type().(*types.Signature)
		if sig.Results().Len() != 1 || !types.Identical(sig.Results().At(0).Type(), types.Typ[types.Bool]) {
			continue
		}
		var counter types.Object
		fw.WalkAll(fi.Decl.Body, func(nd ast.Node) bool {
			if inc, ok := nd.(*ast.IncDecStmt); ok && inc.Tok == token.INC {
				if fv, sel := fw.Field(info, inc.X); fv != nil {
					if id, isID := ast.Unparen(sel.X).(*ast.Ident); isID && info.ObjectOf(id) == recv {
						counter = fv
					}
				}
			}
			return true
		})
		if counter == nil {
			continue
		}
		bounded := false
		fw.WalkAll(fi.Decl.Body, func(nd ast.Node) bool {
			is, ok := nd.(*ast.IfStmt)
			if !ok {
				return true
			}
			a := fw.Atom(info, is.Cond, true)
			if a.Kind != "Gt" && a.Kind != "Ge" {
				return true
			}
			fv, _ := fw.Field(info, a.X)
			_, isConst := fw.ConstVal(info, a.Y)
			if fv != counter || !isConst {
				return true
			}
			// the refusing branch returns false
			for _, st := range is.Body.List {
				if ret, isRet := st.(*ast.ReturnStmt); isRet && len(ret.Results) == 1 {
					if v, c := fw.ConstVal(info, ret.Results[0]); c && v == "false" {
						bounded = true
					}
				}
			}
			return true
		})
		if bounded {
			isGuard[fi] = true
		}
	}
	// guarded functions: `if !p.guard() { return … }` as the first statement that can descend (before any other call into the package)
	guarded := map[*fw.FuncInfo]bool{}
	for _, fi := range funcs {
		info := fi.Info()
		for _, st := range fi.Decl.Body.List {
			is, ok := st.(*ast.IfStmt)
			if ok && is.Init == nil {
				a := fw.Atom(info, is.Cond, true)
				if c, isCall := ast.Unparen(a.X).(*ast.CallExpr); isCall && a.Kind == "False" && isGuard[p.FuncOf(fw.Callee(info, c))] && len(is.Body.List) > 0 {
					if _, isRet := is.Body.List[len(is.Body.List)-1].(*ast.ReturnStmt); isRet {
						guarded[fi] = true
					}
				}
				break
			}
			// anything else before the guard that calls into the package disqualifies
			calls := false
			fw.WalkAll(st, func(nd ast.Node) bool {
				if c, isCall := nd.(*ast.CallExpr); isCall {
					if callee := p.FuncOf(fw.Callee(info, c)); callee != nil {
						if _, same := idx[callee]; same {
							calls = true
						}
					}
				}
				return true
			})
			if calls {
				break
			}
		}
	}
	// call graph without the guarded functions; any remaining cycle is unbounded recursion
	adj := make([][]int, len(funcs))
	for i, fi := range funcs {
		info := fi.Info()
		seen := map[int]bool{}
		fw.WalkAll(fi.Decl.Body, func(nd ast.Node) bool {
			if c, ok := nd.(*ast.CallExpr); ok {
				if callee := p.FuncOf(fw.Callee(info, c)); callee != nil {
					if j, same := idx[callee]; same && !seen[j] {
						seen[j] = true
						adj[i] = append(adj[i], j)
					}
				}
			}
			return true
		})
	}
	// Tarjan
	index, low, onStack := make([]int, len(funcs)), make([]int, len(funcs)), make([]bool, len(funcs))
	for i := range index {
		index[i] = -1
	}
	var stack []int
	counter := 0
	var sccs [][]int
	var strong func(v int, skip map[int]bool)
	strong = func(v int, skip map[int]bool) {
		index[v], low[v] = counter, counter
		counter++
		stack = append(stack, v)
		onStack[v] = true
		for _, w := range adj[v] {
			if skip[w] {
				continue
			}
			if index[w] == -1 {
				strong(w, skip)
				low[v] = min(low[v], low[w])
			} else if onStack[w] {
				low[v] = min(low[v], index[w])
			}
		}
		if low[v] == index[v] {
			var comp []int
			for {
				w := stack[len(stack)-1]
				stack = stack[:len(stack)-1]
				onStack[w] = false
				comp = append(comp, w)
				if w == v {
					break
				}
			}
			selfLoop := false
			for _, w := range adj[v] {
				if w == v {
					selfLoop = true
				}
			}
			if len(comp) > 1 || selfLoop {
				sccs = append(sccs, comp)
			}
		}
	}
	run := func(skip map[int]bool) [][]int {
		for i := range index {
			index[i] = -1
			onStack[i] = false
		}
		stack, counter, sccs = nil, 0, nil
		for v := range funcs {
			if index[v] == -1 && !skip[v] {
				strong(v, skip)
			}
		}
		return sccs
	}
	all := run(map[int]bool{})
	skip := map[int]bool{}
	for fi := range guarded {
		skip[idx[fi]] = true
	}
	rest := run(skip)
	unbounded := map[int]bool{}
	for _, comp := range rest {
		for _, v := range comp {
			unbounded[v] = true
		}
	}
	n := 0
	for _, comp := range all {
		sort.Ints(comp)
		var names, bad []string
		for _, v := range comp {
			names = append(names, funcs[v].Name())
			if unbounded[v] {
				bad = append(bad, funcs[v].Name())
			}
		}
		n++
		r.Check(len(bad) == 0, "C05-R11", "recursion-cycle-is-bounded:"+names[0], p.Pos(funcs[comp[0]].Decl.Pos()), "every cycle among "+strings.Join(names, ", ")+" passes a function that enters the bounded nesting counter first",
			"the functions "+strings.Join(bad, ", ")+" can call each other (or themselves) without passing a nesting guard: the recursion depth follows the nesting of the input without bound, and a few megabytes of '[' or '{' end the process with a fatal stack overflow that cannot be recovered")
	}
	r.Expect("C05-R11", "cyclic components of the parser's call graph", n, 1)
}

// c05NamesComeFromIdentTokens (R12): the printer writes the name of a node as the bytes the parser stored, so a stored
// "name" that is not a Name token (a string, a number, `$`) prints to text the parser rejects — the document was accepted
// and does not survive print+parse. Every token whose literal the parser stores in a name field of an AST node (a field
// called Name / FragmentName of type ByteSliceReference of a struct of package ast) is therefore an IDENT or an error is
// in the report: it comes from a checked read that demands an identifier (mustRead(IDENT), mustReadIdentKey,
// mustReadExceptIdentKey), from a raw read() made while the next token was known to be IDENT (peek test), or it is a raw
// token whose keyword was compared with IDENT — equal on this path, or reported through errUnexpectedToken. One correlated
// fact per token variable ("is an identifier ∨ was reported") survives the join of the check's two edges.
func c05NamesComeFromIdentTokens(r *fw.Run) {
	p := r.Prog
	r.Rule("C05-R12", "every token whose literal the parser stores as the name of an AST node is known to be an IDENT, or an error was reported for it (checked read, read under a peek for IDENT, or keyword compared with IDENT)")
	pk := p.Pkg("astparser")
	if pk == nil {
		r.Error("C05-R12: package astparser not loaded")
		return
	}
	info := pk.TypesInfo
	isParserMethod := func(fn *types.Func, names ...string) bool {
		if fn == nil {
			return false
		}
		sig, _ := fn.Type().(*types.Signature)
		if sig == nil || sig.Recv() == nil || fw.RecvName(sig.Recv().Type()) != "Parser" || fn.Pkg() != pk.Types {
			return false
		}
		for _, n := range names {
			if fn.Name() == n {
				return true
			}
		}
		return false
	}
	isIdentConst := func(e ast.Expr) bool {
		c := fw.ConstObj(info, e)
		return c != nil && c.Name() == "IDENT" && strings.HasSuffix(c.Pkg().Path(), "/keyword")
	}
	// a call that yields an identifier token or reports
	identRead := func(c *ast.CallExpr, st *fw.State) bool {
		fn := fw.Callee(info, c)
		switch {
		case isParserMethod(fn, "mustRead"):
			return len(c.Args) == 1 && isIdentConst(c.Args[0])
		case isParserMethod(fn, "mustReadIdentKey", "mustReadExceptIdentKey"):
			return true
		case isParserMethod(fn, "read"):
			return st.Must("next-ident")
		}
		return false
	}
	isNameField := func(fv *types.Var) bool {
		if fv == nil || (fv.Name() != "Name" && fv.Name() != "FragmentName") || !fw.TypeIs(fv.Type(), "ast", "ByteSliceReference") {
			return false
		}
		return fv.Pkg() != nil && fv.Pkg().Path() == fw.PkgPath("ast")
	}
	n := 0
	for _, fi := range p.Funcs("astparser") {
		if fi.Decl.Recv == nil || !strings.HasPrefix(fi.Name(), "Parser.") {
			continue
		}
		peekVars := map[types.Object]bool{}
		fw.WalkAll(fi.Decl.Body, func(nd ast.Node) bool {
			if as, ok := nd.(*ast.AssignStmt); ok && len(as.Rhs) == 1 {
				if c, isCall := ast.Unparen(as.Rhs[0]).(*ast.CallExpr); isCall && isParserMethod(fw.Callee(info, c), "peek", "peekLiteral") {
					if id, isID := as.Lhs[0].(*ast.Ident); isID && info.ObjectOf(id) != nil {
						peekVars[info.ObjectOf(id)] = true
					}
				}
			}
			return true
		})
		isPeek := func(e ast.Expr) bool {
			e = ast.Unparen(e)
			if c, ok := e.(*ast.CallExpr); ok {
				return isParserMethod(fw.Callee(info, c), "peek")
			}
			if id, ok := e.(*ast.Ident); ok {
				return peekVars[info.ObjectOf(id)]
			}
			return false
		}
		tokenOfKeyword := func(e ast.Expr) types.Object { // T.Keyword → T
			sel, ok := ast.Unparen(e).(*ast.SelectorExpr)
			if !ok || sel.Sel.Name != "Keyword" {
				return nil
			}
			if id, isID := ast.Unparen(sel.X).(*ast.Ident); isID {
				return info.ObjectOf(id)
			}
			return nil
		}
		ord := 0
		in := fw.NewInterp(fi)
		checkValue := func(target string, v ast.Expr, pos token.Pos, st *fw.State) {
			sel, ok := ast.Unparen(v).(*ast.SelectorExpr)
			if !ok || sel.Sel.Name != "Literal" {
				return
			}
			if !in.Final() {
				return
			}
			okTok := false
			what := ""
			switch x := ast.Unparen(sel.X).(type) {
			case *ast.CallExpr:
				okTok = st.Must("rd:" + itoa(int(x.Pos())))
				what = "the token read at this point"
			case *ast.Ident:
				okTok = st.Must("ok:" + x.Name)
				what = "token " + x.Name
			default:
				return
			}
			n++
			ord++
			r.Check(okTok, "C05-R12", fi.Name()+"/name-from-ident-token#"+itoa(ord), p.Pos(pos), target+" in "+fi.Name()+" is filled from a token that is an identifier (or was reported)",
				what+" is stored as "+target+" without being known to be an IDENT: a string, number or punctuator is accepted as a name, and the printed document (which writes the stored bytes) is rejected by the parser")
		}
		in.H = fw.Hooks{
			Lit: func(l *ast.FuncLit, ctx fw.LitCtx, st *fw.State) fw.LitMode { return fw.LitSkip },
			Cond: func(e ast.Expr, branch bool, st *fw.State) {
				if c, ok := ast.Unparen(e).(*ast.CallExpr); ok {
					if branch && isParserMethod(fw.Callee(info, c), "peekEquals") && len(c.Args) == 1 && isIdentConst(c.Args[0]) {
						st.Set("next-ident")
					}
					return
				}
				a := fw.Atom(info, e, branch)
				if a.Kind != "Eq" && a.Kind != "Ne" {
					return
				}
				for _, pr := range [][2]ast.Expr{{a.X, a.Y}, {a.Y, a.X}} {
					if !isIdentConst(pr[1]) {
						continue
					}
					if isPeek(pr[0]) && a.Kind == "Eq" {
						st.Set("next-ident")
					}
					if o := tokenOfKeyword(pr[0]); o != nil && a.Kind == "Eq" {
						st.Set("ok:" + o.Name())
					}
				}
			},
			Case: func(tag ast.Expr, vals []ast.Expr, match bool, st *fw.State) {
				if !match || len(vals) == 0 {
					return
				}
				for _, v := range vals {
					if !isIdentConst(v) {
						return
					}
				}
				if isPeek(tag) {
					st.Set("next-ident")
				}
				if o := tokenOfKeyword(tag); o != nil {
					st.Set("ok:" + o.Name())
				}
			},
			Node: func(nd ast.Node, st *fw.State) {
				switch x := nd.(type) {
				case *ast.AssignStmt:
					if len(x.Lhs) == len(x.Rhs) {
						for i, l := range x.Lhs {
							if id, isID := l.(*ast.Ident); isID {
								if c, isCall := ast.Unparen(x.Rhs[i]).(*ast.CallExpr); isCall {
									if st.Must("rd:" + itoa(int(c.Pos()))) {
										st.Set("ok:" + id.Name)
									} else if isParserMethod(fw.Callee(info, c), "read", "mustRead", "mustReadOneOf") {
										st.Kill("ok:" + id.Name)
									}
								}
							}
							if fv, _ := fw.Field(info, l); isNameField(fv) {
								owner := ""
								if sel, isSel := ast.Unparen(l).(*ast.SelectorExpr); isSel {
									_, owner = fw.FieldOwner(info, sel)
								}
								checkValue(owner+"."+fv.Name(), x.Rhs[i], x.Pos(), st)
							}
						}
					}
				case *ast.CompositeLit:
					for _, el := range x.Elts {
						kv, ok := el.(*ast.KeyValueExpr)
						if !ok {
							continue
						}
						k, isID := kv.Key.(*ast.Ident)
						if !isID {
							continue
						}
						if fv, _ := info.ObjectOf(k).(*types.Var); isNameField(fv) {
							tn := ""
							if tv, okT := info.Types[x]; okT {
								tn = fw.RecvName(tv.Type)
							}
							checkValue(tn+"."+fv.Name(), kv.Value, kv.Pos(), st)
						}
					}
				case *ast.CallExpr:
					fn := fw.Callee(info, x)
					// what this read yields is decided now, before the read itself invalidates the look-ahead
					if identRead(x, st) {
						st.Set("rd:" + itoa(int(x.Pos())))
					} else {
						st.Kill("rd:" + itoa(int(x.Pos())))
					}
					if isParserMethod(fn, "errUnexpectedToken") && len(x.Args) >= 1 {
						if id, isID := ast.Unparen(x.Args[0]).(*ast.Ident); isID {
							st.Set("ok:" + id.Name) // reported
						}
					}
					// anything of the parser that is not a look-ahead may consume: what is known about the next token is gone
					if fn != nil && fn.Pkg() == pk.Types && isParserMethod(fn, fn.Name()) && !isParserMethod(fn, "peek", "peekLiteral", "peekEquals", "peekEqualsIdentKey", "identKeywordToken", "identKeywordSliceRef", "errUnexpectedToken") {
						st.Kill("next-ident")
					}
				}
			},
		}
		in.Run(nil)
	}
	r.Expect("C05-R12", "name fields filled from tokens", n, 25)
}

// c05ExponentSignOnEveryPath (R13): ExponentPart is ExponentIndicator Sign? Digit+. The lexer reaches the exponent on two
// paths — from the integer part (1e+5: the indicator is consumed by the caller, which passes a flag) and from the
// fractional part (1.0e+5: the indicator is consumed in place). On both, the optional sign has to be looked for (the
// peeked rune compared with SUB / ADD) before the exponent's digits are tested; a path that goes from the indicator
// straight to the digit test lexes `1e+5` as the float `1e` followed by garbage. Checked per function of package lexer:
// with the indicator consumed in place (a true comparison with an EXPONENT constant), and — for a function with a
// boolean parameter that callers feed from such a comparison — under the assumption that the parameter is true.
func c05ExponentSignOnEveryPath(r *fw.Run) {
	p := r.Prog
	r.Rule("C05-R13", "on every path of the lexer from an exponent indicator (consumed in place, or by the caller and announced through a flag) to the test of the exponent's digits, the optional sign has been looked for")
	pk := p.Pkg("lexer")
	if pk == nil {
		r.Error("C05-R13: package lexer not loaded")
		return
	}
	info := pk.TypesInfo
	isConst := func(e ast.Expr, names ...string) bool {
		c := fw.ConstObj(info, e)
		if c == nil {
			return false
		}
		for _, n := range names {
			if c.Name() == n {
				return true
			}
		}
		return false
	}
	// variables defined from a comparison with an exponent constant
	expVars := map[types.Object]bool{}
	for _, fi := range p.Funcs("lexer") {
		fw.WalkAll(fi.Decl.Body, func(nd ast.Node) bool {
			as, ok := nd.(*ast.AssignStmt)
			if !ok || len(as.Lhs) != 1 || len(as.Rhs) != 1 {
				return true
			}
			mentions := false
			fw.WalkAll(as.Rhs[0], func(m ast.Node) bool {
				if e, isE := m.(ast.Expr); isE && isConst(e, "EXPONENT_LOWER", "EXPONENT_UPPER") {
					mentions = true
				}
				return true
			})
			if id, isID := as.Lhs[0].(*ast.Ident); isID && mentions && info.ObjectOf(id) != nil {
				if types.Identical(info.TypeOf(id), types.Typ[types.Bool]) {
					expVars[info.ObjectOf(id)] = true
				}
			}
			return true
		})
	}
	// parameters fed from such a variable
	flagParams := map[*types.Var]bool{}
	for _, fi := range p.Funcs("lexer") {
		fw.WalkAll(fi.Decl.Body, func(nd ast.Node) bool {
			c, ok := nd.(*ast.CallExpr)
			if !ok {
				return true
			}
			callee := p.FuncOf(fw.Callee(info, c))
			if callee == nil {
				return true
			}
			sig := callee.Obj.Type().(*types.Signature)
			for i, a := range c.Args {
				if id, isID := ast.Unparen(a).(*ast.Ident); isID && expVars[info.ObjectOf(id)] && i < sig.Params().Len() {
					flagParams[sig.Params().At(i)] = true
				}
			}
			return true
		})
	}
	n := 0
	analyse := func(fi *fw.FuncInfo, flag *types.Var) {
		bad := ""
		in := fw.NewInterp(fi)
		in.H = fw.Hooks{
			Lit: func(l *ast.FuncLit, ctx fw.LitCtx, st *fw.State) fw.LitMode { return fw.LitSkip },
			Cond: func(e ast.Expr, branch bool, st *fw.State) {
				e = ast.Unparen(e)
				if id, isID := e.(*ast.Ident); isID && flag != nil && info.Uses[id] == flag {
					if !branch {
						st.Set("settled") // the assumption of this run is contradicted on this edge: no exponent is open
					}
					return
				}
				if c, isCall := e.(*ast.CallExpr); isCall {
					if fn := fw.Callee(info, c); fn != nil && fn.Name() == "runeIsDigit" {
						if in.Final() && !st.Must("settled") && bad == "" {
							bad = p.Pos(c.Pos())
						}
					}
					return
				}
				b, isBin := e.(*ast.BinaryExpr)
				if !isBin {
					return
				}
				for _, side := range []ast.Expr{b.X, b.Y} {
					if isConst(side, "SUB", "ADD") {
						st.Set("settled")
					}
					if isConst(side, "EXPONENT_LOWER", "EXPONENT_UPPER") && (b.Op == token.EQL) == branch {
						st.Kill("settled") // an exponent is open from here on: the sign has to be looked for
					}
				}
			},
		}
		// one correlated fact: "no exponent is open, or its sign has been looked for"
		entry := fw.NewState()
		if flag == nil {
			entry.Set("settled")
		}
		in.Run(entry)
		opens := flag != nil
		fw.WalkAll(fi.Decl.Body, func(nd ast.Node) bool {
			if e, isE := nd.(ast.Expr); isE && isConst(e, "EXPONENT_LOWER", "EXPONENT_UPPER") {
				opens = true
			}
			return true
		})
		digits := false
		fw.WalkAll(fi.Decl.Body, func(nd ast.Node) bool {
			if c, ok := nd.(*ast.CallExpr); ok {
				if fn := fw.Callee(info, c); fn != nil && fn.Name() == "runeIsDigit" {
					digits = true
				}
			}
			return true
		})
		if !opens || !digits {
			return
		}
		n++
		key := fi.Name() + "/exponent-sign-before-digits"
		if flag != nil {
			key += ":" + flag.Name()
		}
		r.Check(bad == "", "C05-R13", key, p.Pos(fi.Decl.Pos()), fi.Name()+" looks for the exponent sign before it tests the exponent's digits", "the digit test at "+bad+" is reached from an exponent indicator without the optional sign having been looked for: `1e+5`, `1E-5`, `-2e-3` (IntegerPart ExponentPart with a sign — valid FloatValues) are lexed as the float `1e` followed by garbage, and the operation is rejected")
	}
	for _, fi := range p.Funcs("lexer") {
		sig := fi.Obj.Type().(*types.Signature)
		var flag *types.Var
		for i := 0; i < sig.Params().Len(); i++ {
			if flagParams[sig.Params().At(i)] {
				flag = sig.Params().At(i)
			}
		}
		if flag != nil {
			analyse(fi, flag)
		}
		analyse(fi, nil)
	}
	r.Expect("C05-R13", "paths from an exponent indicator to a digit test", n, 2)
}

// c05PrintedDescriptionIsFollowedByTheDefinitionHead (R14): the parser accepts a description only in front of the keyword
// of a definition. A printer callback that prints a description and then, on some path, writes nothing but white space
// before it returns leaves the description in front of whatever comes next — for an anonymous query the `{` of the
// shorthand form, which does not re-parse. Rule (a contradiction inside one function: it prints the description under a
// test and forgets the test when it decides about the keyword): in every callback of the printer that calls
// PrintDescription, each exit is reached after something other than a white-space literal was written following the
// description (a keyword, or the name a field or enum value starts with), or after the "description is defined" test — the
// field, or a local assigned from it — was answered false and no description printed since (one correlated fact).
func c05PrintedDescriptionIsFollowedByTheDefinitionHead(r *fw.Run) {
	p := r.Prog
	r.Rule("C05-R14", "a printer callback that prints a description writes, on every path that does not establish 'no description', a non-white-space literal (the head of the definition) before it returns")
	white := map[string]bool{"LINETERMINATOR": true, "SPACE": true, "TAB": true, "COMMA": true}
	n := 0
	for _, fi := range p.Funcs("astprinter") {
		info := fi.Info()
		calls := false
		fw.WalkAll(fi.Decl.Body, func(nd ast.Node) bool {
			if c, ok := nd.(*ast.CallExpr); ok {
				if fn := fw.Callee(info, c); fn != nil && fn.Name() == "PrintDescription" {
					calls = true
				}
			}
			return true
		})
		if !calls || fw.RecvNameOfFunc(fi.Obj) == "" {
			continue
		}
		// the test: …Description.IsDefined, or a local assigned from it
		isDefinedSel := func(e ast.Expr) bool {
			fv, sel := fw.Field(info, e)
			if fv == nil || fv.Name() != "IsDefined" {
				return false
			}
			_, tn := fw.FieldOwner(info, sel)
			return tn == "Description"
		}
		locals := map[types.Object]bool{}
		fw.WalkAll(fi.Decl.Body, func(nd ast.Node) bool {
			if as, ok := nd.(*ast.AssignStmt); ok && len(as.Lhs) == 1 && len(as.Rhs) == 1 && isDefinedSel(as.Rhs[0]) {
				if id, isID := as.Lhs[0].(*ast.Ident); isID {
					locals[info.ObjectOf(id)] = true
				}
			}
			return true
		})
		isTest := func(e ast.Expr) bool {
			e = ast.Unparen(e)
			if isDefinedSel(e) {
				return true
			}
			id, ok := e.(*ast.Ident)
			return ok && locals[info.ObjectOf(id)]
		}
		// the printer's writers: methods of the visitor with one []byte parameter and no result
		isWriter := func(fn *types.Func) bool {
			sig := fn.Type().(*types.Signature)
			if fw.RecvNameOfFunc(fn) != fw.RecvNameOfFunc(fi.Obj) || sig.Params().Len() != 1 || sig.Results().Len() != 0 {
				return false
			}
			sl, isSl := sig.Params().At(0).Type().Underlying().(*types.Slice)
			return isSl && types.Identical(sl.Elem(), types.Typ[types.Byte])
		}
		ok := true
		at := fi.Decl.Pos()
		in := fw.NewInterp(fi)
		in.H = fw.Hooks{
			Lit: func(l *ast.FuncLit, ctx fw.LitCtx, st *fw.State) fw.LitMode { return fw.LitSkip },
			Cond: func(e ast.Expr, branch bool, st *fw.State) {
				a := fw.Atom(info, e, branch)
				if (a.Kind == "True" || a.Kind == "False") && isTest(a.X) {
					if a.Kind == "False" {
						st.Set("settled")
					}
				}
			},
			Case: func(tag ast.Expr, vals []ast.Expr, match bool, st *fw.State) {
				// a kind outside the enumeration (…Unknown) is not produced by the parser: the path on which every named
				// constant of the tag's type was excluded is no verdict
				if match || len(vals) == 0 {
					return
				}
				nt, isNamed := info.TypeOf(tag).(*types.Named)
				if !isNamed || nt.Obj().Pkg() == nil {
					return
				}
				for _, v := range vals {
					if k := fw.ConstObj(info, v); k != nil {
						st.Set("not:" + k.Name())
					}
				}
				all := true
				for _, name := range fw.ConstNames(nt.Obj().Pkg(), nt) {
					if !strings.HasSuffix(name, "Unknown") && !st.Must("not:"+name) {
						all = false
					}
				}
				if all {
					st.Set("settled")
				}
			},
			Node: func(nd ast.Node, st *fw.State) {
				c, isC := nd.(*ast.CallExpr)
				if !isC {
					return
				}
				fn := fw.Callee(info, c)
				if fn == nil {
					return
				}
				if fn.Name() == "PrintDescription" {
					st.Kill("settled")
					return
				}
				if isWriter(fn) && len(c.Args) == 1 {
					// anything but a white-space literal: a keyword, or the name a field / enum value starts with
					isWhite := false
					if sel, isSel := ast.Unparen(c.Args[0]).(*ast.SelectorExpr); isSel {
						if v, isVar := info.Uses[sel.Sel].(*types.Var); isVar && v.Pkg() != nil && strings.HasSuffix(v.Pkg().Path(), "/lexer/literal") && white[v.Name()] {
							isWhite = true
						}
					}
					if !isWhite {
						st.Set("settled")
					}
				}
			},
			Exit: func(ret *ast.ReturnStmt, lit *ast.FuncLit, st *fw.State) {
				if lit != nil || !in.Final() {
					return
				}
				if !st.Must("settled") {
					ok = false
					if ret != nil {
						at = ret.Pos()
					} else {
						at = fi.Decl.End()
					}
				}
			},
		}
		in.Run(nil)
		n++
		r.Check(ok, "C05-R14", fi.Name()+"/description-followed-by-a-head", p.Pos(at), "every path of "+fi.Name()+" that may have printed a description writes the head of the definition",
			fi.Name()+" returns on a path that may have printed a description and wrote only white space after it: `\"the description\" query { a }` is printed as `\"the description\"<LF>{a}`, and the parser, which accepts a description only in front of a keyword, rejects it (`got: LBRACE want one of: [IDENT]`) — the printed text does not re-parse")
	}
	r.Expect("C05-R14", "printer callbacks that print a description", n, 1)
}

// foldBytePredicate evaluates e for obj = v where e is built from comparisons of obj with constants, !, && and ||, and
// calls of one-parameter bool functions of the loaded packages whose body is `return <such an expression>` or a tag-less
// switch of such conditions returning constants: 1 true, 0 false, -1 unknown.
func foldBytePredicate(p *fw.Prog, info *types.Info, e ast.Expr, obj types.Object, v int64, depth int) int {
	e = ast.Unparen(e)
	operand := func(x ast.Expr) constant.Value {
		x = ast.Unparen(x)
		if id, isID := x.(*ast.Ident); isID && info.Uses[id] == obj {
			return constant.MakeInt64(v)
		}
		if tv, ok := info.Types[x]; ok && tv.Value != nil {
			if iv := constant.ToInt(tv.Value); iv.Kind() == constant.Int {
				return iv
			}
		}
		return nil
	}
	switch x := e.(type) {
	case *ast.UnaryExpr:
		if x.Op == token.NOT {
			if r := foldBytePredicate(p, info, x.X, obj, v, depth); r >= 0 {
				return 1 - r
			}
		}
	case *ast.BinaryExpr:
		switch x.Op {
		case token.LAND, token.LOR:
			l, r := foldBytePredicate(p, info, x.X, obj, v, depth), foldBytePredicate(p, info, x.Y, obj, v, depth)
			absorbing := 0
			if x.Op == token.LOR {
				absorbing = 1
			}
			switch {
			case l == absorbing || r == absorbing:
				return absorbing
			case l < 0 || r < 0:
				return -1
			}
			return 1 - absorbing
		case token.EQL, token.NEQ, token.LSS, token.LEQ, token.GTR, token.GEQ:
			l, r := operand(x.X), operand(x.Y)
			if l == nil || r == nil {
				return -1
			}
			if constant.Compare(l, x.Op, r) {
				return 1
			}
			return 0
		}
	case *ast.CallExpr:
		if depth > 3 || len(x.Args) != 1 {
			return -1
		}
		id, isID := ast.Unparen(x.Args[0]).(*ast.Ident)
		if !isID || info.Uses[id] != obj {
			return -1
		}
		g := p.FuncOf(fw.Callee(info, x))
		if g == nil {
			return -1
		}
		sig := g.Obj.Type().(*types.Signature)
		if sig.Params().Len() != 1 || sig.Results().Len() != 1 {
			return -1
		}
		ginfo, param := g.Info(), sig.Params().At(0)
		for _, st := range g.Decl.Body.List {
			switch y := st.(type) {
			case *ast.ReturnStmt:
				if len(y.Results) == 1 {
					if c, isC := fw.ConstVal(ginfo, y.Results[0]); isC {
						if c == "true" {
							return 1
						}
						return 0
					}
					return foldBytePredicate(p, ginfo, y.Results[0], param, v, depth+1)
				}
			case *ast.SwitchStmt:
				if y.Tag != nil || y.Init != nil {
					return -1
				}
				for _, cl := range y.Body.List {
					cc := cl.(*ast.CaseClause)
					hit := cc.List == nil
					for _, ce := range cc.List {
						switch foldBytePredicate(p, ginfo, ce, param, v, depth+1) {
						case 1:
							hit = true
						case -1:
							return -1
						}
					}
					if !hit {
						continue
					}
					if len(cc.Body) == 1 {
						if ret, isRet := cc.Body[0].(*ast.ReturnStmt); isRet && len(ret.Results) == 1 {
							if c, isC := fw.ConstVal(ginfo, ret.Results[0]); isC {
								if c == "true" {
									return 1
								}
								return 0
							}
						}
					}
					return -1
				}
			default:
				return -1
			}
		}
	}
	return -1
}

// c05IdentTokensStartWithANameStart (R15): a Name starts with a letter or an underscore, and every name of the document
// is the text of an IDENT token (R12). The lexer's Read tries the single-byte tokens, comments, strings, dots and digits
// and then falls through to "identifier". Without a test on that fall-through any other byte — `%`, `~`, a control
// character, half a UTF-8 sequence — becomes an IDENT token of its own, and `{a % b}` is a document with a field called
// `%`. Rule: the assignment of keyword.IDENT in Lexer.Read is reached only under a condition on the byte that started the
// token which — constant-folded, through the lexer's class predicates — is true for a, z, A, Z and _ and false for
// 0x01, %, ~, backtick, 0x7f, 0x80, 0xc3 and 0xff.
func c05IdentTokensStartWithANameStart(r *fw.Run) {
	p := r.Prog
	r.Rule("C05-R15", "Lexer.Read assigns keyword.IDENT only under a test of the token's first byte that folds to true for letters and underscore and to false for bytes that start no token (%, ~, control characters, bytes >= 0x80)")
	fi := p.Func("lexer", "Lexer.Read")
	if fi == nil {
		r.Error("C05-R15: lexer.Lexer.Read not found")
		return
	}
	info := fi.Info()
	accept := []int64{'a', 'z', 'A', 'Z', '_'}
	reject := []int64{0x01, '%', '~', '`', 0x7f, 0x80, 0xc3, 0xff}
	// the byte variable: a local of type byte assigned from a call (readRune)
	n := 0
	in := fw.NewInterp(fi)
	in.H = fw.Hooks{
		Lit: func(l *ast.FuncLit, ctx fw.LitCtx, st *fw.State) fw.LitMode { return fw.LitSkip },
		Cond: func(e ast.Expr, branch bool, st *fw.State) {
			// which byte-typed local does the condition talk about?
			var obj types.Object
			fw.WalkAll(e, func(x ast.Node) bool {
				if id, ok := x.(*ast.Ident); ok {
					if v, isVar := info.Uses[id].(*types.Var); isVar && types.Identical(v.Type(), types.Typ[types.Byte]) {
						obj = v
					}
				}
				return true
			})
			if obj == nil {
				return
			}
			want := 1
			if !branch {
				want = 0
			}
			for _, v := range accept {
				if foldBytePredicate(p, info, e, obj, v, 0) != want {
					return
				}
			}
			for _, v := range reject {
				if foldBytePredicate(p, info, e, obj, v, 0) != 1-want {
					return
				}
			}
			st.Set("name-start")
		},
		Node: func(nd ast.Node, st *fw.State) {
			as, ok := nd.(*ast.AssignStmt)
			if !ok || !in.Final() || len(as.Lhs) != 1 || len(as.Rhs) != 1 {
				return
			}
			if k := fw.ConstObj(info, as.Rhs[0]); k == nil || k.Name() != "IDENT" {
				return
			}
			n++
			r.Check(st.Must("name-start"), "C05-R15", fi.Name()+"/ident-token-starts-with-a-name-start", p.Pos(as.Pos()), "keyword.IDENT is assigned in "+fi.Name()+" only after the first byte passed a name-start test",
				fi.Name()+" falls through to keyword.IDENT for every byte that starts no other token: `{a % b}`, `{ % }`, `query % { a }`, `{a(%: 1)}` are accepted — documents with a field, an operation or an argument called `%` — and `{a ä b}` is accepted with two fields called 0xc3 and 0xa4: names that are no Names")
		},
	}
	in.Run(nil)
	r.Expect("C05-R15", "assignments of keyword.IDENT in Lexer.Read", n, 1)
}

// c05SentinelIsNotReadFromTheInput (R16): the lexer signals the end of the input with the byte value runes.EOF (0), and
// every consumer compares what readRune returned with it. A NUL byte that stands in the input must therefore not come out
// of readRune as it is: strings and comments would end there and between tokens lexing would stop, silently dropping the
// rest (`{a}<NUL> anything` accepted as `{a}`). Rule: in every function of the lexer that returns the sentinel constant for
// "no input left" and whose result some caller compares with the sentinel, each exit is reached after the result was
// assigned the sentinel constant itself, or — after an assignment from the input bytes — on the unequal edge of a
// comparison with the sentinel or after a re-assignment from another constant (one correlated fact).
func c05SentinelIsNotReadFromTheInput(r *fw.Run) {
	p := r.Prog
	r.Rule("C05-R16", "a lexer function whose result callers compare with the EOF sentinel hands out a byte read from the input only after it was compared with the sentinel (unequal edge) or replaced by another constant")
	isEOF := func(info *types.Info, e ast.Expr) bool {
		c := fw.ConstObj(info, e)
		return c != nil && c.Name() == "EOF"
	}
	// functions whose result is compared with the sentinel by a caller
	compared := map[*types.Func]bool{}
	for _, g := range p.Funcs("lexer") {
		ginfo := g.Info()
		from := map[types.Object]*types.Func{}
		fw.WalkAll(g.Decl.Body, func(nd ast.Node) bool {
			if as, ok := nd.(*ast.AssignStmt); ok && len(as.Lhs) == len(as.Rhs) {
				for i, l := range as.Lhs {
					if id, isID := l.(*ast.Ident); isID {
						if c, isC := ast.Unparen(as.Rhs[i]).(*ast.CallExpr); isC {
							if fn := fw.Callee(ginfo, c); fn != nil && fn.Pkg() == g.Obj.Pkg() {
								from[ginfo.ObjectOf(id)] = fn
							}
						}
					}
				}
			}
			return true
		})
		srcOf := func(e ast.Expr) *types.Func {
			e = ast.Unparen(e)
			if id, ok := e.(*ast.Ident); ok {
				return from[ginfo.Uses[id]]
			}
			if c, ok := e.(*ast.CallExpr); ok {
				return fw.Callee(ginfo, c)
			}
			return nil
		}
		fw.WalkAll(g.Decl.Body, func(nd ast.Node) bool {
			switch x := nd.(type) {
			case *ast.SwitchStmt:
				if x.Tag == nil {
					return true
				}
				fn := srcOf(x.Tag)
				if fn == nil {
					return true
				}
				for _, cl := range x.Body.List {
					for _, ce := range cl.(*ast.CaseClause).List {
						if isEOF(ginfo, ce) {
							compared[fn] = true
						}
					}
				}
			case *ast.BinaryExpr:
				if x.Op == token.EQL || x.Op == token.NEQ {
					if isEOF(ginfo, x.Y) {
						if fn := srcOf(x.X); fn != nil {
							compared[fn] = true
						}
					}
					if isEOF(ginfo, x.X) {
						if fn := srcOf(x.Y); fn != nil {
							compared[fn] = true
						}
					}
				}
			}
			return true
		})
	}
	n := 0
	for _, fi := range p.Funcs("lexer") {
		if !compared[fi.Obj] {
			continue
		}
		info := fi.Info()
		sig := fi.Obj.Type().(*types.Signature)
		if sig.Results().Len() != 1 || !types.Identical(sig.Results().At(0).Type(), types.Typ[types.Byte]) {
			continue
		}
		// does it read input bytes at all?
		readsInput := false
		fw.WalkAll(fi.Decl.Body, func(nd ast.Node) bool {
			if ix, ok := nd.(*ast.IndexExpr); ok {
				if fv, _ := fw.Field(info, ix.X); fv != nil && fv.Name() == "RawBytes" {
					readsInput = true
				}
			}
			return true
		})
		if !readsInput {
			continue
		}
		isInputByte := func(e ast.Expr) bool {
			ix, ok := ast.Unparen(e).(*ast.IndexExpr)
			if !ok {
				return false
			}
			fv, _ := fw.Field(info, ix.X)
			return fv != nil && fv.Name() == "RawBytes"
		}
		ok := true
		at := fi.Decl.Pos()
		in := fw.NewInterp(fi)
		in.H = fw.Hooks{
			Lit: func(l *ast.FuncLit, ctx fw.LitCtx, st *fw.State) fw.LitMode { return fw.LitSkip },
			Cond: func(e ast.Expr, branch bool, st *fw.State) {
				a := fw.Atom(info, e, branch)
				if a.Kind == "Ne" && (isEOF(info, a.X) || isEOF(info, a.Y)) {
					st.Set("settled")
				}
			},
			Node: func(nd ast.Node, st *fw.State) {
				as, isAs := nd.(*ast.AssignStmt)
				if !isAs || len(as.Lhs) != len(as.Rhs) {
					return
				}
				for i := range as.Lhs {
					switch {
					case isInputByte(as.Rhs[i]):
						st.Kill("settled")
					default:
						if _, isC := fw.ConstVal(info, as.Rhs[i]); isC {
							st.Set("settled")
						}
					}
				}
			},
			Exit: func(ret *ast.ReturnStmt, lit *ast.FuncLit, st *fw.State) {
				if lit != nil || !in.Final() {
					return
				}
				if ret != nil && len(ret.Results) == 1 {
					if _, isC := fw.ConstVal(info, ret.Results[0]); isC {
						return
					}
					if isInputByte(ret.Results[0]) {
						ok = false
						at = ret.Pos()
						return
					}
				}
				if !st.Must("settled") {
					ok = false
					if ret != nil {
						at = ret.Pos()
					} else {
						at = fi.Decl.End()
					}
				}
			},
		}
		in.Run(nil)
		n++
		r.Check(ok, "C05-R16", fi.Name()+"/sentinel-not-read-from-the-input", p.Pos(at), fi.Name()+" never hands out an input byte that equals the EOF sentinel",
			fi.Name()+" returns a byte read from the input without having excluded the value of the EOF sentinel: a NUL byte in the input looks like the end of the input to every caller — `{a}<NUL> this is ) not { graphql` is accepted as `{a}`, `{a(b:\"x<NUL>,c:1)}` is accepted with the string ending at the NUL and prints to text that does not re-parse")
	}
	r.Expect("C05-R16", "lexer functions whose result callers compare with the sentinel", n, 1)
}
