// Command checker decides the structural clauses of the C01–C20 properties of
// graphql-go-tools on /repo's current working tree. See /verif/DESIGN.md.
package main

import (
	"flag"
	"fmt"
	"os"
	"runtime/debug"

	"verif/checker/fw"
	"verif/checker/rules"
)

func main() {
	prop := flag.String("prop", "", "property id (C01..C20)")
	tier := flag.String("tier", "quick", "quick | thorough")
	flag.Parse()
	spec, ok := rules.Registry[*prop]
	if !ok {
		fmt.Printf("CHECK-ERROR unknown property %q\n", *prop)
		os.Exit(2)
	}
	run := fw.NewRun(*prop, *tier)
	code := func() (code int) {
		defer func() {
			if r := recover(); r != nil {
				fmt.Printf("CHECK-ERROR property=%s engine panic: %v\n%s\n", *prop, r, debug.Stack())
				code = 2
			}
		}()
		prog, err := fw.Load(fw.LoadOpts{Patterns: spec.Patterns(*tier)}, false)
		if err != nil {
			fmt.Printf("CHECK-ERROR property=%s load: %v\n", *prop, err)
			return 2
		}
		run.Prog = prog
		spec.Run(run)
		if *tier == "thorough" {
			if spec.Thorough != nil {
				spec.Thorough(run)
			}
			rules.SelfTest(run, spec)
		}
		return run.Finish(spec.Explanation)
	}()
	os.Exit(code)
}
