#!/bin/sh
# usage: ./run.sh <property-id> [quick|thorough]   |   ./run.sh --build   |   ./run.sh --replay <file>
# Builds the checker from /verif/checker when stale and decides the property on /repo's working tree.
set -u
cd "$(dirname "$0")"
VERIF=$(pwd)
unset GOSUMDB GONOSUMDB GONOSUMCHECK GOFLAGS GOWORK 2>/dev/null
export GOTOOLCHAIN=auto GOPROXY=off
BIN="$VERIF/bin/checker"
build() {
  # VERIF_BIN: use a frozen copy of the checker and never rebuild (long sweeps such as tools/seed_matrix.py, so that the
  # checker sources can be edited meanwhile); registered commands do not set it
  if [ -n "${VERIF_BIN:-}" ] && [ -x "$VERIF_BIN" ]; then BIN="$VERIF_BIN"; return; fi
  stale=0
  [ -x "$BIN" ] || stale=1
  if [ $stale -eq 0 ] && [ -n "$(find "$VERIF/checker" -newer "$BIN" \( -name '*.go' -o -name 'go.mod' -o -name 'go.sum' \) -print -quit)" ]; then stale=1; fi
  if [ $stale -eq 1 ]; then
    mkdir -p "$VERIF/bin"
    (cd "$VERIF/checker" && GOWORK=off GOFLAGS=-mod=mod go build -o "$BIN.tmp.$$" . && mv "$BIN.tmp.$$" "$BIN") || { echo "CHECK-ERROR cannot build checker"; exit 2; }
  fi
}
case "${1:-}" in
  --build) build; exit 0 ;;
  --replay)
    f="${2:?replay file}"
    prop=$(sed -n 's/.*"property": *"\([A-Z0-9]*\)".*/\1/p' "$f" | head -1)
    tier=$(sed -n 's/.*"tier": *"\([a-z]*\)".*/\1/p' "$f" | head -1)
    build; exec "$BIN" -prop "$prop" -tier "${tier:-quick}" ;;
  "") echo "usage: $0 <property-id> [quick|thorough]"; exit 2 ;;
esac
build
exec "$BIN" -prop "$1" -tier "${2:-${VERIF_TIER:-quick}}"
