package resolve

import (
	"bytes"
	"context"
	"strings"
	"testing"

	"github.com/wundergraph/graphql-go-tools/v2/pkg/ast"
)

func TestF25_ErrorPathOfCompositeKindMismatch(t *testing.T) {
	for _, tc := range []struct {
		name, data, wantPath string
		root                 *Object
	}{
		{"object", `{"o":1}`, `"path":["o"]`, &Object{Fields: []*Field{{Name: []byte("o"), Value: &Object{Path: []string{"o"}, Nullable: true, Fields: []*Field{{Name: []byte("a"), Value: &Integer{Path: []string{"a"}, Nullable: true}}}}}}}},
		{"array", `{"l":1}`, `"path":["l"]`, &Object{Fields: []*Field{{Name: []byte("l"), Value: &Array{Path: []string{"l"}, Nullable: true, Item: &Integer{Nullable: true}}}}}},
		{"leaf", `{"s":1}`, `"path":["s"]`, &Object{Fields: []*Field{{Name: []byte("s"), Value: &String{Path: []string{"s"}, Nullable: true}}}}},
	} {
		res := NewResolvable(nil, ResolvableOptions{})
		if err := res.Init(&Context{}, []byte(tc.data), ast.OperationTypeQuery); err != nil {
			t.Fatal(err)
		}
		out := &bytes.Buffer{}
		if err := res.Resolve(context.Background(), tc.root, nil, out); err != nil {
			t.Fatal(err)
		}
		t.Logf("%s: %s", tc.name, out.String())
		if !strings.Contains(out.String(), tc.wantPath) {
			t.Errorf("DEFECT REPRODUCED (%s): the error path is not %s: %s", tc.name, tc.wantPath, out.String())
		}
	}
}
