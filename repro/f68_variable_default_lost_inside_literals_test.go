// F68 (C03-R14), reported independently by three seeding sub-agents (C03 existing_1, C06 existing_5, C15 existing_5).
// Copy into v2/pkg/astnormalization/ and run: cd v2 && go test ./pkg/astnormalization/ -run TestF68 -count=1 -v
package astnormalization

// existing_1 (C03): the default value of a variable is lost when the variable is used
// INSIDE an object or list literal of a field argument.
//
// Goes into v2/pkg/astnormalization/ ; run:
//   cd v2 && go test ./pkg/astnormalization/ -run TestF68 -count=1 -v

import (
	"testing"

	"github.com/wundergraph/graphql-go-tools/v2/pkg/astprinter"
	"github.com/wundergraph/graphql-go-tools/v2/pkg/astvalidation"
	"github.com/wundergraph/graphql-go-tools/v2/pkg/internal/unsafeparser"
	"github.com/wundergraph/graphql-go-tools/v2/pkg/operationreport"
)

const c03e1Schema = `
type Query { find(filter: Filter, tags: [String!]): String }
input Filter { name: String limit: Int = 10 }
`

// same option set as execution/graphql.Request.Normalize uses by default
func c03e1Normalize(t *testing.T, operation, variables string) (string, string) {
	t.Helper()
	def := unsafeparser.ParseGraphqlDocumentStringWithBaseSchema(c03e1Schema)
	doc := unsafeparser.ParseGraphqlDocumentString(operation)
	doc.Input.Variables = []byte(variables)
	rep := operationreport.Report{}
	astvalidation.DefaultOperationValidator().Validate(&doc, &def, &rep)
	if rep.HasErrors() {
		t.Fatalf("input operation invalid: %s", rep.Error())
	}
	NewWithOpts(
		WithExtractVariables(),
		WithRemoveFragmentDefinitions(),
		WithRemoveUnusedVariables(),
		WithInlineFragmentSpreads(),
		WithRemoveNotMatchingOperationDefinitions(),
	).NormalizeNamedOperation(&doc, &def, []byte("Q"), &rep)
	if rep.HasErrors() {
		t.Fatalf("normalization failed: %s", rep.Error())
	}
	out, _ := astprinter.PrintString(&doc)
	return out, string(doc.Input.Variables)
}

func TestF68VariableDefaultInsideLiterals(t *testing.T) {
	t.Run("control: variable used directly as argument keeps its default", func(t *testing.T) {
		out, vars := c03e1Normalize(t, `query Q($tags: [String!] = ["go"]) { find(tags: $tags) }`, `{}`)
		if out != `query Q($tags: [String!]){find(tags: $tags)}` || vars != `{"tags":["go"]}` {
			t.Errorf("got %s %s", out, vars)
		}
	})

	t.Run("variable with default inside an input object literal", func(t *testing.T) {
		// original meaning: find(filter: {name: "x", limit: 10})
		out, vars := c03e1Normalize(t, `query Q($name: String = "x") { find(filter: {name: $name}) }`, `{}`)
		if out != `query Q($a: Filter){find(filter: $a)}` {
			t.Errorf("unexpected operation: %s", out)
		}
		if vars != `{"a":{"name":"x","limit":10}}` {
			t.Errorf("default value of $name was dropped:\n got variables: %s\nwant variables: %s", vars, `{"a":{"name":"x","limit":10}}`)
		}
	})

	t.Run("variable with default inside a list literal", func(t *testing.T) {
		// original meaning: find(tags: ["go"]) ; the normalized variables carry [null] for [String!]
		out, vars := c03e1Normalize(t, `query Q($tag: String! = "go") { find(tags: [$tag]) }`, `{}`)
		if out != `query Q($a: [String!]){find(tags: $a)}` {
			t.Errorf("unexpected operation: %s", out)
		}
		if vars != `{"a":["go"]}` {
			t.Errorf("default value of $tag was dropped:\n got variables: %s\nwant variables: %s", vars, `{"a":["go"]}`)
		}
	})
}
