package engine

// F100 (C15): the content of a (non block) string literal was copied between JSON quotes as it was written
// (ast.Document.writeJSONValue: quotes.WrapBytes(StringValueContentBytes)). GraphQL string syntax and JSON string syntax
// differ: { str(s: "a<TAB>b") } (a raw U+0009 is legal in a GraphQL string) produced variables that are not valid JSON,
// and "smile \u{1F600}!" reached the subgraph as the ten characters \u{1F600} instead of U+1F600.
// Drop into execution/engine/ and run
//   cd execution && go test ./engine/ -run TestF100 -count=1 -v
// Fails before the fix, passes after.

import (
	"bytes"
	"context"
	"encoding/json"
	"fmt"
	"io"
	"net/http"
	"sync"
	"testing"

	"github.com/jensneuse/abstractlogger"
	"github.com/stretchr/testify/assert"
	"github.com/stretchr/testify/require"

	"github.com/wundergraph/graphql-go-tools/execution/graphql"
	"github.com/wundergraph/graphql-go-tools/v2/pkg/astnormalization"
	"github.com/wundergraph/graphql-go-tools/v2/pkg/astparser"
	"github.com/wundergraph/graphql-go-tools/v2/pkg/asttransform"
	"github.com/wundergraph/graphql-go-tools/v2/pkg/engine/datasource/graphql_datasource"
	"github.com/wundergraph/graphql-go-tools/v2/pkg/engine/plan"
	"github.com/wundergraph/graphql-go-tools/v2/pkg/engine/resolve"
	"github.com/wundergraph/graphql-go-tools/v2/pkg/operationreport"
)

var _ = assert.Equal
var _ = fmt.Sprintf

const c15e1Schema = `
scalar JSON
scalar Upload
enum E { A B }
input In { a: Int s: String l: [Int] n: In e: E f: Float }
type Query {
  str(s: String): String
  in(i: In): String
  list(l: [Int]): String
  i(i: Int): String
  f(f: Float): String
  json(j: JSON): String
  up(file: Upload, name: String): String
}`

type c15e1Capture struct {
	mu     sync.Mutex
	bodies []string
}

func (c *c15e1Capture) RoundTrip(req *http.Request) (*http.Response, error) {
	var b []byte
	if req.Body != nil {
		b, _ = io.ReadAll(req.Body)
	}
	c.mu.Lock()
	c.bodies = append(c.bodies, string(b))
	c.mu.Unlock()
	return &http.Response{StatusCode: 200, Body: io.NopCloser(bytes.NewBufferString(`{"data":{}}`))}, nil
}

// c15e1Execute runs the request through the execution engine with ONE GraphQL subgraph that serves
// every Query field and returns the request bodies that subgraph received.
func c15e1Execute(t *testing.T, query, variables string) ([]string, error) {
	t.Helper()
	schema, err := graphql.NewSchemaFromString(c15e1Schema)
	require.NoError(t, err)

	capture := &c15e1Capture{}
	fieldArgs := [][]string{
		{"str", "s"}, {"in", "i"}, {"list", "l"}, {"i", "i"}, {"f", "f"}, {"json", "j"}, {"up", "file", "name"},
	}
	var fieldNames []string
	var fields plan.FieldConfigurations
	for _, fa := range fieldArgs {
		fieldNames = append(fieldNames, fa[0])
		fc := plan.FieldConfiguration{TypeName: "Query", FieldName: fa[0], Path: []string{fa[0]}}
		for _, a := range fa[1:] {
			fc.Arguments = append(fc.Arguments, plan.ArgumentConfiguration{Name: a, SourceType: plan.FieldArgumentSource})
		}
		fields = append(fields, fc)
	}
	ds := mustGraphqlDataSourceConfiguration(t, "id",
		mustFactory(t, &http.Client{Transport: capture}),
		&plan.DataSourceMetadata{RootNodes: []plan.TypeField{{TypeName: "Query", FieldNames: fieldNames}}},
		mustConfiguration(t, graphql_datasource.ConfigurationInput{
			Fetch:               &graphql_datasource.FetchConfiguration{URL: "https://example.com/", Method: "POST"},
			SchemaConfiguration: mustSchemaConfig(t, nil, c15e1Schema),
		}),
	)
	engineConf := NewConfiguration(schema)
	engineConf.SetDataSources([]plan.DataSource{ds})
	engineConf.SetFieldConfigurations(fields)

	ctx, cancel := context.WithCancel(context.Background())
	defer cancel()
	engine, err := NewExecutionEngine(ctx, abstractlogger.Noop{}, engineConf, resolve.ResolverOptions{MaxConcurrency: 16})
	require.NoError(t, err)

	req := graphql.Request{Query: query}
	if variables != "" {
		req.Variables = []byte(variables)
	}
	w := graphql.NewEngineResultWriter()
	err = engine.Execute(context.Background(), &req, &w)
	return capture.bodies, err
}

// c15e1SubgraphVariables returns the decoded `variables` object of the single subgraph request.
func c15e1SubgraphVariables(t *testing.T, query, variables string) map[string]any {
	t.Helper()
	bodies, err := c15e1Execute(t, query, variables)
	require.NoError(t, err, "the engine must execute the valid request %s %s", query, variables)
	require.Len(t, bodies, 1, "exactly one subgraph request expected")
	t.Logf("subgraph request: %s", bodies[0])
	require.True(t, json.Valid([]byte(bodies[0])), "subgraph request body must be valid JSON: %s", bodies[0])
	var body struct {
		Variables map[string]any `json:"variables"`
	}
	require.NoError(t, json.Unmarshal([]byte(bodies[0]), &body))
	return body.Variables
}

// c15e1Normalize parses and normalizes the operation the way the engine (variablesNormalizer=false:
// OperationNormalizer with WithExtractVariables) or the cosmo router (variablesNormalizer=true:
// VariablesNormalizer) does and returns Document.Input.Variables after normalization.
func c15e1Normalize(t *testing.T, query, variables string, variablesNormalizer bool) (string, error) {
	t.Helper()
	def, rep := astparser.ParseGraphqlDocumentString(`schema { query: Query } ` + c15e1Schema)
	require.False(t, rep.HasErrors(), rep.Error())
	require.NoError(t, asttransform.MergeDefinitionWithBaseSchema(&def))

	op, rep := astparser.ParseGraphqlDocumentString(query)
	if rep.HasErrors() {
		return "", fmt.Errorf("parse: %s", rep.Error())
	}
	if variables != "" {
		op.Input.Variables = []byte(variables)
	}
	var report operationreport.Report
	if variablesNormalizer {
		astnormalization.NewWithOpts(astnormalization.WithRemoveFragmentDefinitions(), astnormalization.WithInlineFragmentSpreads()).NormalizeOperation(&op, &def, &report)
		if report.HasErrors() {
			return "", fmt.Errorf("normalize: %s", report.Error())
		}
		astnormalization.NewVariablesNormalizer().NormalizeOperation(&op, &def, &report)
	} else {
		astnormalization.NewWithOpts(astnormalization.WithExtractVariables(), astnormalization.WithRemoveFragmentDefinitions(), astnormalization.WithInlineFragmentSpreads()).NormalizeOperation(&op, &def, &report)
	}
	if report.HasErrors() {
		return "", fmt.Errorf("normalize: %s", report.Error())
	}
	return string(op.Input.Variables), nil
}

// c15e1NormalizedVariables decodes Document.Input.Variables after normalization (must be valid JSON).
func c15e1NormalizedVariables(t *testing.T, query, variables string, variablesNormalizer bool) map[string]any {
	t.Helper()
	out, err := c15e1Normalize(t, query, variables, variablesNormalizer)
	require.NoError(t, err)
	t.Logf("variables after normalization (variablesNormalizer=%v): %s", variablesNormalizer, out)
	require.True(t, json.Valid([]byte(out)), "Document.Input.Variables after normalization must be valid JSON, got: %s", out)
	var vars map[string]any
	require.NoError(t, json.Unmarshal([]byte(out), &vars))
	return vars
}


func TestF100_StringLiteralToJSON(t *testing.T) {
	cases := []struct {
		name, query string
		want        string
	}{
		// U+0009 is a legal SourceCharacter inside a GraphQL string, but must be escaped in JSON
		{"raw TAB inside a string literal", "{ str(s: \"a\tb\") }", "a\tb"},
		// variable-width unicode escape of the current GraphQL spec (named by the property statement)
		{"\\u{...} escape", `{ str(s: "smile \u{1F600}!") }`, "smile \U0001F600!"},
		// control: the fixed-width form works
		{"control: raw UTF-8", `{ str(s: "smile 😀!") }`, "smile \U0001F600!"},
		{"control: \\uXXXX surrogate pair", `{ str(s: "smile \uD83D\uDE00!") }`, "smile \U0001F600!"},
	}
	for _, c := range cases {
		t.Run(c.name, func(t *testing.T) {
			for _, vn := range []bool{false, true} {
				out, err := c15e1Normalize(t, c.query, "", vn)
				require.NoError(t, err)
				t.Logf("variables after normalization (variablesNormalizer=%v): %s", vn, out)
				if assert.True(t, json.Valid([]byte(out)), "Document.Input.Variables after normalization must be valid JSON, got: %s", out) {
					var vars map[string]any
					require.NoError(t, json.Unmarshal([]byte(out), &vars))
					assert.Equal(t, map[string]any{"a": c.want}, vars)
				}
			}
			got := c15e1SubgraphVariables(t, c.query, "")
			assert.Equal(t, map[string]any{"a": c.want}, got, "value received by the subgraph")
		})
	}
}
