package astnormalization

// Reproduction of finding F8 (C03-R1 state reset): variablesExtractionVisitor.uploadsPath is appended to in
// EnterArgument and returned by VariablesNormalizer.NormalizeOperation, but no callback ever re-initialises
// it (EnterDocument resets extractedVariables and extractedVariableTypeRefs only). A VariablesNormalizer is
// built once and reused (its walkers are constructed in NewVariablesNormalizer), so the upload path mappings
// of one request are returned again for every later request normalised by the same instance.
// Drop into v2/pkg/astnormalization and run: go test -run TestVerifF8 -count=1 .
// Fails on the pinned tree, passes with the "fix:" commit.

import (
	"testing"

	"github.com/wundergraph/graphql-go-tools/v2/pkg/astparser"
	"github.com/wundergraph/graphql-go-tools/v2/pkg/asttransform"
	"github.com/wundergraph/graphql-go-tools/v2/pkg/operationreport"
)

func TestVerifF8UploadsPathLeaksIntoNextOperation(t *testing.T) {
	const schema = `scalar Upload type Query { hello(a: String): String } type Mutation { upload(f: Upload!): String }`
	definition, rep := astparser.ParseGraphqlDocumentString(schema)
	if rep.HasErrors() {
		t.Fatal(rep.Error())
	}
	if err := asttransform.MergeDefinitionWithBaseSchema(&definition); err != nil {
		t.Fatal(err)
	}
	normalizer := NewVariablesNormalizer()
	run := func(operation, variables string) int {
		op, rep := astparser.ParseGraphqlDocumentString(operation)
		if rep.HasErrors() {
			t.Fatal(rep.Error())
		}
		op.Input.Variables = []byte(variables)
		var report operationreport.Report
		mappings := normalizer.NormalizeOperation(&op, &definition, &report)
		if report.HasErrors() {
			t.Fatal(report.Error())
		}
		return len(mappings)
	}
	if n := run(`mutation($f: Upload!) { upload(f: $f) }`, `{"f":null}`); n != 1 {
		t.Fatalf("first request: expected 1 upload mapping, got %d", n)
	}
	if n := run(`query { hello(a: "x") }`, `{}`); n != 0 {
		t.Fatalf("second request has no upload at all but the normalizer returned %d upload mapping(s) left over from the previous request", n)
	}
}
