package engine

import (
	"bytes"
	"context"
	"io"
	"net/http"
	"testing"

	"github.com/jensneuse/abstractlogger"
	"github.com/stretchr/testify/assert"
	"github.com/stretchr/testify/require"

	"github.com/wundergraph/graphql-go-tools/execution/graphql"
	"github.com/wundergraph/graphql-go-tools/v2/pkg/engine/datasource/graphql_datasource"
	"github.com/wundergraph/graphql-go-tools/v2/pkg/engine/plan"
	"github.com/wundergraph/graphql-go-tools/v2/pkg/engine/resolve"
)

// existing_1 (C06): ExecutionEngine.Execute only runs the variables validator when the raw
// variables start with '{'. Absent variables, the JSON literal null, or an object preceded by
// whitespace all skip the gate, so a missing / null / wrongly typed required variable is
// forwarded to the subgraph.
//
// Goes into execution/engine/ ; run:
//   cd execution && go test -count=1 -run TestC06Existing1 ./engine/

func TestC06Existing1_EngineSkipsVariableValidation(t *testing.T) {
	sdl := `type Query { hero(name: String!): String! }`
	query := `query Q($heroName: String!){ hero(name: $heroName) }`

	// control: the gate works for a plain object
	sent, _, err := c06e1Run(t, sdl, query, []byte(`{"heroName": null}`), "name")
	require.Error(t, err)
	require.Empty(t, sent)

	for name, variables := range map[string][]byte{
		"no variables at all":              nil,
		"variables is the JSON null":       []byte(`null`),
		"leading space, null for String!":  []byte(` {"heroName": null}`),
		"leading newline, Int for String!": []byte("\n{\"heroName\": 1}"),
	} {
		t.Run(name, func(t *testing.T) {
			sent, _, err := c06e1Run(t, sdl, query, variables, "name")
			assert.Error(t, err, "variables %q are not coercible to ($heroName: String!) but were accepted", string(variables))
			assert.Empty(t, sent, "the request was forwarded to the subgraph")
		})
	}
}

// c06e1Run executes one request against an engine whose only data source is a
// GraphQL subgraph with the same schema; it returns the body that was sent to
// the subgraph (empty if nothing was sent), the response and Execute's error.
func c06e1Engine(t *testing.T, schemaSDL string, args []string, sent *string) *ExecutionEngine {
	t.Helper()
	schema, err := graphql.NewSchemaFromString(schemaSDL)
	require.NoError(t, err)
	client := &http.Client{Transport: testRoundTripper(func(req *http.Request) *http.Response {
		b, _ := io.ReadAll(req.Body)
		*sent = string(b)
		return &http.Response{StatusCode: 200, Body: io.NopCloser(bytes.NewBufferString(`{"data":{"hero":"ok"}}`))}
	})}
	var argCfg []plan.ArgumentConfiguration
	for _, a := range args {
		argCfg = append(argCfg, plan.ArgumentConfiguration{Name: a, SourceType: plan.FieldArgumentSource})
	}
	engineConf := NewConfiguration(schema)
	engineConf.SetDataSources([]plan.DataSource{
		mustGraphqlDataSourceConfiguration(t, "id", mustFactory(t, client),
			&plan.DataSourceMetadata{RootNodes: []plan.TypeField{{TypeName: "Query", FieldNames: []string{"hero"}}}},
			mustConfiguration(t, graphql_datasource.ConfigurationInput{
				Fetch:               &graphql_datasource.FetchConfiguration{URL: "https://example.com/", Method: "POST"},
				SchemaConfiguration: mustSchemaConfig(t, nil, schemaSDL),
			})),
	})
	engineConf.SetFieldConfigurations([]plan.FieldConfiguration{{TypeName: "Query", FieldName: "hero", Path: []string{"hero"}, Arguments: argCfg}})
	engine, err := NewExecutionEngine(context.Background(), abstractlogger.Noop{}, engineConf, resolve.ResolverOptions{MaxConcurrency: 16})
	require.NoError(t, err)
	return engine
}

func c06e1Run(t *testing.T, schemaSDL, query string, variables []byte, args ...string) (sent string, resp string, err error) {
	t.Helper()
	engine := c06e1Engine(t, schemaSDL, args, &sent)
	op := graphql.Request{OperationName: "Q", Variables: variables, Query: query}
	w := graphql.NewEngineResultWriter()
	err = engine.Execute(context.Background(), &op, &w)
	return sent, w.String(), err
}
