// F76 (C12-R10), reported as existing violation 4 by a seeding sub-agent. Copy into v2/pkg/engine/resolve/ and run:
//   cd v2 && go test -count=1 -run 'TestF76' ./pkg/engine/resolve/
package resolve

// C12 existing violation #4 (unmodified tree):
// subscriptionUpdater.Complete() / Error() write the terminal frame to every subscriber but do not
// mark the subscription as finished; that only happens in Done(). Complete() walks the subscribers
// one after the other, so as long as the Complete() write to ONE (slow) subscriber blocks, every
// subscriber that already got its "complete" is still live for the actors that do not go through
// the updater mutex: the heartbeat loop keeps writing heartbeats to a writer that has already been
// completed (and a failing joiner hook would still write its error).
// Statement clause: "Once a subscription has been completed ... nothing further is ever written to
// its writer (no data, heartbeat, error or complete)".
//
// Drop into v2/pkg/engine/resolve/ and run:
//   go test -count=1 -run 'TestF76NothingAfterTheTerminalFrame' ./pkg/engine/resolve/

import (
	"context"
	"net/http"
	"sync"
	"sync/atomic"
	"testing"
	"time"

	"github.com/cespare/xxhash/v2"
	"github.com/stretchr/testify/require"
)

type c12e4Gate struct {
	completes     atomic.Int32
	secondEntered chan struct{}
	release       chan struct{}
}

type c12e4Writer struct {
	gate  *c12e4Gate
	mu    sync.Mutex
	buf   []byte
	calls []string
}

func (w *c12e4Writer) add(call string) {
	w.mu.Lock()
	w.calls = append(w.calls, call)
	w.mu.Unlock()
}
func (w *c12e4Writer) Calls() []string {
	w.mu.Lock()
	defer w.mu.Unlock()
	return append([]string(nil), w.calls...)
}
func (w *c12e4Writer) Write(p []byte) (int, error) {
	w.mu.Lock()
	w.buf = append(w.buf, p...)
	w.mu.Unlock()
	return len(p), nil
}
func (w *c12e4Writer) Flush() error {
	w.mu.Lock()
	w.calls = append(w.calls, "message:"+string(w.buf))
	w.buf = nil
	w.mu.Unlock()
	return nil
}
func (w *c12e4Writer) Error(data []byte) { w.add("error:" + string(data)) }
func (w *c12e4Writer) Heartbeat() error  { w.add("heartbeat"); return nil }
func (w *c12e4Writer) Complete() {
	// the first subscriber that is completed answers at once, the second one is a slow client
	if w.gate.completes.Add(1) == 2 {
		close(w.gate.secondEntered)
		<-w.gate.release
	}
	w.add("complete")
}

type c12e4Source struct {
	updater chan SubscriptionUpdater
}

func (s *c12e4Source) HashTriggerInput(input []byte, xxh *xxhash.Digest) error {
	_, err := xxh.Write(input)
	return err
}
func (s *c12e4Source) Start(_ *Context, _ http.Header, _ []byte, updater SubscriptionUpdater) error {
	s.updater <- updater
	return nil
}

func TestF76NothingAfterTheTerminalFrame_HeartbeatAfterComplete(t *testing.T) {
	rCtx, stop := context.WithCancel(context.Background())
	defer stop()
	resolver := New(rCtx, ResolverOptions{
		MaxConcurrency:                16,
		AsyncErrorWriter:              &FakeErrorWriter{},
		SubscriptionHeartbeatInterval: 5 * time.Millisecond,
	})

	source := &c12e4Source{updater: make(chan SubscriptionUpdater, 1)}
	plan := &GraphQLSubscription{
		Trigger: GraphQLSubscriptionTrigger{
			Source: source,
			InputTemplate: InputTemplate{Segments: []TemplateSegment{{
				SegmentType: StaticSegmentType,
				Data:        []byte(`{"topic":"counter"}`),
			}}},
			PostProcessing: PostProcessingConfiguration{
				SelectResponseDataPath:   []string{"data"},
				SelectResponseErrorsPath: []string{"errors"},
			},
		},
		Response: &GraphQLResponse{
			Data: &Object{Fields: []*Field{{
				Name:  []byte("counter"),
				Value: &Integer{Path: []string{"counter"}},
			}}},
		},
	}

	gate := &c12e4Gate{secondEntered: make(chan struct{}), release: make(chan struct{})}
	writers := []*c12e4Writer{{gate: gate}, {gate: gate}}
	var updater SubscriptionUpdater
	for i, w := range writers {
		clientCtx, gone := context.WithCancel(context.Background())
		defer gone()
		ctx := NewContext(clientCtx)
		ctx.ExecutionOptions.SendHeartbeat = true
		require.NoError(t, resolver.AsyncResolveGraphQLSubscription(ctx, plan, w, SubscriptionIdentifier{ConnectionID: ConnectionID(i + 1), SubscriptionID: 1}))
		if i == 0 {
			select {
			case updater = <-source.updater:
			case <-time.After(5 * time.Second):
				t.Fatal("source not started")
			}
		}
	}

	// the upstream ends: Complete(), then Done() -- as every source does
	sourceDone := make(chan struct{})
	go func() {
		updater.Complete()
		updater.Done()
		close(sourceDone)
	}()
	select {
	case <-gate.secondEntered:
	case <-time.After(5 * time.Second):
		t.Fatal("Complete() did not reach the second subscriber")
	}
	time.Sleep(100 * time.Millisecond) // the slow client needs a while; the heartbeat loop ticks every 5ms
	close(gate.release)
	select {
	case <-sourceDone:
	case <-time.After(5 * time.Second):
		t.Fatal("source did not finish")
	}

	for i, w := range writers {
		calls := w.Calls()
		idx := -1
		for j, c := range calls {
			if c == "complete" {
				idx = j
				break
			}
		}
		require.NotEqual(t, -1, idx, "subscriber %d: no complete: %q", i, calls)
		require.Equal(t, idx, len(calls)-1, "subscriber %d: writer used after Complete(): %q", i, calls)
	}
}
