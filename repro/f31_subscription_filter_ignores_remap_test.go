package resolve

import (
	"testing"

	"github.com/stretchr/testify/assert"
	"github.com/wundergraph/astjson"
)

// A subscription filter `in: ["$var"]` must not depend on how the variable is spelled: after variable renaming the plan
// refers to the canonical name ("a") and the context carries the client's name ("var") plus the remap table a -> var.
func TestF31SubscriptionFilterHonoursVariableRemap(t *testing.T) {
	mk := func(name string) *SubscriptionFilter {
		return &SubscriptionFilter{
			In: &SubscriptionFieldFilter{
				FieldPath: []string{"event"},
				Values: []InputTemplate{{Segments: []TemplateSegment{{
					SegmentType:        VariableSegmentType,
					VariableKind:       ContextVariableKind,
					VariableSourcePath: []string{name},
					Renderer:           NewPlainVariableRenderer(),
				}}}},
			},
		}
	}
	data := []byte(`{"event":true}`)

	// reference: no renaming
	skip, err := mk("var").SkipEvent(&Context{Variables: astjson.MustParseBytes([]byte(`{"var":true}`))}, data)
	assert.NoError(t, err)
	assert.Equal(t, false, skip, "reference: matching event is delivered")

	// same request after variable renaming: var -> a
	skip, err = mk("a").SkipEvent(&Context{
		Variables:      astjson.MustParseBytes([]byte(`{"var":true}`)),
		RemapVariables: map[string]string{"a": "var"},
	}, data)
	assert.NoError(t, err)
	assert.Equal(t, false, skip, "renamed variable: the same matching event must be delivered")

	// a client variable that happens to be spelled like a canonical name must not be consulted instead
	skip, err = mk("a").SkipEvent(&Context{
		Variables:      astjson.MustParseBytes([]byte(`{"var":true,"a":"true"}`)),
		RemapVariables: map[string]string{"a": "var", "b": "a"},
	}, data)
	assert.NoError(t, err)
	assert.Equal(t, false, skip, "type of the remapped variable (boolean), not of the client's $a (string), decides")
}
