package engine

// C07 existing violation 5 (fails on the UNMODIFIED tree). Drop into execution/engine/ and run:
//   cd execution && go test -count=1 -run TestC07Existing5 ./engine/
//
// Fault kind "errors without data", where an entry of the subgraph's "errors" array is not a
// well-formed GraphQL error object (a plain string, a non-string message, a non-array path).
// Loader.mergeErrors -> appendSubgraphError json.Unmarshal()s the subgraph's errors into
// []GraphQLError and returns the decoding error as a HARD error: LoadGraphQLResponseData fails,
// the whole operation is aborted, and NO response at all is written, not even the data of the
// subgraphs that answered correctly.

import (
	"bytes"
	"context"
	"io"
	"net/http"
	"sync"
	"testing"

	"github.com/jensneuse/abstractlogger"
	"github.com/stretchr/testify/assert"
	"github.com/stretchr/testify/require"

	"github.com/wundergraph/graphql-go-tools/execution/graphql"
	"github.com/wundergraph/graphql-go-tools/v2/pkg/engine/datasource/graphql_datasource"
	"github.com/wundergraph/graphql-go-tools/v2/pkg/engine/plan"
	"github.com/wundergraph/graphql-go-tools/v2/pkg/engine/resolve"
)

type c07e5Subgraphs struct {
	mu        sync.Mutex
	responses map[string]string
	failKey   string // request that gets the faulty answer
	status    int
	body      string
	seen      []string
}

func (s *c07e5Subgraphs) RoundTrip(req *http.Request) (*http.Response, error) {
	body, _ := io.ReadAll(req.Body)
	_ = req.Body.Close()
	key := req.URL.Host + "|" + string(body)
	s.mu.Lock()
	s.seen = append(s.seen, key)
	s.mu.Unlock()
	if key == s.failKey {
		return &http.Response{StatusCode: s.status, Body: io.NopCloser(bytes.NewBufferString(s.body))}, nil
	}
	if r, ok := s.responses[key]; ok {
		return &http.Response{StatusCode: 200, Body: io.NopCloser(bytes.NewBufferString(r))}, nil
	}
	return &http.Response{StatusCode: 200, Body: io.NopCloser(bytes.NewBufferString(`{"errors":[{"message":"request not known to the test subgraph"}]}`))}, nil
}

type c07e5Setup struct {
	definition  string
	query       string
	multiFetch  bool
	dataSources func(t *testing.T, rt http.RoundTripper) []plan.DataSource
}

func c07e5Execute(t *testing.T, setup c07e5Setup, rt http.RoundTripper) (string, error) {
	t.Helper()
	schema, err := graphql.NewSchemaFromString(setup.definition)
	require.NoError(t, err)
	engineConf := NewConfiguration(schema)
	engineConf.SetDataSources(setup.dataSources(t, rt))
	engineConf.plannerConfig.EnableMultiFetch = setup.multiFetch
	ctx, cancel := context.WithCancel(context.Background())
	defer cancel()
	eng, err := NewExecutionEngine(ctx, abstractlogger.Noop{}, engineConf, resolve.ResolverOptions{MaxConcurrency: 16})
	require.NoError(t, err)
	op := graphql.Request{Query: setup.query}
	w := graphql.NewEngineResultWriter()
	err = eng.Execute(ctx, &op, &w)
	return w.String(), err
}

func c07e5MultiSetup() c07e5Setup {
	definition := `
		type Query { a: A b: B }
		type A { id: ID! extra: String }
		type B { id: ID! extra: String }`
	s1 := `type Query { a: A } type A @key(fields: "id") { id: ID! }`
	s2 := `type Query { b: B } type B @key(fields: "id") { id: ID! }`
	s3 := `type A @key(fields: "id") { id: ID! extra: String } type B @key(fields: "id") { id: ID! extra: String }`
	return c07e5Setup{
		definition: definition,
		query:      `{ a { id extra } b { id extra } }`,
		multiFetch: true,
		dataSources: func(t *testing.T, rt http.RoundTripper) []plan.DataSource {
			client := &http.Client{Transport: rt}
			return []plan.DataSource{
				mustGraphqlDataSourceConfiguration(t, "s1", mustFactory(t, client),
					&plan.DataSourceMetadata{
						RootNodes: []plan.TypeField{
							{TypeName: "Query", FieldNames: []string{"a"}},
							{TypeName: "A", FieldNames: []string{"id"}},
						},
						FederationMetaData: plan.FederationMetaData{Keys: plan.FederationFieldConfigurations{{TypeName: "A", SelectionSet: "id"}}},
					},
					mustConfiguration(t, graphql_datasource.ConfigurationInput{
						Fetch:               &graphql_datasource.FetchConfiguration{URL: "https://s1/", Method: "POST"},
						SchemaConfiguration: mustSchemaConfig(t, &graphql_datasource.FederationConfiguration{Enabled: true, ServiceSDL: s1}, s1),
					}),
				),
				mustGraphqlDataSourceConfiguration(t, "s2", mustFactory(t, client),
					&plan.DataSourceMetadata{
						RootNodes: []plan.TypeField{
							{TypeName: "Query", FieldNames: []string{"b"}},
							{TypeName: "B", FieldNames: []string{"id"}},
						},
						FederationMetaData: plan.FederationMetaData{Keys: plan.FederationFieldConfigurations{{TypeName: "B", SelectionSet: "id"}}},
					},
					mustConfiguration(t, graphql_datasource.ConfigurationInput{
						Fetch:               &graphql_datasource.FetchConfiguration{URL: "https://s2/", Method: "POST"},
						SchemaConfiguration: mustSchemaConfig(t, &graphql_datasource.FederationConfiguration{Enabled: true, ServiceSDL: s2}, s2),
					}),
				),
				mustGraphqlDataSourceConfiguration(t, "s3", mustFactory(t, client),
					&plan.DataSourceMetadata{
						RootNodes: []plan.TypeField{
							{TypeName: "A", FieldNames: []string{"id", "extra"}},
							{TypeName: "B", FieldNames: []string{"id", "extra"}},
						},
						FederationMetaData: plan.FederationMetaData{Keys: plan.FederationFieldConfigurations{{TypeName: "A", SelectionSet: "id"}, {TypeName: "B", SelectionSet: "id"}}},
					},
					mustConfiguration(t, graphql_datasource.ConfigurationInput{
						Fetch:               &graphql_datasource.FetchConfiguration{URL: "https://s3/", Method: "POST"},
						SchemaConfiguration: mustSchemaConfig(t, &graphql_datasource.FederationConfiguration{Enabled: true, ServiceSDL: s3}, s3),
					}),
				),
			}
		},
	}
}

func TestC07Existing5_MalformedSubgraphErrorEntryAbortsTheWholeOperation(t *testing.T) {
	aExtra := `s3|{"query":"query($representations: [_Any!]!){_entities(representations: $representations){... on A {__typename extra}}}","variables":{"representations":[{"__typename":"A","id":"1"}]}}`
	responses := map[string]string{
		`s1|{"query":"{a {id __typename}}"}`: `{"data":{"a":{"__typename":"A","id":"1"}}}`,
		`s2|{"query":"{b {id __typename}}"}`: `{"data":{"b":{"__typename":"B","id":"2"}}}`,
		`s3|{"query":"query($representations: [_Any!]!){_entities(representations: $representations){... on B {__typename extra}}}","variables":{"representations":[{"__typename":"B","id":"2"}]}}`: `{"data":{"_entities":[{"__typename":"B","extra":"extra B"}]}}`,
		aExtra: `{"data":{"_entities":[{"__typename":"A","extra":"extra A"}]}}`,
	}
	setup := c07e5MultiSetup()
	setup.multiFetch = false
	out, err := c07e5Execute(t, setup, &c07e5Subgraphs{responses: responses})
	require.NoError(t, err)
	require.Equal(t, `{"data":{"a":{"id":"1","extra":"extra A"},"b":{"id":"2","extra":"extra B"}}}`, out)

	for _, tc := range []struct{ name, body string }{
		{"well-formed error entry (control: handled correctly)", `{"errors":[{"message":"boom"}]}`},
		{"error entry is a string", `{"errors":["boom"]}`},
		{"message is not a string", `{"errors":[{"message":123}]}`},
		{"path is not an array", `{"data":null,"errors":[{"message":"boom","path":"a.extra"}]}`},
	} {
		t.Run(tc.name, func(t *testing.T) {
			out, err := c07e5Execute(t, setup, &c07e5Subgraphs{responses: responses, failKey: aExtra, status: 200, body: tc.body})
			t.Logf("err: %v, response: %q", err, out)
			if err != nil {
				t.Errorf("a failing subgraph request must not abort the operation, got error: %v", err)
			}
			assert.Contains(t, out, `"errors":[`)
			assert.Contains(t, out, `"data":{"a":{"id":"1","extra":null},"b":{"id":"2","extra":"extra B"}}`,
				"one well-formed response: unaffected data intact, affected field null")
		})
	}
}
