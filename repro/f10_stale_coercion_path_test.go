package astnormalization

import (
	"testing"

	"github.com/wundergraph/graphql-go-tools/v2/pkg/astparser"
	"github.com/wundergraph/graphql-go-tools/v2/pkg/asttransform"
	"github.com/wundergraph/graphql-go-tools/v2/pkg/operationreport"
)

func TestF10_StaleQueryPathAfterStoppedWalk(t *testing.T) {
	def, rep := astparser.ParseGraphqlDocumentString(`schema {query: Query} type Query { f(a: In, l: [Int]): String } input In { list: [Int] }`)
	if rep.HasErrors() {
		t.Fatal(rep)
	}
	if err := asttransform.MergeDefinitionWithBaseSchema(&def); err != nil {
		t.Fatal(err)
	}
	n := NewWithOpts(WithExtractVariables(), WithRemoveFragmentDefinitions())
	// 1st request: nested object malformed → walk stopped inside EnterVariableDefinition
	op1, _ := astparser.ParseGraphqlDocumentString(`query Q($a: In){ f(a: $a) }`)
	op1.Input.Variables = []byte(`{"a":{"list":1,"x":}}`)
	r1 := operationreport.Report{}
	n.NormalizeOperation(&op1, &def, &r1)
	t.Logf("first: hasErrors=%v %v", r1.HasErrors(), r1)
	// 2nd request, same normalizer: scalar for list variable must be coerced to [1]
	op2, _ := astparser.ParseGraphqlDocumentString(`query Q($l: [Int]){ f(l: $l) }`)
	op2.Input.Variables = []byte(`{"l":1}`)
	r2 := operationreport.Report{}
	n.NormalizeOperation(&op2, &def, &r2)
	t.Logf("second: hasErrors=%v vars=%s", r2.HasErrors(), op2.Input.Variables)
	if string(op2.Input.Variables) != `{"l":[1]}` {
		t.Fatalf("DEFECT REPRODUCED: variables after normalization = %s, want {\"l\":[1]}", op2.Input.Variables)
	}
}
