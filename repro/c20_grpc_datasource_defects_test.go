package grpcdatasource

// Reproductions of the three C20 findings reported by the rules of checker/rules/c20.go.
// Drop into v2/pkg/engine/datasource/grpc_datasource and run: go test -run TestVerifC20 -count=1 .
// All three fail on the pinned tree.
//
//   - C20-R5 [rpcPlanningContext.buildMessageForField/dedupe-identity-matches-construction]
//     buildMessageForField skips a field when Fields.Exists(name, "") although it builds fields with their
//     alias: below a field resolver `{ id other: id }` loses `other`, `{ other: id id }` keeps both.
//     Fix: Exists(FieldNameString(fieldRef), FieldAliasString(fieldRef)).
//   - C20-R7 [RPCCompiler.processRepeatedField/setValueForKind-excludes:DataTypeEnum]
//     a repeated enum argument ([CategoryKind!]!) is converted with setValueForKind, which has no enum arm and
//     returns the invalid protoreflect.Value: list.Append panics inside DataSource.Load.
//     Fix: a `case DataTypeEnum:` arm with getEnumValue, as RPCCompiler.traverseList has.
//   - C20-R8 [jsonBuilder.marshalResponseJSON/no-append-onto-plan-slice:validFields]
//     `validFields := message.Fields; validFields = append(validFields, …)` writes the fragment fields of the
//     concrete type into the spare capacity of the plan's own slice; concurrent Loads on one DataSource
//     overwrite each other's elements and fields of the selection go missing.
//     Fix: append(validFields[:len(validFields):len(validFields)], …) (or slices.Clone).

import (
	"context"
	"fmt"
	"sync"
	"testing"

	"github.com/stretchr/testify/require"

	"github.com/wundergraph/graphql-go-tools/v2/pkg/astparser"
	"github.com/wundergraph/graphql-go-tools/v2/pkg/grpctest"
)

func verifC20DataSource(t *testing.T, query string) *DataSource {
	conn, cleanup := setupTestGRPCServer(t)
	t.Cleanup(cleanup)
	schemaDoc := grpctest.MustGraphQLSchema(t)
	queryDoc, report := astparser.ParseGraphqlDocumentString(query)
	require.False(t, report.HasErrors(), report.Error())
	compiler, err := NewProtoCompiler(grpctest.MustProtoSchema(t), testMapping())
	require.NoError(t, err)
	ds, err := NewDataSource(NewGRPCTransport(conn), DataSourceConfig{
		Operation: &queryDoc, Definition: &schemaDoc, SubgraphName: "Products", Mapping: testMapping(), Compiler: compiler,
	})
	require.NoError(t, err)
	return ds
}

func verifC20Load(t *testing.T, query, vars string) string {
	ds := verifC20DataSource(t, query)
	input := fmt.Sprintf(`{"query":%q,"body":%s}`, query, vars)
	var out []byte
	var err error
	require.NotPanics(t, func() { out, err = ds.Load(context.Background(), nil, []byte(input)) })
	require.NoError(t, err)
	return string(out)
}

func TestVerifC20AliasBelowFieldResolverDependsOnOrder(t *testing.T) {
	vars := `{"variables":{"m":"popularity_score"}}`
	a := verifC20Load(t, `query Q($m: String) { categories { categoryMetrics(metricType: $m) { id other: id } } }`, vars)
	b := verifC20Load(t, `query Q($m: String) { categories { categoryMetrics(metricType: $m) { other: id id } } }`, vars)
	require.Contains(t, b, `"other"`)
	require.Contains(t, a, `"other"`, "the aliased selection disappears when the un-aliased one comes first")
}

func TestVerifC20RepeatedEnumArgument(t *testing.T) {
	out := verifC20Load(t, `query Q($kinds: [CategoryKind!]!) { categoriesByKinds(kinds: $kinds) { id kind } }`, `{"variables":{"kinds":["BOOK","OTHER"]}}`)
	require.Contains(t, out, `"kind":"BOOK"`)
}

func TestVerifC20ConcurrentLoadsShareThePlan(t *testing.T) {
	query := `query Q { allPets { id ... on Cat { meowVolume } ... on Dog { barkVolume } } }`
	ds := verifC20DataSource(t, query)
	input := []byte(fmt.Sprintf(`{"query":%q,"body":{"variables":{}}}`, query))
	ref, err := ds.Load(context.Background(), nil, input)
	require.NoError(t, err)
	const goroutines, loads = 8, 1500
	var mu sync.Mutex
	var different []string
	var wg sync.WaitGroup
	for g := 0; g < goroutines; g++ {
		wg.Add(1)
		go func() {
			defer wg.Done()
			for i := 0; i < loads; i++ {
				out, err := ds.Load(context.Background(), nil, input)
				if err != nil || string(out) != string(ref) {
					mu.Lock()
					different = append(different, string(out))
					mu.Unlock()
				}
			}
		}()
	}
	wg.Wait()
	if len(different) > 0 {
		t.Fatalf("%d of %d concurrent loads differ from the sequential answer %s, e.g. %s", len(different), goroutines*loads, ref, different[0])
	}
}
