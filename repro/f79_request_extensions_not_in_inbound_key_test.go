// F79 (C11-R13), reported as existing 4 by a seeding sub-agent. Copy into v2/pkg/engine/resolve/ and run:
//   cd v2 && go test -count=1 -run TestF79 ./pkg/engine/resolve/
package resolve

import (
	"bytes"
	"context"
	"net/http"
	"sync"
	"testing"
	"time"

	"github.com/buger/jsonparser"
	"github.com/stretchr/testify/require"

	"github.com/wundergraph/graphql-go-tools/v2/pkg/ast"
	"github.com/wundergraph/graphql-go-tools/v2/pkg/engine/datasource/httpclient"
)

// existing4DataSource is a subgraph whose answer depends on the request extensions the engine
// forwards in body.extensions (tenant, feature flags, persisted-query info, a token, ...).
type existing4DataSource struct {
	once    sync.Once
	ready   chan struct{}
	release chan struct{}
}

func (d *existing4DataSource) Load(_ context.Context, _ http.Header, input []byte) ([]byte, error) {
	d.once.Do(func() { close(d.ready) })
	<-d.release
	tenant, _ := jsonparser.GetString(input, "body", "extensions", "tenant")
	return []byte(`{"value":"data of tenant ` + tenant + `"}`), nil
}

func (d *existing4DataSource) LoadWithFiles(ctx context.Context, h http.Header, in []byte, _ []*httpclient.FileUpload) ([]byte, error) {
	return d.Load(ctx, h, in)
}

// Two concurrent requests carry the same operation (Request.ID), the same variables and the same
// forwarded headers, but different request extensions (Context.Extensions). The engine forwards
// the extensions to the subgraph, so alone the two requests get different answers. The inbound
// single flight key ignores Context.Extensions, so the second request is served the bytes of the first.
func TestF79RequestExtensionsArePartOfTheInboundKey_InboundKeyIgnoresRequestExtensions(t *testing.T) {
	r := newResolver(t.Context())

	newResponse := func(ds DataSource) *GraphQLResponse {
		return &GraphQLResponse{
			Info: &GraphQLResponseInfo{OperationType: ast.OperationTypeQuery},
			Fetches: Single(&SingleFetch{
				InputTemplate: InputTemplate{Segments: []TemplateSegment{{
					SegmentType: StaticSegmentType,
					Data:        []byte(`{"method":"POST","url":"http://products","body":{"query":"{value}"}}`),
				}}},
				FetchConfiguration: FetchConfiguration{DataSource: ds},
			}),
			Data: &Object{
				Fields: []*Field{{
					Name:  []byte("value"),
					Value: &String{Path: []string{"value"}, Nullable: false},
				}},
			},
		}
	}
	newCtx := func(tenant string) *Context {
		ctx := NewContext(context.Background())
		ctx.Request.ID = 42
		ctx.VariablesHash = 1337
		ctx.Extensions = []byte(`{"tenant":"` + tenant + `"}`)
		return ctx
	}

	// what request B gets when it runs alone
	aloneDS := &existing4DataSource{ready: make(chan struct{}), release: make(chan struct{})}
	close(aloneDS.release)
	alone := &bytes.Buffer{}
	_, err := r.ArenaResolveGraphQLResponse(newCtx("B"), newResponse(aloneDS), alone)
	require.NoError(t, err)
	require.Equal(t, `{"data":{"value":"data of tenant B"}}`, alone.String())

	// now A and B concurrently
	ds := &existing4DataSource{ready: make(chan struct{}), release: make(chan struct{})}
	response := newResponse(ds)
	var wg sync.WaitGroup
	outA, outB := &bytes.Buffer{}, &bytes.Buffer{}
	wg.Add(2)
	go func() {
		defer wg.Done()
		_, _ = r.ArenaResolveGraphQLResponse(newCtx("A"), response, outA)
	}()
	select {
	case <-ds.ready:
	case <-time.After(2 * time.Second):
		t.Fatal("request A did not reach the data source")
	}
	go func() {
		defer wg.Done()
		_, _ = r.ArenaResolveGraphQLResponse(newCtx("B"), response, outB)
	}()
	time.Sleep(200 * time.Millisecond) // B either joined A's flight or waits in the data source on its own
	close(ds.release)
	wg.Wait()

	require.Equal(t, `{"data":{"value":"data of tenant A"}}`, outA.String())
	require.Equal(t, alone.String(), outB.String(), "request B must get what it gets alone")
}
