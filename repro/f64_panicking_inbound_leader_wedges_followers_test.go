// F64 (C11-R12), reported as existing_3 by a seeding sub-agent. Copy into v2/pkg/engine/resolve/ and run:
//   cd v2 && go test -count=1 -run TestF64 ./pkg/engine/resolve/
package resolve

import (
	"bytes"
	"context"
	"fmt"
	"net/http"
	"sync"
	"testing"
	"time"

	"github.com/stretchr/testify/require"

	"github.com/wundergraph/graphql-go-tools/v2/pkg/ast"
	"github.com/wundergraph/graphql-go-tools/v2/pkg/engine/datasource/httpclient"
)

// existing3DataSource panics on its first call (a transient bug in a custom transport, a nil
// dereference in a hook, ...) and works for every later call.
type existing3DataSource struct {
	mu      sync.Mutex
	calls   int
	ready   chan struct{}
	release chan struct{}
}

func (d *existing3DataSource) Load(_ context.Context, _ http.Header, _ []byte) ([]byte, error) {
	d.mu.Lock()
	d.calls++
	first := d.calls == 1
	d.mu.Unlock()
	if first {
		close(d.ready)
		<-d.release
		panic("transient transport bug")
	}
	return []byte(`{"value":"ok"}`), nil
}

func (d *existing3DataSource) LoadWithFiles(ctx context.Context, h http.Header, in []byte, _ []*httpclient.FileUpload) ([]byte, error) {
	return d.Load(ctx, h, in)
}

// The leader of an inbound single flight dies with a panic (recovered per request, as net/http
// does). ArenaResolveGraphQLResponse has no deferred FinishErr, so the in-flight entry is never
// retired and Done is never closed:
//   - the follower that was waiting hangs until its own context ends,
//   - EVERY later identical request becomes a follower of the dead leader and hangs as well.
func TestF64PanickingLeaderReleasesItsFollowers(t *testing.T) {
	r := newResolver(t.Context())
	ds := &existing3DataSource{ready: make(chan struct{}), release: make(chan struct{})}

	response := &GraphQLResponse{
		Info: &GraphQLResponseInfo{OperationType: ast.OperationTypeQuery},
		Fetches: Single(&SingleFetch{
			FetchConfiguration: FetchConfiguration{DataSource: ds},
		}),
		Data: &Object{
			Fields: []*Field{{
				Name:  []byte("value"),
				Value: &String{Path: []string{"value"}, Nullable: false},
			}},
		},
	}

	request := func(timeout time.Duration) (out string, err error) {
		defer func() {
			if p := recover(); p != nil { // what net/http does for a handler
				err = fmt.Errorf("panic: %v", p)
			}
		}()
		parent, cancel := context.WithTimeout(context.Background(), timeout)
		defer cancel()
		ctx := NewContext(parent)
		ctx.Request.ID = 42
		ctx.VariablesHash = 1337
		buf := &bytes.Buffer{}
		_, err = r.ArenaResolveGraphQLResponse(ctx, response, buf)
		return buf.String(), err
	}

	var (
		wg                     sync.WaitGroup
		leaderErr, followerErr error
		followerOut            string
	)
	wg.Add(2)
	go func() {
		defer wg.Done()
		_, leaderErr = request(3 * time.Second)
	}()
	select {
	case <-ds.ready:
	case <-time.After(2 * time.Second):
		t.Fatal("leader did not reach the data source")
	}
	go func() {
		defer wg.Done()
		followerOut, followerErr = request(1500 * time.Millisecond)
	}()
	waitForFollowerCount(t, r, 1)
	close(ds.release)
	wg.Wait()

	require.ErrorContains(t, leaderErr, "panic")

	// the follower's client is alive and the data source works now: it must be served
	// (or at least be told that the shared work failed) instead of running into its own deadline
	if followerErr != nil {
		t.Errorf("follower of the dead leader: %v (out=%q)", followerErr, followerOut)
	}

	// long after the leader is gone, an identical request still hangs
	out, err := request(1500 * time.Millisecond)
	require.NoError(t, err, "a request arriving after the leader died must not wait for it")
	require.Equal(t, `{"data":{"value":"ok"}}`, out)
}
