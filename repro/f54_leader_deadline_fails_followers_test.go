package resolve

import (
	"bytes"
	"context"
	"net/http"
	"sync"
	"testing"
	"time"

	"github.com/stretchr/testify/require"

	"github.com/wundergraph/graphql-go-tools/v2/pkg/ast"
	"github.com/wundergraph/graphql-go-tools/v2/pkg/engine/datasource/httpclient"
)

// existing2DataSource behaves like an HTTP transport: the first call blocks until the context of
// the request that issued it ends, every later call answers immediately (the subgraph is healthy,
// the first caller merely has a very short deadline).
type existing2DataSource struct {
	mu    sync.Mutex
	calls int
	ready chan struct{}
}

func (d *existing2DataSource) Load(ctx context.Context, _ http.Header, _ []byte) ([]byte, error) {
	d.mu.Lock()
	d.calls++
	first := d.calls == 1
	d.mu.Unlock()
	if first {
		close(d.ready)
		<-ctx.Done()
		return nil, ctx.Err()
	}
	return []byte(`{"value":"ok"}`), nil
}

func (d *existing2DataSource) LoadWithFiles(ctx context.Context, h http.Header, in []byte, _ []*httpclient.FileUpload) ([]byte, error) {
	return d.Load(ctx, h, in)
}

type existing2Hooks struct{ entered chan struct{} }

func (h *existing2Hooks) OnLoad(ctx context.Context, _ DataSourceInfo) context.Context {
	close(h.entered)
	return ctx
}
func (h *existing2Hooks) OnFinished(context.Context, DataSourceInfo, *ResponseInfo) {}

// Two different client operations issue the same subgraph request. The leader of the shared
// subgraph request runs into ITS OWN deadline (context.DeadlineExceeded). The follower has no
// deadline at all, yet it is failed with the leader's context error instead of loading on its own
// (leaderCancelled only recognises context.Canceled).
func TestExisting2_LeaderDeadlineBecomesSubgraphFollowerError(t *testing.T) {
	r := newResolver(t.Context())
	ds := &existing2DataSource{ready: make(chan struct{})}

	response := &GraphQLResponse{
		Info: &GraphQLResponseInfo{OperationType: ast.OperationTypeQuery},
		Fetches: Single(&SingleFetch{
			FetchConfiguration: FetchConfiguration{DataSource: ds},
			Info: &FetchInfo{
				DataSourceID:   "products",
				DataSourceName: "products",
				OperationType:  ast.OperationTypeQuery,
			},
		}),
		Data: &Object{
			Fields: []*Field{{
				Name:  []byte("value"),
				Value: &String{Path: []string{"value"}, Nullable: false},
			}},
		},
	}

	leaderParent, leaderCancel := context.WithTimeout(context.Background(), 300*time.Millisecond)
	defer leaderCancel()
	leaderDone := make(chan struct{})
	go func() {
		defer close(leaderDone)
		ctx := NewContext(leaderParent)
		ctx.Request.ID = 1
		_, _ = r.ArenaResolveGraphQLResponse(ctx, response, &bytes.Buffer{})
	}()
	select {
	case <-ds.ready:
	case <-time.After(2 * time.Second):
		t.Fatal("leader did not reach the data source")
	}

	hooks := &existing2Hooks{entered: make(chan struct{})}
	var (
		followerOut  = &bytes.Buffer{}
		followerErr  error
		followerDone = make(chan struct{})
	)
	go func() {
		defer close(followerDone)
		ctx := NewContext(context.Background()) // no deadline, never cancelled
		ctx.Request.ID = 2
		ctx.LoaderHooks = hooks
		_, followerErr = r.ArenaResolveGraphQLResponse(ctx, response, followerOut)
	}()
	select {
	case <-hooks.entered:
	case <-time.After(2 * time.Second):
		t.Fatal("follower did not reach the loader")
	}

	for _, ch := range []chan struct{}{leaderDone, followerDone} {
		select {
		case <-ch:
		case <-time.After(5 * time.Second):
			t.Fatal("request did not return")
		}
	}

	require.NoError(t, followerErr)
	require.Equal(t, `{"data":{"value":"ok"}}`, followerOut.String(),
		"the follower has no deadline and the subgraph is healthy: the leader's deadline must not become its error")
}
