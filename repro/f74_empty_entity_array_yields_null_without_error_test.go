// F74 (C07-R11), reported as existing violation 6 by a seeding sub-agent. Copy into execution/engine/ and run:
//   cd execution && go test -count=1 -run TestF74 ./engine/
package engine

// C07 existing violation 6 (fails on the UNMODIFIED tree). Drop into execution/engine/ and run:
//   cd execution && go test -count=1 -run TestF74EmptyEntityArrayIsReported ./engine/
//
// Fault kinds "wrong entity count" and "non-2xx status" on a SINGLE-entity fetch (EntityFetch,
// parent is an object, not a list): the subgraph is asked for 1 representation and answers with
// {"data":{"_entities":[]}} (0 entities), optionally with HTTP status 500. mergeResult selects
// ["data","_entities","0"] => null, isEmptyEntityFetch() is true because _entities is an array,
// and mergeResult returns nil before the status-code fallback and before the "no data or errors"
// check. The field becomes null and NOT A SINGLE error is reported. (For a list parent the same
// answer is reported as an entity-count mismatch.)

import (
	"bytes"
	"context"
	"io"
	"net/http"
	"sync"
	"testing"

	"github.com/jensneuse/abstractlogger"
	"github.com/stretchr/testify/assert"
	"github.com/stretchr/testify/require"

	"github.com/wundergraph/graphql-go-tools/execution/graphql"
	"github.com/wundergraph/graphql-go-tools/v2/pkg/engine/datasource/graphql_datasource"
	"github.com/wundergraph/graphql-go-tools/v2/pkg/engine/plan"
	"github.com/wundergraph/graphql-go-tools/v2/pkg/engine/resolve"
)

type c07e6Subgraphs struct {
	mu        sync.Mutex
	responses map[string]string
	failKey   string // request that gets the faulty answer
	status    int
	body      string
	seen      []string
}

func (s *c07e6Subgraphs) RoundTrip(req *http.Request) (*http.Response, error) {
	body, _ := io.ReadAll(req.Body)
	_ = req.Body.Close()
	key := req.URL.Host + "|" + string(body)
	s.mu.Lock()
	s.seen = append(s.seen, key)
	s.mu.Unlock()
	if key == s.failKey {
		return &http.Response{StatusCode: s.status, Body: io.NopCloser(bytes.NewBufferString(s.body))}, nil
	}
	if r, ok := s.responses[key]; ok {
		return &http.Response{StatusCode: 200, Body: io.NopCloser(bytes.NewBufferString(r))}, nil
	}
	return &http.Response{StatusCode: 200, Body: io.NopCloser(bytes.NewBufferString(`{"errors":[{"message":"request not known to the test subgraph"}]}`))}, nil
}

type c07e6Setup struct {
	definition  string
	query       string
	multiFetch  bool
	dataSources func(t *testing.T, rt http.RoundTripper) []plan.DataSource
}

func c07e6Execute(t *testing.T, setup c07e6Setup, rt http.RoundTripper) (string, error) {
	t.Helper()
	schema, err := graphql.NewSchemaFromString(setup.definition)
	require.NoError(t, err)
	engineConf := NewConfiguration(schema)
	engineConf.SetDataSources(setup.dataSources(t, rt))
	engineConf.plannerConfig.EnableMultiFetch = setup.multiFetch
	ctx, cancel := context.WithCancel(context.Background())
	defer cancel()
	eng, err := NewExecutionEngine(ctx, abstractlogger.Noop{}, engineConf, resolve.ResolverOptions{MaxConcurrency: 16})
	require.NoError(t, err)
	op := graphql.Request{Query: setup.query}
	w := graphql.NewEngineResultWriter()
	err = eng.Execute(ctx, &op, &w)
	return w.String(), err
}

func c07e6MultiSetup() c07e6Setup {
	definition := `
		type Query { a: A b: B }
		type A { id: ID! extra: String }
		type B { id: ID! extra: String }`
	s1 := `type Query { a: A } type A @key(fields: "id") { id: ID! }`
	s2 := `type Query { b: B } type B @key(fields: "id") { id: ID! }`
	s3 := `type A @key(fields: "id") { id: ID! extra: String } type B @key(fields: "id") { id: ID! extra: String }`
	return c07e6Setup{
		definition: definition,
		query:      `{ a { id extra } b { id extra } }`,
		multiFetch: true,
		dataSources: func(t *testing.T, rt http.RoundTripper) []plan.DataSource {
			client := &http.Client{Transport: rt}
			return []plan.DataSource{
				mustGraphqlDataSourceConfiguration(t, "s1", mustFactory(t, client),
					&plan.DataSourceMetadata{
						RootNodes: []plan.TypeField{
							{TypeName: "Query", FieldNames: []string{"a"}},
							{TypeName: "A", FieldNames: []string{"id"}},
						},
						FederationMetaData: plan.FederationMetaData{Keys: plan.FederationFieldConfigurations{{TypeName: "A", SelectionSet: "id"}}},
					},
					mustConfiguration(t, graphql_datasource.ConfigurationInput{
						Fetch:               &graphql_datasource.FetchConfiguration{URL: "https://s1/", Method: "POST"},
						SchemaConfiguration: mustSchemaConfig(t, &graphql_datasource.FederationConfiguration{Enabled: true, ServiceSDL: s1}, s1),
					}),
				),
				mustGraphqlDataSourceConfiguration(t, "s2", mustFactory(t, client),
					&plan.DataSourceMetadata{
						RootNodes: []plan.TypeField{
							{TypeName: "Query", FieldNames: []string{"b"}},
							{TypeName: "B", FieldNames: []string{"id"}},
						},
						FederationMetaData: plan.FederationMetaData{Keys: plan.FederationFieldConfigurations{{TypeName: "B", SelectionSet: "id"}}},
					},
					mustConfiguration(t, graphql_datasource.ConfigurationInput{
						Fetch:               &graphql_datasource.FetchConfiguration{URL: "https://s2/", Method: "POST"},
						SchemaConfiguration: mustSchemaConfig(t, &graphql_datasource.FederationConfiguration{Enabled: true, ServiceSDL: s2}, s2),
					}),
				),
				mustGraphqlDataSourceConfiguration(t, "s3", mustFactory(t, client),
					&plan.DataSourceMetadata{
						RootNodes: []plan.TypeField{
							{TypeName: "A", FieldNames: []string{"id", "extra"}},
							{TypeName: "B", FieldNames: []string{"id", "extra"}},
						},
						FederationMetaData: plan.FederationMetaData{Keys: plan.FederationFieldConfigurations{{TypeName: "A", SelectionSet: "id"}, {TypeName: "B", SelectionSet: "id"}}},
					},
					mustConfiguration(t, graphql_datasource.ConfigurationInput{
						Fetch:               &graphql_datasource.FetchConfiguration{URL: "https://s3/", Method: "POST"},
						SchemaConfiguration: mustSchemaConfig(t, &graphql_datasource.FederationConfiguration{Enabled: true, ServiceSDL: s3}, s3),
					}),
				),
			}
		},
	}
}

func TestF74EmptyEntityArrayIsReported_SingleEntityFetchWithWrongEntityCountReportsNoError(t *testing.T) {
	aExtra := `s3|{"query":"query($representations: [_Any!]!){_entities(representations: $representations){... on A {__typename extra}}}","variables":{"representations":[{"__typename":"A","id":"1"}]}}`
	responses := map[string]string{
		`s1|{"query":"{a {id __typename}}"}`: `{"data":{"a":{"__typename":"A","id":"1"}}}`,
		`s2|{"query":"{b {id __typename}}"}`: `{"data":{"b":{"__typename":"B","id":"2"}}}`,
		`s3|{"query":"query($representations: [_Any!]!){_entities(representations: $representations){... on B {__typename extra}}}","variables":{"representations":[{"__typename":"B","id":"2"}]}}`: `{"data":{"_entities":[{"__typename":"B","extra":"extra B"}]}}`,
		aExtra: `{"data":{"_entities":[{"__typename":"A","extra":"extra A"}]}}`,
	}
	setup := c07e6MultiSetup()
	setup.multiFetch = false
	out, err := c07e6Execute(t, setup, &c07e6Subgraphs{responses: responses})
	require.NoError(t, err)
	require.Equal(t, `{"data":{"a":{"id":"1","extra":"extra A"},"b":{"id":"2","extra":"extra B"}}}`, out)

	for _, tc := range []struct {
		name   string
		status int
		body   string
	}{
		{"status 500, _entities null (control: handled correctly)", 500, `{"data":{"_entities":null}}`},
		{"status 200, zero entities for one representation", 200, `{"data":{"_entities":[]}}`},
		{"status 500, zero entities for one representation", 500, `{"data":{"_entities":[]}}`},
	} {
		t.Run(tc.name, func(t *testing.T) {
			out, err := c07e6Execute(t, setup, &c07e6Subgraphs{responses: responses, failKey: aExtra, status: tc.status, body: tc.body})
			require.NoError(t, err)
			t.Logf("response: %s", out)
			assert.Contains(t, out, `"data":{"a":{"id":"1","extra":null},"b":{"id":"2","extra":"extra B"}}`)
			assert.Contains(t, out, `"errors":[`, "a failed subgraph request must be reported with at least one error")
		})
	}
}
