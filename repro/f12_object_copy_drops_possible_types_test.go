package engine

// NOT a seeded change: subtest "B" FAILS on the UNMODIFIED library (pre-existing C02 violation).
// resolve.Object.Copy() drops PossibleTypes/TypeName/SourceName/InaccessibleTypes; postprocess/merge_fields.go
// step 1 uses Copy() for the 2nd+ type of a field selected under an interface fragment, so for those
// runtime types a nested abstract field is no longer validated (an @inaccessible type leaks).
// Drop into execution/engine/ and run: cd execution && go test -count=1 -run TestC02Bonus ./engine/

import (
	"testing"

	"github.com/stretchr/testify/require"

	"github.com/wundergraph/graphql-go-tools/execution/graphql"
	"github.com/wundergraph/graphql-go-tools/v2/pkg/engine/datasource/graphql_datasource"
	"github.com/wundergraph/graphql-go-tools/v2/pkg/engine/plan"
)

const c02BonusSDL = `
	type Query {
		nullableUnion: Result
	}
	interface Node {
		id: ID!
		friend: Node
	}
	type A implements Node {
		id: ID!
		friend: Node
	}
	type B implements Node {
		id: ID!
		friend: Node
	}
	type Hidden implements Node @inaccessible {
		id: ID!
		friend: Node
	}
	union Result = A | B
`

func TestC02Bonus_ObjectCopyDropsPossibleTypes(t *testing.T) {
	schema, err := graphql.NewSchemaFromString(c02BonusSDL)
	require.NoError(t, err)
	for _, rt := range []string{"A", "B"} {
		t.Run(rt, func(t *testing.T) {
			ds := mustGraphqlDataSourceConfigurationWithName(t, "abstract-types", "AbstractTypes",
				mustFactory(t, testNetHttpClient(t, roundTripperTestCase{
					expectedHost: "example.com", expectedPath: "/", expectedBody: "",
					sendResponseBody: `{"data":{"nullableUnion":{"__typename":"` + rt + `","friend":{"__typename":"Hidden","id":"secret"}}}}`,
					sendStatusCode:   200,
				})),
				&plan.DataSourceMetadata{
					RootNodes: []plan.TypeField{{TypeName: "Query", FieldNames: []string{"nullableUnion"}}},
					ChildNodes: []plan.TypeField{
						{TypeName: "Node", FieldNames: []string{"id", "friend"}},
						{TypeName: "A", FieldNames: []string{"id", "friend"}},
						{TypeName: "B", FieldNames: []string{"id", "friend"}},
						{TypeName: "Hidden", FieldNames: []string{"id", "friend"}},
					},
				},
				mustConfiguration(t, graphql_datasource.ConfigurationInput{
					Fetch: &graphql_datasource.FetchConfiguration{URL: "https://example.com/", Method: "GET"},
					SchemaConfiguration: mustSchemaConfig(t, &graphql_datasource.FederationConfiguration{Enabled: true, ServiceSDL: c02BonusSDL}, c02BonusSDL),
				}),
			)
			tc := ExecutionEngineTestCase{
				schema: schema,
				operation: func(t *testing.T) graphql.Request {
					return graphql.Request{Query: `query { nullableUnion { __typename ... on Node { friend { __typename id } } } }`}
				},
				dataSources:      []plan.DataSource{ds},
				expectedResponse: `{"errors":[{"message":"Subgraph 'AbstractTypes' returned an invalid value for __typename field.","path":["nullableUnion","friend"],"extensions":{"code":"INVALID_GRAPHQL"}}],"data":{"nullableUnion":{"__typename":"` + rt + `","friend":null}}}`,
			}
			runWithoutError(tc)(t)
		})
	}
}
