// F62 (C05-R12), reported as existing_3 by a seeding sub-agent. Copy into v2/pkg/astprinter/ and run:
//   cd v2 && go test ./pkg/astprinter -run TestF62_ -count=1
package astprinter

// C05 existing violation #3 - see existing_3.md.
// Drop into v2/pkg/astprinter/ of the UNMODIFIED tree and run:
//   cd v2 && go test ./pkg/astprinter -run TestF62_ -count=1 -v
// Expected on the unmodified tree: FAIL.

import (
	"fmt"
	"testing"

	"github.com/wundergraph/graphql-go-tools/v2/pkg/ast"
	"github.com/wundergraph/graphql-go-tools/v2/pkg/astparser"
	"github.com/wundergraph/graphql-go-tools/v2/pkg/operationreport"
)

func ex3Parse(in string) (doc *ast.Document, err error) {
	defer func() {
		if r := recover(); r != nil {
			err = fmt.Errorf("PANIC: %v", r)
		}
	}()
	d := ast.NewSmallDocument()
	d.Input.ResetInputString(in)
	rep := operationreport.Report{}
	astparser.NewParser().Parse(d, &rep)
	if rep.HasErrors() {
		return nil, fmt.Errorf("parse error: %s", rep.Error())
	}
	return d, nil
}

// ex3RoundTrip: the input must parse; its print must re-parse; printing the re-parsed
// document must give the same text again (fixed point after one round).
func ex3RoundTrip(t *testing.T, in string) (first, second *ast.Document) {
	t.Helper()
	d, err := ex3Parse(in)
	if err != nil {
		t.Fatalf("precondition: input %q must be accepted by the parser: %v", in, err)
	}
	p1, err := PrintString(d)
	if err != nil {
		t.Fatalf("print: %v", err)
	}
	d2, err := ex3Parse(p1)
	if err != nil {
		t.Fatalf("accepted input %q prints as %q which does not re-parse: %v", in, p1, err)
	}
	p2, err := PrintString(d2)
	if err != nil {
		t.Fatalf("print: %v", err)
	}
	if p1 != p2 {
		t.Fatalf("printing is not a fixed point after one round:\ninput:  %q\nprint1: %q\nprint2: %q", in, p1, p2)
	}
	return d, d2
}

// existing_3: after a description, parseInputValueDefinition takes ANY token as the name.
func TestF62_InputValueNameAfterDescription(t *testing.T) {
	for _, in := range []string{
		`input A { "desc" "x y": Int }`,
		`type Q { f("d" "x y": Int): Int }`,
		`directive @d("d" "x y": Int) on FIELD`,
		`input A { "desc" "": Int }`,
		`input A { "desc" 12: Int }`,
		`input A { "desc" $: Int }`,
	} {
		t.Run(in, func(t *testing.T) {
			d, err := ex3Parse(in)
			if err != nil {
				return // rejecting is fine
			}
			name := d.InputValueDefinitionNameString(0)
			t.Errorf("accepted with the input value name %q", name)
			ex3RoundTrip(t, in)
		})
	}
}
