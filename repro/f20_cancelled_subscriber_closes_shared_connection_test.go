package transport

import (
	"context"
	"net/http"
	"net/http/httptest"
	"testing"
	"time"

	"github.com/coder/websocket"
	"github.com/coder/websocket/wsjson"

	"github.com/wundergraph/graphql-go-tools/v2/pkg/engine/datasource/graphql_datasource/subscriptionclient/common"
)

// A is subscribed on a shared connection. B subscribes with the same options and an already cancelled context.
// B's subscribe message is written under B's own context; coder/websocket closes the whole connection when the
// context of a write ends — A, which did nothing, receives a connection error.
func TestF20_CancelledSubscriberTearsDownSharedConnection(t *testing.T) {
	server := httptest.NewServer(http.HandlerFunc(func(w http.ResponseWriter, r *http.Request) {
		conn, err := websocket.Accept(w, r, &websocket.AcceptOptions{Subprotocols: []string{"graphql-transport-ws"}})
		if err != nil {
			return
		}
		defer conn.Close(websocket.StatusNormalClosure, "")
		ctx := r.Context()
		var initMsg map[string]any
		if err := wsjson.Read(ctx, conn, &initMsg); err != nil {
			return
		}
		_ = wsjson.Write(ctx, conn, map[string]string{"type": "connection_ack"})
		for {
			var msg map[string]any
			if err := wsjson.Read(ctx, conn, &msg); err != nil {
				return
			}
		}
	}))
	defer server.Close()

	failed := 0
	const rounds = 200
	for i := 0; i < rounds; i++ {
		tr := newTestWSTransport(t, WSTransportOptions{})
		opts := common.Options{Endpoint: server.URL, Transport: common.TransportWS}
		gotA := make(chan *common.Message, 8)
		cancelA, err := tr.Subscribe(context.Background(), &common.Request{Query: "subscription { a }"}, opts, func(m *common.Message) { gotA <- m })
		if err != nil {
			t.Fatalf("round %d: A: %v", i, err)
		}
		ctxB, cancelB := context.WithCancel(context.Background())
		cancelB()
		if cancel, err := tr.Subscribe(ctxB, &common.Request{Query: "subscription { b }"}, opts, func(*common.Message) {}); err == nil {
			cancel()
		}
		select {
		case m := <-gotA:
			if m.Type == common.MessageTypeConnectionError {
				failed++
			}
		case <-time.After(20 * time.Millisecond):
		}
		cancelA()
	}
	t.Logf("subscriber A received a connection error in %d of %d rounds", failed, rounds)
	if failed > 0 {
		t.Fatalf("DEFECT REPRODUCED: a subscriber with a cancelled context tore down the shared connection: subscriber A failed in %d of %d rounds", failed, rounds)
	}
}
