package introspection

// F99 (C17): type references were resolved through the first node the index holds under the name; the index holds directive
// definitions under their bare name too, and the switch that maps node kinds to __TypeKind had no default: a directive named
// like a type and declared before it made every reference to the type report the zero value, SCALAR.
//   directive @Role(is: Role) on FIELD_DEFINITION  enum Role {ADMIN USER}  type Query { role: Role }
//   Query.role.type.kind = SCALAR, while __type(name:"Role").kind = ENUM.
// Drop into v2/pkg/introspection/ and run
//   cd v2 && go test ./pkg/introspection -run TestF99 -count=1 -v
// Fails before the fix, passes after.

import (
	"testing"

	"github.com/wundergraph/graphql-go-tools/v2/pkg/astparser"
	"github.com/wundergraph/graphql-go-tools/v2/pkg/asttransform"
	"github.com/wundergraph/graphql-go-tools/v2/pkg/operationreport"
)

func TestF99_DirectiveWithTheNameOfAType(t *testing.T) {
	doc, report := astparser.ParseGraphqlDocumentString(`
directive @Role(is: Role) on FIELD_DEFINITION
directive @Auth on OBJECT
enum Role { ADMIN USER }
input Auth { token: String }
type Query { role: Role @Role(is: ADMIN) login(auth: Auth): Role! }
`)
	if report.HasErrors() {
		t.Fatal(report)
	}
	if err := asttransform.MergeDefinitionWithBaseSchema(&doc); err != nil {
		t.Fatal(err)
	}
	var (
		data Data
		rep  operationreport.Report
	)
	NewGenerator().Generate(&doc, &rep, &data)
	if rep.HasErrors() {
		t.Fatal(rep)
	}

	if k := data.Schema.TypeByName("Role").Kind; k != ENUM {
		t.Fatalf("test broken: Role is %s", k)
	}
	query := data.Schema.TypeByName("Query")
	for _, f := range query.Fields {
		switch f.Name {
		case "role":
			if f.Type.Kind != ENUM {
				t.Errorf("Query.role: type Role reported with kind %s, want ENUM", f.Type.Kind)
			}
		case "login":
			if f.Type.Kind != NONNULL || f.Type.OfType.Kind != ENUM {
				t.Errorf("Query.login: type Role! reported as %s of %s, want NON_NULL of ENUM", f.Type.Kind, f.Type.OfType.Kind)
			}
			if f.Args[0].Type.Kind != INPUTOBJECT {
				t.Errorf("Query.login(auth:): type Auth reported with kind %s, want INPUT_OBJECT", f.Args[0].Type.Kind)
			}
		}
	}
}
