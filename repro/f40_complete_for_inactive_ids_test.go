package websocket_test

// existing_3 (C19): on the UNMODIFIED tree the server answers EVERY client "complete" (graphql-ws:
// "stop") with a "complete" message of its own, whether or not an operation with that id is active:
//   - a second terminal message for an id whose operation the server already completed,
//   - a terminal message for an id that never named an operation.
// See existing_3.md.
//
// Drop into execution/subscription/websocket/ and run
//   go test -count=1 -run 'TestC19Existing3' ./subscription/websocket/
// from the execution/ module.

import (
	"bytes"
	"context"
	"encoding/binary"
	"encoding/json"
	"errors"
	"fmt"
	"net"
	"strings"
	"sync"
	"testing"
	"time"

	"github.com/gobwas/ws"

	"github.com/wundergraph/graphql-go-tools/execution/subscription"
	"github.com/wundergraph/graphql-go-tools/execution/subscription/websocket"
	"github.com/wundergraph/graphql-go-tools/v2/pkg/ast"
	"github.com/wundergraph/graphql-go-tools/v2/pkg/engine/resolve"
)

// ---------------------------------------------------------------------------------------------
// recording transport client: everything the server sends (messages and close frames) is appended
// to one ordered trace, which is what the property observes.
// ---------------------------------------------------------------------------------------------

type c19e3Client struct {
	mu        sync.Mutex
	trace     []string
	connected bool
	in        chan []byte
	closed    chan struct{}
}

func newC19e3Client() *c19e3Client {
	return &c19e3Client{connected: true, in: make(chan []byte, 16), closed: make(chan struct{})}
}

func (c *c19e3Client) ReadBytesFromClient() ([]byte, error) {
	select {
	case msg := <-c.in:
		return msg, nil
	case <-c.closed:
		return nil, subscription.ErrTransportClientClosedConnection
	}
}

func (c *c19e3Client) WriteBytesToClient(message []byte) error {
	c.mu.Lock()
	defer c.mu.Unlock()
	if !c.connected {
		return subscription.ErrTransportClientClosedConnection
	}
	c.trace = append(c.trace, string(message))
	return nil
}

func (c *c19e3Client) IsConnected() bool {
	c.mu.Lock()
	defer c.mu.Unlock()
	return c.connected
}

func (c *c19e3Client) Disconnect() error { return c.DisconnectWithReason(nil) }

func (c *c19e3Client) DisconnectWithReason(reason any) error {
	c.mu.Lock()
	defer c.mu.Unlock()
	if !c.connected {
		return nil
	}
	c.connected = false
	c.trace = append(c.trace, "CLOSE "+c19e3CloseCode(reason))
	close(c.closed)
	return nil
}

func c19e3CloseCode(reason any) string {
	switch r := reason.(type) {
	case websocket.CloseReason:
		p := ws.Frame(r).Payload
		if len(p) >= 2 {
			return fmt.Sprintf("%d %s", binary.BigEndian.Uint16(p[:2]), string(p[2:]))
		}
	case websocket.CompiledCloseReason:
		f, err := ws.ReadFrame(bytes.NewReader(r))
		if err == nil && len(f.Payload) >= 2 {
			return fmt.Sprintf("%d %s", binary.BigEndian.Uint16(f.Payload[:2]), string(f.Payload[2:]))
		}
	}
	return fmt.Sprintf("%v", reason)
}

func (c *c19e3Client) send(msg string) { c.in <- []byte(msg) }

func (c *c19e3Client) snapshot() []string {
	c.mu.Lock()
	defer c.mu.Unlock()
	return append([]string(nil), c.trace...)
}

// waitFor waits until the trace contains at least n entries and returns it.
func (c *c19e3Client) waitFor(t *testing.T, n int) []string {
	t.Helper()
	deadline := time.Now().Add(2 * time.Second)
	for time.Now().Before(deadline) {
		if s := c.snapshot(); len(s) >= n {
			return s
		}
		time.Sleep(time.Millisecond)
	}
	t.Fatalf("timed out waiting for %d server outputs, got %q", n, c.snapshot())
	return nil
}

// ---------------------------------------------------------------------------------------------
// fake executor pool: "{ fail }" fails at execution time, everything else answers {"data":{"ok":true}}
// ---------------------------------------------------------------------------------------------

type c19e3Pool struct{}

func (c19e3Pool) Get(payload []byte) (subscription.Executor, error) {
	var req struct {
		Query string `json:"query"`
	}
	if err := json.Unmarshal(payload, &req); err != nil {
		return nil, err
	}
	return &c19e3Executor{query: req.Query}, nil
}

func (c19e3Pool) Put(subscription.Executor) error { return nil }

type c19e3Executor struct {
	query string
	ctx   context.Context
}

func (e *c19e3Executor) Execute(writer resolve.SubscriptionResponseWriter) error {
	if strings.Contains(e.query, "fail") {
		return errors.New("upstream unavailable")
	}
	_, err := writer.Write([]byte(`{"data":{"ok":true}}`))
	return err
}

func (e *c19e3Executor) OperationType() ast.OperationType {
	if strings.HasPrefix(strings.TrimSpace(e.query), "subscription") {
		return ast.OperationTypeSubscription
	}
	return ast.OperationTypeQuery
}

func (e *c19e3Executor) SetContext(ctx context.Context) { e.ctx = ctx }
func (e *c19e3Executor) Reset()                         {}

func c19e3Start(t *testing.T, protocol websocket.Protocol) *c19e3Client {
	t.Helper()
	client := newC19e3Client()
	serverConn, peer := net.Pipe()
	t.Cleanup(func() { _ = peer.Close(); _ = client.Disconnect() })

	done := make(chan bool)
	errChan := make(chan error, 1)
	go websocket.Handle(done, errChan, serverConn, c19e3Pool{},
		websocket.WithProtocol(protocol),
		websocket.WithCustomClient(client),
		websocket.WithCustomKeepAliveInterval(time.Hour),
		websocket.WithCustomSubscriptionUpdateInterval(time.Hour),
	)
	select {
	case <-done:
	case err := <-errChan:
		t.Fatalf("handler did not start: %v", err)
	case <-time.After(2 * time.Second):
		t.Fatal("handler did not start")
	}
	return client
}

func c19e3Check(t *testing.T, protocol websocket.Protocol, startType, stopType, dataType string) {
	client := c19e3Start(t, protocol)

	client.send(`{"type":"connection_init"}`)
	client.waitFor(t, 1)

	// a query: the server sends the result and its terminal "complete" for id 1
	client.send(`{"id":"1","type":"` + startType + `","payload":{"query":"{ ok }"}}`)
	client.waitFor(t, 3)
	time.Sleep(50 * time.Millisecond)

	// the client's own complete/stop for id 1 crosses the server's complete on the wire (the protocol
	// documents this race and requires the receiver to ignore the message)
	client.send(`{"id":"1","type":"` + stopType + `"}`)
	// ... and a complete/stop for an id that was never used
	client.send(`{"id":"never-started","type":"` + stopType + `"}`)
	// a ping/unknown-free way to know both were processed: run one more query and wait for its result
	client.send(`{"id":"2","type":"` + startType + `","payload":{"query":"{ ok }"}}`)
	deadline := time.Now().Add(2 * time.Second)
	for time.Now().Before(deadline) {
		s := client.snapshot()
		if len(s) > 0 && s[len(s)-1] == `{"id":"2","type":"complete"}` {
			break
		}
		time.Sleep(time.Millisecond)
	}

	got := client.snapshot()
	want := []string{
		`{"type":"connection_ack"}`,
		`{"id":"1","type":"` + dataType + `","payload":{"data":{"ok":true}}}`,
		`{"id":"1","type":"complete"}`,
		`{"id":"2","type":"` + dataType + `","payload":{"data":{"ok":true}}}`,
		`{"id":"2","type":"complete"}`,
	}
	if strings.Join(got, "\n") != strings.Join(want, "\n") {
		t.Fatalf("%s: server trace not accepted by the protocol state machine:\n got %q\nwant %q", protocol, got, want)
	}
}

func TestC19Existing3_TransportWS_CompleteIsEchoedForInactiveIds(t *testing.T) {
	c19e3Check(t, websocket.ProtocolGraphQLTransportWS, "subscribe", "complete", "next")
}

func TestC19Existing3_GraphQLWS_StopIsAnsweredForInactiveIds(t *testing.T) {
	c19e3Check(t, websocket.ProtocolGraphQLWS, "start", "stop", "data")
}
