package introspection

// Reproduction of the C17 findings reported by C17-R3 / C17-R4 (generator/converter field agreement):
// the generator records schema description, @specifiedBy, `repeatable`, @deprecated on arguments and
// input fields, and the interfaces an interface implements — JsonConverter reads none of them, so
// toSDL(fromIntrospection(generate(S))) is not equivalent to S.
// Drop into v2/pkg/introspection and run: go test -run TestVerifC17 -count=1 .
// (or, without touching the tree: go test -overlay <json mapping this file into the package>)
// Fails on the pinned tree.

import (
	"bytes"
	"encoding/json"
	"strings"
	"testing"

	"github.com/wundergraph/graphql-go-tools/v2/pkg/astparser"
	"github.com/wundergraph/graphql-go-tools/v2/pkg/astprinter"
	"github.com/wundergraph/graphql-go-tools/v2/pkg/asttransform"
)

func TestVerifC17RoundTripLoss(t *testing.T) {
	const sdl = `
"""schema description"""
schema { query: Query }
directive @tag(name: String! @deprecated(reason: "old arg")) repeatable on FIELD_DEFINITION
scalar DateTime @specifiedBy(url: "https://example.com/datetime")
interface Node { id: ID! }
interface Entity implements Node { id: ID! name: String }
type User implements Entity & Node { id: ID! name: String }
input Filter { old: String @deprecated(reason: "use new") new: String }
type Query { user(filter: Filter, legacy: Int @deprecated(reason: "gone")): User at: DateTime }
`
	doc, rep := astparser.ParseGraphqlDocumentString(sdl)
	if rep.HasErrors() {
		t.Fatal(rep)
	}
	if err := asttransform.MergeDefinitionWithBaseSchema(&doc); err != nil {
		t.Fatal(err)
	}
	var data Data
	NewGenerator().Generate(&doc, &rep, &data)
	if rep.HasErrors() {
		t.Fatal(rep)
	}
	// the generator recorded everything …
	for _, ft := range data.Schema.Types {
		switch ft.Name {
		case "Entity":
			if len(ft.Interfaces) != 1 {
				t.Fatalf("generator: interface Entity should implement Node")
			}
		case "DateTime":
			if ft.SpecifiedByURL == nil {
				t.Fatalf("generator: specifiedByURL missing")
			}
		case "Filter":
			if !ft.InputFields[0].IsDeprecated {
				t.Fatalf("generator: Filter.old should be deprecated")
			}
		}
	}
	js, err := json.Marshal(data)
	if err != nil {
		t.Fatal(err)
	}
	conv := JsonConverter{}
	out, err := conv.GraphQLDocument(bytes.NewReader(js))
	if err != nil {
		t.Fatal(err)
	}
	got, err := astprinter.PrintStringIndent(out, "  ")
	if err != nil {
		t.Fatal(err)
	}
	// … and the converter loses it
	for what, want := range map[string]string{
		"C17-R4 INTERFACE/Interfaces":                      "interface Entity implements Node",
		"C17-R3 Directive.IsRepeatable/read-by-converter":  "repeatable on FIELD_DEFINITION",
		"C17-R3 FullType.SpecifiedByURL/read-by-converter": "scalar DateTime @specifiedBy",
		"C17-R3 InputValue.IsDeprecated/read-by-converter": "old: String @deprecated",
		"C17-R3 InputValue.IsDeprecated (argument)":        "legacy: Int @deprecated",
		"C17-R3 Schema.Description/read-by-converter":      "schema description",
	} {
		if !strings.Contains(got, want) {
			t.Errorf("%s: converted schema lacks %q", what, want)
		}
	}
	if t.Failed() {
		t.Log(got)
	}
}
