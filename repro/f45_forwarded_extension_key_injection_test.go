package resolve

import (
	"bytes"
	"context"
	"encoding/json"
	"testing"

	"github.com/stretchr/testify/require"
	"github.com/wundergraph/astjson"
	"github.com/wundergraph/go-arena"
)

// A subgraph's extensions object is forwarded to the client. Its keys are subgraph-controlled: a key with a quote in it
// must stay one key of `extensions`, it must not be able to close the string and add members of its own.
func TestF45ForwardedExtensionKeysAreEncoded(t *testing.T) {
	ar := arena.NewMonotonicArena(arena.WithMinBufferSize(1024))
	res := NewResolvable(ar, ResolvableOptions{})
	ctx := NewContext(context.Background())
	require.NoError(t, res.Init(ctx, []byte(`{"a":1}`), 0))
	ext, err := astjson.ParseBytes([]byte(`{"k\",\"injected\":true,\"x":1}`))
	require.NoError(t, err)
	obj, err := ext.Object()
	require.NoError(t, err)
	res.subgraphExtensions = append(res.subgraphExtensions, obj)
	out := &bytes.Buffer{}
	require.NoError(t, res.Resolve(ctx.ctx, &Object{Fields: []*Field{{Name: []byte("a"), Value: &Integer{Path: []string{"a"}}}}}, nil, out))
	var doc struct {
		Extensions map[string]json.RawMessage `json:"extensions"`
	}
	require.NoError(t, json.Unmarshal(out.Bytes(), &doc), "response must be valid JSON: %s", out.String())
	_, injected := doc.Extensions["injected"]
	require.False(t, injected, "a subgraph-controlled key added a member of its own to extensions: %s", out.String())
	require.Contains(t, doc.Extensions, `k","injected":true,"x`, "the key is forwarded as one (escaped) key: %s", out.String())
}
