package client_test

// existing_2 (C18, unmodified tree): the first subscriber's own DEADLINE (not a cancellation) fails
// every other subscriber that was coalesced onto its dial, with "connection_ack timeout", although
// the configured AckTimeout is far away and the other subscribers have no deadline at all.
//
// Drop into: v2/pkg/engine/datasource/graphql_datasource/subscriptionclient/
// Run:       cd v2 && go test -count=1 -run TestC18Existing2 -v ./pkg/engine/datasource/graphql_datasource/subscriptionclient/

import (
	"context"
	"net/http"
	"net/http/httptest"
	"sync/atomic"
	"testing"
	"time"

	"github.com/coder/websocket"
	"github.com/coder/websocket/wsjson"

	client "github.com/wundergraph/graphql-go-tools/v2/pkg/engine/datasource/graphql_datasource/subscriptionclient"
)

// the first accepted connection is acked only after ackDelay, all later ones at once
func c18e2Server(t *testing.T, ackDelay time.Duration) *httptest.Server {
	var accepted atomic.Int32
	srv := httptest.NewServer(http.HandlerFunc(func(w http.ResponseWriter, r *http.Request) {
		c, err := websocket.Accept(w, r, &websocket.AcceptOptions{Subprotocols: []string{"graphql-transport-ws"}})
		if err != nil {
			return
		}
		n := accepted.Add(1)
		defer c.Close(websocket.StatusNormalClosure, "")
		ctx := r.Context()
		for {
			var m map[string]any
			if err := wsjson.Read(ctx, c, &m); err != nil {
				return
			}
			switch m["type"] {
			case "connection_init":
				if n == 1 {
					time.Sleep(ackDelay)
				}
				_ = wsjson.Write(ctx, c, map[string]string{"type": "connection_ack"})
			case "subscribe":
				_ = wsjson.Write(ctx, c, map[string]any{"id": m["id"], "type": "next",
					"payload": map[string]any{"data": map[string]any{"ok": true}}})
			}
		}
	}))
	t.Cleanup(srv.Close)
	return srv
}

func TestC18Existing2_DialersDeadlineFailsCoalescedWaiters(t *testing.T) {
	srv := c18e2Server(t, 500*time.Millisecond)

	cl := client.New(t.Context(), client.Config{AckTimeout: 30 * time.Second})
	opts := client.Options{Endpoint: srv.URL, Transport: client.TransportWS}

	// A: short-lived request context (e.g. a gateway request timeout); it performs the dial
	ctxA, cancelA := context.WithTimeout(context.Background(), 150*time.Millisecond)
	defer cancelA()
	errA := make(chan error, 1)
	go func() {
		_, err := cl.Subscribe(ctxA, &client.Request{Query: "subscription { a }"}, opts, func(*client.Message) {})
		errA <- err
	}()
	time.Sleep(50 * time.Millisecond)

	// B: no deadline, same connection key -> waits for A's dial
	start := time.Now()
	chB := make(chan *client.Message, 4)
	cancelB, err := cl.Subscribe(context.Background(), &client.Request{Query: "subscription { b }"}, opts,
		func(m *client.Message) { chB <- m })
	t.Logf("A: %v", <-errA)
	if err != nil {
		t.Fatalf("subscriber B (no deadline, AckTimeout=30s) failed after %v because of subscriber A's deadline: %v",
			time.Since(start).Round(time.Millisecond), err)
	}
	defer cancelB()
	select {
	case m := <-chB:
		if m.Type != client.MessageTypeData {
			t.Fatalf("B: got %v (%v)", m.Type, m.Err)
		}
	case <-time.After(3 * time.Second):
		t.Fatal("B: no data")
	}
}
