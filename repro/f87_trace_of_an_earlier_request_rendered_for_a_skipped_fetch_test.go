package engine

// F87 (C09): with tracing enabled the loader stores the trace of a fetch (subgraph input and output) on the fetch node of
// the cached, shared plan; a fetch that was skipped (its dependency failed) kept the trace of an EARLIER request and the
// response rendered it: request 2's extensions.trace carried request 1's subgraph input and output.
// Drop into execution/engine/ and run
//   cd execution && go test ./engine -run TestF87 -count=1
// Fails before the fix, passes after.

import (
	"bytes"
	"context"
	"errors"
	"io"
	"net/http"
	"strings"
	"sync/atomic"
	"testing"

	"github.com/jensneuse/abstractlogger"
	"github.com/stretchr/testify/require"

	"github.com/wundergraph/graphql-go-tools/execution/graphql"
	"github.com/wundergraph/graphql-go-tools/v2/pkg/engine/datasource/graphql_datasource"
	"github.com/wundergraph/graphql-go-tools/v2/pkg/engine/plan"
	"github.com/wundergraph/graphql-go-tools/v2/pkg/engine/resolve"
)

const c09e5Schema = `
	type Query { me: User }
	type User { id: ID! secret: String }
`
const c09e5AccountsSDL = `
	type Query { me: User }
	type User @key(fields: "id") { id: ID! }
`
const c09e5SecretsSDL = `
	type User @key(fields: "id") { id: ID! secret: String }
`

func c09e5Engine(t *testing.T, accountsDown *atomic.Bool) *ExecutionEngine {
	t.Helper()
	rt := testRoundTripper(func(req *http.Request) *http.Response {
		reply := func(body string) *http.Response {
			return &http.Response{StatusCode: 200, Body: io.NopCloser(bytes.NewBufferString(body))}
		}
		if req.URL.Host == "accounts" {
			if accountsDown.Load() {
				return nil // transport error, see c09e5Transport
			}
			return reply(`{"data":{"me":{"__typename":"User","id":"user-of-request-1"}}}`)
		}
		return reply(`{"data":{"_entities":[{"__typename":"User","secret":"SECRET-OF-REQUEST-1"}]}}`)
	})
	client := &http.Client{Transport: c09e5Transport{rt}}

	accounts := mustGraphqlDataSourceConfiguration(t, "accounts", mustFactory(t, client),
		&plan.DataSourceMetadata{
			RootNodes: []plan.TypeField{
				{TypeName: "Query", FieldNames: []string{"me"}},
				{TypeName: "User", FieldNames: []string{"id"}},
			},
			FederationMetaData: plan.FederationMetaData{Keys: plan.FederationFieldConfigurations{{TypeName: "User", SelectionSet: "id"}}},
		},
		mustConfiguration(t, graphql_datasource.ConfigurationInput{
			Fetch: &graphql_datasource.FetchConfiguration{URL: "http://accounts/", Method: "POST"},
			SchemaConfiguration: mustSchemaConfig(t,
				&graphql_datasource.FederationConfiguration{Enabled: true, ServiceSDL: c09e5AccountsSDL}, c09e5AccountsSDL),
		}))
	secrets := mustGraphqlDataSourceConfiguration(t, "secrets", mustFactory(t, client),
		&plan.DataSourceMetadata{
			RootNodes:          []plan.TypeField{{TypeName: "User", FieldNames: []string{"id", "secret"}}},
			FederationMetaData: plan.FederationMetaData{Keys: plan.FederationFieldConfigurations{{TypeName: "User", SelectionSet: "id"}}},
		},
		mustConfiguration(t, graphql_datasource.ConfigurationInput{
			Fetch: &graphql_datasource.FetchConfiguration{URL: "http://secrets/", Method: "POST"},
			SchemaConfiguration: mustSchemaConfig(t,
				&graphql_datasource.FederationConfiguration{Enabled: true, ServiceSDL: c09e5SecretsSDL}, c09e5SecretsSDL),
		}))

	schema, err := graphql.NewSchemaFromString(c09e5Schema)
	require.NoError(t, err)
	conf := NewConfiguration(schema)
	conf.SetDataSources([]plan.DataSource{accounts, secrets})
	eng, err := NewExecutionEngine(context.Background(), abstractlogger.Noop{}, conf, resolve.ResolverOptions{MaxConcurrency: 8})
	require.NoError(t, err)
	return eng
}

// c09e5Transport turns a nil response of the inner round tripper into a transport error.
type c09e5Transport struct{ inner testRoundTripper }

func (c c09e5Transport) RoundTrip(req *http.Request) (*http.Response, error) {
	if resp := c.inner(req); resp != nil {
		return resp, nil
	}
	return nil, errors.New("connection refused")
}

func c09e5Exec(t *testing.T, eng *ExecutionEngine) string {
	t.Helper()
	req := graphql.Request{Query: `{ me { secret } }`}
	w := graphql.NewEngineResultWriter()
	err := eng.Execute(context.Background(), &req, &w, WithRequestTraceOptions(resolve.TraceOptions{
		Enable:                                 true,
		ExcludePlannerStats:                    true,
		ExcludeLoadStats:                       true,
		EnablePredictableDebugTimings:          true,
		IncludeTraceOutputInResponseExtensions: true,
	}))
	require.NoError(t, err)
	return w.String()
}

func TestF87_TraceOfAPreviousRequestLeaksThroughTheCachedPlan(t *testing.T) {
	// reference: a fresh engine whose accounts subgraph is down
	down := &atomic.Bool{}
	down.Store(true)
	fresh := c09e5Exec(t, c09e5Engine(t, down))
	require.NotContains(t, fresh, "SECRET-OF-REQUEST-1")
	require.NotContains(t, fresh, "user-of-request-1")

	// one engine: request 1 succeeds, then accounts goes down, request 2 is served from the cached plan
	var flaky atomic.Bool
	eng := c09e5Engine(t, &flaky)
	first := c09e5Exec(t, eng)
	require.True(t, strings.Contains(first, `"data":{"me":{"secret":"SECRET-OF-REQUEST-1"}}`), first)

	flaky.Store(true)
	second := c09e5Exec(t, eng)
	t.Logf("fresh engine : %s", fresh)
	t.Logf("cached plan  : %s", second)

	require.NotContains(t, second, "SECRET-OF-REQUEST-1", "the response of request 2 carries subgraph output of request 1")
	require.NotContains(t, second, "user-of-request-1", "the response of request 2 carries subgraph input of request 1")
	require.Equal(t, fresh, second, "served from the plan cache the response differs from a fresh engine")
}
