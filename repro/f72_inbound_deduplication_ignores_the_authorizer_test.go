// F72 (C14-R6), reported as existing 1 by a seeding sub-agent. Copy into v2/pkg/engine/resolve/ and run:
//   cd v2 && go test ./pkg/engine/resolve -run TestF72 -count=1 -v
package resolve

import (
	"bytes"
	"context"
	"encoding/json"
	"net/http"
	"strings"
	"sync"
	"testing"
	"time"

	"github.com/stretchr/testify/require"

	"github.com/wundergraph/graphql-go-tools/v2/pkg/engine/datasource/httpclient"
)

// c14GateDataSource blocks in Load until released, signalling when the (leader) fetch started.
type c14GateDataSource struct {
	started chan struct{}
	release chan struct{}
	once    sync.Once
	body    []byte
}

func (d *c14GateDataSource) Load(ctx context.Context, headers http.Header, input []byte) ([]byte, error) {
	d.once.Do(func() { close(d.started) })
	<-d.release
	return d.body, nil
}

func (d *c14GateDataSource) LoadWithFiles(ctx context.Context, headers http.Header, input []byte, files []*httpclient.FileUpload) ([]byte, error) {
	return d.Load(ctx, headers, input)
}

// Two concurrent requests for the same operation (same Request.ID, variables, subgraph headers) but with
// DIFFERENT authorization decisions: the first one (leader) may read Query.secret, the second one (follower)
// is denied. Inbound request de-duplication hands the leader's rendered bytes to the follower, so the
// follower receives the value of a field that was denied for it, and no error.
func TestF72InboundDeduplicationAndAuthorization_InboundSingleFlightSharesResponseAcrossAuthorizationDecisions(t *testing.T) {
	for _, mode := range []string{"prefetch", "postfetch", "control-dedup-disabled-prefetch"} {
		t.Run(mode, func(t *testing.T) {
			control := mode == "control-dedup-disabled-prefetch"
			if control {
				mode = "prefetch"
			}
			ds := &c14GateDataSource{
				started: make(chan struct{}),
				release: make(chan struct{}),
				body:    []byte(`{"data":{"public":"visible","secret":"SENTINEL"}}`),
			}
			response := sharedRootFieldResponse(ds)
			response.Info.AuthorizationCoordinates = []AuthorizationCoordinate{
				{DataSourceID: "accounts", Coordinate: GraphCoordinate{TypeName: "Query", FieldName: "secret"}},
			}

			newCtx := func(deny bool) *Context {
				c := NewContext(context.Background())
				c.Request.ID = 4711
				c.VariablesHash = 1
				// the control shows the expected outcome: without de-duplication the follower gets its own denial
				c.ExecutionOptions.DisableInboundRequestDeduplication = control
				if mode == "prefetch" {
					a := &batchTestAuthorizer{}
					if deny {
						a.decisions = map[GraphCoordinate]AuthorizationDecision{{TypeName: "Query", FieldName: "secret"}: {Allowed: false, Reason: "no"}}
					}
					c.SetPreFetchFieldAuthorizer(a)
				} else {
					a := &resolvableAuthorizationAuthorizer{}
					if deny {
						a.authorizeObjectField = func(ctx *Context, dataSourceID string, object json.RawMessage, coordinate GraphCoordinate) (*AuthorizationDeny, error) {
							return &AuthorizationDeny{Reason: "no"}, nil
						}
					}
					c.SetAuthorizer(a)
				}
				return c
			}

			resolver := newResolver(context.Background())

			var leaderBuf, followerBuf bytes.Buffer
			var leaderErr, followerErr error
			var wg sync.WaitGroup
			wg.Add(2)
			go func() {
				defer wg.Done()
				_, leaderErr = resolver.ArenaResolveGraphQLResponse(newCtx(false), response, &leaderBuf)
			}()
			<-ds.started // the leader is inside its subgraph fetch
			go func() {
				defer wg.Done()
				_, followerErr = resolver.ArenaResolveGraphQLResponse(newCtx(true), response, &followerBuf)
			}()
			time.Sleep(200 * time.Millisecond) // let the follower join the in-flight request
			close(ds.release)
			wg.Wait()
			require.NoError(t, leaderErr)
			require.NoError(t, followerErr)

			require.Contains(t, leaderBuf.String(), "SENTINEL", "leader is allowed to see the secret")
			if strings.Contains(followerBuf.String(), "SENTINEL") {
				t.Fatalf("follower was DENIED Query.secret but received it: %s", followerBuf.String())
			}
			require.Contains(t, followerBuf.String(), "UNAUTHORIZED_FIELD_OR_TYPE")
		})
	}
}
