package resolve

import (
	"bytes"
	"context"
	"strings"
	"testing"
)

// A subscription event whose "errors" member is null is stored as Resolvable.errors as it comes; the array is then never
// created and appending to a non-array silently does nothing: data is nulled and no error is reported.
func TestF23_SubscriptionEventWithNullErrorsSwallowsNullabilityError(t *testing.T) {
	for _, event := range []string{`{"data":{"counter":null},"errors":null}`, `{"data":{"counter":null},"errors":{}}`, `{"data":{"counter":null}}`} {
		res := NewResolvable(nil, ResolvableOptions{})
		err := res.InitSubscription(&Context{}, []byte(event), PostProcessingConfiguration{
			SelectResponseDataPath:   []string{"data"},
			SelectResponseErrorsPath: []string{"errors"},
		})
		if err != nil {
			t.Fatal(err)
		}
		root := &Object{Fields: []*Field{{Name: []byte("counter"), Value: &Integer{Path: []string{"counter"}}}}}
		out := &bytes.Buffer{}
		if err := res.Resolve(context.Background(), root, nil, out); err != nil {
			t.Fatal(err)
		}
		t.Logf("%s -> %s", event, out.String())
		if !strings.Contains(out.String(), `"errors"`) {
			t.Errorf("DEFECT REPRODUCED: event %s: the non-null field was nulled but no error is reported: %s", event, out.String())
		}
	}
}
