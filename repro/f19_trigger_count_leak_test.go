package resolve

import (
	"bytes"
	"context"
	"net/http"
	"sync"
	"sync/atomic"
	"testing"
	"time"

	"github.com/cespare/xxhash/v2"
)

type f19Reporter struct {
	subs, triggers atomic.Int64
}

func (r *f19Reporter) SubscriptionUpdateSent()        {}
func (r *f19Reporter) SubscriptionCountInc(count int) { r.subs.Add(int64(count)) }
func (r *f19Reporter) SubscriptionCountDec(count int) { r.subs.Add(-int64(count)) }
func (r *f19Reporter) TriggerCountInc(count int)      { r.triggers.Add(int64(count)) }
func (r *f19Reporter) TriggerCountDec(count int)      { r.triggers.Add(-int64(count)) }

type f19Source struct{ started chan struct{} }

func (s *f19Source) HashTriggerInput(input []byte, xxh *xxhash.Digest) error {
	_, err := xxh.Write(input)
	return err
}

func (s *f19Source) Start(ctx *Context, headers http.Header, input []byte, updater SubscriptionUpdater) error {
	select {
	case s.started <- struct{}{}:
	default:
	}
	return nil
}

// A subscriber leaves exactly while the start goroutine marks its trigger initialized.
func TestF19_TriggerCountReturnsToZero(t *testing.T) {
	rctx, cancel := context.WithCancel(context.Background())
	defer cancel()
	rep := &f19Reporter{}
	r := New(rctx, ResolverOptions{MaxConcurrency: 1024, AsyncErrorWriter: &TestErrorWriter{}, SubscriptionHeartbeatInterval: time.Hour, Reporter: rep})
	src := &f19Source{started: make(chan struct{}, 1)}
	for round := 0; round < 20000; round++ {
		plan := &GraphQLSubscription{
			Trigger: GraphQLSubscriptionTrigger{
				Source:         src,
				InputTemplate:  InputTemplate{Segments: []TemplateSegment{{SegmentType: StaticSegmentType, Data: []byte(`{"url":"http://localhost:4000","body":{"query":"subscription { counter }"}}`)}}},
				PostProcessing: PostProcessingConfiguration{SelectResponseDataPath: []string{"data"}},
			},
			Response: &GraphQLResponse{Data: &Object{Fields: []*Field{{Name: []byte("counter"), Value: &Integer{Path: []string{"counter"}}}}}},
		}
		id := SubscriptionIdentifier{ConnectionID: ConnectionID(round + 1), SubscriptionID: 1}
		rec := &SubscriptionRecorder{buf: &bytes.Buffer{}, messages: []string{}}
		if err := r.AsyncResolveGraphQLSubscription(NewContext(context.Background()), plan, rec, id); err != nil {
			t.Fatal(err)
		}
		var wg sync.WaitGroup
		wg.Add(1)
		go func() {
			defer wg.Done()
			<-src.started // Start is running: the start goroutine is about to mark the trigger initialized
			for i := 0; i < round%64; i++ {
				_ = i
			}
			_ = r.UnsubscribeSubscription(id)
		}()
		wg.Wait()
		// wait until the start goroutine is through
		deadline := time.Now().Add(2 * time.Second)
		for time.Now().Before(deadline) {
			r.mu.Lock()
			n := len(r.triggers)
			r.mu.Unlock()
			if n == 0 {
				break
			}
			time.Sleep(50 * time.Microsecond)
		}
		time.Sleep(20 * time.Microsecond)
		if rep.triggers.Load() != 0 && round%500 == 499 {
			// give stragglers time, then decide
			time.Sleep(20 * time.Millisecond)
			if got := rep.triggers.Load(); got != 0 {
				t.Fatalf("DEFECT REPRODUCED: after %d rounds with no subscriber left the trigger counter is %d (subscriptions %d)", round+1, got, rep.subs.Load())
			}
		}
	}
	time.Sleep(50 * time.Millisecond)
	if got := rep.triggers.Load(); got != 0 {
		t.Fatalf("DEFECT REPRODUCED: with no subscriber left the trigger counter is %d (subscriptions %d)", got, rep.subs.Load())
	}
}
