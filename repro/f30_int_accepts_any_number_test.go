package variablesvalidation

// existing_3 (C06): for the built-in scalars the validator only looks at the JSON kind.
// Any JSON number is accepted for Int (fractions, exponents, values outside the signed 32-bit
// range) and for ID (fractions), although the GraphQL input-coercion rules reject them
// (spec 3.5.1 Int: "integer input values ... if the value does not fit 32-bit or has a
// fractional part -> request error"; 3.5.5 ID: string or integer). The error text of the
// library itself says "Int cannot represent non-integer value".
//
// Goes into v2/pkg/variablesvalidation/ ; run:
//   cd v2 && go test -count=1 -run TestC06Existing3 ./pkg/variablesvalidation/

import (
	"testing"

	"github.com/stretchr/testify/assert"
	"github.com/stretchr/testify/require"
)

func TestC06Existing3_IntAndIDAcceptNonIntegers(t *testing.T) {
	schema := `type Query { hello(i: Int, id: ID, in: In): String } input In { i: Int! ids: [ID!] }`

	// controls
	require.NoError(t, runTest(t, testCase{schema: schema, operation: `query Q($v: Int) { hello(i: $v) }`, variables: `{"v": 2147483647}`}))
	require.NoError(t, runTest(t, testCase{schema: schema, operation: `query Q($v: Int) { hello(i: $v) }`, variables: `{"v": -2147483648}`}))
	require.Error(t, runTest(t, testCase{schema: schema, operation: `query Q($v: Int) { hello(i: $v) }`, variables: `{"v": "1"}`}))

	for _, c := range []struct{ operation, variables string }{
		{`query Q($v: Int) { hello(i: $v) }`, `{"v": 1.5}`},
		{`query Q($v: Int) { hello(i: $v) }`, `{"v": 1e100}`},
		{`query Q($v: Int) { hello(i: $v) }`, `{"v": 2147483648}`},
		{`query Q($v: Int!) { hello(i: $v) }`, `{"v": -99999999999999999999}`},
		{`query Q($v: [Int!]) { hello(i: 1) }`, `{"v": [1, 0.1]}`},
		{`query Q($v: In) { hello(in: $v) }`, `{"v": {"i": 3.14}}`},
		{`query Q($v: ID) { hello(id: $v) }`, `{"v": 1.5}`},
		{`query Q($v: In) { hello(in: $v) }`, `{"v": {"i": 1, "ids": ["a", 2, 2.5]}}`},
	} {
		t.Run(c.operation+" "+c.variables, func(t *testing.T) {
			assert.Error(t, runTest(t, testCase{schema: schema, operation: c.operation, variables: c.variables}), "not coercible, but accepted")
		})
	}
}
