// F84 (C01-R14), reported as existing_4 by a seeding sub-agent. Needs the agent's harness f84_support/c01_model_test.go as well:
// copy both into execution/engine/ and run: cd execution && go test -count=1 -run TestF84 ./engine/
package engine

// existing_4 (C01): goes into execution/engine/ together with c01_model_test.go.
//
//	cd execution && go test -count=1 -run TestF84 ./engine/
//
// Configuration plumbing: FederationEngineConfigFactory.dataSourceMetaData (config_factory_federation.go)
// copies type_name / field_name / selection_set of the router config keys but DROPS `disable_entity_resolver`
// (@key(resolvable: false)), and it drops `external_field_names` of root/child nodes as well.
// A gateway built from a RouterConfig therefore believes that it can enter a subgraph through a key the
// subgraph cannot resolve, and sends it an _entities request.
// The same layout wired by hand (plan.DataSourceMetadata with DisableEntityResolver: true) works.

import "testing"

func c01Existing4Scenario(t *testing.T, viaRouterConfig bool) *c01Scenario {
	super := `
		type Query { me: User reviewedProducts: [Product!]! }
		type User { id: ID! favorite: Product }
		type Product { upc: String! name: String }
	`
	accounts := &c01Subgraph{name: "accounts", sdl: `
		type Query { me: User }
		type User { id: ID! favorite: Product }
		type Product @key(fields: "upc", resolvable: false) { upc: String! }
	`}
	// reviews can serve Product.name for the products it returns itself, but has no reference resolver
	reviews := &c01Subgraph{name: "reviews", sdl: `
		type Query { reviewedProducts: [Product!]! }
		type Product @key(fields: "upc", resolvable: false) { upc: String! name: String }
	`}
	products := &c01Subgraph{name: "products", sdl: `
		type Product @key(fields: "upc") { upc: String! name: String }
	`}
	u := &c01Universe{entities: map[string][]*c01Obj{}, query: map[string]any{}}
	p1 := c01NewObj("Product", "upc", "p1", "name", "Table")
	u.entities["Product"] = []*c01Obj{p1}
	u.query["me"] = c01NewObj("User", "id", "u1", "favorite", p1)
	u.query["reviewedProducts"] = []any{p1}
	if viaRouterConfig {
		return c01NewScenarioViaRouterConfig(t, super, u, accounts, reviews, products)
	}
	return c01NewScenario(t, super, u, accounts, reviews, products)
}

func TestF84_HandMadeMetadataWorks(t *testing.T) {
	sc := c01Existing4Scenario(t, false)
	sc.check(t, `{ me { favorite { name } } }`, ``)
	sc.check(t, `{ reviewedProducts { name } }`, ``)
}

func TestF84_RouterConfigDropsResolvableFalse(t *testing.T) {
	sc := c01Existing4Scenario(t, true)
	sc.check(t, `{ reviewedProducts { name } }`, ``)
	// the gateway sends _entities(representations: [{__typename: "Product", upc: "p1"}]) to `reviews`
	sc.check(t, `{ me { favorite { name } } }`, ``)
}
