package astnormalization

// F92 (C03): variable canonicalisation (VariablesMapper) produced an invalid operation.
//  - a variable used inside a list / object literal (directive arguments are never extracted) was not recorded: its
//    definition and direct uses were renamed, the nested use kept the old name:
//    query Q($x: String){ a @tag(names: [$x]) echo(s: $x) }  ->  query Q($a: String){a @tag(names: [$x]) echo(s: $a)}
//  - generated names avoided only names already handed out, not the names of definitions that keep theirs (Upload):
//    mutation Q($a: Upload, $title: String){ upload(file: $a, title: $title) }  ->  ($a: Upload, $a: String){upload(file: $a, title: $a)}
// Drop into v2/pkg/astnormalization/ and run
//   cd v2 && go test ./pkg/astnormalization/ -run TestF92 -count=1 -v
// Fails before the fix, passes after.

import (
	"testing"

	"github.com/wundergraph/graphql-go-tools/v2/pkg/astprinter"
	"github.com/wundergraph/graphql-go-tools/v2/pkg/astvalidation"
	"github.com/wundergraph/graphql-go-tools/v2/pkg/internal/unsafeparser"
	"github.com/wundergraph/graphql-go-tools/v2/pkg/operationreport"
)

const c03e5Schema = `
directive @tag(names: [String]) on FIELD
scalar Upload
type Query { a: String echo(s: String): String }
type Mutation { upload(file: Upload, title: String): String }
`

func c03e5Remap(t *testing.T, operation, variables string) (printed string, mapping map[string]string, validationErr string) {
	t.Helper()
	def := unsafeparser.ParseGraphqlDocumentStringWithBaseSchema(c03e5Schema)
	doc := unsafeparser.ParseGraphqlDocumentString(operation)
	doc.Input.Variables = []byte(variables)

	rep := operationreport.Report{}
	astvalidation.DefaultOperationValidator().Validate(&doc, &def, &rep)
	if rep.HasErrors() {
		t.Fatalf("input operation invalid: %s", rep.Error())
	}

	mapping = NewVariablesMapper().NormalizeOperation(&doc, &def, &rep)
	if rep.HasErrors() {
		t.Fatalf("variables mapper failed: %s", rep.Error())
	}
	printed, _ = astprinter.PrintString(&doc)

	vrep := operationreport.Report{}
	astvalidation.DefaultOperationValidator().Validate(&doc, &def, &vrep)
	if vrep.HasErrors() {
		validationErr = vrep.Error()
	}
	return
}

func TestF92_VariablesMapperProducesInvalidOperation(t *testing.T) {
	t.Run("control", func(t *testing.T) {
		out, m, verr := c03e5Remap(t, `query Q($x: String){ a @tag(names: ["n"]) echo(s: $x) }`, `{"x":"1"}`)
		if out != `query Q($a: String){a @tag(names: ["n"]) echo(s: $a)}` || m["a"] != "x" || verr != "" {
			t.Errorf("got %s %v %s", out, m, verr)
		}
	})

	t.Run("variable nested in a list value of a directive argument", func(t *testing.T) {
		out, _, verr := c03e5Remap(t, `query Q($x: String){ a @tag(names: [$x]) echo(s: $x) }`, `{"x":"1"}`)
		if verr != "" {
			t.Errorf("remapped operation is invalid: %s\n  remapped: %s", verr, out)
		}
		if out != `query Q($a: String){a @tag(names: [$a]) echo(s: $a)}` {
			t.Errorf("\n got: %s\nwant: %s", out, `query Q($a: String){a @tag(names: [$a]) echo(s: $a)}`)
		}
	})

	t.Run("upload variable named like a generated name", func(t *testing.T) {
		out, _, verr := c03e5Remap(t, `mutation Q($a: Upload, $title: String){ upload(file: $a, title: $title) }`, `{"a":null,"title":"t"}`)
		if verr != "" {
			t.Errorf("remapped operation is invalid: %s\n  remapped: %s", verr, out)
		}
	})
}
