package engine

// F63 (C09-R9), reported as existing_3 by a seeding sub-agent: planning depends on the operations planned before.
//
// graphql_datasource.Planner.printOperation fetches the data source's parsed
// upstream schema (Configuration.UpstreamSchema returns the shared *ast.Document)
// and replaceQueryType MUTATES it for a nested, non-federated use of the data
// source: the Query type is removed and the root operation type is pointed at the
// parent type of the nested field. The document is shared by every later plan of
// the engine, so after one operation used the data source in nested position, an
// operation that uses the same data source at the root can no longer be planned.
//
// Drop into execution/engine/ and run:
//   cd execution && go test ./engine -run TestF63 -count=1

import (
	"bytes"
	"context"
	"io"
	"net/http"
	"testing"

	"github.com/jensneuse/abstractlogger"
	"github.com/stretchr/testify/require"

	"github.com/wundergraph/graphql-go-tools/execution/graphql"
	"github.com/wundergraph/graphql-go-tools/v2/pkg/engine/datasource/graphql_datasource"
	"github.com/wundergraph/graphql-go-tools/v2/pkg/engine/plan"
	"github.com/wundergraph/graphql-go-tools/v2/pkg/engine/resolve"
)

const c09e3Schema = `
	type Query {
		serviceOne: ServiceOneResponse
		serviceTwo: ServiceTwoResponse
	}
	type ServiceOneResponse {
		fieldOne: String
	}
	type ServiceTwoResponse {
		fieldTwo: String
		extra: Extra
	}
	type Extra { name: String }
`

func c09e3Engine(t *testing.T) *ExecutionEngine {
	t.Helper()
	schema, err := graphql.NewSchemaFromString(c09e3Schema)
	require.NoError(t, err)
	rt := testRoundTripper(func(req *http.Request) *http.Response {
		resp := `{"data":{"serviceOne":{"fieldOne":"one"},"serviceTwo":{"fieldTwo":"two"},"extra":{"name":"x"}}}`
		return &http.Response{StatusCode: 200, Body: io.NopCloser(bytes.NewBufferString(resp))}
	})
	// service "one" owns Query.serviceOne and, nested, ServiceTwoResponse.extra
	one := mustGraphqlDataSourceConfiguration(t, "one",
		mustFactory(t, &http.Client{Transport: rt}),
		&plan.DataSourceMetadata{
			RootNodes: []plan.TypeField{
				{TypeName: "Query", FieldNames: []string{"serviceOne"}},
				{TypeName: "ServiceTwoResponse", FieldNames: []string{"extra"}},
			},
			ChildNodes: []plan.TypeField{
				{TypeName: "ServiceOneResponse", FieldNames: []string{"fieldOne"}},
				{TypeName: "Extra", FieldNames: []string{"name"}},
			},
		},
		mustConfiguration(t, graphql_datasource.ConfigurationInput{
			Fetch:               &graphql_datasource.FetchConfiguration{URL: "http://one/", Method: "POST"},
			SchemaConfiguration: mustSchemaConfig(t, nil, c09e3Schema),
		}),
	)
	two := mustGraphqlDataSourceConfiguration(t, "two",
		mustFactory(t, &http.Client{Transport: rt}),
		&plan.DataSourceMetadata{
			RootNodes:  []plan.TypeField{{TypeName: "Query", FieldNames: []string{"serviceTwo"}}},
			ChildNodes: []plan.TypeField{{TypeName: "ServiceTwoResponse", FieldNames: []string{"fieldTwo"}}},
		},
		mustConfiguration(t, graphql_datasource.ConfigurationInput{
			Fetch:               &graphql_datasource.FetchConfiguration{URL: "http://two/", Method: "POST"},
			SchemaConfiguration: mustSchemaConfig(t, nil, c09e3Schema),
		}),
	)
	conf := NewConfiguration(schema)
	conf.SetDataSources([]plan.DataSource{one, two})
	eng, err := NewExecutionEngine(context.Background(), abstractlogger.Noop{}, conf, resolve.ResolverOptions{MaxConcurrency: 8})
	require.NoError(t, err)
	return eng
}

func TestF63PlanningDoesNotDependOnEarlierPlans(t *testing.T) {
	exec := func(eng *ExecutionEngine, query string) (string, error) {
		req := graphql.Request{Query: query}
		w := graphql.NewEngineResultWriter()
		err := eng.Execute(context.Background(), &req, &w)
		return w.String(), err
	}

	want, err := exec(c09e3Engine(t), `{ serviceOne { fieldOne } }`)
	require.NoError(t, err)
	require.Equal(t, `{"data":{"serviceOne":{"fieldOne":"one"}}}`, want)

	eng := c09e3Engine(t)
	got, err := exec(eng, `{ serviceTwo { fieldTwo extra { name } } }`)
	require.NoError(t, err)
	require.Equal(t, `{"data":{"serviceTwo":{"fieldTwo":"two","extra":{"name":"x"}}}}`, got)

	got, err = exec(eng, `{ serviceOne { fieldOne } }`)
	require.NoError(t, err, "the operation can be planned on a fresh engine but not after the previous operation")
	require.Equal(t, want, got)
}
