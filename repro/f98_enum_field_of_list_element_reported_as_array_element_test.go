package resolve

// F98 (C02): an inaccessible enum value in a FIELD of an object that is itself a list element was reported as an array
// element: renderInaccessibleEnumValueError decided "array element" from the current path alone (it ends in an index; the
// field's own path has not been pushed yet). users: [User], User.status: Status, INTERNAL inaccessible, users[1].status:
//   {"message":"Invalid value found for array element of type Status at index 1.","path":["users",1]}
// instead of an error about field User.status with path ["users",1,"status"].
// Drop into v2/pkg/engine/resolve/ and run
//   cd v2 && go test ./pkg/engine/resolve -run TestF98 -count=1 -v
// Fails before the fix, passes after.

import (
	"bytes"
	"context"
	"encoding/json"
	"testing"

	"github.com/wundergraph/graphql-go-tools/v2/pkg/ast"
)

func TestF98_InaccessibleEnumFieldOfListElement(t *testing.T) {
	// enum Status { ACTIVE INTERNAL @inaccessible }   type User { name: String! status: Status }   query { users { name status } }
	plan := &Object{Fields: []*Field{{
		Name: []byte("users"),
		Value: &Array{Path: []string{"users"}, Nullable: true, Item: &Object{Nullable: true, TypeName: "User", Fields: []*Field{
			{Name: []byte("name"), Value: &String{Path: []string{"name"}}},
			{Name: []byte("status"), Value: &Enum{Path: []string{"status"}, Nullable: true, TypeName: "Status", Values: []string{"ACTIVE", "INTERNAL"}, InaccessibleValues: []string{"INTERNAL"}}},
		}}},
	}}}
	input := `{"users":[{"name":"a","status":"ACTIVE"},{"name":"b","status":"INTERNAL"}]}`

	for _, apollo := range []bool{false, true} {
		res := NewResolvable(nil, ResolvableOptions{ApolloCompatibilityValueCompletionInExtensions: apollo})
		if err := res.Init(&Context{}, []byte(input), ast.OperationTypeQuery); err != nil {
			t.Fatal(err)
		}
		out := &bytes.Buffer{}
		if err := res.Resolve(context.Background(), plan, nil, out); err != nil {
			t.Fatal(err)
		}
		t.Logf("apollo=%v response: %s", apollo, out.String())

		type gqlErr struct {
			Message string `json:"message"`
			Path    []any  `json:"path"`
		}
		var resp struct {
			Errors     []gqlErr `json:"errors"`
			Extensions struct {
				ValueCompletion []gqlErr `json:"valueCompletion"`
			} `json:"extensions"`
			Data struct {
				Users []*struct {
					Name   string  `json:"name"`
					Status *string `json:"status"`
				} `json:"users"`
			} `json:"data"`
		}
		if err := json.Unmarshal(out.Bytes(), &resp); err != nil {
			t.Fatalf("invalid JSON: %v", err)
		}
		// the data part is right: only users[1].status is replaced by null
		if len(resp.Data.Users) != 2 || resp.Data.Users[1] == nil || resp.Data.Users[1].Status != nil || resp.Data.Users[1].Name != "b" {
			t.Fatalf("unexpected data")
		}
		reported := append(resp.Errors, resp.Extensions.ValueCompletion...)
		if len(reported) != 1 {
			t.Fatalf("want exactly one reported error, got %d", len(reported))
		}
		got, _ := json.Marshal(reported[0].Path)
		if want := `["users",1,"status"]`; string(got) != want {
			t.Errorf("apollo=%v: error path is %s, want the response path of the offending position %s (message: %q)", apollo, got, want, reported[0].Message)
		}
	}
}
