package astnormalization

// F94 (C03): normalization was not idempotent. couldInline took a nested inline fragment WITHOUT a type condition for a
// fragment on a foreign type (its empty condition name equals no type of the schema), so `... on Node { ... { id } }` in
// the scope of an object implementing Node was kept, the inner fragment dissolved, and only a second run reached the
// canonical form:  query Q { a { ... on Node { ... { id } } name id } }  ->  {a {... on Node {id} name id}}  ->  {a {id name}}
// Drop into v2/pkg/astnormalization/ and run
//   cd v2 && go test ./pkg/astnormalization/ -run TestF94 -count=1 -v
// Fails before the fix, passes after.

import (
	"testing"

	"github.com/wundergraph/graphql-go-tools/v2/pkg/astprinter"
	"github.com/wundergraph/graphql-go-tools/v2/pkg/astvalidation"
	"github.com/wundergraph/graphql-go-tools/v2/pkg/internal/unsafeparser"
	"github.com/wundergraph/graphql-go-tools/v2/pkg/operationreport"
)

const c03e7Schema = `
type Query { a: A }
interface Node { id: ID! name: String }
type A implements Node { id: ID! name: String }
`

func c03e7Normalize(t *testing.T, operation string) string {
	t.Helper()
	def := unsafeparser.ParseGraphqlDocumentStringWithBaseSchema(c03e7Schema)
	doc := unsafeparser.ParseGraphqlDocumentString(operation)
	doc.Input.Variables = []byte(`{}`)
	rep := operationreport.Report{}
	astvalidation.DefaultOperationValidator().Validate(&doc, &def, &rep)
	if rep.HasErrors() {
		t.Fatalf("input operation invalid: %s", rep.Error())
	}
	NewWithOpts(
		WithExtractVariables(),
		WithRemoveFragmentDefinitions(),
		WithRemoveUnusedVariables(),
		WithInlineFragmentSpreads(),
		WithRemoveNotMatchingOperationDefinitions(),
	).NormalizeNamedOperation(&doc, &def, []byte("Q"), &rep)
	if rep.HasErrors() {
		t.Fatalf("normalization failed: %s", rep.Error())
	}
	out, _ := astprinter.PrintString(&doc)
	return out
}

func TestF94_UntypedFragmentInsideInterfaceFragment(t *testing.T) {
	const want = `query Q {a {id name}}`
	for _, operation := range []string{
		`query Q { a { ... on Node { ... on Node { id } } name id } }`, // control
		`query Q { a { ... on A { ... { id } } name id } }`,            // control
		`query Q { a { ... on Node { ... { id } } name id } }`,
		`query Q { a { ... on Node { ... @include(if: true) { id } } name id } }`,
	} {
		t.Run(operation, func(t *testing.T) {
			once := c03e7Normalize(t, operation)
			if once != want {
				t.Errorf("norm(q):\n got: %s\nwant: %s", once, want)
			}
			twice := c03e7Normalize(t, once)
			if twice != once {
				t.Errorf("not idempotent:\n norm(q):       %s\n norm(norm(q)): %s", once, twice)
			}
		})
	}
}
