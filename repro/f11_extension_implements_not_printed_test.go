package astprinter

import (
	"testing"

	"github.com/wundergraph/graphql-go-tools/v2/pkg/astparser"
)

func TestF11_ExtensionImplementsIsPrinted(t *testing.T) {
	for _, in := range []string{
		`extend type Foo implements Bar & Baz {a: Int}`,
		`extend interface Foo implements Bar {a: Int}`,
		`extend type Foo implements Bar`,
	} {
		doc, rep := astparser.ParseGraphqlDocumentString(in)
		if rep.HasErrors() {
			t.Fatalf("parse %q: %v", in, rep)
		}
		out, err := PrintString(&doc)
		if err != nil {
			t.Fatal(err)
		}
		doc2, rep2 := astparser.ParseGraphqlDocumentString(out)
		if rep2.HasErrors() {
			t.Fatalf("DEFECT REPRODUCED: print(%q) = %q does not parse: %v", in, out, rep2)
		}
		out2, _ := PrintString(&doc2)
		t.Logf("%q -> %q -> %q", in, out, out2)
		nExt := len(doc.ObjectTypeExtensions) + len(doc.InterfaceTypeExtensions)
		impl := 0
		for _, e := range doc2.ObjectTypeExtensions {
			impl += len(e.ImplementsInterfaces.Refs)
		}
		for _, e := range doc2.InterfaceTypeExtensions {
			impl += len(e.ImplementsInterfaces.Refs)
		}
		if nExt != 1 || impl == 0 {
			t.Errorf("DEFECT REPRODUCED: %q printed as %q: the implements clause is lost", in, out)
		}
	}
}
