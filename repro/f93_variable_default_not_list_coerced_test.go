package astnormalization

// F93 (C03): the default value of a variable was not list-coerced below the top level by the operation normalizer
// (the engine pipeline): the list coercion visitor was registered before the default value extraction on the variables
// walker, found the variable absent and left; the default was then copied into the variables un-coerced.
//   query Q($f: Filter = {ids: 1}) { find(filter: $f) }   ->  {"f":{"ids":1,"limit":10}}  (rejected by variables validation)
//   query Q($f: Filter = {tags: "x"}) { find(filter: $f) } ->  internal: Unknown value type
// The VariablesNormalizer (the other pipeline) ran the two in the right order.
// Drop into v2/pkg/astnormalization/ and run
//   cd v2 && go test ./pkg/astnormalization/ -run TestF93 -count=1 -v
// Fails before the fix, passes after.

import (
	"testing"

	"github.com/wundergraph/graphql-go-tools/v2/pkg/astprinter"
	"github.com/wundergraph/graphql-go-tools/v2/pkg/astvalidation"
	"github.com/wundergraph/graphql-go-tools/v2/pkg/internal/unsafeparser"
	"github.com/wundergraph/graphql-go-tools/v2/pkg/operationreport"
	"github.com/wundergraph/graphql-go-tools/v2/pkg/variablesvalidation"
)

const c03e6Schema = `
type Query { find(filter: Filter): String }
input Filter { tags: [String!] ids: [Int] limit: Int = 10 }
`

func c03e6Normalize(t *testing.T, operation, variables string) (printed, vars, problem string) {
	t.Helper()
	def := unsafeparser.ParseGraphqlDocumentStringWithBaseSchema(c03e6Schema)
	doc := unsafeparser.ParseGraphqlDocumentString(operation)
	doc.Input.Variables = []byte(variables)
	rep := operationreport.Report{}
	astvalidation.DefaultOperationValidator().Validate(&doc, &def, &rep)
	if rep.HasErrors() {
		t.Fatalf("input operation invalid: %s", rep.Error())
	}
	NewWithOpts(
		WithExtractVariables(),
		WithRemoveFragmentDefinitions(),
		WithRemoveUnusedVariables(),
		WithInlineFragmentSpreads(),
		WithRemoveNotMatchingOperationDefinitions(),
	).NormalizeNamedOperation(&doc, &def, []byte("Q"), &rep)
	if rep.HasErrors() {
		return "", "", "normalization failed: " + rep.Error()
	}
	printed, _ = astprinter.PrintString(&doc)
	vars = string(doc.Input.Variables)
	// what ExecutionEngine.Execute does next with the normalized variables
	if err := variablesvalidation.NewVariablesValidator(variablesvalidation.VariablesValidatorOptions{}).Validate(&doc, &def, doc.Input.Variables); err != nil {
		problem = "variables validation rejects the normalized variables: " + err.Error()
	}
	return
}

func TestF93_VariableDefaultNotListCoercedBelowTopLevel(t *testing.T) {
	t.Run("control: same value as argument literal", func(t *testing.T) {
		out, vars, problem := c03e6Normalize(t, `query Q { find(filter: {tags: "x", ids: 1}) }`, `{}`)
		if problem != "" || out != `query Q($a: Filter){find(filter: $a)}` || vars != `{"a":{"tags":["x"],"ids":[1],"limit":10}}` {
			t.Errorf("%s %s %s", out, vars, problem)
		}
	})
	t.Run("control: same value as JSON variable", func(t *testing.T) {
		out, vars, problem := c03e6Normalize(t, `query Q($f: Filter) { find(filter: $f) }`, `{"f":{"tags":"x","ids":1}}`)
		if problem != "" || out != `query Q($f: Filter){find(filter: $f)}` || vars != `{"f":{"tags":["x"],"ids":[1],"limit":10}}` {
			t.Errorf("%s %s %s", out, vars, problem)
		}
	})
	t.Run("default value with a string for a list field", func(t *testing.T) {
		out, vars, problem := c03e6Normalize(t, `query Q($f: Filter = {tags: "x"}) { find(filter: $f) }`, `{}`)
		if problem != "" {
			t.Fatal(problem) // normalization failed: internal: Unknown value type
		}
		if out != `query Q($f: Filter){find(filter: $f)}` || vars != `{"f":{"tags":["x"],"limit":10}}` {
			t.Errorf("got %s %s", out, vars)
		}
	})
	t.Run("default value with an int for a list field", func(t *testing.T) {
		out, vars, problem := c03e6Normalize(t, `query Q($f: Filter = {ids: 1}) { find(filter: $f) }`, `{}`)
		if vars != `{"f":{"ids":[1],"limit":10}}` {
			t.Errorf("default was not coerced like the literal / JSON form:\n got: %s %s\nwant: %s", out, vars, `{"f":{"ids":[1],"limit":10}}`)
		}
		if problem != "" {
			t.Error(problem)
		}
	})
}
