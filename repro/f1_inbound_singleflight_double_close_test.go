package resolve

// Reproduction of finding F1 (C11-R2): InboundRequestSingleFlight.FinishOk publishes Data only
// `if req.HasFollowers()`, but a follower increments the counter only AFTER LoadOrStore found the
// entry. A follower that is between LoadOrStore and AddFollower when the leader tests the counter is
// woken with Data == nil and Err == nil; the caller (ArenaResolveGraphQLResponse) recognises followers
// by `inflight.Data != nil`, so this follower runs as a second leader and its FinishOk closes the
// already closed Done channel: panic "close of closed channel".
// Drop into v2/pkg/engine/resolve and run: go test -run TestVerifF1 -count=1 .
// Fails on the pinned tree, passes with the "fix:" commit.

import (
	"context"
	"sync"
	"sync/atomic"
	"testing"

	"github.com/wundergraph/graphql-go-tools/v2/pkg/ast"
)

func TestVerifF1InboundSingleFlightFollowerWithoutData(t *testing.T) {
	sf := NewRequestSingleFlight(1)
	response := &GraphQLResponse{Info: &GraphQLResponseInfo{OperationType: ast.OperationTypeQuery}}
	payload := []byte(`{"data":{"a":1}}`)
	var mistaken, panics atomic.Int64
	const workers = 8
	for round := 0; round < 200000 && mistaken.Load() == 0 && panics.Load() == 0; round++ {
		var wg sync.WaitGroup
		for w := 0; w < workers; w++ {
			wg.Add(1)
			go func() {
				defer wg.Done()
				defer func() {
					if r := recover(); r != nil {
						panics.Add(1)
					}
				}()
				ctx := NewContext(context.Background())
				ctx.Request.ID = uint64(round) + 1
				inflight, err := sf.GetOrCreate(ctx, response)
				if err != nil || inflight == nil {
					return
				}
				// the protocol of ArenaResolveGraphQLResponse: Data != nil <=> follower
				if inflight.Data != nil {
					return
				}
				select {
				case <-inflight.Done:
					// Done already closed although we are treated as the leader
					mistaken.Add(1)
				default:
				}
				sf.FinishOk(inflight, payload)
			}()
		}
		wg.Wait()
	}
	if mistaken.Load() != 0 || panics.Load() != 0 {
		t.Fatalf("follower woken without data and mistaken for a leader %d time(s); FinishOk panicked (close of closed channel) %d time(s)", mistaken.Load(), panics.Load())
	}
}
