// F78 (C16-R9), reported as existing_1 by a seeding sub-agent. Copy into execution/engine/ and run:
//   cd execution && go test -count=1 -run TestF78 ./engine/
package engine

// existing_1 (C16): the request "extensions" that the loader injects into every
// subgraph request body (Context.Extensions -> body.extensions, executeSourceLoad)
// are not part of the entity cache key, which is built from the rendered input in
// the prepare phase, before the extensions are added. Two client requests that
// differ only in their extensions therefore share cache entries although the
// subgraph receives - and may answer - different requests.
//
// Goes into execution/engine/ (package engine). Run:
//
//	cd execution && go test -count=1 -run TestF78RequestExtensionsArePartOfTheCacheKey ./engine/

import (
	"bytes"
	"encoding/json"
	"fmt"
	"io"
	"net/http"
	"net/http/httptest"
	"os"
	"strings"
	"sync/atomic"
	"testing"

	"github.com/jensneuse/abstractlogger"
	"github.com/stretchr/testify/require"
	"google.golang.org/protobuf/encoding/protojson"

	nodev1 "github.com/wundergraph/cosmo/router/gen/proto/wg/cosmo/node/v1"

	"github.com/wundergraph/graphql-go-tools/v2/pkg/engine/resolve"
)

// c16EchoHarness: the reviews subgraph answers every entity with a body that names
// what the test asks it to echo from the subgraph request (body and headers).
type c16EchoHarness struct {
	harness
	reviewsServer *httptest.Server
	reviewsCalls  atomic.Int64
}

func newC16EchoHarness(t *testing.T, options resolve.ResolverOptions, echo func(r *http.Request, body []byte) string, extra func(w http.ResponseWriter)) *c16EchoHarness {
	t.Helper()

	h := &c16EchoHarness{}
	h.users, h.products = newStub(t), newStub(t)

	h.reviewsServer = httptest.NewServer(http.HandlerFunc(func(w http.ResponseWriter, r *http.Request) {
		h.reviewsCalls.Add(1)
		body, _ := io.ReadAll(r.Body)
		var request struct {
			Variables struct {
				Representations []json.RawMessage `json:"representations"`
			} `json:"variables"`
		}
		_ = json.Unmarshal(body, &request)

		entities := make([]string, len(request.Variables.Representations))
		for i := range entities {
			entities[i] = fmt.Sprintf(`{"reviews":[{"body":%q}]}`, echo(r, body))
		}
		w.Header().Set("Content-Type", "application/json")
		w.Header().Set("Cache-Control", "public, max-age=60")
		if extra != nil {
			extra(w)
		}
		_, _ = w.Write([]byte(`{"data":{"_entities":[` + strings.Join(entities, ",") + `]}}`))
	}))
	t.Cleanup(h.reviewsServer.Close)

	cfgData, err := os.ReadFile("testdata/config_factory_federation/config.json")
	require.NoError(t, err)
	cfgData = bytes.ReplaceAll(cfgData, []byte("http://user.service"), []byte(h.users.server.URL))
	cfgData = bytes.ReplaceAll(cfgData, []byte("http://product.service"), []byte(h.products.server.URL))
	cfgData = bytes.ReplaceAll(cfgData, []byte("http://review.service"), []byte(h.reviewsServer.URL))

	var routerConfig nodev1.RouterConfig
	require.NoError(t, protojson.Unmarshal(cfgData, &routerConfig))

	ctx := t.Context()
	engineConfig, err := NewFederationEngineConfigFactory(ctx).BuildEngineConfiguration(&routerConfig)
	require.NoError(t, err)

	h.engine, err = NewExecutionEngine(ctx, abstractlogger.NoopLogger, engineConfig, options)
	require.NoError(t, err)

	return h
}

func withRequestExtensions(extensions string) ExecutionOptions {
	return func(execCtx *internalExecutionContext) {
		execCtx.resolveContext.Extensions = []byte(extensions)
	}
}

func TestF78RequestExtensionsArePartOfTheCacheKey_RequestExtensionsAreNotPartOfTheCacheKey(t *testing.T) {
	// The reviews subgraph echoes the extensions it was sent.
	echo := func(_ *http.Request, body []byte) string {
		var request struct {
			Extensions json.RawMessage `json:"extensions"`
		}
		_ = json.Unmarshal(body, &request)
		return "extensions=" + string(request.Extensions)
	}

	history := []string{`{"tenant":"a"}`, `{"tenant":"b"}`}

	run := func(withCache bool) []string {
		h := newC16EchoHarness(t, resolve.ResolverOptions{MaxConcurrency: 1024}, echo, nil)
		h.users.answers(meAnswer)
		cache := newMapCache()

		responses := make([]string, len(history))
		for i, extensions := range history {
			options := []ExecutionOptions{withRequestExtensions(extensions)}
			if withCache {
				options = append(options, withResponseCache(t, cache))
			}
			responses[i] = h.execute(t, singleEntityQuery, options...)
		}
		return responses
	}

	uncached := run(false)
	cached := run(true)

	require.Contains(t, uncached[0], `tenant\":\"a`)
	require.Contains(t, uncached[1], `tenant\":\"b`)
	for i := range history {
		require.Equalf(t, uncached[i], cached[i],
			"request %d (extensions %s): the response with a cache differs from the response without one", i, history[i])
	}
}
