package astprinter

import (
	"testing"

	"github.com/wundergraph/graphql-go-tools/v2/pkg/astparser"
)

func TestF22_SchemaDefinitionWithoutRootOperationTypes(t *testing.T) {
	for _, in := range []string{
		`schema { }`,
		`schema @d { }`,
		`schema {query: Q}`,
		`extend schema @d`,
		`extend schema {query: Q}`,
	} {
		doc, rep := astparser.ParseGraphqlDocumentString(in)
		if rep.HasErrors() {
			t.Logf("input %q does not parse (%v): not a round-trip case", in, rep)
			continue
		}
		for _, indent := range []bool{false, true} {
			var out string
			if indent {
				out, _ = PrintStringIndent(&doc, "  ")
			} else {
				out, _ = PrintString(&doc)
			}
			_, rep2 := astparser.ParseGraphqlDocumentString(out)
			t.Logf("%q -> %q", in, out)
			if rep2.HasErrors() {
				t.Errorf("DEFECT REPRODUCED: print(%q) = %q does not parse: %v", in, out, rep2)
			}
		}
	}
}
