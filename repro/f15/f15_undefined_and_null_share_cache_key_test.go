package engine

// NOT one of the three seeded changes: this fails on the UNMODIFIED library.
//
// Needs change1_demo_test.go next to it (for c16ch1Harness). Drop both into
// execution/engine/ and run:
//
//	cd execution && go test -count=1 -run TestC16BaseFinding ./engine/
//
// The entity cache key is built before SetInputUndefinedVariables marks which
// variables the client left undefined. An undefined variable and a variable that
// is explicitly null both render as `null` at that point, so they share a key,
// although the subgraph request differs ("b" absent vs "b":null) and so may the
// subgraph's answer (argument default vs explicit null).

import (
	"testing"

	"github.com/stretchr/testify/require"

	"github.com/wundergraph/graphql-go-tools/execution/graphql"
)

func c16BaseExec(t *testing.T, h *harness, query, variables string, options ...ExecutionOptions) string {
	t.Helper()

	writer := graphql.NewEngineResultWriter()
	err := h.engine.Execute(t.Context(), &graphql.Request{Query: query, Variables: []byte(variables)}, &writer, options...)
	require.NoError(t, err)

	return writer.String()
}

func TestC16BaseFinding_UndefinedAndNullVariableShareACacheKey(t *testing.T) {
	const query = `query($n: Int) { topProducts(first: 2) { upc reviews(first: $n) { body } } }`

	cached := c16ch1Harness(t)
	plain := c16ch1Harness(t)
	cache := newMapCache()

	for _, variables := range []string{`{}`, `{"n":null}`, `{"n":1}`} {
		want := c16BaseExec(t, plain, query, variables)
		got := c16BaseExec(t, cached, query, variables, withResponseCache(t, cache))
		require.Equalf(t, want, got, "variables %s: response with an entity cache differs from the response without one", variables)
	}
}
