package engine

// Demonstration for C16 / change 1.
//
// Drop this file into execution/engine/ (package engine). It reuses the helpers
// of response_cache_helpers_test.go (harness, stub, mapCache, productsAnswer,
// withResponseCache) and runs with:
//
//	cd execution && go test -count=1 -run TestC16Change1 ./engine/
//
// The reviews subgraph below is a pure function of the request it receives, so
// "subgraph data does not change" holds by construction. The same sequence of
// client requests is executed against an engine with an entity cache and against
// an engine without one, and every response must be byte-identical.

import (
	"bytes"
	"encoding/json"
	"fmt"
	"io"
	"net/http"
	"net/http/httptest"
	"os"
	"strings"
	"testing"

	"github.com/jensneuse/abstractlogger"
	"github.com/stretchr/testify/require"
	"google.golang.org/protobuf/encoding/protojson"

	nodev1 "github.com/wundergraph/cosmo/router/gen/proto/wg/cosmo/node/v1"

	"github.com/wundergraph/graphql-go-tools/v2/pkg/engine/resolve"
)

// c16ch1ReviewsSubgraph answers _entities requests for `reviews(first: N)`: every
// representation gets N reviews (default 3) whose bodies are derived from the
// entity key, e.g. "1-review-0". The `first` argument arrives as the one
// variable that is not `representations`, whatever the planner named it.
func c16ch1ReviewsSubgraph(t *testing.T) *stub {
	t.Helper()

	s := &stub{}
	s.last.Store("")
	s.state.Store(stubState{status: http.StatusOK})
	s.server = httptest.NewServer(http.HandlerFunc(func(w http.ResponseWriter, r *http.Request) {
		s.count.Add(1)
		raw, _ := io.ReadAll(r.Body)
		s.last.Store(string(raw))

		var request struct {
			Variables map[string]json.RawMessage `json:"variables"`
		}
		if err := json.Unmarshal(raw, &request); err != nil {
			http.Error(w, err.Error(), http.StatusBadRequest)
			return
		}

		first := 3
		var representations []map[string]string
		for name, value := range request.Variables {
			if name == "representations" {
				_ = json.Unmarshal(value, &representations)
				continue
			}
			var n int
			if err := json.Unmarshal(value, &n); err == nil {
				first = n
			}
		}

		entities := make([]string, len(representations))
		for i, representation := range representations {
			key := representation["upc"]
			if key == "" {
				key = representation["id"]
			}
			reviews := make([]string, first)
			for j := range reviews {
				reviews[j] = fmt.Sprintf(`{"body":"%s-review-%d"}`, key, j)
			}
			entities[i] = `{"reviews":[` + strings.Join(reviews, ",") + `]}`
		}

		w.Header().Set("Content-Type", "application/json")
		w.Header().Set("Cache-Control", "public, max-age=60")
		_, _ = w.Write([]byte(`{"data":{"_entities":[` + strings.Join(entities, ",") + `]}}`))
	}))
	t.Cleanup(s.server.Close)

	return s
}

// c16ch1Harness is newHarness with two differences: Product.reviews and
// User.reviews take a `first: Int` argument (patched into the checked-in
// federation config), and the reviews subgraph is the functional one above.
func c16ch1Harness(t *testing.T) *harness {
	t.Helper()

	h := &harness{users: newStub(t), products: newStub(t), reviews: c16ch1ReviewsSubgraph(t)}

	cfgData, err := os.ReadFile("testdata/config_factory_federation/config.json")
	require.NoError(t, err)
	cfgData = bytes.ReplaceAll(cfgData, []byte("http://user.service"), []byte(h.users.server.URL))
	cfgData = bytes.ReplaceAll(cfgData, []byte("http://product.service"), []byte(h.products.server.URL))
	cfgData = bytes.ReplaceAll(cfgData, []byte("http://review.service"), []byte(h.reviews.server.URL))
	cfgData = bytes.ReplaceAll(cfgData, []byte("reviews: [Review]"), []byte("reviews(first: Int): [Review]"))
	cfgData = bytes.Replace(cfgData, []byte(`"fieldConfigurations": [`), []byte(`"fieldConfigurations": [
      {"typeName": "Product", "fieldName": "reviews", "argumentsConfiguration": [{"name": "first", "sourceType": "FIELD_ARGUMENT"}]},
      {"typeName": "User", "fieldName": "reviews", "argumentsConfiguration": [{"name": "first", "sourceType": "FIELD_ARGUMENT"}]},`), 1)

	var routerConfig nodev1.RouterConfig
	require.NoError(t, protojson.Unmarshal(cfgData, &routerConfig))

	ctx := t.Context()
	engineConfig, err := NewFederationEngineConfigFactory(ctx).BuildEngineConfiguration(&routerConfig)
	require.NoError(t, err)

	h.engine, err = NewExecutionEngine(ctx, abstractlogger.NoopLogger, engineConfig, resolve.ResolverOptions{
		MaxConcurrency: 1024,
	})
	require.NoError(t, err)

	h.products.answers(productsAnswer("1", "2"))
	h.users.answers(meAnswer)

	return h
}

func TestC16Change1_EntityFieldArgumentIsPartOfTheCacheKey(t *testing.T) {
	// A history of requests that differ only in the value of an argument of an
	// entity field. The planner turns the literal into a variable that is rendered
	// AFTER the representations, i.e. into the footer of the batch entity fetch:
	//   ..."variables":{"representations":[ <items> ],"b":1}}}
	history := []string{
		`{ topProducts(first: 2) { upc reviews(first: 1) { body } } }`,
		`{ topProducts(first: 2) { upc reviews(first: 2) { body } } }`,
		`{ topProducts(first: 2) { upc reviews(first: 1) { body } } }`,
		`{ topProducts(first: 2) { upc reviews(first: 3) { body } } }`,
	}

	cached := c16ch1Harness(t)
	plain := c16ch1Harness(t)
	cache := newMapCache()

	for i, query := range history {
		want := plain.execute(t, query)
		got := cached.execute(t, query, withResponseCache(t, cache))
		require.Equalf(t, want, got,
			"request %d (%s): the response with an entity cache differs from the response without one", i, query)
	}

	// Sanity: the cache did its job for the one request that is a true repeat.
	require.EqualValues(t, 3, cached.reviews.calls(),
		"requests 0, 1 and 3 must reach the reviews subgraph, request 2 is a legitimate hit")
	require.EqualValues(t, 4, plain.reviews.calls())
}
