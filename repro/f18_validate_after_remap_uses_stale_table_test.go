package variablesvalidation

import (
	"testing"

	"github.com/wundergraph/graphql-go-tools/v2/pkg/astparser"
	"github.com/wundergraph/graphql-go-tools/v2/pkg/asttransform"
)

func TestF18_ValidateAfterValidateWithRemapUsesStaleRemap(t *testing.T) {
	def, rep := astparser.ParseGraphqlDocumentString(`schema {query: Query} type Query { f(x: Int!): String }`)
	if rep.HasErrors() {
		t.Fatal(rep)
	}
	if err := asttransform.MergeDefinitionWithBaseSchema(&def); err != nil {
		t.Fatal(err)
	}
	v := NewVariablesValidator(VariablesValidatorOptions{})
	// request 1: normalised operation uses $a, the client called it $x
	op1, _ := astparser.ParseGraphqlDocumentString(`query Q($a: Int!){ f(x: $a) }`)
	if err := v.ValidateWithRemap(&op1, &def, []byte(`{"x":1}`), map[string]string{"a": "x"}); err != nil {
		t.Fatalf("request 1: %v", err)
	}
	// request 2 on the same validator, no remap: the variable really is called $a and is provided
	op2, _ := astparser.ParseGraphqlDocumentString(`query Q($a: Int!){ f(x: $a) }`)
	err := v.Validate(&op2, &def, []byte(`{"a":1}`))
	if err != nil {
		t.Fatalf("DEFECT REPRODUCED: a coercible request is rejected because the validator still uses the remap table of the previous request: %v", err)
	}
}
