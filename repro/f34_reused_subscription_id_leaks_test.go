package resolve

// C13 / existing_1: re-using a live SubscriptionIdentifier leaks a subscriber, a trigger and its
// upstream subscription, and leaves the reported subscription count above zero.
// Drop into v2/pkg/engine/resolve/ and run
//
//	cd v2 && go test ./pkg/engine/resolve/ -run 'TestC13Existing1' -count=1 -v

import (
	"bytes"
	"context"
	"net/http"
	"sync"
	"testing"
	"time"

	"github.com/cespare/xxhash/v2"
	"github.com/stretchr/testify/assert"
	"github.com/stretchr/testify/require"
)

type c13existing1Source struct {
	mu      sync.Mutex
	started int
	stopped int
}

func (s *c13existing1Source) HashTriggerInput(input []byte, xxh *xxhash.Digest) error {
	_, err := xxh.Write(input)
	return err
}

func (s *c13existing1Source) Start(ctx *Context, _ http.Header, _ []byte, updater SubscriptionUpdater) error {
	s.mu.Lock()
	s.started++
	s.mu.Unlock()
	context.AfterFunc(ctx.Context(), func() {
		updater.Done()
		s.mu.Lock()
		s.stopped++
		s.mu.Unlock()
	})
	return nil
}

func (s *c13existing1Source) counts() (started, stopped int) {
	s.mu.Lock()
	defer s.mu.Unlock()
	return s.started, s.stopped
}

func c13existing1Plan(source SubscriptionDataSource, query string) *GraphQLSubscription {
	return &GraphQLSubscription{
		Trigger: GraphQLSubscriptionTrigger{
			Source: source,
			InputTemplate: InputTemplate{
				Segments: []TemplateSegment{{
					SegmentType: StaticSegmentType,
					Data:        []byte(`{"method":"POST","url":"http://localhost:4000","body":{"query":"` + query + `"}}`),
				}},
			},
			PostProcessing: PostProcessingConfiguration{
				SelectResponseDataPath:   []string{"data"},
				SelectResponseErrorsPath: []string{"errors"},
			},
		},
		Response: &GraphQLResponse{
			Data: &Object{
				Fields: []*Field{{
					Name:  []byte("counter"),
					Value: &Integer{Path: []string{"counter"}},
				}},
			},
		},
	}
}

func c13existing1Registry(r *Resolver) (triggers, subscriptions int) {
	r.mu.Lock()
	defer r.mu.Unlock()
	for _, trig := range r.triggers {
		trig.mu.RLock()
		subscriptions += len(trig.subscriptions)
		trig.mu.RUnlock()
	}
	return len(r.triggers), subscriptions
}

func TestC13Existing1_ReusedSubscriptionID(t *testing.T) {
	run := func(t *testing.T, secondQuery string) {
		resolverCtx, stop := context.WithCancel(context.Background())
		defer stop()

		reporter := &TestReporter{}
		resolver := New(resolverCtx, ResolverOptions{
			MaxConcurrency:                16,
			AsyncErrorWriter:              &FakeErrorWriter{},
			SubscriptionHeartbeatInterval: time.Hour,
			Reporter:                      reporter,
		})
		source := &c13existing1Source{}

		// one client connection, the client re-uses operation id 1 while the first operation is live
		id := SubscriptionIdentifier{ConnectionID: NewConnectionID(), SubscriptionID: 1}

		first := &SubscriptionRecorder{buf: &bytes.Buffer{}}
		second := &SubscriptionRecorder{buf: &bytes.Buffer{}}
		require.NoError(t, resolver.AsyncResolveGraphQLSubscription(NewContext(context.Background()), c13existing1Plan(source, "subscription { a }"), first, id))
		// re-using a live id is either served (and then fully cleaned up) or rejected with an error; both are fine for C13
		if err := resolver.AsyncResolveGraphQLSubscription(NewContext(context.Background()), c13existing1Plan(source, secondQuery), second, id); err != nil {
			t.Logf("second subscription under the live id was rejected: %v", err)
		}

		// the client stops the operation and disconnects: every removal API the resolver offers is used
		require.NoError(t, resolver.UnsubscribeSubscription(id))
		require.NoError(t, resolver.UnsubscribeSubscription(id))
		require.NoError(t, resolver.UnsubscribeClient(id.ConnectionID))

		// quiescence: nothing is in flight any more
		time.Sleep(200 * time.Millisecond)

		triggers, subscriptions := c13existing1Registry(resolver)
		started, stopped := source.counts()
		assert.Equal(t, 0, triggers, "trigger records left in the registry")
		assert.Equal(t, 0, subscriptions, "subscription records left on a trigger")
		assert.Equal(t, started, stopped, "upstream subscriptions started vs. cancelled")
		assert.Equal(t, int64(0), reporter.subscriptions.Load(), "reported subscription count")
		assert.Equal(t, int64(0), reporter.triggers.Load(), "reported trigger count")
	}

	t.Run("second operation has a different upstream input", func(t *testing.T) {
		run(t, "subscription { b }")
	})
	t.Run("second operation has the same upstream input", func(t *testing.T) {
		run(t, "subscription { a }")
	})
}
