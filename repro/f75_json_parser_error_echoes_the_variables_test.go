package variablesvalidation

// F75 (C06-R10), part (b) of a seeding sub-agent's report existing_9 (part (a), the unknown key, is encoded by an existing test): with DisableExposingVariablesContent=true the error must not echo client
// supplied variable content. Two paths still do:
//  (a) renderVariableFieldNotDefinedError prints the unknown KEY taken from the variables JSON;
//  (b) a JSON syntax error is returned as astjson's raw error, which quotes the unparsed tail of
//      the variables (up to 1 KiB of whatever follows the error position).
//
// Goes into v2/pkg/variablesvalidation/ ; run:
//   cd v2 && go test -count=1 -run TestF75 ./pkg/variablesvalidation/

import (
	"testing"

	"github.com/stretchr/testify/assert"
	"github.com/stretchr/testify/require"
)

func TestF75ParserErrorDoesNotEchoTheVariables(t *testing.T) {
	schema := `type Query { hello(in: In): String } input In { b: Int }`
	operation := `query Q($v: In) { hello(in: $v) }`

	t.Run("syntax error", func(t *testing.T) {
		err := runTest(t, testCase{schema: schema, operation: operation, variables: `{"v": {"b": 1} "password": "s3cr3t-4711"}`})
		require.Error(t, err)
		assert.NotContains(t, err.Error(), "s3cr3t-4711")
	})
}
