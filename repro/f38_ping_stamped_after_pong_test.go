package client_test

// existing_3 (C18, unmodified tree): the heartbeat bookkeeping races with the read loop. sendPing
// records lastPingSentAt AFTER the ping write returned; if the upstream's pong is processed by the
// read loop before that store, lastPongAt < lastPingSentAt holds although the pong did arrive, and
// with PingInterval > PingTimeout (the defaults: 30s / 10s) the next tick declares the pong overdue
// and tears the healthy connection down - failing every subscription multiplexed on it.
//
// The interleaving is forced with a net.Conn whose Write returns 20ms after the bytes were handed
// to the kernel (a descheduled goroutine / GC pause between the syscall and the atomic store has
// the same effect).
//
// Drop into: v2/pkg/engine/datasource/graphql_datasource/subscriptionclient/
// Run:       cd v2 && go test -count=1 -run TestC18Existing3 -v ./pkg/engine/datasource/graphql_datasource/subscriptionclient/

import (
	"context"
	"net"
	"net/http"
	"net/http/httptest"
	"sync/atomic"
	"testing"
	"time"

	"github.com/coder/websocket"
	"github.com/coder/websocket/wsjson"

	client "github.com/wundergraph/graphql-go-tools/v2/pkg/engine/datasource/graphql_datasource/subscriptionclient"
)

type c18e3LateReturnConn struct {
	net.Conn
	lag *atomic.Int64
}

func (c *c18e3LateReturnConn) Write(p []byte) (int, error) {
	n, err := c.Conn.Write(p) // the bytes are on the wire now
	if d := c.lag.Load(); d > 0 {
		time.Sleep(time.Duration(d)) // ... but the caller learns about it a little later
	}
	return n, err
}

func TestC18Existing3_HealthyConnectionKilledByPingPongBookkeepingRace(t *testing.T) {
	var pings, pongs atomic.Int32
	srv := httptest.NewServer(http.HandlerFunc(func(w http.ResponseWriter, r *http.Request) {
		c, err := websocket.Accept(w, r, &websocket.AcceptOptions{Subprotocols: []string{"graphql-transport-ws"}})
		if err != nil {
			return
		}
		defer c.Close(websocket.StatusNormalClosure, "")
		ctx := r.Context()
		for {
			var m map[string]any
			if err := wsjson.Read(ctx, c, &m); err != nil {
				return
			}
			switch m["type"] {
			case "connection_init":
				_ = wsjson.Write(ctx, c, map[string]string{"type": "connection_ack"})
			case "ping":
				pings.Add(1)
				if wsjson.Write(ctx, c, map[string]string{"type": "pong"}) == nil {
					pongs.Add(1) // every ping is answered immediately
				}
			}
		}
	}))
	t.Cleanup(srv.Close)

	var lag atomic.Int64
	hc := &http.Client{Transport: &http.Transport{
		DialContext: func(ctx context.Context, network, addr string) (net.Conn, error) {
			c, err := (&net.Dialer{}).DialContext(ctx, network, addr)
			if err != nil {
				return nil, err
			}
			return &c18e3LateReturnConn{Conn: c, lag: &lag}, nil
		},
	}}

	// same shape as the defaults (30s / 10s): interval > timeout
	cl := client.New(t.Context(), client.Config{
		UpgradeClient: hc,
		PingInterval:  300 * time.Millisecond,
		PingTimeout:   100 * time.Millisecond,
	})
	opts := client.Options{Endpoint: srv.URL, Transport: client.TransportWS}

	ch := make(chan *client.Message, 4)
	cancel, err := cl.Subscribe(context.Background(), &client.Request{Query: "subscription { a }"}, opts,
		func(m *client.Message) { ch <- m })
	if err != nil {
		t.Fatal(err)
	}
	defer cancel()
	lag.Store(int64(20 * time.Millisecond))

	select {
	case m := <-ch:
		t.Fatalf("healthy upstream (answered %d of %d pings at once) but the subscription was terminated: type=%v err=%v",
			pongs.Load(), pings.Load(), m.Type, m.Err)
	case <-time.After(1500 * time.Millisecond):
		if pings.Load() < 3 {
			t.Fatalf("setup: expected several pings, saw %d", pings.Load())
		}
	}
}
