package websocket_test

// existing_5 (C19): on the UNMODIFIED tree the id of a query/mutation is released (removed from
// subCancellations) only AFTER its terminal "complete" has been written to the client - in a deferred
// function of the operation goroutine. A client that re-uses the id as soon as it has received
// "complete" (which the protocol allows) races with that goroutine; if the read loop wins, the whole
// connection is closed with 4409 "Subscriber for 1 already exists". See existing_5.md.
//
// Drop into execution/subscription/websocket/ and run
//   go test -count=1 -run 'TestC19Existing5' ./subscription/websocket/
// from the execution/ module.

import (
	"bytes"
	"context"
	"encoding/binary"
	"encoding/json"
	"errors"
	"fmt"
	"net"
	"strings"
	"sync"
	"testing"
	"time"

	"github.com/gobwas/ws"

	"github.com/wundergraph/graphql-go-tools/execution/subscription"
	"github.com/wundergraph/graphql-go-tools/execution/subscription/websocket"
	"github.com/wundergraph/graphql-go-tools/v2/pkg/ast"
	"github.com/wundergraph/graphql-go-tools/v2/pkg/engine/resolve"
)

// ---------------------------------------------------------------------------------------------
// recording transport client: everything the server sends (messages and close frames) is appended
// to one ordered trace, which is what the property observes.
// ---------------------------------------------------------------------------------------------

type c19e5Client struct {
	mu        sync.Mutex
	trace     []string
	connected bool
	in        chan []byte
	closed    chan struct{}
	// holdAfter: the write of exactly this message returns only after release was closed. The message
	// is already in the trace (= on the wire, visible to the peer) at that point: this models the
	// writing goroutine being descheduled right after conn.Write returned.
	holdAfter string
	release   chan struct{}
}

func newC19e5Client() *c19e5Client {
	return &c19e5Client{connected: true, in: make(chan []byte, 16), closed: make(chan struct{}), release: make(chan struct{})}
}

func (c *c19e5Client) ReadBytesFromClient() ([]byte, error) {
	select {
	case msg := <-c.in:
		return msg, nil
	case <-c.closed:
		return nil, subscription.ErrTransportClientClosedConnection
	}
}

func (c *c19e5Client) WriteBytesToClient(message []byte) error {
	c.mu.Lock()
	if !c.connected {
		c.mu.Unlock()
		return subscription.ErrTransportClientClosedConnection
	}
	c.trace = append(c.trace, string(message))
	hold := c.holdAfter != "" && string(message) == c.holdAfter
	c.mu.Unlock()
	if hold {
		<-c.release
	}
	return nil
}

func (c *c19e5Client) IsConnected() bool {
	c.mu.Lock()
	defer c.mu.Unlock()
	return c.connected
}

func (c *c19e5Client) Disconnect() error { return c.DisconnectWithReason(nil) }

func (c *c19e5Client) DisconnectWithReason(reason any) error {
	c.mu.Lock()
	defer c.mu.Unlock()
	if !c.connected {
		return nil
	}
	c.connected = false
	c.trace = append(c.trace, "CLOSE "+c19e5CloseCode(reason))
	close(c.closed)
	return nil
}

func c19e5CloseCode(reason any) string {
	switch r := reason.(type) {
	case websocket.CloseReason:
		p := ws.Frame(r).Payload
		if len(p) >= 2 {
			return fmt.Sprintf("%d %s", binary.BigEndian.Uint16(p[:2]), string(p[2:]))
		}
	case websocket.CompiledCloseReason:
		f, err := ws.ReadFrame(bytes.NewReader(r))
		if err == nil && len(f.Payload) >= 2 {
			return fmt.Sprintf("%d %s", binary.BigEndian.Uint16(f.Payload[:2]), string(f.Payload[2:]))
		}
	}
	return fmt.Sprintf("%v", reason)
}

func (c *c19e5Client) send(msg string) { c.in <- []byte(msg) }

func (c *c19e5Client) snapshot() []string {
	c.mu.Lock()
	defer c.mu.Unlock()
	return append([]string(nil), c.trace...)
}

// waitFor waits until the trace contains at least n entries and returns it.
func (c *c19e5Client) waitFor(t *testing.T, n int) []string {
	t.Helper()
	deadline := time.Now().Add(2 * time.Second)
	for time.Now().Before(deadline) {
		if s := c.snapshot(); len(s) >= n {
			return s
		}
		time.Sleep(time.Millisecond)
	}
	t.Fatalf("timed out waiting for %d server outputs, got %q", n, c.snapshot())
	return nil
}

// ---------------------------------------------------------------------------------------------
// fake executor pool: "{ fail }" fails at execution time, everything else answers {"data":{"ok":true}}
// ---------------------------------------------------------------------------------------------

type c19e5Pool struct{}

func (c19e5Pool) Get(payload []byte) (subscription.Executor, error) {
	var req struct {
		Query string `json:"query"`
	}
	if err := json.Unmarshal(payload, &req); err != nil {
		return nil, err
	}
	return &c19e5Executor{query: req.Query}, nil
}

func (c19e5Pool) Put(subscription.Executor) error { return nil }

type c19e5Executor struct {
	query string
	ctx   context.Context
}

func (e *c19e5Executor) Execute(writer resolve.SubscriptionResponseWriter) error {
	if strings.Contains(e.query, "fail") {
		return errors.New("upstream unavailable")
	}
	_, err := writer.Write([]byte(`{"data":{"ok":true}}`))
	return err
}

func (e *c19e5Executor) OperationType() ast.OperationType {
	if strings.HasPrefix(strings.TrimSpace(e.query), "subscription") {
		return ast.OperationTypeSubscription
	}
	return ast.OperationTypeQuery
}

func (e *c19e5Executor) SetContext(ctx context.Context) { e.ctx = ctx }
func (e *c19e5Executor) Reset()                         {}

func c19e5Start(t *testing.T, protocol websocket.Protocol) *c19e5Client {
	t.Helper()
	client := newC19e5Client()
	serverConn, peer := net.Pipe()
	t.Cleanup(func() { _ = peer.Close(); _ = client.Disconnect() })

	done := make(chan bool)
	errChan := make(chan error, 1)
	go websocket.Handle(done, errChan, serverConn, c19e5Pool{},
		websocket.WithProtocol(protocol),
		websocket.WithCustomClient(client),
		websocket.WithCustomKeepAliveInterval(time.Hour),
		websocket.WithCustomSubscriptionUpdateInterval(time.Hour),
	)
	select {
	case <-done:
	case err := <-errChan:
		t.Fatalf("handler did not start: %v", err)
	case <-time.After(2 * time.Second):
		t.Fatal("handler did not start")
	}
	return client
}

func TestC19Existing5_TransportWS_IdReusableOnceCompleteWasReceived(t *testing.T) {
	client := newC19e5Client()
	client.holdAfter = `{"id":"1","type":"complete"}`
	serverConn, peer := net.Pipe()
	t.Cleanup(func() { _ = peer.Close(); _ = client.Disconnect() })

	done := make(chan bool)
	errChan := make(chan error, 1)
	go websocket.Handle(done, errChan, serverConn, c19e5Pool{},
		websocket.WithProtocol(websocket.ProtocolGraphQLTransportWS),
		websocket.WithCustomClient(client),
		websocket.WithCustomKeepAliveInterval(time.Hour),
		websocket.WithCustomSubscriptionUpdateInterval(time.Hour),
	)
	<-done

	client.send(`{"type":"connection_init"}`)
	client.waitFor(t, 1)

	client.send(`{"id":"1","type":"subscribe","payload":{"query":"{ ok }"}}`)
	// the client has now RECEIVED next and complete for id 1 ...
	client.waitFor(t, 3)

	// ... and immediately re-uses the id, while the goroutine of the first operation has not yet been
	// scheduled again after its write
	client.send(`{"id":"1","type":"subscribe","payload":{"query":"{ ok }"}}`)
	time.Sleep(100 * time.Millisecond)
	// now let the first operation's goroutine continue
	c := client.snapshot()
	close(client.release)
	if len(c) < 4 {
		// no reaction yet: the second operation can only answer once the writer is free again
		c = client.waitFor(t, 5)
	}

	want := []string{
		`{"type":"connection_ack"}`,
		`{"id":"1","type":"next","payload":{"data":{"ok":true}}}`,
		`{"id":"1","type":"complete"}`,
		`{"id":"1","type":"next","payload":{"data":{"ok":true}}}`,
		`{"id":"1","type":"complete"}`,
	}
	if strings.Join(c, "\n") != strings.Join(want, "\n") {
		t.Fatalf("server trace not accepted by graphql-transport-ws:\n got %q\nwant %q", c, want)
	}
}
