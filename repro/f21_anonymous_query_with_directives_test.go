package astprinter

import (
	"testing"

	"github.com/wundergraph/graphql-go-tools/v2/pkg/astparser"
)

func TestF21_AnonymousQueryWithDirectivesRoundTrips(t *testing.T) {
	for _, in := range []string{
		`query @d {a}`,
		`query @d(x: 1) @e {a}`,
		`query Q @d {a}`,
		`query ($v: Int) @d {a(x: $v)}`,
		`{a}`,
		`mutation @d {a}`,
	} {
		doc, rep := astparser.ParseGraphqlDocumentString(in)
		if rep.HasErrors() {
			t.Fatalf("parse %q: %v", in, rep)
		}
		for _, indent := range []bool{false, true} {
			var out string
			var err error
			if indent {
				out, err = PrintStringIndent(&doc, "  ")
			} else {
				out, err = PrintString(&doc)
			}
			if err != nil {
				t.Fatal(err)
			}
			doc2, rep2 := astparser.ParseGraphqlDocumentString(out)
			if rep2.HasErrors() {
				t.Errorf("DEFECT REPRODUCED: print(%q) = %q does not parse: %v", in, out, rep2)
				continue
			}
			out2, _ := PrintString(&doc2)
			out1, _ := PrintString(&doc)
			if out1 != out2 {
				t.Errorf("print is not a fixed point for %q: %q vs %q", in, out1, out2)
			}
			t.Logf("%q -> %q", in, out)
		}
	}
}
