package resolve

// C12 existing violation #2 (unmodified tree):
// SubscriptionFieldFilter.SkipEvent overwrites `expected` (the event's field value) with its
// JSON-quoted form while checking value i, and uses the overwritten value when checking value i+1.
// With the templates the planner generates (one VariableSegment with the PLAIN renderer per value)
// a string event field therefore only ever matches the FIRST value of an IN list: an event that
// passes the subscriber's filter through the 2nd, 3rd, ... value is dropped.
//
// Drop into v2/pkg/engine/resolve/ and run:
//   go test -count=1 -run 'TestC12Existing2' ./pkg/engine/resolve/

import (
	"testing"

	"github.com/stretchr/testify/require"

	"github.com/wundergraph/astjson"
)

func c12e2Value(variable string) InputTemplate {
	// exactly what plan.pathBuilderVisitor.buildSubscriptionFieldFilter emits for "{{ args.<variable> }}"
	return InputTemplate{Segments: []TemplateSegment{{
		SegmentType:        VariableSegmentType,
		VariableKind:       ContextVariableKind,
		VariableSourcePath: []string{variable},
		Renderer:           NewPlainVariableRenderer(),
	}}}
}

func TestC12Existing2_InFilterOnlyMatchesFirstStringValue(t *testing.T) {
	filter := &SubscriptionFilter{In: &SubscriptionFieldFilter{
		FieldPath: []string{"id"},
		Values:    []InputTemplate{c12e2Value("a"), c12e2Value("b")},
	}}
	ctx := &Context{Variables: astjson.MustParseBytes([]byte(`{"a":"x","b":"y"}`))}

	skip, err := filter.SkipEvent(ctx, []byte(`{"id":"x"}`))
	require.NoError(t, err)
	require.False(t, skip, `id "x" is IN ("x","y")`)

	skip, err = filter.SkipEvent(ctx, []byte(`{"id":"z"}`))
	require.NoError(t, err)
	require.True(t, skip, `id "z" is not IN ("x","y")`)

	// sanity: the same values in the other order match "y"
	swapped := &SubscriptionFilter{In: &SubscriptionFieldFilter{
		FieldPath: []string{"id"},
		Values:    []InputTemplate{c12e2Value("b"), c12e2Value("a")},
	}}
	skip, err = swapped.SkipEvent(ctx, []byte(`{"id":"y"}`))
	require.NoError(t, err)
	require.False(t, skip, `id "y" is IN ("y","x")`)

	skip, err = filter.SkipEvent(ctx, []byte(`{"id":"y"}`))
	require.NoError(t, err)
	require.False(t, skip, `id "y" is IN ("x","y"): the event passes the filter and must be delivered`)
}
