// F77 (C16-R2), reported as existing_4 by a seeding sub-agent. Copy into execution/engine/ and run:
//   cd execution && go test -count=1 -run TestF77 ./engine/
package engine

// existing_4 (C16): "stored only from a successful subgraph response". The
// collector refuses status codes >= 400 only, so an entity is stored from a 3xx
// response (the Go HTTP client hands a 300, or any 3xx without a Location header,
// to the caller as it is) as long as its body parses and it says "public".
//
// Goes into execution/engine/ (package engine). Run:
//
//	cd execution && go test -count=1 -run TestF77NothingStoredFromRedirects ./engine/

import (
	"net/http"
	"testing"

	"github.com/stretchr/testify/require"
)

func TestF77NothingStoredFromRedirects_EntitiesAreStoredFromANon2xxResponse(t *testing.T) {
	for _, status := range []int{http.StatusMultipleChoices, http.StatusUseProxy, 399} {
		h := newHarness(t)
		h.users.answers(meAnswer)
		h.reviews.answers(reviewsAnswer("A review"))
		h.reviews.status(status)

		cache := newMapCache()
		h.execute(t, singleEntityQuery, withResponseCache(t, cache))
		h.execute(t, singleEntityQuery, withResponseCache(t, cache))

		require.Emptyf(t, cache.keys(), "status %d is not a successful response, nothing may be stored from it", status)
		require.EqualValuesf(t, 2, h.reviews.calls(), "status %d: both executions must reach the subgraph", status)
	}
}
