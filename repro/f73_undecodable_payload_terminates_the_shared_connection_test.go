// F73 (C18-R14), reported as existing_4 by a seeding sub-agent. Copy into
// v2/pkg/engine/datasource/graphql_datasource/subscriptionclient/ and run:
//   cd v2 && go test -count=1 -run TestF73 -v ./pkg/engine/datasource/graphql_datasource/subscriptionclient/
package client_test

// existing_4 (C18, unmodified tree): one undecodable payload addressed to ONE subscription id tears
// down the whole shared connection, i.e. terminates every other subscription multiplexed on it.
// (protocol.decode returns an error for a `next`/`data` message whose payload is not a JSON
// object; readLoop treats every Read error as fatal for the connection.)
//
// Drop into: v2/pkg/engine/datasource/graphql_datasource/subscriptionclient/
// Run:       cd v2 && go test -count=1 -run TestF73UndecodablePayloadEndsOnlyItsSubscription -v ./pkg/engine/datasource/graphql_datasource/subscriptionclient/

import (
	"context"
	"net/http"
	"net/http/httptest"
	"testing"
	"time"

	"github.com/coder/websocket"
	"github.com/coder/websocket/wsjson"

	client "github.com/wundergraph/graphql-go-tools/v2/pkg/engine/datasource/graphql_datasource/subscriptionclient"
)

func TestF73UndecodablePayloadEndsOnlyItsSubscription_BadPayloadForOneSubscriptionTerminatesTheOthers(t *testing.T) {
	srv := httptest.NewServer(http.HandlerFunc(func(w http.ResponseWriter, r *http.Request) {
		c, err := websocket.Accept(w, r, &websocket.AcceptOptions{Subprotocols: []string{"graphql-transport-ws"}})
		if err != nil {
			return
		}
		defer c.Close(websocket.StatusNormalClosure, "")
		ctx := r.Context()
		n := 0
		for {
			var m map[string]any
			if err := wsjson.Read(ctx, c, &m); err != nil {
				return
			}
			switch m["type"] {
			case "connection_init":
				_ = wsjson.Write(ctx, c, map[string]string{"type": "connection_ack"})
			case "subscribe":
				n++
				if n == 1 { // subscription A: well-formed
					_ = wsjson.Write(ctx, c, map[string]any{"id": m["id"], "type": "next",
						"payload": map[string]any{"data": map[string]any{"v": 1}}})
				} else { // subscription B: payload is a JSON string instead of an object
					_ = wsjson.Write(ctx, c, map[string]any{"id": m["id"], "type": "next", "payload": "oops"})
				}
			}
		}
	}))
	t.Cleanup(srv.Close)

	cl := client.New(t.Context(), client.Config{})
	opts := client.Options{Endpoint: srv.URL, Transport: client.TransportWS}

	chA := make(chan *client.Message, 4)
	cancelA, err := cl.Subscribe(context.Background(), &client.Request{Query: "subscription { a }"}, opts,
		func(m *client.Message) { chA <- m })
	if err != nil {
		t.Fatal(err)
	}
	defer cancelA()
	select {
	case m := <-chA:
		if m.Type != client.MessageTypeData {
			t.Fatalf("A: got %v (%v)", m.Type, m.Err)
		}
	case <-time.After(2 * time.Second):
		t.Fatal("A: no data")
	}

	chB := make(chan *client.Message, 4)
	cancelB, err := cl.Subscribe(context.Background(), &client.Request{Query: "subscription { b }"}, opts,
		func(m *client.Message) { chB <- m })
	if err != nil {
		t.Fatal(err)
	}
	defer cancelB()

	select {
	case m := <-chA:
		t.Fatalf("cross-talk: subscription A received %v (err=%v) because of a bad message addressed to subscription B", m.Type, m.Err)
	case <-time.After(700 * time.Millisecond):
	}
}
