package resolve

// Reproduction of finding F3 (C11-R7), both single-flight layers: the shared work runs under the
// LEADER's request context and followers return the shared error verbatim, so a leader whose client
// disconnects turns into context.Canceled for every follower whose own context is perfectly alive.
// Drop into v2/pkg/engine/resolve and run: go test -run TestVerifF3 -count=1 .
// Both tests FAIL on the current tree (recorded as known findings, not repaired: see DESIGN.md §4).

import (
	"context"
	"errors"
	"net/http"
	"testing"
	"time"

	"github.com/wundergraph/graphql-go-tools/v2/pkg/ast"
	"github.com/wundergraph/graphql-go-tools/v2/pkg/engine/datasource/httpclient"
)

type f3BlockingSource struct {
	started chan struct{}
	calls   int
}

func (s *f3BlockingSource) Load(ctx context.Context, headers http.Header, input []byte) ([]byte, error) {
	s.calls++
	if s.calls == 1 {
		close(s.started)
		<-ctx.Done() // the leader's upstream call is aborted by the leader's own context
		return nil, ctx.Err()
	}
	return []byte(`{"data":{"ok":true}}`), nil
}
func (s *f3BlockingSource) LoadWithFiles(ctx context.Context, headers http.Header, input []byte, files []*httpclient.FileUpload) ([]byte, error) {
	return s.Load(ctx, headers, input)
}

func TestVerifF3SubgraphLeaderCancelBecomesFollowerError(t *testing.T) {
	sf := NewSingleFlight(1)
	src := &f3BlockingSource{started: make(chan struct{})}
	item := &FetchItem{Fetch: &SingleFetch{Info: &FetchInfo{DataSourceID: "ds", DataSourceName: "ds", OperationType: ast.OperationTypeQuery}}}
	input := []byte(`{"method":"POST","url":"http://x","body":{"query":"{ok}"}}`)
	newLoader := func() *Loader {
		return &Loader{ctx: NewContext(context.Background()), singleFlight: sf}
	}
	leaderCtx, cancelLeader := context.WithCancel(context.Background())
	leaderDone := make(chan error, 1)
	go func() { leaderDone <- newLoader().loadByContext(leaderCtx, src, item, input, &result{}) }()
	<-src.started
	followerDone := make(chan error, 1)
	followerRes := &result{}
	go func() { followerDone <- newLoader().loadByContext(context.Background(), src, item, input, followerRes) }()
	time.Sleep(100 * time.Millisecond) // let the follower join the in-flight item
	cancelLeader()                     // the leader's client disconnects
	<-leaderDone
	select {
	case err := <-followerDone:
		if errors.Is(err, context.Canceled) {
			t.Fatalf("follower (own context alive) failed with the leader's cancellation: %v", err)
		}
	case <-time.After(5 * time.Second):
		t.Fatal("follower wedged")
	}
}

func TestVerifF3InboundLeaderCancelBecomesFollowerError(t *testing.T) {
	sf := NewRequestSingleFlight(1)
	response := &GraphQLResponse{Info: &GraphQLResponseInfo{OperationType: ast.OperationTypeQuery}}
	leaderCtx, cancelLeader := context.WithCancel(context.Background())
	lc := NewContext(leaderCtx)
	lc.Request.ID = 7
	leader, err := sf.GetOrCreate(lc, response)
	if err != nil || leader == nil {
		t.Fatalf("leader: %v %v", leader, err)
	}
	followerDone := make(chan error, 1)
	go func() {
		fc := NewContext(context.Background())
		fc.Request.ID = 7
		_, err := sf.GetOrCreate(fc, response)
		followerDone <- err
	}()
	time.Sleep(100 * time.Millisecond)
	// what ArenaResolveGraphQLResponse does when the leader's load fails with its own context error
	cancelLeader()
	sf.FinishErr(leader, leaderCtx.Err())
	select {
	case err := <-followerDone:
		if errors.Is(err, context.Canceled) {
			t.Fatalf("follower (own context alive) failed with the leader's cancellation: %v", err)
		}
	case <-time.After(5 * time.Second):
		t.Fatal("follower wedged")
	}
}
