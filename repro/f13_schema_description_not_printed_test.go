package astprinter

import (
	"testing"

	"github.com/wundergraph/graphql-go-tools/v2/pkg/astparser"
)

func TestF13_SchemaDescriptionIsPrinted(t *testing.T) {
	for _, in := range []string{
		`"the schema" schema {query: Q}`,
		"\"\"\"\nthe schema\n\"\"\"\nschema {query: Q} type Q {a: Int}",
	} {
		doc, rep := astparser.ParseGraphqlDocumentString(in)
		if rep.HasErrors() {
			t.Fatalf("parse %q: %v", in, rep)
		}
		if !doc.SchemaDefinitions[0].Description.IsDefined {
			t.Fatalf("parser did not record the description of %q", in)
		}
		for _, indent := range []bool{false, true} {
			var out string
			var err error
			if indent {
				out, err = PrintStringIndent(&doc, "  ")
			} else {
				out, err = PrintString(&doc)
			}
			if err != nil {
				t.Fatal(err)
			}
			doc2, rep2 := astparser.ParseGraphqlDocumentString(out)
			if rep2.HasErrors() {
				t.Fatalf("print(%q) = %q does not parse: %v", in, out, rep2)
			}
			t.Logf("%q -> %q", in, out)
			if !doc2.SchemaDefinitions[0].Description.IsDefined {
				t.Errorf("DEFECT REPRODUCED: %q printed as %q: the schema description is lost", in, out)
			}
		}
	}
}
