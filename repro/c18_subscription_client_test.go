package transport

// Reproduction of the C18 findings (C18-R5 = DESIGN §4 F4, C18-R6, C18-R7) against the unmodified code.
// Drop into v2/pkg/engine/datasource/graphql_datasource/subscriptionclient/transport and run:
//   go test -run TestC18_ -count=1 -v .
// All four tests FAIL on the current tree ("DEFECT REPRODUCED"); with repro/c18_fixes.diff applied the three
// public-API tests pass (TestC18_R7_InterleavedSubscribeSteps drives the two internal steps of Subscribe by hand
// and therefore bypasses the retry of the fix).

import (
	"context"
	"errors"
	"net/http"
	"net/http/httptest"
	"sync"
	"sync/atomic"
	"testing"
	"time"

	"github.com/coder/websocket"
	"github.com/coder/websocket/wsjson"

	"github.com/wundergraph/graphql-go-tools/v2/pkg/engine/datasource/graphql_datasource/subscriptionclient/common"
)

// slowAckServer acks connection_init after ackDelay, then runs handler (nth = number of the connection).
func slowAckServer(t *testing.T, ackDelay time.Duration, dials *atomic.Int32, handler func(ctx context.Context, nth int32, conn *websocket.Conn)) *httptest.Server {
	server := httptest.NewServer(http.HandlerFunc(func(w http.ResponseWriter, r *http.Request) {
		conn, err := websocket.Accept(w, r, &websocket.AcceptOptions{Subprotocols: []string{"graphql-transport-ws"}})
		if err != nil {
			return
		}
		defer conn.Close(websocket.StatusNormalClosure, "")
		nth := dials.Add(1)
		ctx, cancel := context.WithTimeout(r.Context(), 30*time.Second)
		defer cancel()
		var initMsg map[string]any
		if err := wsjson.Read(ctx, conn, &initMsg); err != nil {
			return
		}
		time.Sleep(ackDelay)
		_ = wsjson.Write(ctx, conn, map[string]string{"type": "connection_ack"})
		handler(ctx, nth, conn)
	}))
	t.Cleanup(server.Close)
	return server
}

func readAll(ctx context.Context, conn *websocket.Conn) {
	for {
		var msg map[string]any
		if err := wsjson.Read(ctx, conn, &msg); err != nil {
			return
		}
	}
}

// F4 / C18-R5: A dials, B waits on the coalesced dial, A cancels while dialling → B fails with A's cancellation.
func TestC18_F4_LeaderCancelFailsWaiter(t *testing.T) {
	var dials atomic.Int32
	server := slowAckServer(t, 300*time.Millisecond, &dials, func(ctx context.Context, _ int32, conn *websocket.Conn) { readAll(ctx, conn) })
	tr := newTestWSTransport(t, WSTransportOptions{})
	opts := common.Options{Endpoint: server.URL, Transport: common.TransportWS}
	ctxA, cancelA := context.WithCancel(context.Background())
	var errA, errB error
	var wg sync.WaitGroup
	wg.Go(func() {
		_, errA = tr.Subscribe(ctxA, &common.Request{Query: "subscription { a }"}, opts, func(*common.Message) {})
	})
	time.Sleep(50 * time.Millisecond)
	wg.Go(func() {
		_, errB = tr.Subscribe(context.Background(), &common.Request{Query: "subscription { b }"}, opts, func(*common.Message) {})
	})
	time.Sleep(50 * time.Millisecond)
	cancelA() // A goes away while the shared connection is being initialised
	wg.Wait()
	t.Logf("A: %v", errA)
	t.Logf("B: %v   (B's context is context.Background())", errB)
	if errB != nil && errors.Is(errB, context.Canceled) {
		t.Fatalf("DEFECT REPRODUCED: subscriber B failed with subscriber A's cancellation: %v", errB)
	}
}

// C18-R6: A's late removeConn(key) deletes its successor B from the table.
func TestC18_R6_OldConnectionRemovesSuccessor(t *testing.T) {
	var dials atomic.Int32
	server := slowAckServer(t, 0, &dials, func(ctx context.Context, nth int32, conn *websocket.Conn) {
		if nth == 1 {
			// first connection: stop reading, so that the client's close handshake in shutdown() blocks for a while
			time.Sleep(1500 * time.Millisecond)
			return
		}
		readAll(ctx, conn)
	})
	tr := newTestWSTransport(t, WSTransportOptions{})
	opts := common.Options{Endpoint: server.URL, Transport: common.TransportWS}
	cancel1, err := tr.Subscribe(context.Background(), &common.Request{Query: "subscription { one }"}, opts, func(*common.Message) {})
	if err != nil {
		t.Fatal(err)
	}
	done1 := make(chan struct{})
	go func() { cancel1(); close(done1) }() // last subscriber leaves → idle close of A (closed=true, then blocking socket close, then onEmpty)
	time.Sleep(200 * time.Millisecond)
	h2, _ := collectingHandler()
	cancel2, err := tr.Subscribe(context.Background(), &common.Request{Query: "subscription { two }"}, opts, h2)
	if err != nil {
		t.Fatalf("second subscribe: %v", err)
	}
	defer cancel2()
	t.Logf("after second subscribe: dials=%d ConnCount=%d", dials.Load(), tr.ConnCount())
	<-done1
	t.Logf("after the first connection finished shutting down: ConnCount=%d (subscription two is still live on connection B)", tr.ConnCount())
	if tr.ConnCount() == 0 {
		cancel3, err := tr.Subscribe(context.Background(), &common.Request{Query: "subscription { three }"}, opts, func(*common.Message) {})
		if err == nil {
			defer cancel3()
		}
		t.Fatalf("DEFECT REPRODUCED: live connection B was removed from WSTransport.conns by A's removeConn(key); a third subscriber with the same options dialled again (dials=%d instead of 2)", dials.Load())
	}
}

// C18-R7: cancel of the last subscriber races with a new subscriber on the same key.
func TestC18_R7_CancelFailsNewSubscriber(t *testing.T) {
	var dials atomic.Int32
	server := slowAckServer(t, 0, &dials, func(ctx context.Context, _ int32, conn *websocket.Conn) { readAll(ctx, conn) })
	tr := newTestWSTransport(t, WSTransportOptions{})
	opts := common.Options{Endpoint: server.URL, Transport: common.TransportWS}
	var refused, killed int
	for i := 0; i < 20000 && refused+killed == 0; i++ {
		cancel1, err := tr.Subscribe(context.Background(), &common.Request{Query: "subscription { one }"}, opts, func(*common.Message) {})
		if err != nil {
			t.Fatalf("iteration %d: first subscribe: %v", i, err)
		}
		got := make(chan *common.Message, 4)
		var cancel2 func()
		var err2 error
		var wg sync.WaitGroup
		wg.Go(func() { cancel1() })
		wg.Go(func() {
			for start := time.Now(); time.Since(start) < time.Duration(i%400)*time.Microsecond/2; {
			}
			cancel2, err2 = tr.Subscribe(context.Background(), &common.Request{Query: "subscription { two }"}, opts, func(m *common.Message) { got <- m })
		})
		wg.Wait()
		if err2 != nil {
			refused++
			t.Logf("iteration %d: second subscriber's Subscribe failed: %v", i, err2)
			continue
		}
		select {
		case m := <-got:
			if m.Type == common.MessageTypeConnectionError {
				killed++
				t.Logf("iteration %d: second subscriber received connection error: %v", i, m.Err)
			}
		case <-time.After(2 * time.Millisecond):
		}
		cancel2()
		for tr.ConnCount() != 0 {
			time.Sleep(100 * time.Microsecond)
		}
	}
	if refused+killed > 0 {
		t.Fatalf("DEFECT REPRODUCED: a new subscriber failed because another subscriber cancelled (refused at admission: %d, killed after admission: %d)", refused, killed)
	}
}
