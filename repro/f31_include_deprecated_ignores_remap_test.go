package engine

// existing_2: the introspection argument includeDeprecated is read from the raw
// request variables by its CANONICAL (renamed) name, bypassing the remap table
// (plan.Visitor.resolveSkipArrayItem uses ctx.Variables.GetBool instead of
// ctx.VariablesView()). Whether deprecated fields are returned therefore depends
// on how the client named its variables.
//
// Drop into execution/engine/ and run:
//   cd execution && go test ./engine -run TestC09Existing2 -count=1

import (
	"context"
	"testing"

	"github.com/jensneuse/abstractlogger"
	"github.com/stretchr/testify/require"

	"github.com/wundergraph/graphql-go-tools/execution/graphql"
	"github.com/wundergraph/graphql-go-tools/v2/pkg/engine/resolve"
)

func TestC09Existing2_IncludeDeprecatedDependsOnVariableNames(t *testing.T) {
	schema, err := graphql.NewSchemaFromString(`
		type Query {
			old: String @deprecated(reason: "gone")
			current: String
		}
	`)
	require.NoError(t, err)

	exec := func(query, variables string) string {
		eng, err := NewExecutionEngine(context.Background(), abstractlogger.Noop{}, NewConfiguration(schema), resolve.ResolverOptions{MaxConcurrency: 8})
		require.NoError(t, err)
		req := graphql.Request{Query: query, Variables: []byte(variables)}
		w := graphql.NewEngineResultWriter()
		require.NoError(t, eng.Execute(context.Background(), &req, &w))
		return w.String()
	}

	const want = `{"data":{"__type":{"fields":[{"name":"old"},{"name":"current"}]}}}`

	// $a is used first, $b second: canonical names equal the client's names
	got := exec(`query($a: String!, $b: Boolean){ __type(name: $a){ fields(includeDeprecated: $b){ name } } }`, `{"a":"Query","b":true}`)
	require.Equal(t, want, got)

	// the very same operation with the two names swapped
	got = exec(`query($b: String!, $a: Boolean){ __type(name: $b){ fields(includeDeprecated: $a){ name } } }`, `{"b":"Query","a":true}`)
	require.Equal(t, want, got, "swapping the variable names drops the deprecated field")

	// ... or with any other name
	got = exec(`query($dep: Boolean){ __type(name: "Query"){ fields(includeDeprecated: $dep){ name } } }`, `{"dep":true}`)
	require.Equal(t, want, got, "naming the variable $dep drops the deprecated field")
}
