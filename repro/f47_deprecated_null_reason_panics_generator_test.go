package introspection

// existing_8 (C17):
//  (a) a schema that spells out built-in scalars / directives (as printed by many tools) gets them twice;
//  (b) with an explicit schema definition that names no mutation type, an ordinary object type that
//      happens to be called Mutation is reported as mutationType;
//  (c) @deprecated(reason: null) makes the generator panic.
// Goes into v2/pkg/introspection/ ; run: cd v2 && go test ./pkg/introspection -run TestC17Existing8 -count=1 -v

import (
	"testing"

	"github.com/wundergraph/graphql-go-tools/v2/pkg/astparser"
	"github.com/wundergraph/graphql-go-tools/v2/pkg/asttransform"
	"github.com/wundergraph/graphql-go-tools/v2/pkg/operationreport"
)

func c17e8Generate(t *testing.T, sdl string) (data Data, panicked any) {
	t.Helper()
	doc, report := astparser.ParseGraphqlDocumentString(sdl)
	if report.HasErrors() {
		t.Fatal(report)
	}
	if err := asttransform.MergeDefinitionWithBaseSchema(&doc); err != nil {
		t.Fatal(err)
	}
	defer func() { panicked = recover() }()
	var rep operationreport.Report
	NewGenerator().Generate(&doc, &rep, &data)
	if rep.HasErrors() {
		t.Fatal(rep)
	}
	return data, nil
}

func TestC17Existing8c_DeprecatedWithNullReason(t *testing.T) {
	data, p := c17e8Generate(t, `type Query { a: String b: ID @deprecated(reason: null) }`)
	if p != nil {
		t.Fatalf("generator panicked: %v", p)
	}
	for _, f := range data.Schema.TypeByName("Query").Fields {
		if f.Name == "b" && (!f.IsDeprecated || f.DeprecationReason != nil) {
			t.Errorf("Query.b: isDeprecated=%v deprecationReason=%v, want true / null", f.IsDeprecated, f.DeprecationReason)
		}
	}
}
