package websocket

// Reproduction of finding F9 (C19-R7): Client.DisconnectWithReason writes the close frame with
// ws.WriteFrame, i.e. as two conn.Write calls (header, then payload), and nothing serialises it against
// the data frames written by WriteBytesToClient from the operation goroutines (the protocol writers hold
// their own mutex only around data writes). A data frame written between the two halves of the close
// frame tears it: the peer does not see the prescribed 44xx close code but garbage.
// Drop into execution/subscription/websocket and run: go test -run TestVerifF9 -count=1 .
// Fails on the pinned tree, passes with the "fix:" commit.

import (
	"bytes"
	"net"
	"sync"
	"testing"
	"time"

	"github.com/jensneuse/abstractlogger"
)

type f9Conn struct {
	net.Conn
	mu          sync.Mutex
	log         [][]byte
	closeHeader chan struct{} // closed when the first half of the close frame was written
	release     chan struct{} // the close-frame writer continues when this is closed
	once        sync.Once
}

func (c *f9Conn) Write(p []byte) (int, error) {
	c.mu.Lock()
	c.log = append(c.log, append([]byte(nil), p...))
	c.mu.Unlock()
	if len(p) > 0 && p[0] == 0x88 && len(p) <= 4 { // FIN|close opcode: header-only write of the close frame
		c.once.Do(func() { close(c.closeHeader) })
		<-c.release
	}
	return len(p), nil
}
func (c *f9Conn) Close() error { return nil }

func TestVerifF9CloseFrameIsNotTornByDataFrames(t *testing.T) {
	conn := &f9Conn{closeHeader: make(chan struct{}), release: make(chan struct{})}
	client := NewClient(abstractlogger.Noop{}, conn)
	closed := make(chan struct{})
	go func() {
		defer close(closed)
		_ = client.DisconnectWithReason(NewCloseReason(4400, "Invalid type 'bogus'"))
	}()
	<-conn.closeHeader // the close frame's header is on the wire, its payload is not yet
	wrote := make(chan struct{})
	go func() {
		defer close(wrote)
		_ = client.WriteBytesToClient([]byte(`{"id":"1","type":"next","payload":{"data":{"a":1}}}`))
	}()
	select {
	case <-wrote: // the data frame went out in the middle of the close frame
	case <-time.After(300 * time.Millisecond): // the data writer is (correctly) waiting for the close frame to finish
	}
	close(conn.release)
	<-closed
	<-wrote
	conn.mu.Lock()
	defer conn.mu.Unlock()
	// find the close header and require the very next write to be the close payload (status 4400 = 0x11 0x30)
	for i, w := range conn.log {
		if len(w) > 0 && w[0] == 0x88 && len(w) <= 4 {
			if i+1 >= len(conn.log) || !bytes.HasPrefix(conn.log[i+1], []byte{0x11, 0x30}) {
				t.Fatalf("close frame torn: after the close header the next bytes on the wire are %q, not the close payload", conn.log[i+1])
			}
			return
		}
	}
	t.Skip("close frame was written in one piece by this ws version")
}
