package astvalidation_test

// F88 (C04): the smallest Int, -2147483648, was rejected ("Int cannot represent non 32-bit signed integer value"):
// ast.Document.IntValueValidInt32 range-checked the digits of the literal, which exclude the sign, against the positive
// bound only. (Test by a round-3 seeding sub-agent, reduced to the Int cases.)
// Drop into v2/pkg/astvalidation/ and run
//   cd v2 && go test ./pkg/astvalidation -run TestF88 -count=1 -v
// Fails before the fix, passes after.

import (
	"fmt"
	"testing"

	"github.com/wundergraph/graphql-go-tools/v2/pkg/astnormalization"
	"github.com/wundergraph/graphql-go-tools/v2/pkg/astparser"
	"github.com/wundergraph/graphql-go-tools/v2/pkg/astprinter"
	"github.com/wundergraph/graphql-go-tools/v2/pkg/asttransform"
	"github.com/wundergraph/graphql-go-tools/v2/pkg/astvalidation"
	"github.com/wundergraph/graphql-go-tools/v2/pkg/operationreport"
)

const f88Schema = `
directive @d on INLINE_FRAGMENT
directive @dreq(x: Int!) on FIELD
schema { query: Query subscription: Subscription }
scalar Custom
enum Color { RED GREEN }
input Inner { i: Int, s: String, id: ID, f: Float, c: Custom, color: Color }
input In { inner: Inner, list: [Int], nn: [Int!], s: String, id: ID, f: Float, c: Custom, b: Boolean }
interface Pet { name: String! }
interface Named { name: String! }
type Dog implements Pet & Named { name: String! nick: String bark: Int color: Color owner: Human friend(id: Int): Pet dogs: [Dog] }
type Cat implements Pet & Named { name: String! nick: String! meow: Int color: Color friend(id: Int): Pet buddy: Named cat: Cat }
type Human implements Named { name: String! pets: [Pet] }
type Query {
  dog: Dog cat: Cat pet: Pet named: Named human: Human
  arg(in: In, i: Int, s: String, id: ID, f: Float, c: Custom, color: Color, list: [Int], nn: [Int!], b: Boolean): String
  dogById(id: Int): Dog
}
type Subscription { s1: String s2: String dog: Dog }
`

// f88Admit runs the documented admission sequence: normalize (same options the execution
// engine uses in front of ValidateForSchema), then validate with DefaultOperationValidator().
func f88Admit(t *testing.T, op string) (accepted bool, reason string) {
	t.Helper()
	defer func() {
		if r := recover(); r != nil {
			accepted, reason = false, fmt.Sprintf("PANIC: %v", r)
		}
	}()
	def, rep := astparser.ParseGraphqlDocumentString(f88Schema)
	if rep.HasErrors() {
		t.Fatal(rep.Error())
	}
	if err := asttransform.MergeDefinitionWithBaseSchema(&def); err != nil {
		t.Fatal(err)
	}
	doc, rep := astparser.ParseGraphqlDocumentString(op)
	if rep.HasErrors() {
		t.Fatal(rep.Error())
	}
	doc.Input.Variables = []byte(`{}`)
	report := operationreport.Report{}
	astnormalization.NewWithOpts(
		astnormalization.WithRemoveFragmentDefinitions(),
		astnormalization.WithRemoveUnusedVariables(),
		astnormalization.WithInlineFragmentSpreads(),
	).NormalizeOperation(&doc, &def, &report)
	if report.HasErrors() {
		return false, "normalization: " + report.Error()
	}
	state := astvalidation.DefaultOperationValidator().Validate(&doc, &def, &report)
	printed, _ := astprinter.PrintString(&doc)
	if state != astvalidation.Valid {
		return false, report.Error()
	}
	return true, "normalized to: " + printed
}

func TestF88SmallestIntIsAnInt(t *testing.T) {
	// spec-INVALID operations: must be rejected (with an error, not a panic)
	invalid := []string{
		`{ arg(i: 2147483648) }`,
		`{ arg(i: -2147483649) }`,
		`{ arg(i: -99999999999999999999999) }`,
	}
	// spec-VALID operations: must be accepted
	valid := []string{
		`{ arg(i: -2147483648) }`,
		`{ arg(i: 2147483647) }`,
		`{ arg(i: -2147483647) }`,
		`{ arg(list: [-2147483648]) }`,
	}
	for _, op := range invalid {
		accepted, reason := f88Admit(t, op)
		switch {
		case accepted:
			t.Errorf("spec-INVALID operation was ACCEPTED: %s\n    %s", op, reason)
		case len(reason) >= 5 && reason[:5] == "PANIC":
			t.Errorf("validator panicked instead of rejecting: %s\n    %s", op, reason)
		}
	}
	for _, op := range valid {
		if accepted, reason := f88Admit(t, op); !accepted {
			t.Errorf("spec-VALID operation was REJECTED: %s\n    %s", op, reason)
		}
	}
}
