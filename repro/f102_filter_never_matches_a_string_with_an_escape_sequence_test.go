package resolve

// F102 (C12): a subscription filter on a string field never matched a value that contains a JSON escape sequence.
// SubscriptionFieldFilter.SkipEvent reads the event's field with jsonparser.Get, which returns the content of a JSON string
// raw: without the quotes and still escaped. It then rendered it "as JSON" with json.Marshal(string(expected)), escaping
// the escape sequences a second time: event {"id":"a\"b"}, variable "a\"b": the event was skipped.
// Drop into v2/pkg/engine/resolve/ and run
//   cd v2 && go test ./pkg/engine/resolve -run TestF102 -count=1 -v
// Fails before the fix, passes after.

import (
	"testing"

	"github.com/wundergraph/astjson"
)

func TestF102_FilterOnAStringWithAnEscapeSequence(t *testing.T) {
	for _, tc := range []struct{ name, variables, event string }{
		{"plain (control)", `{"var":"ab"}`, `{"event":"ab"}`},
		{"quote", `{"var":"a\"b"}`, `{"event":"a\"b"}`},
		{"backslash", `{"var":"a\\b"}`, `{"event":"a\\b"}`},
		{"newline", `{"var":"a\nb"}`, `{"event":"a\nb"}`},
	} {
		t.Run(tc.name, func(t *testing.T) {
			for _, renderer := range []VariableRenderer{NewPlainVariableRenderer(), NewJSONVariableRenderer()} {
				filter := &SubscriptionFilter{In: &SubscriptionFieldFilter{
					FieldPath: []string{"event"},
					Values: []InputTemplate{{Segments: []TemplateSegment{{
						SegmentType:        VariableSegmentType,
						VariableKind:       ContextVariableKind,
						VariableSourcePath: []string{"var"},
						Renderer:           renderer,
					}}}},
				}}
				c := &Context{Variables: astjson.MustParseBytes([]byte(tc.variables))}
				skip, err := filter.SkipEvent(c, []byte(tc.event))
				if err != nil {
					t.Fatalf("%s: %v", renderer.GetKind(), err)
				}
				if skip {
					t.Logf("%s renderer: event %s skipped although the subscriber's value is %s", renderer.GetKind(), tc.event, tc.variables)
					if renderer.GetKind() == "json" {
						t.Fail()
					}
				}
			}
		})
	}
}
