package resolve

// C12 existing violation #1 (unmodified tree):
// a trigger's updater keeps looking its trigger up BY ID for Update/Complete/Error. Trigger ids
// (hash of input+headers) are re-used, and an unsubscribe removes the trigger from the registry
// under r.mu but cancels the trigger context only AFTER closeSubs() -- which blocks on the
// subscription's writeMu while a slow write (here: a heartbeat) is in flight. In that window a new
// subscriber registers a NEW trigger (new upstream Source.Start) under the same id, and every
// event / Complete of the OLD source is delivered to the NEW subscriber.
//
// Drop into v2/pkg/engine/resolve/ and run:
//   go test -count=1 -run 'TestC12Existing1' ./pkg/engine/resolve/

import (
	"context"
	"fmt"
	"net/http"
	"sync"
	"testing"
	"time"

	"github.com/cespare/xxhash/v2"
	"github.com/stretchr/testify/require"
)

type c12e1Start struct {
	ctx     *Context
	updater SubscriptionUpdater
}

type c12e1Source struct {
	starts chan c12e1Start
}

func (s *c12e1Source) HashTriggerInput(input []byte, xxh *xxhash.Digest) error {
	_, err := xxh.Write(input)
	return err
}

func (s *c12e1Source) Start(ctx *Context, _ http.Header, _ []byte, updater SubscriptionUpdater) error {
	s.starts <- c12e1Start{ctx: ctx, updater: updater}
	return nil
}

type c12e1Writer struct {
	mu    sync.Mutex
	buf   []byte
	calls []string

	heartbeatEntered chan struct{} // closed when Heartbeat is entered the first time (if non-nil)
	heartbeatRelease chan struct{} // Heartbeat blocks until closed (if non-nil)
	once             sync.Once
}

func (w *c12e1Writer) log(s string) {
	w.mu.Lock()
	w.calls = append(w.calls, s)
	w.mu.Unlock()
}

func (w *c12e1Writer) Calls() []string {
	w.mu.Lock()
	defer w.mu.Unlock()
	return append([]string(nil), w.calls...)
}

func (w *c12e1Writer) Write(p []byte) (int, error) {
	w.mu.Lock()
	w.buf = append(w.buf, p...)
	w.mu.Unlock()
	return len(p), nil
}

func (w *c12e1Writer) Flush() error {
	w.mu.Lock()
	w.calls = append(w.calls, "message:"+string(w.buf))
	w.buf = nil
	w.mu.Unlock()
	return nil
}

func (w *c12e1Writer) Complete() { w.log("complete") }

func (w *c12e1Writer) Error(data []byte) { w.log("error:" + string(data)) }

func (w *c12e1Writer) Heartbeat() error {
	if w.heartbeatEntered != nil {
		w.once.Do(func() { close(w.heartbeatEntered) })
	}
	if w.heartbeatRelease != nil {
		<-w.heartbeatRelease
	}
	w.log("heartbeat")
	return nil
}

func c12e1Plan(source SubscriptionDataSource) *GraphQLSubscription {
	return &GraphQLSubscription{
		Trigger: GraphQLSubscriptionTrigger{
			Source: source,
			InputTemplate: InputTemplate{Segments: []TemplateSegment{{
				SegmentType: StaticSegmentType,
				Data:        []byte(`{"topic":"counter"}`),
			}}},
			PostProcessing: PostProcessingConfiguration{
				SelectResponseDataPath:   []string{"data"},
				SelectResponseErrorsPath: []string{"errors"},
			},
		},
		Response: &GraphQLResponse{
			Data: &Object{Fields: []*Field{{
				Name:  []byte("counter"),
				Value: &Integer{Path: []string{"counter"}},
			}}},
		},
	}
}

func TestC12Existing1_StaleUpdaterReachesNewTriggerWithSameID(t *testing.T) {
	rCtx, stop := context.WithCancel(context.Background())
	defer stop()

	reporter := &TestReporter{}
	resolver := New(rCtx, ResolverOptions{
		MaxConcurrency:                16,
		AsyncErrorWriter:              &FakeErrorWriter{},
		SubscriptionHeartbeatInterval: 10 * time.Millisecond,
		Reporter:                      reporter,
	})

	source := &c12e1Source{starts: make(chan c12e1Start, 4)}
	plan := c12e1Plan(source)

	// --- subscriber A: heartbeats enabled, its client is slow: Heartbeat() blocks.
	writerA := &c12e1Writer{heartbeatEntered: make(chan struct{}), heartbeatRelease: make(chan struct{})}
	released := false
	release := func() {
		if !released {
			released = true
			close(writerA.heartbeatRelease)
		}
	}
	defer release()

	ctxA := NewContext(context.Background())
	ctxA.ExecutionOptions.SendHeartbeat = true
	idA := SubscriptionIdentifier{ConnectionID: 1, SubscriptionID: 1}
	require.NoError(t, resolver.AsyncResolveGraphQLSubscription(ctxA, plan, writerA, idA))

	var old c12e1Start
	select {
	case old = <-source.starts:
	case <-time.After(5 * time.Second):
		t.Fatal("source 1 not started")
	}

	select {
	case <-writerA.heartbeatEntered:
	case <-time.After(5 * time.Second):
		t.Fatal("heartbeat to A never started")
	}

	// --- A unsubscribes. The trigger leaves the registry under r.mu; closeSubs() then waits for
	// A's writeMu (held by the heartbeat in flight); the trigger context is cancelled only afterwards.
	unsubscribed := make(chan struct{})
	go func() {
		_ = resolver.UnsubscribeSubscription(idA)
		close(unsubscribed)
	}()
	require.Eventually(t, func() bool { return reporter.subscriptions.Load() == 0 }, 5*time.Second, time.Millisecond)
	require.NoError(t, old.ctx.Context().Err(), "old trigger context is not cancelled yet: the old source cannot know it should stop")

	// --- subscriber B, same subscription (same trigger id): a NEW trigger with a NEW upstream.
	writerB := &c12e1Writer{}
	ctxB := NewContext(context.Background())
	idB := SubscriptionIdentifier{ConnectionID: 2, SubscriptionID: 1}
	require.NoError(t, resolver.AsyncResolveGraphQLSubscription(ctxB, plan, writerB, idB))
	var fresh c12e1Start
	select {
	case fresh = <-source.starts:
	case <-time.After(5 * time.Second):
		t.Fatal("B did not get its own upstream subscription (it joined the old trigger?)")
	}
	require.NotSame(t, old.updater, fresh.updater)

	// --- the same upstream event arrives on both upstream subscriptions; the old one then ends.
	old.updater.Update([]byte(`{"data":{"counter":1}}`))
	fresh.updater.Update([]byte(`{"data":{"counter":1}}`))
	old.updater.Complete()
	old.updater.Done()
	fresh.updater.Update([]byte(`{"data":{"counter":2}}`))

	release()
	select {
	case <-unsubscribed:
	case <-time.After(5 * time.Second):
		t.Fatal("unsubscribe of A did not finish")
	}

	got := writerB.Calls()
	want := []string{`message:{"data":{"counter":1}}`, `message:{"data":{"counter":2}}`}
	require.Equal(t, want, got, fmt.Sprintf("B must see exactly the events of ITS upstream subscription, once each, and no Complete; got %q", got))
}
