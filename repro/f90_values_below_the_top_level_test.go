package astvalidation_test

// F90 (C04): values were not held to the declared type below the top level of a literal.
//  - the items of a list literal were validated against the item type with its non-null stripped:
//    { arg(nn: [1, null]) } passed for nn: [Int!] (found by reading while repairing the next point; the same in the
//    validation of a variable's default value, which C04-R18 pointed at)
//  - a variable inside a list or input object literal was admitted by the name of its innermost type, or by its
//    default value alone: query($a: [Int]) { arg(list: [$a]) }, query($a: String = "x") { arg(in: {id: $a}) }
//    (test by a round-3 seeding sub-agent, existing_4, extended).
// Drop into v2/pkg/astvalidation/ and run
//   cd v2 && go test ./pkg/astvalidation -run TestF90 -count=1 -v
// Fails before the fix, passes after.

import (
	"fmt"
	"testing"

	"github.com/wundergraph/graphql-go-tools/v2/pkg/astnormalization"
	"github.com/wundergraph/graphql-go-tools/v2/pkg/astparser"
	"github.com/wundergraph/graphql-go-tools/v2/pkg/astprinter"
	"github.com/wundergraph/graphql-go-tools/v2/pkg/asttransform"
	"github.com/wundergraph/graphql-go-tools/v2/pkg/astvalidation"
	"github.com/wundergraph/graphql-go-tools/v2/pkg/operationreport"
)

const f90Schema = `
directive @d on INLINE_FRAGMENT
directive @dreq(x: Int!) on FIELD
schema { query: Query subscription: Subscription }
scalar Custom
enum Color { RED GREEN }
input Inner { i: Int, s: String, id: ID, f: Float, c: Custom, color: Color }
input In { inner: Inner, list: [Int], nn: [Int!], s: String, id: ID, f: Float, c: Custom, b: Boolean }
interface Pet { name: String! }
interface Named { name: String! }
type Dog implements Pet & Named { name: String! nick: String bark: Int color: Color owner: Human friend(id: Int): Pet dogs: [Dog] }
type Cat implements Pet & Named { name: String! nick: String! meow: Int color: Color friend(id: Int): Pet buddy: Named cat: Cat }
type Human implements Named { name: String! pets: [Pet] }
type Query {
  dog: Dog cat: Cat pet: Pet named: Named human: Human
  arg(in: In, i: Int, s: String, id: ID, f: Float, c: Custom, color: Color, list: [Int], nn: [Int!], b: Boolean): String
  dogById(id: Int): Dog
}
type Subscription { s1: String s2: String dog: Dog }
`

// f90Admit runs the documented admission sequence: normalize (same options the execution
// engine uses in front of ValidateForSchema), then validate with DefaultOperationValidator().
func f90Admit(t *testing.T, op string) (accepted bool, reason string) {
	t.Helper()
	defer func() {
		if r := recover(); r != nil {
			accepted, reason = false, fmt.Sprintf("PANIC: %v", r)
		}
	}()
	def, rep := astparser.ParseGraphqlDocumentString(f90Schema)
	if rep.HasErrors() {
		t.Fatal(rep.Error())
	}
	if err := asttransform.MergeDefinitionWithBaseSchema(&def); err != nil {
		t.Fatal(err)
	}
	doc, rep := astparser.ParseGraphqlDocumentString(op)
	if rep.HasErrors() {
		t.Fatal(rep.Error())
	}
	doc.Input.Variables = []byte(`{}`)
	report := operationreport.Report{}
	astnormalization.NewWithOpts(
		astnormalization.WithRemoveFragmentDefinitions(),
		astnormalization.WithRemoveUnusedVariables(),
		astnormalization.WithInlineFragmentSpreads(),
	).NormalizeOperation(&doc, &def, &report)
	if report.HasErrors() {
		return false, "normalization: " + report.Error()
	}
	state := astvalidation.DefaultOperationValidator().Validate(&doc, &def, &report)
	printed, _ := astprinter.PrintString(&doc)
	if state != astvalidation.Valid {
		return false, report.Error()
	}
	return true, "normalized to: " + printed
}

func TestF90ValuesHeldToTheDeclaredTypeAtEveryDepth(t *testing.T) {
	// spec-INVALID operations: must be rejected (with an error, not a panic)
	invalid := []string{
		`{ arg(nn: [1, null]) }`,
		`{ arg(in: {nn: [null]}) }`,
		`query($a: [Int!] = [1, null]) { arg(nn: $a) }`,
		`query($a: [Int]) { arg(list: [$a]) }`,
		`query($a: Int) { arg(nn: [$a]) }`,
		`query($a: Int) { arg(in: {nn: [$a]}) }`,
		`query($a: String = "x") { arg(in: {id: $a}) }`,
		`query($a: Int = 1) { arg(in: {f: $a}) }`,
		`query($a: String = "x") { arg(in: {c: $a}) }`,
	}
	// spec-VALID operations: must be accepted
	valid := []string{
		`{ arg(nn: []) }`,
		`{ arg(nn: [1, 2]) }`,
		`{ arg(list: [1, null]) }`,
		`query($a: [Int!] = []) { arg(nn: $a) }`,
		`query($a: [Int!] = [1]) { arg(nn: $a) }`,
		`query($a: Int = 1) { arg(nn: [$a]) }`,
		`query($a: Int!) { arg(nn: [$a]) }`,
		`query($a: ID) { arg(in: {id: $a}) }`,
	}
	for _, op := range invalid {
		accepted, reason := f90Admit(t, op)
		switch {
		case accepted:
			t.Errorf("spec-INVALID operation was ACCEPTED: %s\n    %s", op, reason)
		case len(reason) >= 5 && reason[:5] == "PANIC":
			t.Errorf("validator panicked instead of rejecting: %s\n    %s", op, reason)
		}
	}
	for _, op := range valid {
		if accepted, reason := f90Admit(t, op); !accepted {
			t.Errorf("spec-VALID operation was REJECTED: %s\n    %s", op, reason)
		}
	}
}
