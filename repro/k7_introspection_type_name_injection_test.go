package engine_test

// existing_9 (C17): __type(name:) with a name that contains a double quote or a backslash does not
// answer null ("no such type") but fails the fetch: the argument is spliced unescaped into the JSON
// input of the introspection data source.
// Goes into execution/engine/ ; run: cd execution && go test ./engine -run TestC17Existing9 -count=1 -v

import (
	"context"
	"testing"

	"github.com/jensneuse/abstractlogger"

	"github.com/wundergraph/graphql-go-tools/execution/engine"
	"github.com/wundergraph/graphql-go-tools/execution/graphql"
	"github.com/wundergraph/graphql-go-tools/v2/pkg/engine/resolve"
)

func c17e9Exec(t *testing.T, sdl, query, variables string) string {
	t.Helper()
	schema, err := graphql.NewSchemaFromString(sdl)
	if err != nil {
		t.Fatal(err)
	}
	eng, err := engine.NewExecutionEngine(context.Background(), abstractlogger.Noop{}, engine.NewConfiguration(schema), resolve.ResolverOptions{MaxConcurrency: 8})
	if err != nil {
		t.Fatal(err)
	}
	req := graphql.Request{Query: query}
	if variables != "" {
		req.Variables = []byte(variables)
	}
	w := graphql.NewEngineResultWriter()
	if err := eng.Execute(context.Background(), &req, &w); err != nil {
		return "ERR: " + err.Error()
	}
	return w.String()
}

func TestC17Existing9_TypeNameNeedingJSONEscapes(t *testing.T) {
	const sdl = `type Query { a: String }`
	const want = `{"data":{"__type":null}}`

	for _, tc := range []struct{ name, query, variables string }{
		{"unknown plain name (passes)", `{__type(name:"Nope"){name}}`, ``},
		{"quote, literal", `{__type(name:"No\"pe"){name}}`, ``},
		{"quote, variable", `query($n: String!){__type(name:$n){name}}`, `{"n":"No\"pe"}`},
		{"backslash, variable", `query($n: String!){__type(name:$n){name}}`, `{"n":"No\\pe"}`},
	} {
		t.Run(tc.name, func(t *testing.T) {
			if got := c17e9Exec(t, sdl, tc.query, tc.variables); got != want {
				t.Errorf("\nquery: %s\nvars:  %s\n got:  %s\n want: %s", tc.query, tc.variables, got, want)
			}
		})
	}

	// the splice can also be steered: the "name" closes the string and overrides request_type,
	// so a __type query for a non-existing type answers with the __schema object
	t.Run("input injection", func(t *testing.T) {
		got := c17e9Exec(t, sdl, `query($n: String!){__type(name:$n){name kind}}`, `{"n":"x\",\"request_type\":1,\"y\":\""}`)
		if got != want {
			t.Errorf("\n got:  %s\n want: %s", got, want)
		}
	})
}
