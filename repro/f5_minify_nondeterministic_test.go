package astminify

import (
	"bytes"
	"testing"

	"github.com/wundergraph/graphql-go-tools/v2/pkg/astparser"
	"github.com/wundergraph/graphql-go-tools/v2/pkg/asttransform"
)

func TestF5_MinifyIsDeterministic(t *testing.T) {
	def, rep := astparser.ParseGraphqlDocumentString(`schema {query: Query} type Query { u1: User u2: User u3: User u4: User } type User { id: ID name: String email: String address: String phone: String }`)
	if rep.HasErrors() {
		t.Fatal(rep)
	}
	if err := asttransform.MergeDefinitionWithBaseSchema(&def); err != nil {
		t.Fatal(err)
	}
	op := []byte(`query Q { u1 { id name address phone } u2 { id name address phone } u3 { id email address phone } u4 { id email address phone } }`)
	seen := map[string]int{}
	for i := 0; i < 200; i++ {
		m := NewMinifier()
		out := &bytes.Buffer{}
		made, err := m.Minify(op, &def, MinifyOptions{SortAST: true}, out)
		if err != nil {
			t.Fatal(err)
		}
		if !made {
			t.Fatal("no replacements made")
		}
		seen[out.String()]++
	}
	for s, n := range seen {
		t.Logf("%3d× %s", n, s)
	}
	if len(seen) != 1 {
		t.Fatalf("DEFECT REPRODUCED: the same operation minifies to %d different upstream query texts", len(seen))
	}
}
