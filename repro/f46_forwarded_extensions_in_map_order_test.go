package resolve

import (
	"bytes"
	"context"
	"testing"

	"github.com/stretchr/testify/require"
	"github.com/wundergraph/astjson"
	"github.com/wundergraph/go-arena"
)

// The same subgraph answers must give the same response bytes: forwarded extensions were printed in map iteration order.
func TestF46ForwardedExtensionsHaveAStableOrder(t *testing.T) {
	render := func() string {
		ar := arena.NewMonotonicArena(arena.WithMinBufferSize(1024))
		res := NewResolvable(ar, ResolvableOptions{})
		ctx := NewContext(context.Background())
		require.NoError(t, res.Init(ctx, []byte(`{"a":1}`), 0))
		ext, err := astjson.ParseBytes([]byte(`{"k1":1,"k2":2,"k3":3,"k4":4,"k5":5,"k6":6,"k7":7,"k8":8}`))
		require.NoError(t, err)
		obj, err := ext.Object()
		require.NoError(t, err)
		res.subgraphExtensions = append(res.subgraphExtensions, obj)
		out := &bytes.Buffer{}
		require.NoError(t, res.Resolve(ctx.ctx, &Object{Fields: []*Field{{Name: []byte("a"), Value: &Integer{Path: []string{"a"}}}}}, nil, out))
		return out.String()
	}
	first := render()
	for i := 0; i < 50; i++ {
		require.Equal(t, first, render(), "run %d rendered the same extensions in a different order", i)
	}
}
