// K9 (C02-R14, known finding), reported as existing violation 5 by a seeding sub-agent (its first part — malformed `errors`
// entries — was repaired as F43). Copy into v2/pkg/engine/resolve/ and run:
//   cd v2 && go test -count=1 -run TestK9 ./pkg/engine/resolve/
// Fails on the tree as it is: {"data":[1,2]} / {"data":"str"} on a root fetch and an entity that echoes a key with another JSON kind
// make ResolveGraphQLResponse return a Go error and write nothing. The repair (render the failed merge as an error entry)
// fails the existing TestLoader_MergeErrorDifferingTypes / TestLoader_MergeErrorDifferingArrayLength, which demand the Go error.
package resolve

// C02 existing violation 5: some subgraph payloads make the resolver return a Go error and write NOTHING,
// instead of one GraphQL response with an error entry:
//   - an `errors` array whose entries do not unmarshal into GraphQLError (message not a string, path not a list, non-object entry)
//   - `data` of a kind that cannot be merged (array / string at the root, a key whose kind differs from what is already there)
// Drop into v2/pkg/engine/resolve/ and run:
//   cd v2 && go test -count=1 -run TestK9 ./pkg/engine/resolve/

import (
	"bytes"
	"context"
	"encoding/json"
	"testing"

	"github.com/wundergraph/graphql-go-tools/v2/pkg/ast"
)

func TestK9_SubgraphPayloadsThatYieldNoResponse(t *testing.T) {
	for _, body := range []string{
		`{"errors":[{"message":123}],"data":{"name":"x"}}`,
		`{"errors":[5],"data":{"name":"x"}}`,
		`{"errors":[{"message":"m","path":"a.b"}],"data":{"name":"x"}}`,
		`{"data":[1,2]}`,
		`{"data":"str"}`,
	} {
		t.Run(body, func(t *testing.T) {
			rCtx, cancel := context.WithCancel(context.Background())
			defer cancel()
			r := newResolver(rCtx)
			response := &GraphQLResponse{
				Info: &GraphQLResponseInfo{OperationType: ast.OperationTypeQuery},
				Fetches: SingleWithPath(&SingleFetch{
					FetchConfiguration: FetchConfiguration{
						DataSource: FakeDataSource(body),
						PostProcessing: PostProcessingConfiguration{
							SelectResponseDataPath:   []string{"data"},
							SelectResponseErrorsPath: []string{"errors"},
						},
					},
				}, ""),
				// type Query { name: String }
				Data: &Object{Fields: []*Field{{Name: []byte("name"), Value: &String{Path: []string{"name"}, Nullable: true}}}},
			}
			buf := &bytes.Buffer{}
			_, err := r.ResolveGraphQLResponse(NewContext(context.Background()), response, nil, buf)
			t.Logf("err=%v out=%q", err, buf.String())
			if err != nil {
				t.Errorf("resolver returned an error instead of rendering a GraphQL response: %v", err)
			}
			var resp map[string]json.RawMessage
			if jerr := json.Unmarshal(buf.Bytes(), &resp); jerr != nil {
				t.Fatalf("the client did not receive a syntactically valid GraphQL response: %q (%v)", buf.String(), jerr)
			}
			if _, ok := resp["data"]; !ok {
				t.Errorf("response without data member: %s", buf.String())
			}
		})
	}
}

func TestK9_EntityKeyOfDifferentKind(t *testing.T) {
	rCtx, cancel := context.WithCancel(context.Background())
	defer cancel()
	r := newResolver(rCtx)
	// the entity subgraph echoes the key as a string while the root subgraph delivered a number
	userService := FakeDataSource(`{"data":{"user":{"name":"Bill","info":{"id":11,"__typename":"Info"}}}}`)
	infoService := FakeDataSource(`{"data":{"_entities":[{"__typename":"Info","id":"11","age":77}]}}`)
	response := &GraphQLResponse{
		Info: &GraphQLResponseInfo{OperationType: ast.OperationTypeQuery},
		Fetches: Sequence(
			Single(&SingleFetch{
				InputTemplate: InputTemplate{Segments: []TemplateSegment{{Data: []byte(`{"method":"POST","url":"http://localhost:4001","body":{"query":"{ user { name info {id __typename}}}"}}`), SegmentType: StaticSegmentType}}},
				FetchConfiguration: FetchConfiguration{
					DataSource:     userService,
					PostProcessing: PostProcessingConfiguration{SelectResponseDataPath: []string{"data"}},
				},
			}),
			SingleWithPath(&BatchEntityFetch{
				Input: BatchInput{
					Header: InputTemplate{Segments: []TemplateSegment{{Data: []byte(`{"method":"POST","url":"http://localhost:4002","body":{"query":"query($representations: [_Any!]!){_entities(representations: $representations) { ... on Info { id age }}}","variables":{"representations":[`), SegmentType: StaticSegmentType}}},
					Items: []InputTemplate{{Segments: []TemplateSegment{{
						SegmentType:  VariableSegmentType,
						VariableKind: ResolvableObjectVariableKind,
						Renderer: NewGraphQLVariableResolveRenderer(&Object{Fields: []*Field{
							{Name: []byte("id"), Value: &Integer{Path: []string{"id"}}, OnTypeNames: [][]byte{[]byte("Info")}},
							{Name: []byte("__typename"), Value: &String{Path: []string{"__typename"}}, OnTypeNames: [][]byte{[]byte("Info")}},
						}}),
					}}}},
					Separator: InputTemplate{Segments: []TemplateSegment{{Data: []byte(`,`), SegmentType: StaticSegmentType}}},
					Footer:    InputTemplate{Segments: []TemplateSegment{{Data: []byte(`]}}}`), SegmentType: StaticSegmentType}}},
				},
				DataSource:     infoService,
				PostProcessing: PostProcessingConfiguration{SelectResponseDataPath: []string{"data", "_entities"}},
			}, "user.info", ObjectPath("user"), ObjectPath("info")),
		),
		// { user { name info { age } } }
		Data: &Object{Fields: []*Field{{
			Name: []byte("user"),
			Value: &Object{Path: []string{"user"}, Nullable: true, Fields: []*Field{
				{Name: []byte("name"), Value: &String{Path: []string{"name"}}},
				{Name: []byte("info"), Value: &Object{Path: []string{"info"}, Nullable: true, Fields: []*Field{
					{Name: []byte("age"), Value: &Integer{Path: []string{"age"}, Nullable: true}},
				}}},
			}},
		}}},
	}
	buf := &bytes.Buffer{}
	_, err := r.ResolveGraphQLResponse(NewContext(context.Background()), response, nil, buf)
	t.Logf("err=%v out=%q", err, buf.String())
	if err != nil {
		t.Errorf("resolver returned an error instead of rendering a GraphQL response: %v", err)
	}
	if !json.Valid(buf.Bytes()) {
		t.Errorf("the client did not receive a syntactically valid GraphQL response: %q", buf.String())
	}
}
