package resolve

// C02 existing violation 3: a String node with UnescapeResponseJson (FieldConfiguration.UnescapeResponseJson)
// writes the raw, unescaped string bytes between quotes when they are not valid JSON: the response is
// syntactically invalid, or - worse - a subgraph string can inject sibling keys into `data`.
// Drop into v2/pkg/engine/resolve/ and run:
//   cd v2 && go test -count=1 -run TestC02Existing3 ./pkg/engine/resolve/

import (
	"bytes"
	"context"
	"encoding/json"
	"testing"

	"github.com/wundergraph/graphql-go-tools/v2/pkg/ast"
)

func c02RenderUnescape(t *testing.T, input string) string {
	// type Query { a: String }   with field configuration UnescapeResponseJson: true
	plan := &Object{Fields: []*Field{{Name: []byte("a"), Value: &String{Path: []string{"a"}, Nullable: true, UnescapeResponseJson: true}}}}
	res := NewResolvable(nil, ResolvableOptions{})
	if err := res.Init(&Context{}, []byte(input), ast.OperationTypeQuery); err != nil {
		t.Fatal(err)
	}
	out := &bytes.Buffer{}
	if err := res.Resolve(context.Background(), plan, nil, out); err != nil {
		t.Fatal(err)
	}
	t.Logf("input %s -> response: %s", input, out.String())
	return out.String()
}

func TestC02Existing3_UnescapeResponseJsonBreaksTheDocument(t *testing.T) {
	// a plain text value containing a quote, a backslash and a newline
	out := c02RenderUnescape(t, `{"a":"he said \"hi\" \\ and\nnewline"}`)
	if !json.Valid([]byte(out)) {
		t.Errorf("response is not valid JSON: %s", out)
	}
}

func TestC02Existing3_UnescapeResponseJsonInjectsKeys(t *testing.T) {
	out := c02RenderUnescape(t, `{"a":"x\",\"injected\":\"y"}`)
	var resp struct {
		Data map[string]any `json:"data"`
	}
	if err := json.Unmarshal([]byte(out), &resp); err != nil {
		t.Fatalf("invalid JSON: %v", err)
	}
	if len(resp.Data) != 1 {
		t.Errorf("data must contain exactly the selected key a, got %v", resp.Data)
	}
	if resp.Data["a"] != `x","injected":"y` {
		t.Errorf("data.a = %q, want the subgraph's string value", resp.Data["a"])
	}
}
