package resolve

// C12 existing violation #3 (unmodified tree):
// the clean-up after a failed SubscriptionOnStart hook of a subscription that JOINS an existing
// trigger removes "the subscription with id X" (r.UnsubscribeSubscription(add.id)), not "this
// subscription". The hook runs in its own goroutine and may take arbitrarily long (it is user code).
// If the client meanwhile stopped subscription X and started a new one under the same id (legal in
// graphql-ws / graphql-transport-ws once the old one is stopped), the late failure of the OLD hook
// silently removes the NEW subscription: its completed channel is closed, nothing is written to its
// writer (no error, no complete) and it never receives another event.
// (The same by-id removal is used after a failed Flush and after a failed Heartbeat.)
//
// Drop into v2/pkg/engine/resolve/ and run:
//   go test -count=1 -run 'TestC12Existing3' ./pkg/engine/resolve/

import (
	"context"
	"errors"
	"net/http"
	"sync"
	"sync/atomic"
	"testing"
	"time"

	"github.com/cespare/xxhash/v2"
	"github.com/stretchr/testify/require"
)

type c12e3Source struct {
	updater chan SubscriptionUpdater

	hookCalls   atomic.Int32
	hook2Entry  chan struct{}
	hook2Return chan struct{}
	hook3Done   chan struct{}
}

func (s *c12e3Source) HashTriggerInput(input []byte, xxh *xxhash.Digest) error {
	_, err := xxh.Write(input)
	return err
}

func (s *c12e3Source) Start(_ *Context, _ http.Header, _ []byte, updater SubscriptionUpdater) error {
	s.updater <- updater
	return nil
}

func (s *c12e3Source) SubscriptionOnStart(_ StartupHookContext, _ []byte) error {
	switch s.hookCalls.Add(1) {
	case 2: // the subscription that will be stopped by its client while the hook is still running
		close(s.hook2Entry)
		<-s.hook2Return
		return errors.New("not allowed")
	case 3:
		close(s.hook3Done)
	}
	return nil
}

type c12e3Writer struct {
	mu    sync.Mutex
	buf   []byte
	calls []string
}

func (w *c12e3Writer) Calls() []string {
	w.mu.Lock()
	defer w.mu.Unlock()
	return append([]string(nil), w.calls...)
}
func (w *c12e3Writer) Write(p []byte) (int, error) {
	w.mu.Lock()
	w.buf = append(w.buf, p...)
	w.mu.Unlock()
	return len(p), nil
}
func (w *c12e3Writer) Flush() error {
	w.mu.Lock()
	w.calls = append(w.calls, "message:"+string(w.buf))
	w.buf = nil
	w.mu.Unlock()
	return nil
}
func (w *c12e3Writer) Complete() {
	w.mu.Lock()
	w.calls = append(w.calls, "complete")
	w.mu.Unlock()
}
func (w *c12e3Writer) Error(data []byte) {
	w.mu.Lock()
	w.calls = append(w.calls, "error:"+string(data))
	w.mu.Unlock()
}
func (w *c12e3Writer) Heartbeat() error { return nil }

func TestC12Existing3_LateHookFailureRemovesSuccessorWithSameID(t *testing.T) {
	rCtx, stop := context.WithCancel(context.Background())
	defer stop()

	reporter := &TestReporter{}
	resolver := New(rCtx, ResolverOptions{
		MaxConcurrency:                16,
		AsyncErrorWriter:              &FakeErrorWriter{},
		SubscriptionHeartbeatInterval: time.Hour,
		Reporter:                      reporter,
	})

	source := &c12e3Source{
		updater:     make(chan SubscriptionUpdater, 1),
		hook2Entry:  make(chan struct{}),
		hook2Return: make(chan struct{}),
		hook3Done:   make(chan struct{}),
	}
	plan := &GraphQLSubscription{
		Trigger: GraphQLSubscriptionTrigger{
			Source: source,
			InputTemplate: InputTemplate{Segments: []TemplateSegment{{
				SegmentType: StaticSegmentType,
				Data:        []byte(`{"topic":"counter"}`),
			}}},
			PostProcessing: PostProcessingConfiguration{
				SelectResponseDataPath:   []string{"data"},
				SelectResponseErrorsPath: []string{"errors"},
			},
		},
		Response: &GraphQLResponse{
			Data: &Object{Fields: []*Field{{
				Name:  []byte("counter"),
				Value: &Integer{Path: []string{"counter"}},
			}}},
		},
	}

	// another client keeps the trigger alive
	other := &c12e3Writer{}
	require.NoError(t, resolver.AsyncResolveGraphQLSubscription(NewContext(context.Background()), plan, other,
		SubscriptionIdentifier{ConnectionID: 10, SubscriptionID: 1}))
	var updater SubscriptionUpdater
	select {
	case updater = <-source.updater:
	case <-time.After(5 * time.Second):
		t.Fatal("source not started")
	}

	id := SubscriptionIdentifier{ConnectionID: 1, SubscriptionID: 1}

	// subscription #1 under id: its start hook is slow
	w1 := &c12e3Writer{}
	require.NoError(t, resolver.AsyncResolveGraphQLSubscription(NewContext(context.Background()), plan, w1, id))
	select {
	case <-source.hook2Entry:
	case <-time.After(5 * time.Second):
		t.Fatal("hook of subscription #1 not called")
	}

	// the client stops it ...
	require.NoError(t, resolver.UnsubscribeSubscription(id))
	// ... and starts a new subscription under the same id
	w2 := &c12e3Writer{}
	require.NoError(t, resolver.AsyncResolveGraphQLSubscription(NewContext(context.Background()), plan, w2, id))
	select {
	case <-source.hook3Done:
	case <-time.After(5 * time.Second):
		t.Fatal("hook of subscription #2 not called")
	}
	require.Equal(t, int64(2), reporter.subscriptions.Load())

	updater.Update([]byte(`{"data":{"counter":1}}`))
	require.Equal(t, []string{`message:{"data":{"counter":1}}`}, w2.Calls())

	// now the hook of the (long gone) subscription #1 fails
	close(source.hook2Return)
	deadline := time.Now().Add(500 * time.Millisecond)
	for time.Now().Before(deadline) && reporter.subscriptions.Load() == 2 {
		time.Sleep(time.Millisecond)
	}

	updater.Update([]byte(`{"data":{"counter":2}}`))

	require.Empty(t, w1.Calls(), "nothing is written to the stopped subscription")
	require.Equal(t, []string{`message:{"data":{"counter":1}}`, `message:{"data":{"counter":2}}`}, other.Calls())
	require.Equal(t, []string{`message:{"data":{"counter":1}}`, `message:{"data":{"counter":2}}`}, w2.Calls(),
		"subscription #2 is alive and passes every event; the failure of #1's hook must not remove it")
	require.Equal(t, int64(2), reporter.subscriptions.Load())
}
