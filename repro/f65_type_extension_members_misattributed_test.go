package introspection

// F65 (C17-R19), reported as existing_4 by a seeding sub-agent: fields of a type extension ("extend type X { ... }") are attributed to whatever
// type definition the generator visited last (invented field there, missing on X); a document that
// starts with an extension makes the generator panic.
// Goes into v2/pkg/introspection/ ; run: cd v2 && go test ./pkg/introspection -run TestF65 -count=1 -v

import (
	"fmt"
	"strings"
	"testing"

	"github.com/wundergraph/graphql-go-tools/v2/pkg/astparser"
	"github.com/wundergraph/graphql-go-tools/v2/pkg/asttransform"
	"github.com/wundergraph/graphql-go-tools/v2/pkg/operationreport"
)

func c17e4Generate(t *testing.T, sdl string) (data Data, panicked any) {
	t.Helper()
	doc, report := astparser.ParseGraphqlDocumentString(sdl)
	if report.HasErrors() {
		t.Fatal(report)
	}
	if err := asttransform.MergeDefinitionWithBaseSchema(&doc); err != nil {
		t.Fatal(err)
	}
	defer func() { panicked = recover() }()
	var rep operationreport.Report
	NewGenerator().Generate(&doc, &rep, &data)
	if rep.HasErrors() {
		t.Fatal(rep)
	}
	return data, nil
}

func c17e4FieldNames(data Data, typeName string) string {
	t := data.Schema.TypeByName(typeName)
	if t == nil {
		return "<no such type>"
	}
	var names []string
	for _, f := range t.Fields {
		names = append(names, f.Name)
	}
	return strings.Join(names, ",")
}

func TestF65TypeExtensionMembers(t *testing.T) {
	t.Run("extension after an unrelated type", func(t *testing.T) {
		data, p := c17e4Generate(t, `
type Query { a: String }
type Other { x: Int }
extend type Query { b: Int }
`)
		if p != nil {
			t.Fatalf("generator panicked: %v", p)
		}
		if got := c17e4FieldNames(data, "Other"); got != "x" {
			t.Errorf("type Other { x: Int } is described with fields %q (field b was invented)", got)
		}
		// either the extension is merged (a,b) or - at the very least - not misattributed
		if got := c17e4FieldNames(data, "Query"); got != "a,b" {
			t.Errorf("Query is described with fields %q, the schema (definition + extension) has a,b", got)
		}
	})
	t.Run("document starting with an extension", func(t *testing.T) {
		_, p := c17e4Generate(t, `
extend type Query { b: Int }
type Query { a: String }
`)
		if p != nil {
			t.Errorf("generator panicked: %s", fmt.Sprint(p))
		}
	})
	t.Run("members of the other kinds of extensions", func(t *testing.T) {
		data, p := c17e4Generate(t, `
type Query { a(in: In): E u: U n: Node }
input In { x: Int }
enum E { A }
union U = T1
interface Node { id: ID }
type T1 { t: Int }
type T2 { t: Int }
type Unrelated { z: Int }
extend input In { y: Int }
extend enum E { B }
extend union U = T2
extend interface Node { name: String }
extend type T1 implements Node { id: ID name: String }
`)
		if p != nil {
			t.Fatalf("generator panicked: %v", p)
		}
		in, e, u, t1, unrelated := data.Schema.TypeByName("In"), data.Schema.TypeByName("E"), data.Schema.TypeByName("U"), data.Schema.TypeByName("T1"), data.Schema.TypeByName("Unrelated")
		if len(in.InputFields) != 2 || in.InputFields[1].Name != "y" {
			t.Errorf("In: input fields %+v, want x,y", in.InputFields)
		}
		if len(e.EnumValues) != 2 || e.EnumValues[1].Name != "B" {
			t.Errorf("E: enum values %+v, want A,B", e.EnumValues)
		}
		if len(u.PossibleTypes) != 2 {
			t.Errorf("U: possible types %+v, want T1,T2", u.PossibleTypes)
		}
		if got := c17e4FieldNames(data, "Node"); got != "id,name" {
			t.Errorf("Node: fields %q, want id,name", got)
		}
		if got := c17e4FieldNames(data, "T1"); got != "t,id,name" {
			t.Errorf("T1: fields %q, want t,id,name", got)
		}
		if len(t1.Interfaces) != 1 {
			t.Errorf("T1: interfaces %+v, want Node", t1.Interfaces)
		}
		if got := c17e4FieldNames(data, "Unrelated"); got != "z" || len(unrelated.InputFields)+len(unrelated.EnumValues)+len(unrelated.PossibleTypes) != 0 {
			t.Errorf("Unrelated is described with members of other types: %+v", unrelated)
		}
	})
}
