package websocket_test

// existing_4 (C19): on the UNMODIFIED tree graphql-transport-ws messages that are valid JSON but
// not valid protocol messages (wrong JSON type for a field, not an object, subscribe without or with
// an unusable payload, subscribe without id) do NOT close the connection with 4400 - the handler
// returns an error that is only logged, and the connection stays open. A subscribe without an id is
// even executed and answered with id-less "next"/"complete" messages. See existing_4.md.
//
// Drop into execution/subscription/websocket/ and run
//   go test -count=1 -run 'TestC19Existing4' ./subscription/websocket/
// from the execution/ module.

import (
	"bytes"
	"context"
	"encoding/binary"
	"encoding/json"
	"errors"
	"fmt"
	"net"
	"strings"
	"sync"
	"testing"
	"time"

	"github.com/gobwas/ws"

	"github.com/wundergraph/graphql-go-tools/execution/subscription"
	"github.com/wundergraph/graphql-go-tools/execution/subscription/websocket"
	"github.com/wundergraph/graphql-go-tools/v2/pkg/ast"
	"github.com/wundergraph/graphql-go-tools/v2/pkg/engine/resolve"
)

// ---------------------------------------------------------------------------------------------
// recording transport client: everything the server sends (messages and close frames) is appended
// to one ordered trace, which is what the property observes.
// ---------------------------------------------------------------------------------------------

type c19e4Client struct {
	mu        sync.Mutex
	trace     []string
	connected bool
	in        chan []byte
	closed    chan struct{}
}

func newC19e4Client() *c19e4Client {
	return &c19e4Client{connected: true, in: make(chan []byte, 16), closed: make(chan struct{})}
}

func (c *c19e4Client) ReadBytesFromClient() ([]byte, error) {
	select {
	case msg := <-c.in:
		return msg, nil
	case <-c.closed:
		return nil, subscription.ErrTransportClientClosedConnection
	}
}

func (c *c19e4Client) WriteBytesToClient(message []byte) error {
	c.mu.Lock()
	defer c.mu.Unlock()
	if !c.connected {
		return subscription.ErrTransportClientClosedConnection
	}
	c.trace = append(c.trace, string(message))
	return nil
}

func (c *c19e4Client) IsConnected() bool {
	c.mu.Lock()
	defer c.mu.Unlock()
	return c.connected
}

func (c *c19e4Client) Disconnect() error { return c.DisconnectWithReason(nil) }

func (c *c19e4Client) DisconnectWithReason(reason any) error {
	c.mu.Lock()
	defer c.mu.Unlock()
	if !c.connected {
		return nil
	}
	c.connected = false
	c.trace = append(c.trace, "CLOSE "+c19e4CloseCode(reason))
	close(c.closed)
	return nil
}

func c19e4CloseCode(reason any) string {
	switch r := reason.(type) {
	case websocket.CloseReason:
		p := ws.Frame(r).Payload
		if len(p) >= 2 {
			return fmt.Sprintf("%d %s", binary.BigEndian.Uint16(p[:2]), string(p[2:]))
		}
	case websocket.CompiledCloseReason:
		f, err := ws.ReadFrame(bytes.NewReader(r))
		if err == nil && len(f.Payload) >= 2 {
			return fmt.Sprintf("%d %s", binary.BigEndian.Uint16(f.Payload[:2]), string(f.Payload[2:]))
		}
	}
	return fmt.Sprintf("%v", reason)
}

func (c *c19e4Client) send(msg string) { c.in <- []byte(msg) }

func (c *c19e4Client) snapshot() []string {
	c.mu.Lock()
	defer c.mu.Unlock()
	return append([]string(nil), c.trace...)
}

// waitFor waits until the trace contains at least n entries and returns it.
func (c *c19e4Client) waitFor(t *testing.T, n int) []string {
	t.Helper()
	deadline := time.Now().Add(2 * time.Second)
	for time.Now().Before(deadline) {
		if s := c.snapshot(); len(s) >= n {
			return s
		}
		time.Sleep(time.Millisecond)
	}
	t.Fatalf("timed out waiting for %d server outputs, got %q", n, c.snapshot())
	return nil
}

// ---------------------------------------------------------------------------------------------
// fake executor pool: "{ fail }" fails at execution time, everything else answers {"data":{"ok":true}}
// ---------------------------------------------------------------------------------------------

type c19e4Pool struct{}

func (c19e4Pool) Get(payload []byte) (subscription.Executor, error) {
	var req struct {
		Query string `json:"query"`
	}
	if err := json.Unmarshal(payload, &req); err != nil {
		return nil, err
	}
	return &c19e4Executor{query: req.Query}, nil
}

func (c19e4Pool) Put(subscription.Executor) error { return nil }

type c19e4Executor struct {
	query string
	ctx   context.Context
}

func (e *c19e4Executor) Execute(writer resolve.SubscriptionResponseWriter) error {
	if strings.Contains(e.query, "fail") {
		return errors.New("upstream unavailable")
	}
	_, err := writer.Write([]byte(`{"data":{"ok":true}}`))
	return err
}

func (e *c19e4Executor) OperationType() ast.OperationType {
	if strings.HasPrefix(strings.TrimSpace(e.query), "subscription") {
		return ast.OperationTypeSubscription
	}
	return ast.OperationTypeQuery
}

func (e *c19e4Executor) SetContext(ctx context.Context) { e.ctx = ctx }
func (e *c19e4Executor) Reset()                         {}

func c19e4Start(t *testing.T, protocol websocket.Protocol) *c19e4Client {
	t.Helper()
	client := newC19e4Client()
	serverConn, peer := net.Pipe()
	t.Cleanup(func() { _ = peer.Close(); _ = client.Disconnect() })

	done := make(chan bool)
	errChan := make(chan error, 1)
	go websocket.Handle(done, errChan, serverConn, c19e4Pool{},
		websocket.WithProtocol(protocol),
		websocket.WithCustomClient(client),
		websocket.WithCustomKeepAliveInterval(time.Hour),
		websocket.WithCustomSubscriptionUpdateInterval(time.Hour),
	)
	select {
	case <-done:
	case err := <-errChan:
		t.Fatalf("handler did not start: %v", err)
	case <-time.After(2 * time.Second):
		t.Fatal("handler did not start")
	}
	return client
}

func TestC19Existing4_TransportWS_MalformedMessagesMustCloseWith4400(t *testing.T) {
	cases := []struct {
		name    string
		init    bool
		message string
	}{
		// controls - these two pass on the unmodified tree
		{"control: unknown type", false, `{"type":"bogus"}`},
		{"control: JSON syntax error", false, `{"type":`},
		// violations
		{"type is a number", false, `{"type":1}`},
		{"message is an array", false, `[]`},
		{"message is a string", false, `"ping"`},
		{"id is a number", false, `{"id":1,"type":"ping"}`},
		{"subscribe without payload", true, `{"id":"1","type":"subscribe"}`},
		{"subscribe with string payload", true, `{"id":"1","type":"subscribe","payload":"x"}`},
		{"subscribe with non-string query", true, `{"id":"1","type":"subscribe","payload":{"query":5}}`},
		{"subscribe without id", true, `{"type":"subscribe","payload":{"query":"{ ok }"}}`},
	}
	for _, tc := range cases {
		t.Run(tc.name, func(t *testing.T) {
			client := c19e4Start(t, websocket.ProtocolGraphQLTransportWS)
			n := 0
			if tc.init {
				client.send(`{"type":"connection_init"}`)
				client.waitFor(t, 1)
				n = 1
			}
			client.send(tc.message)
			// marker: if the connection is still open the server answers this ping
			client.send(`{"type":"ping","payload":{"marker":true}}`)
			deadline := time.Now().Add(time.Second)
			var got []string
			for time.Now().Before(deadline) {
				got = client.snapshot()
				if len(got) > n && (strings.HasPrefix(got[len(got)-1], "CLOSE") || strings.Contains(got[len(got)-1], "marker")) {
					break
				}
				time.Sleep(time.Millisecond)
			}
			time.Sleep(20 * time.Millisecond)
			got = client.snapshot()
			if len(got) != n+1 || !strings.HasPrefix(got[n], "CLOSE 4400") {
				t.Errorf("after %s the server must close with 4400 and send nothing else; server trace: %q", tc.message, got)
			}
		})
	}
}
