package astvalidation_test

// F86 (C04): composite fields sharing a response name were merged without comparing field name / arguments:
//   { a: dog { name } a: cat { name } }, { dogById(id: 1) { name } dogById(id: 2) { name } }
// passed normalize -> validate and the second field was silently dropped.
// Drop into v2/pkg/astvalidation/ and run
//   cd v2 && go test ./pkg/astvalidation -run TestF86 -count=1 -v
// Fails before the fix, passes after.

import (
	"fmt"
	"testing"

	"github.com/wundergraph/graphql-go-tools/v2/pkg/astnormalization"
	"github.com/wundergraph/graphql-go-tools/v2/pkg/astparser"
	"github.com/wundergraph/graphql-go-tools/v2/pkg/astprinter"
	"github.com/wundergraph/graphql-go-tools/v2/pkg/asttransform"
	"github.com/wundergraph/graphql-go-tools/v2/pkg/astvalidation"
	"github.com/wundergraph/graphql-go-tools/v2/pkg/operationreport"
)

const c04e2Schema = `
directive @d on INLINE_FRAGMENT
directive @dreq(x: Int!) on FIELD
schema { query: Query subscription: Subscription }
scalar Custom
enum Color { RED GREEN }
input Inner { i: Int, s: String, id: ID, f: Float, c: Custom, color: Color }
input In { inner: Inner, list: [Int], nn: [Int!], s: String, id: ID, f: Float, c: Custom, b: Boolean }
interface Pet { name: String! }
interface Named { name: String! }
type Dog implements Pet & Named { name: String! nick: String bark: Int color: Color owner: Human friend(id: Int): Pet dogs: [Dog] }
type Cat implements Pet & Named { name: String! nick: String! meow: Int color: Color friend(id: Int): Pet buddy: Named cat: Cat }
type Human implements Named { name: String! pets: [Pet] }
type Query {
  dog: Dog cat: Cat pet: Pet named: Named human: Human
  arg(in: In, i: Int, s: String, id: ID, f: Float, c: Custom, color: Color, list: [Int], nn: [Int!], b: Boolean): String
  dogById(id: Int): Dog
}
type Subscription { s1: String s2: String dog: Dog }
`

// c04e2Admit runs the documented admission sequence: normalize (same options the execution
// engine uses in front of ValidateForSchema), then validate with DefaultOperationValidator().
func c04e2Admit(t *testing.T, op string) (accepted bool, reason string) {
	t.Helper()
	defer func() {
		if r := recover(); r != nil {
			accepted, reason = false, fmt.Sprintf("PANIC: %v", r)
		}
	}()
	def, rep := astparser.ParseGraphqlDocumentString(c04e2Schema)
	if rep.HasErrors() {
		t.Fatal(rep.Error())
	}
	if err := asttransform.MergeDefinitionWithBaseSchema(&def); err != nil {
		t.Fatal(err)
	}
	doc, rep := astparser.ParseGraphqlDocumentString(op)
	if rep.HasErrors() {
		t.Fatal(rep.Error())
	}
	doc.Input.Variables = []byte(`{}`)
	report := operationreport.Report{}
	astnormalization.NewWithOpts(
		astnormalization.WithRemoveFragmentDefinitions(),
		astnormalization.WithRemoveUnusedVariables(),
		astnormalization.WithInlineFragmentSpreads(),
	).NormalizeOperation(&doc, &def, &report)
	if report.HasErrors() {
		return false, "normalization: " + report.Error()
	}
	state := astvalidation.DefaultOperationValidator().Validate(&doc, &def, &report)
	printed, _ := astprinter.PrintString(&doc)
	if state != astvalidation.Valid {
		return false, report.Error()
	}
	return true, "normalized to: " + printed
}

func TestF86CompositeFieldsComparedByNameAndArguments(t *testing.T) {
	// spec-INVALID operations: must be rejected (with an error, not a panic)
	invalid := []string{
		`{ a: dog { name } a: cat { name } }`,
		`{ dogById(id: 1) { name } dogById(id: 2) { name } }`,
		`{ dog { friend(id: 1) { name } friend(id: 2) { name } } }`,
	}
	// spec-VALID operations: must be accepted
	valid := []string{
		`{ dogById(id: 1) { name } dogById(id: 1) { nick } }`,
	}
	for _, op := range invalid {
		accepted, reason := c04e2Admit(t, op)
		switch {
		case accepted:
			t.Errorf("spec-INVALID operation was ACCEPTED: %s\n    %s", op, reason)
		case len(reason) >= 5 && reason[:5] == "PANIC":
			t.Errorf("validator panicked instead of rejecting: %s\n    %s", op, reason)
		}
	}
	for _, op := range valid {
		if accepted, reason := c04e2Admit(t, op); !accepted {
			t.Errorf("spec-VALID operation was REJECTED: %s\n    %s", op, reason)
		}
	}
}
