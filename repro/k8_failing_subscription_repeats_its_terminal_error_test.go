// K8 (C19-R16, known finding), reported as existing_1 by a seeding sub-agent. Copy into execution/subscription/websocket/ and run:
//   cd execution && go test -count=1 -run 'TestK8' ./subscription/websocket/
// Fails on the tree as it is. The repair (executeSubscription reports the failure, startSubscription returns) makes it pass
// but fails the existing TestExecutorEngine_StartOperation/execute_subscription_operation/on_execution_failure, which demands
// at least two executions and two error events for one failing subscription.
package websocket_test

// existing_1 (C19): on the UNMODIFIED tree a *subscription* operation that fails (e.g. it does not
// validate against the schema) is answered with the terminal "error" message for its id - and then
// again, and again, once per subscription update interval (default 1s), for as long as the connection
// lives. The id is also never released. See existing_1.md.
//
// Drop into execution/subscription/websocket/ and run
//   go test -count=1 -run 'TestK8' ./subscription/websocket/
// from the execution/ module.

import (
	"bytes"
	"context"
	"encoding/binary"
	"fmt"
	"net"
	"strings"
	"sync"
	"testing"
	"time"

	"github.com/gobwas/ws"
	"github.com/jensneuse/abstractlogger"

	"github.com/wundergraph/graphql-go-tools/execution/engine"
	"github.com/wundergraph/graphql-go-tools/execution/graphql"
	"github.com/wundergraph/graphql-go-tools/execution/subscription"
	"github.com/wundergraph/graphql-go-tools/execution/subscription/websocket"
	"github.com/wundergraph/graphql-go-tools/v2/pkg/engine/resolve"
)

// ---------------------------------------------------------------------------------------------
// recording transport client: everything the server sends (messages and close frames) is appended
// to one ordered trace, which is what the property observes.
// ---------------------------------------------------------------------------------------------

type c19e1Client struct {
	mu        sync.Mutex
	trace     []string
	connected bool
	in        chan []byte
	closed    chan struct{}
}

func newC19e1Client() *c19e1Client {
	return &c19e1Client{connected: true, in: make(chan []byte, 16), closed: make(chan struct{})}
}

func (c *c19e1Client) ReadBytesFromClient() ([]byte, error) {
	select {
	case msg := <-c.in:
		return msg, nil
	case <-c.closed:
		return nil, subscription.ErrTransportClientClosedConnection
	}
}

func (c *c19e1Client) WriteBytesToClient(message []byte) error {
	c.mu.Lock()
	defer c.mu.Unlock()
	if !c.connected {
		return subscription.ErrTransportClientClosedConnection
	}
	c.trace = append(c.trace, string(message))
	return nil
}

func (c *c19e1Client) IsConnected() bool {
	c.mu.Lock()
	defer c.mu.Unlock()
	return c.connected
}

func (c *c19e1Client) Disconnect() error { return c.DisconnectWithReason(nil) }

func (c *c19e1Client) DisconnectWithReason(reason any) error {
	c.mu.Lock()
	defer c.mu.Unlock()
	if !c.connected {
		return nil
	}
	c.connected = false
	c.trace = append(c.trace, "CLOSE "+c19e1CloseCode(reason))
	close(c.closed)
	return nil
}

func c19e1CloseCode(reason any) string {
	switch r := reason.(type) {
	case websocket.CloseReason:
		p := ws.Frame(r).Payload
		if len(p) >= 2 {
			return fmt.Sprintf("%d %s", binary.BigEndian.Uint16(p[:2]), string(p[2:]))
		}
	case websocket.CompiledCloseReason:
		f, err := ws.ReadFrame(bytes.NewReader(r))
		if err == nil && len(f.Payload) >= 2 {
			return fmt.Sprintf("%d %s", binary.BigEndian.Uint16(f.Payload[:2]), string(f.Payload[2:]))
		}
	}
	return fmt.Sprintf("%v", reason)
}

func (c *c19e1Client) send(msg string) { c.in <- []byte(msg) }

func (c *c19e1Client) snapshot() []string {
	c.mu.Lock()
	defer c.mu.Unlock()
	return append([]string(nil), c.trace...)
}

// waitFor waits until the trace contains at least n entries and returns it.
func (c *c19e1Client) waitFor(t *testing.T, n int) []string {
	t.Helper()
	deadline := time.Now().Add(2 * time.Second)
	for time.Now().Before(deadline) {
		if s := c.snapshot(); len(s) >= n {
			return s
		}
		time.Sleep(time.Millisecond)
	}
	t.Fatalf("timed out waiting for %d server outputs, got %q", n, c.snapshot())
	return nil
}

func c19e1Pool(t *testing.T, ctx context.Context) *subscription.ExecutorV2Pool {
	t.Helper()
	schema, err := graphql.NewSchemaFromString(`
		type Query { hello: String }
		type Subscription { counter: Int }
	`)
	if err != nil {
		t.Fatal(err)
	}
	conf := engine.NewConfiguration(schema)
	eng, err := engine.NewExecutionEngine(ctx, abstractlogger.NoopLogger, conf, resolve.ResolverOptions{MaxConcurrency: 16})
	if err != nil {
		t.Fatal(err)
	}
	return subscription.NewExecutorV2Pool(eng, ctx)
}

func c19e1Start(t *testing.T, protocol websocket.Protocol) *c19e1Client {
	t.Helper()
	ctx, cancel := context.WithCancel(context.Background())
	t.Cleanup(cancel)

	client := newC19e1Client()
	serverConn, peer := net.Pipe()
	t.Cleanup(func() { _ = peer.Close(); _ = client.Disconnect() })

	done := make(chan bool)
	errChan := make(chan error, 1)
	go websocket.Handle(done, errChan, serverConn, c19e1Pool(t, ctx),
		websocket.WithProtocol(protocol),
		websocket.WithCustomClient(client),
		websocket.WithCustomKeepAliveInterval(time.Hour),
		// default is 1s; shortened so that the test is fast
		websocket.WithCustomSubscriptionUpdateInterval(20*time.Millisecond),
	)
	select {
	case <-done:
	case err := <-errChan:
		t.Fatalf("handler did not start: %v", err)
	case <-time.After(2 * time.Second):
		t.Fatal("handler did not start")
	}
	return client
}

func c19e1Check(t *testing.T, protocol websocket.Protocol, startType string) {
	client := c19e1Start(t, protocol)

	client.send(`{"type":"connection_init"}`)
	client.waitFor(t, 1)

	// the field does not exist: the operation fails validation
	client.send(`{"id":"1","type":"` + startType + `","payload":{"query":"subscription { doesNotExist }"}}`)
	client.waitFor(t, 2)

	// ~15 update intervals
	time.Sleep(300 * time.Millisecond)

	got := client.snapshot()
	terminal := 0
	for _, m := range got[1:] {
		if strings.HasPrefix(m, `{"id":"1","type":"error"`) {
			terminal++
		}
	}
	if terminal != 1 {
		t.Errorf("%s: expected exactly one terminal message for id 1, the server sent %d; trace (%d entries), first 4: %q",
			protocol, terminal, len(got), got[:min(4, len(got))])
	}

	// the id must be reusable after the terminal message
	before := len(client.snapshot())
	client.send(`{"id":"1","type":"` + startType + `","payload":{"query":"{ hello }"}}`)
	time.Sleep(100 * time.Millisecond)
	for _, m := range client.snapshot()[before:] {
		if strings.HasPrefix(m, "CLOSE") || strings.Contains(m, "already exists") {
			t.Errorf("%s: re-using id 1 after its terminal error was rejected: %s", protocol, m)
			break
		}
	}
}

func TestK8_TransportWS_FailingSubscriptionRepeatsTerminalError(t *testing.T) {
	c19e1Check(t, websocket.ProtocolGraphQLTransportWS, "subscribe")
}

func TestK8_GraphQLWS_FailingSubscriptionRepeatsTerminalError(t *testing.T) {
	c19e1Check(t, websocket.ProtocolGraphQLWS, "start")
}
