package astparser

import (
	"testing"

	"github.com/wundergraph/graphql-go-tools/v2/pkg/ast"
)

// F82 (C05-R13), reported as C15 existing violation 4 by a seeding sub-agent: a FloatValue with an exponent sign and no
// fractional part (IntegerPart ExponentPart: 1e+5, 1E-5, -2e-3) was lexed as FLOAT `1e` followed by garbage.
// Copy into v2/pkg/astparser/ and run: cd v2 && go test ./pkg/astparser -run TestF82 -count=1
func TestF82FloatsWithSignedExponentAndNoFraction(t *testing.T) {
	for _, in := range []string{"1e5", "1.0e+5", "1e+5", "1E-5", "-2e-3", "0e-0"} {
		doc, report := ParseGraphqlDocumentString("{ f(f: " + in + ") }")
		if report.HasErrors() {
			t.Errorf("%s: %s", in, report.Error())
			continue
		}
		value := doc.Arguments[0].Value
		if value.Kind != ast.ValueKindFloat {
			t.Errorf("%s: kind %s", in, value.Kind)
			continue
		}
		got := string(doc.FloatValueRaw(value.Ref))
		if doc.FloatValueIsNegative(value.Ref) {
			got = "-" + got
		}
		if got != in {
			t.Errorf("%s: lexed as %q", in, got)
		}
	}
}
