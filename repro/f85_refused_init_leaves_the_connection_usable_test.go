// F85 (C19-R17), reported as existing_7 (parts a and b) by a seeding sub-agent; part c was repaired earlier as F42.
// Copy into execution/subscription/websocket/ and run: cd execution && go test -count=1 -run 'TestF85' ./subscription/websocket/
package websocket_test

// existing_7 (C19): on the UNMODIFIED tree, under graphql-ws (subscriptions-transport-ws)
//   (a) a connection_init that the configured InitFunc REJECTS is answered with connection_error, but
//       the socket stays open and a following "start" is executed as if nothing had happened - the
//       init check can be bypassed by simply ignoring the connection_error;
//   (b) connection_terminate does not terminate the connection: the socket stays open and later
//       "start" messages are still executed.
// See existing_7.md.
//
// Drop into execution/subscription/websocket/ and run
//   go test -count=1 -run 'TestF85' ./subscription/websocket/
// from the execution/ module.

import (
	"bytes"
	"context"
	"encoding/binary"
	"encoding/json"
	"errors"
	"fmt"
	"net"
	"strings"
	"sync"
	"sync/atomic"
	"testing"
	"time"

	"github.com/gobwas/ws"

	"github.com/wundergraph/graphql-go-tools/execution/subscription"
	"github.com/wundergraph/graphql-go-tools/execution/subscription/websocket"
	"github.com/wundergraph/graphql-go-tools/v2/pkg/ast"
	"github.com/wundergraph/graphql-go-tools/v2/pkg/engine/resolve"
)

// ---------------------------------------------------------------------------------------------
// recording transport client: everything the server sends (messages and close frames) is appended
// to one ordered trace, which is what the property observes.
// ---------------------------------------------------------------------------------------------

type c19e7Client struct {
	mu        sync.Mutex
	trace     []string
	connected bool
	in        chan []byte
	closed    chan struct{}
}

func newC19e7Client() *c19e7Client {
	return &c19e7Client{connected: true, in: make(chan []byte, 16), closed: make(chan struct{})}
}

func (c *c19e7Client) ReadBytesFromClient() ([]byte, error) {
	select {
	case msg := <-c.in:
		return msg, nil
	case <-c.closed:
		return nil, subscription.ErrTransportClientClosedConnection
	}
}

func (c *c19e7Client) WriteBytesToClient(message []byte) error {
	c.mu.Lock()
	defer c.mu.Unlock()
	if !c.connected {
		return subscription.ErrTransportClientClosedConnection
	}
	c.trace = append(c.trace, string(message))
	return nil
}

func (c *c19e7Client) IsConnected() bool {
	c.mu.Lock()
	defer c.mu.Unlock()
	return c.connected
}

func (c *c19e7Client) Disconnect() error { return c.DisconnectWithReason(nil) }

func (c *c19e7Client) DisconnectWithReason(reason any) error {
	c.mu.Lock()
	defer c.mu.Unlock()
	if !c.connected {
		return nil
	}
	c.connected = false
	c.trace = append(c.trace, "CLOSE "+c19e7CloseCode(reason))
	close(c.closed)
	return nil
}

func c19e7CloseCode(reason any) string {
	switch r := reason.(type) {
	case websocket.CloseReason:
		p := ws.Frame(r).Payload
		if len(p) >= 2 {
			return fmt.Sprintf("%d %s", binary.BigEndian.Uint16(p[:2]), string(p[2:]))
		}
	case websocket.CompiledCloseReason:
		f, err := ws.ReadFrame(bytes.NewReader(r))
		if err == nil && len(f.Payload) >= 2 {
			return fmt.Sprintf("%d %s", binary.BigEndian.Uint16(f.Payload[:2]), string(f.Payload[2:]))
		}
	}
	return fmt.Sprintf("%v", reason)
}

func (c *c19e7Client) send(msg string) { c.in <- []byte(msg) }

func (c *c19e7Client) snapshot() []string {
	c.mu.Lock()
	defer c.mu.Unlock()
	return append([]string(nil), c.trace...)
}

// waitFor waits until the trace contains at least n entries and returns it.
func (c *c19e7Client) waitFor(t *testing.T, n int) []string {
	t.Helper()
	deadline := time.Now().Add(2 * time.Second)
	for time.Now().Before(deadline) {
		if s := c.snapshot(); len(s) >= n {
			return s
		}
		time.Sleep(time.Millisecond)
	}
	t.Fatalf("timed out waiting for %d server outputs, got %q", n, c.snapshot())
	return nil
}

// ---------------------------------------------------------------------------------------------
// fake executor pool: "{ fail }" fails at execution time, everything else answers {"data":{"ok":true}}
// ---------------------------------------------------------------------------------------------

type c19e7Pool struct{}

func (c19e7Pool) Get(payload []byte) (subscription.Executor, error) {
	var req struct {
		Query string `json:"query"`
	}
	if err := json.Unmarshal(payload, &req); err != nil {
		return nil, err
	}
	return &c19e7Executor{query: req.Query}, nil
}

func (c19e7Pool) Put(subscription.Executor) error { return nil }

type c19e7Executor struct {
	query string
	ctx   context.Context
}

func (e *c19e7Executor) Execute(writer resolve.SubscriptionResponseWriter) error {
	if strings.Contains(e.query, "fail") {
		return errors.New("upstream unavailable")
	}
	_, err := writer.Write([]byte(`{"data":{"ok":true}}`))
	return err
}

func (e *c19e7Executor) OperationType() ast.OperationType {
	if strings.HasPrefix(strings.TrimSpace(e.query), "subscription") {
		return ast.OperationTypeSubscription
	}
	return ast.OperationTypeQuery
}

func (e *c19e7Executor) SetContext(ctx context.Context) { e.ctx = ctx }
func (e *c19e7Executor) Reset()                         {}

func c19e7Start(t *testing.T, protocol websocket.Protocol, extra ...websocket.HandleOptionFunc) *c19e7Client {
	t.Helper()
	client := newC19e7Client()
	serverConn, peer := net.Pipe()
	t.Cleanup(func() { _ = peer.Close(); _ = client.Disconnect() })

	done := make(chan bool)
	errChan := make(chan error, 1)
	opts := append([]websocket.HandleOptionFunc{
		websocket.WithProtocol(protocol),
		websocket.WithCustomClient(client),
		websocket.WithCustomKeepAliveInterval(time.Hour),
		websocket.WithCustomSubscriptionUpdateInterval(time.Hour),
	}, extra...)
	go websocket.Handle(done, errChan, serverConn, c19e7Pool{}, opts...)
	select {
	case <-done:
	case err := <-errChan:
		t.Fatalf("handler did not start: %v", err)
	case <-time.After(2 * time.Second):
		t.Fatal("handler did not start")
	}
	return client
}

func TestF85_GraphQLWS_RejectedInitMustNotAllowOperations(t *testing.T) {
	reject := func(ctx context.Context, _ websocket.InitPayload) (context.Context, error) {
		return ctx, errors.New("invalid token")
	}
	client := c19e7Start(t, websocket.ProtocolGraphQLWS, websocket.WithInitFunc(reject))

	client.send(`{"type":"connection_init","payload":{"Authorization":"Bearer wrong"}}`)
	got := client.waitFor(t, 1)
	if got[0] != `{"type":"connection_error","payload":"failed to accept the websocket connection"}` {
		t.Fatalf("unexpected reply to rejected init: %q", got)
	}

	client.send(`{"id":"1","type":"start","payload":{"query":"{ ok }"}}`)
	time.Sleep(200 * time.Millisecond)
	got = client.snapshot()
	for _, m := range got[1:] {
		if strings.HasPrefix(m, `{"id":"1","type":"data"`) {
			t.Fatalf("an operation was executed on a connection whose connection_init had been rejected: %q", got)
		}
	}
}

func TestF85_GraphQLWS_ConnectionTerminateTerminates(t *testing.T) {
	client := c19e7Start(t, websocket.ProtocolGraphQLWS)

	client.send(`{"type":"connection_init"}`)
	client.waitFor(t, 1)
	client.send(`{"type":"connection_terminate"}`)
	time.Sleep(100 * time.Millisecond)
	client.send(`{"id":"1","type":"start","payload":{"query":"{ ok }"}}`)
	time.Sleep(200 * time.Millisecond)

	got := client.snapshot()
	if client.IsConnected() {
		t.Errorf("the connection is still open after connection_terminate; server trace: %q", got)
	}
	for _, m := range got[1:] {
		if strings.HasPrefix(m, `{"id":"1"`) {
			t.Errorf("an operation was executed after connection_terminate: %q", got)
			break
		}
	}
}

// (c) related, both protocols: the InitFunc is only consulted when connection_init carries a payload.
// An InitFunc that demands credentials is therefore bypassed by sending connection_init WITHOUT a
// payload: the connection is acknowledged and operations run.
func TestF85_InitWithoutPayloadSkipsInitFunc(t *testing.T) {
	for _, protocol := range []websocket.Protocol{websocket.ProtocolGraphQLTransportWS, websocket.ProtocolGraphQLWS} {
		var called atomic.Bool
		requireToken := func(ctx context.Context, p websocket.InitPayload) (context.Context, error) {
			called.Store(true)
			if p.Authorization() != "Bearer secret" {
				return ctx, errors.New("invalid token")
			}
			return ctx, nil
		}
		client := c19e7Start(t, protocol, websocket.WithInitFunc(requireToken))
		client.send(`{"type":"connection_init"}`)
		time.Sleep(100 * time.Millisecond)
		got := client.snapshot()
		if !called.Load() || (len(got) > 0 && got[0] == `{"type":"connection_ack"}`) {
			t.Errorf("%s: connection_init without payload: InitFunc called=%v, server trace %q - the connection was acknowledged without consulting the InitFunc", protocol, called.Load(), got)
		}
	}
}
