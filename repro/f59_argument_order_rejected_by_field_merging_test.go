// F59 (C04-R11). Copy into v2/pkg/astvalidation/ and run: cd v2 && go test ./pkg/astvalidation -run TestF59 -count=1
// Before the fix the 2nd and 4th case fail: the same arguments / input object fields in another order were "differing fields".
package astvalidation

import (
	"testing"

	"github.com/wundergraph/graphql-go-tools/v2/pkg/asttransform"
	"github.com/wundergraph/graphql-go-tools/v2/pkg/astparser"
	"github.com/wundergraph/graphql-go-tools/v2/pkg/operationreport"
)

func TestF59ArgumentOrderIsNotADifference(t *testing.T) {
	schema := `schema { query: Query } type Query { f(a: Int, b: Int): Int g(in: In): Int } input In { a: Int b: Int }`
	for _, tc := range []struct {
		op    string
		valid bool
	}{
		{`{ f(a: 1, b: 2) f(a: 1, b: 2) }`, true},
		{`{ f(a: 1, b: 2) f(b: 2, a: 1) }`, true},
		{`{ f(a: 1, b: 2) f(b: 1, a: 2) }`, false},
		{`{ g(in: {a: 1, b: 2}) g(in: {b: 2, a: 1}) }`, true},
	} {
		def, rep := astparser.ParseGraphqlDocumentString(schema)
		if rep.HasErrors() {
			t.Fatal(rep.Error())
		}
		if err := asttransform.MergeDefinitionWithBaseSchema(&def); err != nil {
			t.Fatal(err)
		}
		op, rep := astparser.ParseGraphqlDocumentString(tc.op)
		if rep.HasErrors() {
			t.Fatal(rep.Error())
		}
		var report operationreport.Report
		v := DefaultOperationValidator()
		v.Validate(&op, &def, &report)
		if report.HasErrors() == tc.valid {
			t.Errorf("%s: valid=%v, report=%v", tc.op, tc.valid, report.Error())
		}
	}
}
