package engine_test

import (
	"bytes"
	"context"
	"encoding/json"
	"fmt"
	"io"
	"net/http"
	"reflect"
	"regexp"
	"strconv"
	"strings"
	"sync"
	"testing"
	"time"

	"github.com/jensneuse/abstractlogger"
	nodev1 "github.com/wundergraph/cosmo/router/gen/proto/wg/cosmo/node/v1"
	"google.golang.org/protobuf/encoding/protojson"

	"github.com/wundergraph/graphql-go-tools/execution/engine"
	"github.com/wundergraph/graphql-go-tools/execution/federationtesting"
	"github.com/wundergraph/graphql-go-tools/execution/graphql"
	"github.com/wundergraph/graphql-go-tools/v2/pkg/ast"
	"github.com/wundergraph/graphql-go-tools/v2/pkg/astparser"
	"github.com/wundergraph/graphql-go-tools/v2/pkg/engine/datasource/graphql_datasource"
	"github.com/wundergraph/graphql-go-tools/v2/pkg/engine/plan"
	"github.com/wundergraph/graphql-go-tools/v2/pkg/engine/resolve"
)

// ===================== harness (self-contained) =====================

// ---------- recording writer ----------

type c10ex5Writer struct {
	mu        sync.Mutex
	buf       bytes.Buffer
	frames    []string
	completed int
	inWrite   int32
	onFlush   func(n int)
}

func (w *c10ex5Writer) Write(p []byte) (int, error) {
	w.mu.Lock()
	defer w.mu.Unlock()
	return w.buf.Write(p)
}
func (w *c10ex5Writer) Flush() error {
	w.mu.Lock()
	w.frames = append(w.frames, w.buf.String())
	w.buf.Reset()
	n := len(w.frames)
	cb := w.onFlush
	w.mu.Unlock()
	if cb != nil {
		cb(n)
	}
	return nil
}
func (w *c10ex5Writer) Complete() {
	w.mu.Lock()
	w.completed++
	w.mu.Unlock()
}
func (w *c10ex5Writer) Heartbeat() error { return nil }
func (w *c10ex5Writer) Error(data []byte) {
	w.mu.Lock()
	w.buf.Write(data)
	w.mu.Unlock()
	_ = w.Flush()
}

var _ resolve.SubscriptionResponseWriter = (*c10ex5Writer)(nil)

// ---------- transport with schedule control ----------

type c10ex5Transport struct {
	base http.RoundTripper
	// hook is called with the request body before forwarding. It may block.
	hook func(host, body string)
	// rewrite may replace the response body
	rewrite func(host, reqBody string, respBody []byte) []byte
	mu      sync.Mutex
	log     []string
}

func (t *c10ex5Transport) RoundTrip(req *http.Request) (*http.Response, error) {
	var body []byte
	if req.Body != nil {
		body, _ = io.ReadAll(req.Body)
		req.Body.Close()
		req.Body = io.NopCloser(bytes.NewReader(body))
	}
	t.mu.Lock()
	t.log = append(t.log, req.URL.Host+" "+string(body))
	t.mu.Unlock()
	if t.hook != nil {
		t.hook(req.URL.Host, string(body))
	}
	resp, err := t.base.RoundTrip(req)
	if err != nil || t.rewrite == nil {
		return resp, err
	}
	rb, _ := io.ReadAll(resp.Body)
	resp.Body.Close()
	rb = t.rewrite(req.URL.Host, string(body), rb)
	resp.Body = io.NopCloser(bytes.NewReader(rb))
	resp.ContentLength = int64(len(rb))
	resp.Header.Del("Content-Length")
	return resp, nil
}

// ---------- env ----------

type c10ex5Env struct {
	t      testing.TB
	setup  *federationtesting.FederationSetup
	tr     *c10ex5Transport
	engine *engine.ExecutionEngine
	schema *graphql.Schema
}

func newC10ex5Env(t testing.TB) *c10ex5Env {
	setup, err := federationtesting.NewFederationSetup()
	if err != nil {
		t.Fatal(err)
	}
	t.Cleanup(setup.Close)
	cfg := bytes.Clone(federationtesting.RouterConfigJson)
	cfg = bytes.ReplaceAll(cfg, []byte("http://accounts-url-placeholder"), []byte(setup.AccountsUpstreamServer.URL))
	cfg = bytes.ReplaceAll(cfg, []byte("http://products-url-placeholder"), []byte(setup.ProductsUpstreamServer.URL))
	cfg = bytes.ReplaceAll(cfg, []byte("http://reviews-url-placeholder"), []byte(setup.ReviewsUpstreamServer.URL))
	var rc nodev1.RouterConfig
	if err := protojson.Unmarshal(cfg, &rc); err != nil {
		t.Fatal(err)
	}
	tr := &c10ex5Transport{base: http.DefaultTransport}
	client := &http.Client{Transport: tr}
	ctx, cancel := context.WithCancel(context.Background())
	t.Cleanup(cancel)
	f := engine.NewFederationEngineConfigFactory(ctx, engine.WithFederationHttpClient(client))
	ec, err := f.BuildEngineConfiguration(&rc)
	if err != nil {
		t.Fatal(err)
	}
	eng, err := engine.NewExecutionEngine(ctx, abstractlogger.NoopLogger, ec, resolve.ResolverOptions{MaxConcurrency: 1024})
	if err != nil {
		t.Fatal(err)
	}
	return &c10ex5Env{t: t, setup: setup, tr: tr, engine: eng, schema: ec.Schema()}
}

func (e *c10ex5Env) hostName(host string) string {
	switch {
	case strings.HasSuffix(e.setup.AccountsUpstreamServer.URL, host):
		return "accounts"
	case strings.HasSuffix(e.setup.ProductsUpstreamServer.URL, host):
		return "products"
	case strings.HasSuffix(e.setup.ReviewsUpstreamServer.URL, host):
		return "reviews"
	}
	return host
}

type c10ex5Result struct {
	frames    []string
	completed int
	err       error
	timedOut  bool
}

func (e *c10ex5Env) run(query string, variables string) c10ex5Result {
	w := &c10ex5Writer{}
	return e.runWith(query, variables, w)
}

func (e *c10ex5Env) runWith(query string, variables string, w *c10ex5Writer) c10ex5Result {
	req := graphql.Request{Query: query}
	if variables != "" {
		req.Variables = json.RawMessage(variables)
	}
	done := make(chan error, 1)
	ctx, cancel := context.WithCancel(context.Background())
	defer cancel()
	go func() {
		done <- e.engine.Execute(ctx, &req, w)
	}()
	var res c10ex5Result
	select {
	case res.err = <-done:
	case <-time.After(20 * time.Second):
		res.timedOut = true
	}
	w.mu.Lock()
	res.frames = append([]string(nil), w.frames...)
	if w.buf.Len() > 0 {
		res.frames = append(res.frames, w.buf.String())
	}
	res.completed = w.completed
	w.mu.Unlock()
	return res
}

// ---------- protocol check + merge ----------

type c10ex5Frame struct {
	Data        json.RawMessage     `json:"data"`
	Errors      []json.RawMessage   `json:"errors"`
	Pending     []c10ex5Pending     `json:"pending"`
	Incremental []c10ex5Incremental `json:"incremental"`
	Completed   []c10ex5Completed   `json:"completed"`
	HasNext     *bool               `json:"hasNext"`
}
type c10ex5Pending struct {
	ID    string `json:"id"`
	Path  []any  `json:"path"`
	Label string `json:"label"`
}
type c10ex5Incremental struct {
	ID      string            `json:"id"`
	Data    map[string]any    `json:"data"`
	SubPath []any             `json:"subPath"`
	Errors  []json.RawMessage `json:"errors"`
}
type c10ex5Completed struct {
	ID     string            `json:"id"`
	Errors []json.RawMessage `json:"errors"`
}

// c10ex5Reassemble validates the stream and returns the merged data.
func c10ex5Reassemble(frames []string) (merged any, problems []string) {
	if len(frames) == 0 {
		return nil, []string{"no frames"}
	}
	pending := map[string][]any{}
	completed := map[string]bool{}
	for i, raw := range frames {
		var f c10ex5Frame
		dec := json.NewDecoder(strings.NewReader(raw))
		if err := dec.Decode(&f); err != nil {
			problems = append(problems, fmt.Sprintf("frame %d not valid JSON: %v: %s", i, err, raw))
			continue
		}
		if dec.More() {
			problems = append(problems, fmt.Sprintf("frame %d has trailing content: %s", i, raw))
		}
		last := i == len(frames)-1
		if f.HasNext == nil {
			if !(i == 0 && last) {
				problems = append(problems, fmt.Sprintf("frame %d has no hasNext", i))
			}
		} else {
			if *f.HasNext && last {
				problems = append(problems, fmt.Sprintf("last frame %d has hasNext:true", i))
			}
			if !*f.HasNext && !last {
				problems = append(problems, fmt.Sprintf("frame %d has hasNext:false but is not last", i))
			}
		}
		if i == 0 {
			if f.Data != nil {
				if err := json.Unmarshal(f.Data, &merged); err != nil {
					problems = append(problems, "initial data invalid")
				}
			}
		} else if f.Data != nil {
			problems = append(problems, fmt.Sprintf("frame %d has top-level data", i))
		}
		// incrementals first must refer to already pending (announced in an earlier frame or this one? spec: earlier or same)
		for _, p := range f.Pending {
			if _, dup := pending[p.ID]; dup {
				problems = append(problems, fmt.Sprintf("frame %d: id %s announced twice", i, p.ID))
			}
			pending[p.ID] = p.Path
		}
		for _, inc := range f.Incremental {
			base, ok := pending[inc.ID]
			if !ok {
				problems = append(problems, fmt.Sprintf("frame %d: incremental for unannounced id %s", i, inc.ID))
				continue
			}
			if completed[inc.ID] {
				problems = append(problems, fmt.Sprintf("frame %d: incremental for already completed id %s", i, inc.ID))
			}
			full := append(append([]any{}, base...), inc.SubPath...)
			if err := c10ex5MergeAt(&merged, full, inc.Data); err != nil {
				problems = append(problems, fmt.Sprintf("frame %d: merge id %s at %v: %v", i, inc.ID, full, err))
			}
		}
		for _, c := range f.Completed {
			if _, ok := pending[c.ID]; !ok {
				problems = append(problems, fmt.Sprintf("frame %d: completed unannounced id %s", i, c.ID))
			}
			if completed[c.ID] {
				problems = append(problems, fmt.Sprintf("frame %d: id %s completed twice", i, c.ID))
			}
			completed[c.ID] = true
		}
	}
	for id := range pending {
		if !completed[id] {
			problems = append(problems, fmt.Sprintf("id %s announced but never completed", id))
		}
	}
	return merged, problems
}

func c10ex5MergeAt(root *any, path []any, data map[string]any) error {
	cur := *root
	for _, seg := range path {
		switch s := seg.(type) {
		case string:
			m, ok := cur.(map[string]any)
			if !ok {
				return fmt.Errorf("segment %q: not an object (%T)", s, cur)
			}
			cur, ok = m[s]
			if !ok {
				return fmt.Errorf("segment %q: missing", s)
			}
		case float64:
			a, ok := cur.([]any)
			if !ok {
				return fmt.Errorf("segment %v: not an array (%T)", s, cur)
			}
			if int(s) >= len(a) {
				return fmt.Errorf("segment %v: out of range", s)
			}
			cur = a[int(s)]
		}
	}
	m, ok := cur.(map[string]any)
	if !ok {
		return fmt.Errorf("target is not an object (%T)", cur)
	}
	c10ex5DeepMerge(m, data)
	return nil
}

func c10ex5DeepMerge(dst, src map[string]any) {
	for k, v := range src {
		if dv, ok := dst[k]; ok {
			dm, ok1 := dv.(map[string]any)
			sm, ok2 := v.(map[string]any)
			if ok1 && ok2 {
				c10ex5DeepMerge(dm, sm)
				continue
			}
			da, ok1 := dv.([]any)
			sa, ok2 := v.([]any)
			if ok1 && ok2 && len(da) == len(sa) {
				for i := range da {
					dmi, ok1 := da[i].(map[string]any)
					smi, ok2 := sa[i].(map[string]any)
					if ok1 && ok2 {
						c10ex5DeepMerge(dmi, smi)
					} else {
						da[i] = sa[i]
					}
				}
				continue
			}
		}
		dst[k] = v
	}
}

var c10ex5DeferRe = regexp.MustCompile(`@defer(\s*\([^)]*\))?`)

func c10ex5StripDefer(q string) string { return c10ex5DeferRe.ReplaceAllString(q, "") }
func c10ex5DeferIfFalse(q string) string {
	return c10ex5DeferRe.ReplaceAllString(q, "@defer(if: false)")
}

// check runs q with defer, and without, and returns problems.
func (e *c10ex5Env) check(q string, vars string) (problems []string, frames []string, plain string) {
	res := e.run(q, vars)
	frames = res.frames
	if res.timedOut {
		problems = append(problems, "deferred execution timed out")
		return
	}
	if res.err != nil {
		problems = append(problems, "deferred execution error: "+res.err.Error())
	}
	ref := e.run(c10ex5StripDefer(q), vars)
	if ref.err != nil {
		problems = append(problems, "plain execution error: "+ref.err.Error())
	}
	if len(ref.frames) != 1 {
		problems = append(problems, "plain execution produced "+strconv.Itoa(len(ref.frames))+" frames")
		return
	}
	plain = ref.frames[0]
	ref2 := e.run(c10ex5DeferIfFalse(q), vars)
	if len(ref2.frames) != 1 || ref2.frames[0] != plain {
		problems = append(problems, fmt.Sprintf("@defer(if:false) differs from plain: %v", ref2.frames))
	}
	var pf c10ex5Frame
	_ = json.Unmarshal([]byte(plain), &pf)
	var want any
	if pf.Data != nil {
		_ = json.Unmarshal(pf.Data, &want)
	}
	if len(frames) > 1 && res.completed != 1 {
		problems = append(problems, fmt.Sprintf("Complete() called %d times", res.completed))
	}
	got, probs := c10ex5Reassemble(frames)
	problems = append(problems, probs...)
	if !reflect.DeepEqual(got, want) {
		gj, _ := json.Marshal(got)
		wj, _ := json.Marshal(want)
		problems = append(problems, fmt.Sprintf("merged data differs:\n  got : %s\n  want: %s", gj, wj))
	}
	return
}

// c10ex5StaticSubgraph answers any (non-federated) query by projecting the selection
// set over a static JSON tree. Objects carry "__typename"; type conditions are
// matched against implements[typename].
type c10ex5StaticSubgraph struct {
	data       map[string]any
	implements map[string][]string
	mu         sync.Mutex
	log        []string
	hook       func(body string)
}

func (s *c10ex5StaticSubgraph) RoundTrip(req *http.Request) (*http.Response, error) {
	body, _ := io.ReadAll(req.Body)
	req.Body.Close()
	s.mu.Lock()
	s.log = append(s.log, string(body))
	s.mu.Unlock()
	if s.hook != nil {
		s.hook(string(body))
	}
	var in struct {
		Query string `json:"query"`
	}
	_ = json.Unmarshal(body, &in)
	doc, rep := astparser.ParseGraphqlDocumentString(in.Query)
	if rep.HasErrors() {
		return c10ex5JSON(400, `{"errors":[{"message":"parse error"}]}`), nil
	}
	var out any
	for _, n := range doc.RootNodes {
		if n.Kind == ast.NodeKindOperationDefinition {
			out = s.project(&doc, doc.OperationDefinitions[n.Ref].SelectionSet, s.data)
		}
	}
	b, _ := json.Marshal(map[string]any{"data": out})
	return c10ex5JSON(200, string(b)), nil
}

func c10ex5JSON(code int, body string) *http.Response {
	return &http.Response{StatusCode: code, Body: io.NopCloser(bytes.NewBufferString(body)), Header: http.Header{"Content-Type": []string{"application/json"}}}
}

func (s *c10ex5StaticSubgraph) matches(obj map[string]any, cond string) bool {
	tn, _ := obj["__typename"].(string)
	if tn == cond {
		return true
	}
	for _, i := range s.implements[tn] {
		if i == cond {
			return true
		}
	}
	return false
}

func (s *c10ex5StaticSubgraph) project(doc *ast.Document, set int, v any) any {
	switch x := v.(type) {
	case []any:
		out := make([]any, len(x))
		for i := range x {
			out[i] = s.project(doc, set, x[i])
		}
		return out
	case map[string]any:
		out := map[string]any{}
		s.projectInto(doc, set, x, out)
		return out
	default:
		return v
	}
}

func (s *c10ex5StaticSubgraph) projectInto(doc *ast.Document, set int, obj map[string]any, out map[string]any) {
	for _, selRef := range doc.SelectionSets[set].SelectionRefs {
		sel := doc.Selections[selRef]
		switch sel.Kind {
		case ast.SelectionKindField:
			name := doc.FieldNameString(sel.Ref)
			alias := doc.FieldAliasOrNameString(sel.Ref)
			val, ok := obj[name]
			if !ok {
				out[alias] = nil
				continue
			}
			if doc.Fields[sel.Ref].HasSelections {
				out[alias] = s.project(doc, doc.Fields[sel.Ref].SelectionSet, val)
			} else {
				out[alias] = val
			}
		case ast.SelectionKindInlineFragment:
			if doc.InlineFragmentHasTypeCondition(sel.Ref) {
				if !s.matches(obj, doc.InlineFragmentTypeConditionNameString(sel.Ref)) {
					continue
				}
			}
			s.projectInto(doc, doc.InlineFragments[sel.Ref].SelectionSet, obj, out)
		}
	}
}

// newC10ex5StaticEnv builds an engine with a single GraphQL data source serving the whole schema.
func newC10ex5StaticEnv(t testing.TB, sdl string, sub *c10ex5StaticSubgraph, rootFields []string, children []plan.TypeField) *c10ex5Env {
	schema, err := graphql.NewSchemaFromString(sdl)
	if err != nil {
		t.Fatal(err)
	}
	client := &http.Client{Transport: sub}
	ctx, cancel := context.WithCancel(context.Background())
	t.Cleanup(cancel)
	factory, err := graphql_datasource.NewFactory(ctx, client, graphql_datasource.NewGraphQLSubscriptionClient(ctx,
		graphql_datasource.WithUpgradeClient(client), graphql_datasource.WithStreamingClient(client)))
	if err != nil {
		t.Fatal(err)
	}
	sc, err := graphql_datasource.NewSchemaConfiguration(sdl, &graphql_datasource.FederationConfiguration{Enabled: true, ServiceSDL: sdl})
	if err != nil {
		t.Fatal(err)
	}
	cc, err := graphql_datasource.NewConfiguration(graphql_datasource.ConfigurationInput{
		Fetch:               &graphql_datasource.FetchConfiguration{URL: "https://static/", Method: "POST"},
		SchemaConfiguration: sc,
	})
	if err != nil {
		t.Fatal(err)
	}
	ds, err := plan.NewDataSourceConfiguration[graphql_datasource.Configuration]("static", factory, &plan.DataSourceMetadata{
		RootNodes:  []plan.TypeField{{TypeName: "Query", FieldNames: rootFields}},
		ChildNodes: children,
	}, cc)
	if err != nil {
		t.Fatal(err)
	}
	conf := engine.NewConfiguration(schema)
	conf.SetDataSources([]plan.DataSource{ds})
	eng, err := engine.NewExecutionEngine(ctx, abstractlogger.NoopLogger, conf, resolve.ResolverOptions{MaxConcurrency: 1024})
	if err != nil {
		t.Fatal(err)
	}
	return &c10ex5Env{t: t, engine: eng, schema: schema, tr: &c10ex5Transport{}}
}

// ===================== test =====================

// existing_5: when a non-null root field null-bubbles, the initial payload is
// {"errors":[...],"data":null} - but the defers are still announced and their
// incremental payloads are delivered for paths that do not exist in `data:null`
// (anchor-survival is checked against the internal tree, which is not nulled at
// the root, instead of against what was sent).
func TestC10ex5Existing5_DefersAnnouncedAlthoughDataIsNull(t *testing.T) {
	sdl := `type Query { a: String! b: String me: User! } type User { id: ID! name: String }`
	sub := &c10ex5StaticSubgraph{data: map[string]any{
		"a": nil, "b": "B", "me": map[string]any{"__typename": "User", "id": "1", "name": "N"},
	}}
	env := newC10ex5StaticEnv(t, sdl, sub, []string{"a", "b", "me"}, []plan.TypeField{{TypeName: "User", FieldNames: []string{"id", "name"}}})
	for _, q := range []string{
		`{ a ... @defer { b } }`,
		`{ a me { id ... @defer { name } } }`,
	} {
		problems, frames, plain := env.check(q, "")
		if len(problems) > 0 {
			t.Errorf("query: %s\nproblems:\n  %s\nframes:\n  %s\nplain: %s", q, strings.Join(problems, "\n  "), strings.Join(frames, "\n  "), plain)
		}
	}
}
