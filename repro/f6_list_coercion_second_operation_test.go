package astnormalization

// Reproduction of finding F6 (C03-R1 / visitor wiring): inputCoercionForListVisitor implements
// EnterOperationDefinition (it records which operation's variable definitions to consult) but
// inputCoercionForList never registers it, so operationDefinitionRef stays 0: for a document with
// several operations whose selected operation is not the first one, variables are looked up in
// OperationDefinitions[0] and list coercion of the selected operation's variables is skipped or fails.
// Drop into v2/pkg/astnormalization and run: go test -run TestVerifF6 -count=1 .
// Fails on the pinned tree, passes with the "fix:" commit.

import (
	"testing"

	"github.com/wundergraph/graphql-go-tools/v2/pkg/astparser"
	"github.com/wundergraph/graphql-go-tools/v2/pkg/asttransform"
	"github.com/wundergraph/graphql-go-tools/v2/pkg/operationreport"
)

func TestVerifF6ListCoercionForNonFirstOperation(t *testing.T) {
	const schema = `type Query { items(ids: [ID!]): [String] other(x: Int): String }`
	run := func(t *testing.T, operation, operationName, variables string) string {
		definition, rep := astparser.ParseGraphqlDocumentString(schema)
		if rep.HasErrors() {
			t.Fatal(rep.Error())
		}
		if err := asttransform.MergeDefinitionWithBaseSchema(&definition); err != nil {
			t.Fatal(err)
		}
		op, rep := astparser.ParseGraphqlDocumentString(operation)
		if rep.HasErrors() {
			t.Fatal(rep.Error())
		}
		op.Input.Variables = []byte(variables)
		normalizer := NewWithOpts(WithExtractVariables(), WithRemoveNotMatchingOperationDefinitions())
		var report operationreport.Report
		normalizer.NormalizeNamedOperation(&op, &definition, []byte(operationName), &report)
		if report.HasErrors() {
			t.Fatalf("normalization of %q failed: %s", operationName, report.Error())
		}
		return string(op.Input.Variables)
	}
	single := run(t, `query B($ids: [ID!]) { items(ids: $ids) }`, "B", `{"ids":"a"}`)
	if single != `{"ids":["a"]}` {
		t.Fatalf("single operation: got %s", single)
	}
	// the same operation, selected by name, but second in the document
	second := run(t, `query A($x: Int) { other(x: $x) } query B($ids: [ID!]) { items(ids: $ids) }`, "B", `{"ids":"a"}`)
	if second != `{"ids":["a"]}` {
		t.Fatalf("operation B placed second in the document: single value for [ID!] was not coerced to a list: got %s", second)
	}
}
