package grpcdatasource

// F66 (C20-R18), part (a) of a seeding sub-agent's report existing_7: entity lookups (`_entities`).
//   (a) `__typename` selected directly on `_entities` in front of the first inline fragment makes
//       NewDataSource (the planner) panic with a nil pointer dereference.
//   (b) the `_entities` list is not positionally aligned with the representations when the last
//       representation(s) have a type for which the operation has no inline fragment: the list is
//       shorter than the representations list (leading/inner gaps are filled with null).
//
// Goes into v2/pkg/engine/datasource/grpc_datasource/ ; run with
//
//	cd v2 && go test -count=1 -run 'TestF66' ./pkg/engine/datasource/grpc_datasource/

import (
	"context"
	"fmt"
	"testing"

	"github.com/stretchr/testify/require"

	"github.com/wundergraph/graphql-go-tools/v2/pkg/astparser"
	"github.com/wundergraph/graphql-go-tools/v2/pkg/engine/plan"
	"github.com/wundergraph/graphql-go-tools/v2/pkg/grpctest"
)

var c20e7Federation = plan.FederationFieldConfigurations{
	{TypeName: "Product", SelectionSet: "id"},
	{TypeName: "Storage", SelectionSet: "id"},
}

func c20e7NewDataSource(t *testing.T, transport RPCTransport, query string) (*DataSource, error) {
	t.Helper()

	schemaDoc := grpctest.MustGraphQLSchema(t)
	queryDoc, report := astparser.ParseGraphqlDocumentString(query)
	require.False(t, report.HasErrors(), "parse: %s", report.Error())

	compiler, err := NewProtoCompiler(grpctest.MustProtoSchema(t), testMapping())
	require.NoError(t, err)

	return NewDataSource(transport, DataSourceConfig{
		Operation:         &queryDoc,
		Definition:        &schemaDoc,
		SubgraphName:      "Products",
		Mapping:           testMapping(),
		Compiler:          compiler,
		FederationConfigs: c20e7Federation,
	})
}

func TestF66TypenameBelowEntitiesDoesNotPanicThePlanner(t *testing.T) {
	conn, cleanup := setupTestGRPCServer(t)
	t.Cleanup(cleanup)

	query := `query($representations: [_Any!]!) { _entities(representations: $representations) { __typename ... on Product { id name } } }`

	var (
		ds  *DataSource
		err error
	)
	require.NotPanics(t, func() {
		ds, err = c20e7NewDataSource(t, NewGRPCTransport(conn), query)
	}, "planning a valid entity lookup must not panic")
	require.NoError(t, err)

	out, err := ds.Load(context.Background(), nil, []byte(fmt.Sprintf(`{"query":%q,"body":{"variables":{"representations":[{"__typename":"Product","id":"9"}]}}}`, query)))
	require.NoError(t, err)
	require.JSONEq(t, `{"data":{"_entities":[{"__typename":"Product","id":"9","name":"Product 9"}]}}`, string(out))
}
