package engine

// C01 semantic-model federation harness.
//
// A tiny in-memory "data universe" is served by
//   - a monolithic reference executor (owns all the data), and
//   - N subgraph executors which answer ANY query they are sent, but only from the fields
//     their own federation SDL declares; external fields are only readable from the
//     _entities representation (or via @provides), exactly as a real subgraph would see them.
//
// The gateway (ExecutionEngine) is wired to the subgraph executors through http.RoundTripper,
// so the response of the gateway can be compared with the response of the monolith.

import (
	"bytes"
	"context"
	"encoding/json"
	"fmt"
	"io"
	"net/http"
	"os"
	"reflect"
	"sort"
	"strings"
	"sync"
	"testing"

	"github.com/jensneuse/abstractlogger"
	"github.com/stretchr/testify/require"

	nodev1 "github.com/wundergraph/cosmo/router/gen/proto/wg/cosmo/node/v1"

	"github.com/wundergraph/graphql-go-tools/execution/graphql"
	"github.com/wundergraph/graphql-go-tools/v2/pkg/ast"
	"github.com/wundergraph/graphql-go-tools/v2/pkg/astparser"
	"github.com/wundergraph/graphql-go-tools/v2/pkg/engine/datasource/graphql_datasource"
	"github.com/wundergraph/graphql-go-tools/v2/pkg/engine/plan"
	"github.com/wundergraph/graphql-go-tools/v2/pkg/engine/resolve"
)

// ---------- data universe ----------

type c01Obj struct {
	typ string
	f   map[string]any // scalar | *c01Obj | []any | c01Fn
}

type c01Call struct {
	args map[string]any
	get  func(path ...string) any
	// ext reads a field which a @requires resolver depends on: the monolith computes the truth,
	// a subgraph which declares the field @external only sees what the gateway put into the representation
	ext func(field string, truth func() any) any
}

type c01Fn func(c *c01Call) any

type c01Universe struct {
	entities map[string][]*c01Obj // by concrete type name
	query    map[string]any       // Query root fields: value or c01Fn
	mutation map[string]any       // Mutation root fields: c01Fn with side effects on the universe
	// reset restores the initial state of a universe with mutations (called before every execution)
	resetState func()
}

func c01NewObj(typ string, kv ...any) *c01Obj {
	o := &c01Obj{typ: typ, f: map[string]any{}}
	for i := 0; i+1 < len(kv); i += 2 {
		o.f[kv[i].(string)] = kv[i+1]
	}
	return o
}

// ---------- schema model (parsed from SDL) ----------

type c01Field struct {
	name     string
	typeName string
	external bool
	requires string
	provides string
}

type c01Key struct {
	fields     string
	resolvable bool
}

type c01Type struct {
	name    string
	kind    string // object | interface | union
	fields  map[string]*c01Field
	order   []string
	keys    []c01Key
	members []string // union members
	impls   []string // interfaces implemented (objects)
	// interfaceObject: an object type declared with @interfaceObject, standing in for an entity interface
	interfaceObject bool
}

type c01Schema struct {
	types map[string]*c01Type
	order []string
}

func c01ParseSDL(t testing.TB, sdl string) *c01Schema {
	doc, report := astparser.ParseGraphqlDocumentString(sdl)
	if report.HasErrors() {
		t.Fatalf("parse sdl: %s", report.Error())
	}
	s := &c01Schema{types: map[string]*c01Type{}}
	add := func(ty *c01Type) {
		s.types[ty.name] = ty
		s.order = append(s.order, ty.name)
	}
	strArg := func(dirRef int, name string) string {
		v, ok := doc.DirectiveArgumentValueByName(dirRef, []byte(name))
		if !ok {
			return ""
		}
		return strings.ReplaceAll(doc.StringValueContentString(v.Ref), `\"`, `"`)
	}
	fields := func(refs []int) (map[string]*c01Field, []string) {
		out := map[string]*c01Field{}
		var order []string
		for _, fr := range refs {
			f := &c01Field{
				name:     doc.FieldDefinitionNameString(fr),
				typeName: doc.ResolveTypeNameString(doc.FieldDefinitionType(fr)),
			}
			for _, dr := range doc.FieldDefinitions[fr].Directives.Refs {
				switch doc.DirectiveNameString(dr) {
				case "external":
					f.external = true
				case "requires":
					f.requires = strArg(dr, "fields")
				case "provides":
					f.provides = strArg(dr, "fields")
				}
			}
			out[f.name] = f
			order = append(order, f.name)
		}
		return out, order
	}
	keys := func(directiveRefs []int) (out []c01Key) {
		for _, dr := range directiveRefs {
			if doc.DirectiveNameString(dr) == "key" {
				k := c01Key{fields: strArg(dr, "fields"), resolvable: true}
				if v, ok := doc.DirectiveArgumentValueByName(dr, []byte("resolvable")); ok && v.Kind == ast.ValueKindBoolean {
					k.resolvable = bool(doc.BooleanValue(v.Ref))
				}
				out = append(out, k)
			}
		}
		return out
	}
	for i := range doc.ObjectTypeDefinitions {
		ty := &c01Type{name: doc.ObjectTypeDefinitionNameString(i), kind: "object"}
		ty.fields, ty.order = fields(doc.ObjectTypeDefinitions[i].FieldsDefinition.Refs)
		for _, tr := range doc.ObjectTypeDefinitions[i].ImplementsInterfaces.Refs {
			ty.impls = append(ty.impls, doc.ResolveTypeNameString(tr))
		}
		ty.keys = keys(doc.ObjectTypeDefinitions[i].Directives.Refs)
		for _, dr := range doc.ObjectTypeDefinitions[i].Directives.Refs {
			if doc.DirectiveNameString(dr) == "interfaceObject" {
				ty.interfaceObject = true
			}
		}
		add(ty)
	}
	for i := range doc.InterfaceTypeDefinitions {
		ty := &c01Type{name: doc.InterfaceTypeDefinitionNameString(i), kind: "interface"}
		ty.fields, ty.order = fields(doc.InterfaceTypeDefinitions[i].FieldsDefinition.Refs)
		ty.keys = keys(doc.InterfaceTypeDefinitions[i].Directives.Refs)
		add(ty)
	}
	for i := range doc.UnionTypeDefinitions {
		ty := &c01Type{name: doc.UnionTypeDefinitionNameString(i), kind: "union", fields: map[string]*c01Field{}}
		for _, tr := range doc.UnionTypeDefinitions[i].UnionMemberTypes.Refs {
			ty.members = append(ty.members, doc.ResolveTypeNameString(tr))
		}
		add(ty)
	}
	return s
}

// possibleTypes returns the concrete object types an (abstract or concrete) type can resolve to
func (s *c01Schema) possibleTypes(name string) []string {
	ty, ok := s.types[name]
	if !ok {
		return nil
	}
	switch ty.kind {
	case "object":
		return []string{name}
	case "union":
		return ty.members
	default:
		var out []string
		for _, n := range s.order {
			o := s.types[n]
			if o.kind != "object" {
				continue
			}
			for _, i := range o.impls {
				if i == name {
					out = append(out, n)
				}
			}
		}
		return out
	}
}

func (s *c01Schema) typeMatches(condition, concrete string) bool {
	for _, p := range s.possibleTypes(condition) {
		if p == concrete {
			return true
		}
	}
	return false
}

// ---------- subgraph definition ----------

type c01Subgraph struct {
	name   string
	sdl    string
	schema *c01Schema

	mu         sync.Mutex
	requests   []string
	violations []string
}

func (sg *c01Subgraph) violate(format string, args ...any) {
	sg.mu.Lock()
	defer sg.mu.Unlock()
	sg.violations = append(sg.violations, fmt.Sprintf("[%s] ", sg.name)+fmt.Sprintf(format, args...))
}

// selection tree of a field set string, e.g. "id info { a b }" (inline fragments are flattened)
type c01Sel map[string]c01Sel

func c01ParseFieldSet(fieldSet string) c01Sel {
	doc, report := astparser.ParseGraphqlDocumentString("{" + fieldSet + "}")
	if report.HasErrors() {
		panic(report.Error())
	}
	var walk func(set int) c01Sel
	walk = func(set int) c01Sel {
		out := c01Sel{}
		for _, sr := range doc.SelectionSets[set].SelectionRefs {
			sel := doc.Selections[sr]
			switch sel.Kind {
			case ast.SelectionKindField:
				var child c01Sel
				if doc.Fields[sel.Ref].HasSelections {
					child = walk(doc.Fields[sel.Ref].SelectionSet)
				}
				name := doc.FieldNameString(sel.Ref)
				if prev, ok := out[name]; ok && prev != nil {
					for k, v := range child {
						prev[k] = v
					}
				} else {
					out[name] = child
				}
			case ast.SelectionKindInlineFragment:
				for k, v := range walk(doc.InlineFragments[sel.Ref].SelectionSet) {
					out[k] = v
				}
			}
		}
		return out
	}
	return walk(doc.OperationDefinitions[0].SelectionSet)
}

func (sg *c01Subgraph) isKeyField(typeName, field string) bool {
	ty := sg.schema.types[typeName]
	if ty == nil {
		return false
	}
	for _, k := range ty.keys {
		if _, ok := c01ParseFieldSet(k.fields)[field]; ok {
			return true
		}
	}
	return false
}

// metadata derives the planner metadata the way composition does
func (sg *c01Subgraph) metadata(super *c01Schema) *plan.DataSourceMetadata {
	md := &plan.DataSourceMetadata{}
	for _, name := range sg.schema.order {
		ty := sg.schema.types[name]
		if ty.kind == "union" {
			continue
		}
		tf := plan.TypeField{TypeName: name}
		for _, fn := range ty.order {
			f := ty.fields[fn]
			if f.external {
				tf.ExternalFieldNames = append(tf.ExternalFieldNames, fn)
			} else {
				tf.FieldNames = append(tf.FieldNames, fn)
			}
			if f.requires != "" {
				md.FederationMetaData.Requires = append(md.FederationMetaData.Requires, plan.FederationFieldConfiguration{TypeName: name, FieldName: fn, SelectionSet: f.requires})
			}
			if f.provides != "" {
				md.FederationMetaData.Provides = append(md.FederationMetaData.Provides, plan.FederationFieldConfiguration{TypeName: name, FieldName: fn, SelectionSet: f.provides})
			}
		}
		isRoot := name == "Query" || name == "Mutation" || len(ty.keys) > 0
		if isRoot {
			md.RootNodes = append(md.RootNodes, tf)
		} else {
			md.ChildNodes = append(md.ChildNodes, tf)
		}
		for _, k := range ty.keys {
			md.FederationMetaData.Keys = append(md.FederationMetaData.Keys, plan.FederationFieldConfiguration{TypeName: name, SelectionSet: k.fields, DisableEntityResolver: !k.resolvable})
		}
		concrete := super.possibleTypes(name)
		switch {
		case ty.interfaceObject:
			// the interface object contributes its fields to every implementation of the interface
			md.FederationMetaData.InterfaceObjects = append(md.FederationMetaData.InterfaceObjects, plan.EntityInterfaceConfiguration{InterfaceTypeName: name, ConcreteTypeNames: concrete})
			for _, c := range concrete {
				ctf := tf
				ctf.TypeName = c
				md.RootNodes = append(md.RootNodes, ctf)
				for _, k := range ty.keys {
					md.FederationMetaData.Keys = append(md.FederationMetaData.Keys, plan.FederationFieldConfiguration{TypeName: c, SelectionSet: k.fields, DisableEntityResolver: !k.resolvable})
				}
			}
		case ty.kind == "interface" && len(ty.keys) > 0:
			md.FederationMetaData.EntityInterfaces = append(md.FederationMetaData.EntityInterfaces, plan.EntityInterfaceConfiguration{InterfaceTypeName: name, ConcreteTypeNames: concrete})
		}
	}
	return md
}

// ---------- executor ----------

type c01View struct {
	obj      *c01Obj
	rep      map[string]any // set when the object was reached through _entities
	provided c01Sel         // external fields made available by an enclosing @provides
}

type c01Exec struct {
	u      *c01Universe
	super  *c01Schema   // supergraph schema, for type conditions
	sg     *c01Subgraph // nil: monolith
	doc    *ast.Document
	vars   map[string]any
	errors []string
}

// typeOf is the type name under which the subgraph knows the object: a subgraph with an
// @interfaceObject only knows the interface name, never the concrete implementations
func (e *c01Exec) typeOf(o *c01Obj) string {
	if e.sg == nil {
		return o.typ
	}
	if _, ok := e.sg.schema.types[o.typ]; ok {
		return o.typ
	}
	for _, name := range e.sg.schema.order {
		if e.sg.schema.types[name].interfaceObject && e.super.typeMatches(name, o.typ) {
			return name
		}
	}
	return o.typ
}

func (e *c01Exec) fail(format string, args ...any) {
	msg := fmt.Sprintf(format, args...)
	e.errors = append(e.errors, msg)
	if e.sg != nil {
		e.sg.violate("%s", msg)
	}
}

func (e *c01Exec) value(v ast.Value) any {
	switch v.Kind {
	case ast.ValueKindVariable:
		return e.vars[e.doc.VariableValueNameString(v.Ref)]
	case ast.ValueKindString:
		return e.doc.StringValueContentString(v.Ref)
	case ast.ValueKindInteger:
		return float64(e.doc.IntValueAsInt(v.Ref))
	case ast.ValueKindFloat:
		return float64(e.doc.FloatValueAsFloat32(v.Ref))
	case ast.ValueKindBoolean:
		return bool(e.doc.BooleanValue(v.Ref))
	case ast.ValueKindEnum:
		return e.doc.EnumValueNameString(v.Ref)
	case ast.ValueKindNull:
		return nil
	case ast.ValueKindList:
		out := []any{}
		for _, r := range e.doc.ListValues[v.Ref].Refs {
			out = append(out, e.value(e.doc.Value(r)))
		}
		return out
	case ast.ValueKindObject:
		out := map[string]any{}
		for _, r := range e.doc.ObjectValues[v.Ref].Refs {
			out[e.doc.ObjectFieldNameString(r)] = e.value(e.doc.ObjectFieldValue(r))
		}
		return out
	}
	return nil
}

func (e *c01Exec) skipped(directives []int) bool {
	for _, dr := range directives {
		name := e.doc.DirectiveNameString(dr)
		if name != "skip" && name != "include" {
			continue
		}
		v, ok := e.doc.DirectiveArgumentValueByName(dr, []byte("if"))
		if !ok {
			continue
		}
		b, _ := e.value(v).(bool)
		if name == "skip" && b {
			return true
		}
		if name == "include" && !b {
			return true
		}
	}
	return false
}

// read reads a field of the view the way the resolver code of the subgraph could:
// external fields come from the representation (or an enclosing @provides), own fields from the store.
func (e *c01Exec) read(v *c01View, path ...string) any {
	var cur any = v
	for _, p := range path {
		switch c := cur.(type) {
		case *c01View:
			cur = e.readField(c, p)
		case map[string]any:
			cur = c[p]
		case *c01Obj:
			cur = e.readField(&c01View{obj: c}, p)
		default:
			return nil
		}
	}
	if vv, ok := cur.(*c01View); ok {
		return vv.obj
	}
	return cur
}

func (e *c01Exec) readField(v *c01View, field string) any {
	if e.sg != nil {
		if ty := e.sg.schema.types[e.typeOf(v.obj)]; ty != nil {
			if def := ty.fields[field]; def != nil && def.external {
				if _, ok := v.provided[field]; !ok {
					if v.rep == nil {
						return nil
					}
					return v.rep[field]
				}
			}
		}
	}
	raw := v.obj.f[field]
	if fn, ok := raw.(c01Fn); ok {
		return fn(e.call(v, map[string]any{}))
	}
	return raw
}

func (e *c01Exec) call(v *c01View, args map[string]any) *c01Call {
	return &c01Call{
		args: args,
		get:  func(path ...string) any { return e.read(v, path...) },
		ext: func(field string, truth func() any) any {
			if e.sg == nil {
				return truth()
			}
			ty := e.sg.schema.types[e.typeOf(v.obj)]
			if ty == nil || ty.fields[field] == nil || !ty.fields[field].external {
				return truth()
			}
			if _, ok := v.provided[field]; ok {
				return truth()
			}
			if v.rep == nil {
				return nil
			}
			return v.rep[field]
		},
	}
}

func (e *c01Exec) execSelectionSet(set int, v *c01View, out map[string]any) {
	for _, sr := range e.doc.SelectionSets[set].SelectionRefs {
		sel := e.doc.Selections[sr]
		switch sel.Kind {
		case ast.SelectionKindField:
			if e.skipped(e.doc.Fields[sel.Ref].Directives.Refs) {
				continue
			}
			e.execField(sel.Ref, v, out)
		case ast.SelectionKindInlineFragment:
			if e.skipped(e.doc.InlineFragments[sel.Ref].Directives.Refs) {
				continue
			}
			if e.doc.InlineFragmentHasTypeCondition(sel.Ref) {
				cond := e.doc.InlineFragmentTypeConditionNameString(sel.Ref)
				if e.sg != nil && e.sg.schema.types[cond] == nil {
					e.fail("unknown type %s in fragment type condition", cond)
					continue
				}
				if cond != e.typeOf(v.obj) && !e.super.typeMatches(cond, e.typeOf(v.obj)) {
					continue
				}
			}
			e.execSelectionSet(e.doc.InlineFragments[sel.Ref].SelectionSet, v, out)
		case ast.SelectionKindFragmentSpread:
			if e.skipped(e.doc.FragmentSpreads[sel.Ref].Directives.Refs) {
				continue
			}
			fr, ok := e.doc.FragmentDefinitionRef(e.doc.FragmentSpreadNameBytes(sel.Ref))
			if !ok {
				e.fail("unknown fragment")
				continue
			}
			cond := e.doc.FragmentDefinitionTypeName(fr).String()
			if cond != e.typeOf(v.obj) && !e.super.typeMatches(cond, e.typeOf(v.obj)) {
				continue
			}
			e.execSelectionSet(e.doc.FragmentDefinitions[fr].SelectionSet, v, out)
		}
	}
}

func (e *c01Exec) execField(ref int, v *c01View, out map[string]any) {
	name := e.doc.FieldNameString(ref)
	key := e.doc.FieldAliasOrNameString(ref)
	if name == "__typename" {
		out[key] = e.typeOf(v.obj)
		return
	}

	var def *c01Field
	childProvided := v.provided[name]
	if e.sg != nil {
		ty := e.sg.schema.types[e.typeOf(v.obj)]
		if ty == nil {
			e.fail("type %s is unknown to the subgraph", e.typeOf(v.obj))
			out[key] = nil
			return
		}
		def = ty.fields[name]
		if def == nil {
			e.fail("field %s.%s is unknown to the subgraph", e.typeOf(v.obj), name)
			out[key] = nil
			return
		}
		if def.external {
			_, isProvided := v.provided[name]
			if !isProvided && !e.sg.isKeyField(e.typeOf(v.obj), name) {
				e.fail("field %s.%s is @external in the subgraph and neither a key field nor provided here - the subgraph does not own it", e.typeOf(v.obj), name)
				if v.rep == nil {
					// a real subgraph has no data for a field it does not own
					out[key] = nil
					return
				}
			}
		}
		if def.provides != "" {
			childProvided = c01ParseFieldSet(def.provides)
		}
	}

	args := map[string]any{}
	for _, ar := range e.doc.FieldArguments(ref) {
		args[e.doc.ArgumentNameString(ar)] = e.value(e.doc.ArgumentValue(ar))
	}

	var raw any
	if e.sg != nil && def.external && v.rep != nil {
		if _, isProvided := v.provided[name]; !isProvided {
			// the subgraph can only echo what it was given
			if rv, ok := v.rep[name]; ok {
				out[key] = rv
				return
			}
		}
	}
	raw = v.obj.f[name]
	if fn, ok := raw.(c01Fn); ok {
		raw = fn(e.call(v, args))
	}
	out[key] = c01Merge(out[key], e.complete(ref, raw, childProvided))
}

// c01Merge merges the results of two selections of the same response key (CollectFields semantics)
func c01Merge(prev, next any) any {
	switch p := prev.(type) {
	case map[string]any:
		n, ok := next.(map[string]any)
		if !ok {
			return next
		}
		for k, v := range n {
			p[k] = c01Merge(p[k], v)
		}
		return p
	case []any:
		n, ok := next.([]any)
		if !ok || len(n) != len(p) {
			return next
		}
		for i := range p {
			p[i] = c01Merge(p[i], n[i])
		}
		return p
	}
	return next
}

func (e *c01Exec) complete(ref int, raw any, provided c01Sel) any {
	switch val := raw.(type) {
	case nil:
		return nil
	case *c01Obj:
		if val == nil {
			return nil
		}
		if !e.doc.Fields[ref].HasSelections {
			e.fail("object field %s without selection", e.doc.FieldNameString(ref))
			return nil
		}
		child := map[string]any{}
		e.execSelectionSet(e.doc.Fields[ref].SelectionSet, &c01View{obj: val, provided: provided}, child)
		return child
	case []*c01Obj:
		out := make([]any, 0, len(val))
		for _, o := range val {
			out = append(out, e.complete(ref, o, provided))
		}
		return out
	case []any:
		out := make([]any, 0, len(val))
		for _, o := range val {
			out = append(out, e.complete(ref, o, provided))
		}
		return out
	default:
		return val
	}
}

func c01Match(rep map[string]any, sel c01Sel, obj *c01Obj) bool {
	for field, child := range sel {
		rv, ok := rep[field]
		if !ok {
			return false
		}
		ov := obj.f[field]
		if child != nil {
			rm, ok1 := rv.(map[string]any)
			oo, ok2 := ov.(*c01Obj)
			if !ok1 || !ok2 || !c01Match(rm, child, oo) {
				return false
			}
			continue
		}
		if fmt.Sprint(rv) != fmt.Sprint(ov) {
			return false
		}
	}
	return true
}

func c01RepHas(rep map[string]any, sel c01Sel) bool {
	for field, child := range sel {
		rv, ok := rep[field]
		if !ok || rv == nil {
			return false
		}
		if child != nil {
			rm, ok := rv.(map[string]any)
			if !ok || !c01RepHas(rm, child) {
				return false
			}
		}
	}
	return true
}

func (e *c01Exec) entities(ref int) any {
	var reps []any
	for _, ar := range e.doc.FieldArguments(ref) {
		if e.doc.ArgumentNameString(ar) == "representations" {
			reps, _ = e.value(e.doc.ArgumentValue(ar)).([]any)
		}
	}
	out := make([]any, 0, len(reps))
	for _, r := range reps {
		rep, _ := r.(map[string]any)
		tn, _ := rep["__typename"].(string)
		ty := e.sg.schema.types[tn]
		if ty == nil || len(ty.keys) == 0 {
			e.fail("_entities: %q is not an entity of this subgraph (representation %v)", tn, rep)
			out = append(out, nil)
			continue
		}
		var found *c01Obj
		matchedKey := false
		for _, k := range ty.keys {
			sel := c01ParseFieldSet(k.fields)
			if !c01RepHas(rep, sel) {
				continue
			}
			if !k.resolvable {
				continue
			}
			matchedKey = true
			for _, candidateType := range append([]string{tn}, e.super.possibleTypes(tn)...) {
				for _, o := range e.u.entities[candidateType] {
					if found == nil && c01Match(rep, sel, o) {
						found = o
					}
				}
			}
			break
		}
		if !matchedKey {
			e.fail("_entities: representation %v does not satisfy any resolvable @key of %s", rep, tn)
			out = append(out, nil)
			continue
		}
		if found == nil {
			out = append(out, nil)
			continue
		}
		child := map[string]any{}
		e.execSelectionSet(e.doc.Fields[ref].SelectionSet, &c01View{obj: found, rep: rep}, child)
		out = append(out, child)
	}
	return out
}

func (e *c01Exec) run() map[string]any {
	data := map[string]any{}
	op := e.doc.OperationDefinitions[0]
	root := &c01Obj{typ: "Query", f: e.u.query}
	if op.OperationType == ast.OperationTypeMutation {
		root = &c01Obj{typ: "Mutation", f: e.u.mutation}
	}
	for _, sr := range e.doc.SelectionSets[op.SelectionSet].SelectionRefs {
		sel := e.doc.Selections[sr]
		if sel.Kind != ast.SelectionKindField {
			e.execSelectionSetOne(sr, root, data)
			continue
		}
		if e.skipped(e.doc.Fields[sel.Ref].Directives.Refs) {
			continue
		}
		if e.sg != nil && e.doc.FieldNameString(sel.Ref) == "_entities" {
			data[e.doc.FieldAliasOrNameString(sel.Ref)] = e.entities(sel.Ref)
			continue
		}
		e.execField(sel.Ref, &c01View{obj: root}, data)
	}
	return data
}

// execSelectionSetOne executes a single non-field selection at the root
func (e *c01Exec) execSelectionSetOne(selectionRef int, root *c01Obj, out map[string]any) {
	sel := e.doc.Selections[selectionRef]
	switch sel.Kind {
	case ast.SelectionKindInlineFragment:
		if e.skipped(e.doc.InlineFragments[sel.Ref].Directives.Refs) {
			return
		}
		e.execSelectionSet(e.doc.InlineFragments[sel.Ref].SelectionSet, &c01View{obj: root}, out)
	case ast.SelectionKindFragmentSpread:
		fr, ok := e.doc.FragmentDefinitionRef(e.doc.FragmentSpreadNameBytes(sel.Ref))
		if ok {
			e.execSelectionSet(e.doc.FragmentDefinitions[fr].SelectionSet, &c01View{obj: root}, out)
		}
	}
}

// ---------- scenario ----------

// c01ViaRouterConfig is set by c01_routerconfig_test.go (optional file)
var c01ViaRouterConfig func(t *testing.T, supergraphSDL string, universe *c01Universe, subgraphs ...*c01Subgraph) *c01Scenario

type c01Scenario struct {
	supergraphSDL string
	super         *c01Schema
	universe      *c01Universe
	subgraphs     []*c01Subgraph
	engine        *ExecutionEngine
	schema        *graphql.Schema
}

type c01RoundTripper struct {
	sc *c01Scenario
	sg *c01Subgraph
}

func (rt *c01RoundTripper) RoundTrip(req *http.Request) (*http.Response, error) {
	body, _ := io.ReadAll(req.Body)
	rt.sg.mu.Lock()
	rt.sg.requests = append(rt.sg.requests, string(body))
	rt.sg.mu.Unlock()

	var in struct {
		Query     string         `json:"query"`
		Variables map[string]any `json:"variables"`
	}
	resp := map[string]any{}
	if err := json.Unmarshal(body, &in); err != nil {
		rt.sg.violate("request body is not JSON: %s", string(body))
		resp["errors"] = []any{map[string]any{"message": "bad request"}}
	} else {
		doc, report := astparser.ParseGraphqlDocumentString(in.Query)
		if report.HasErrors() {
			rt.sg.violate("request does not parse: %s: %s", report.Error(), in.Query)
			resp["errors"] = []any{map[string]any{"message": "parse error"}}
		} else {
			ex := &c01Exec{u: rt.sc.universe, super: rt.sc.super, sg: rt.sg, doc: &doc, vars: in.Variables}
			data := ex.run()
			resp["data"] = data
			if len(ex.errors) > 0 {
				var errs []any
				for _, m := range ex.errors {
					errs = append(errs, map[string]any{"message": m})
				}
				resp["errors"] = errs
			}
		}
	}
	out, _ := json.Marshal(resp)
	return &http.Response{StatusCode: 200, Body: io.NopCloser(bytes.NewReader(out)), Header: http.Header{"Content-Type": []string{"application/json"}}}, nil
}

func c01NewScenario(t *testing.T, supergraphSDL string, universe *c01Universe, subgraphs ...*c01Subgraph) *c01Scenario {
	t.Helper()
	if c01ViaRouterConfig != nil && os.Getenv("C01_ROUTER_CONFIG") != "" {
		return c01ViaRouterConfig(t, supergraphSDL, universe, subgraphs...)
	}
	sc := &c01Scenario{supergraphSDL: supergraphSDL, universe: universe, subgraphs: subgraphs}
	sc.super = c01ParseSDL(t, supergraphSDL)

	var dataSources []plan.DataSource
	for _, sg := range subgraphs {
		sg.schema = c01ParseSDL(t, sg.sdl)
		client := &http.Client{Transport: &c01RoundTripper{sc: sc, sg: sg}}
		factory, err := graphql_datasource.NewFactory(context.Background(), client, graphql_datasource.NewGraphQLSubscriptionClient(context.Background(),
			graphql_datasource.WithUpgradeClient(client), graphql_datasource.WithStreamingClient(client)))
		require.NoError(t, err)
		schemaCfg, err := graphql_datasource.NewSchemaConfiguration(sg.sdl, &graphql_datasource.FederationConfiguration{Enabled: true, ServiceSDL: sg.sdl})
		require.NoError(t, err)
		custom, err := graphql_datasource.NewConfiguration(graphql_datasource.ConfigurationInput{
			Fetch:               &graphql_datasource.FetchConfiguration{URL: "https://" + sg.name + "/", Method: "POST"},
			SchemaConfiguration: schemaCfg,
		})
		require.NoError(t, err)
		ds, err := plan.NewDataSourceConfigurationWithName[graphql_datasource.Configuration](sg.name, sg.name, factory, sg.metadata(sc.super), custom)
		require.NoError(t, err)
		dataSources = append(dataSources, ds)
	}

	schema, err := graphql.NewSchemaFromString(supergraphSDL)
	require.NoError(t, err)
	sc.schema = schema
	conf := NewConfiguration(schema)
	conf.SetDataSources(dataSources)
	conf.SetFieldConfigurations(c01FieldConfigurations(sc.supergraphSDL, t))
	if os.Getenv("C01_DEBUG") != "" {
		conf.plannerConfig.Debug = plan.DebugConfiguration{PrintQueryPlans: true, PrintPlanningPaths: true}
	}
	eng, err := NewExecutionEngine(context.Background(), abstractlogger.Noop{}, conf, resolve.ResolverOptions{MaxConcurrency: 1024})
	require.NoError(t, err)
	sc.engine = eng
	return sc
}

// c01FieldConfigurations declares every field argument of the supergraph as a field-argument source
func c01FieldConfigurations(sdl string, t testing.TB) plan.FieldConfigurations {
	doc, report := astparser.ParseGraphqlDocumentString(sdl)
	if report.HasErrors() {
		t.Fatalf("parse sdl: %s", report.Error())
	}
	var out plan.FieldConfigurations
	collect := func(typeName string, refs []int) {
		for _, fr := range refs {
			if !doc.FieldDefinitions[fr].HasArgumentsDefinitions {
				continue
			}
			cfg := plan.FieldConfiguration{TypeName: typeName, FieldName: doc.FieldDefinitionNameString(fr)}
			for _, ar := range doc.FieldDefinitions[fr].ArgumentsDefinition.Refs {
				cfg.Arguments = append(cfg.Arguments, plan.ArgumentConfiguration{Name: doc.InputValueDefinitionNameString(ar), SourceType: plan.FieldArgumentSource})
			}
			out = append(out, cfg)
		}
	}
	for i := range doc.ObjectTypeDefinitions {
		collect(doc.ObjectTypeDefinitionNameString(i), doc.ObjectTypeDefinitions[i].FieldsDefinition.Refs)
	}
	for i := range doc.InterfaceTypeDefinitions {
		collect(doc.InterfaceTypeDefinitionNameString(i), doc.InterfaceTypeDefinitions[i].FieldsDefinition.Refs)
	}
	return out
}

type c01Result struct {
	raw        string
	data       any
	errors     any
	execErr    error
	requests   map[string][]string
	violations []string
}

func (sc *c01Scenario) reset() {
	for _, sg := range sc.subgraphs {
		sg.mu.Lock()
		sg.requests = nil
		sg.violations = nil
		sg.mu.Unlock()
	}
}

func (sc *c01Scenario) gateway(query, variables string) c01Result {
	sc.reset()
	if sc.universe.resetState != nil {
		sc.universe.resetState()
	}
	req := graphql.Request{Query: query}
	if variables != "" {
		req.Variables = json.RawMessage(variables)
	}
	w := graphql.NewEngineResultWriter()
	err := sc.engine.Execute(context.Background(), &req, &w)
	res := c01Result{raw: w.String(), execErr: err, requests: map[string][]string{}}
	var parsed map[string]any
	if w.String() != "" {
		_ = json.Unmarshal([]byte(w.String()), &parsed)
	}
	res.data = parsed["data"]
	res.errors = parsed["errors"]
	for _, sg := range sc.subgraphs {
		sg.mu.Lock()
		res.requests[sg.name] = append([]string(nil), sg.requests...)
		res.violations = append(res.violations, sg.violations...)
		sg.mu.Unlock()
	}
	return res
}

func (sc *c01Scenario) reference(t testing.TB, query, variables string) any {
	doc, report := astparser.ParseGraphqlDocumentString(query)
	if report.HasErrors() {
		t.Fatalf("reference: query does not parse: %s", report.Error())
	}
	vars := map[string]any{}
	if variables != "" {
		if err := json.Unmarshal([]byte(variables), &vars); err != nil {
			t.Fatalf("bad variables: %v", err)
		}
	}
	if sc.universe.resetState != nil {
		sc.universe.resetState()
	}
	ex := &c01Exec{u: sc.universe, super: sc.super, doc: &doc, vars: vars}
	data := ex.run()
	// normalise through JSON so numbers compare equal
	b, _ := json.Marshal(data)
	var out any
	_ = json.Unmarshal(b, &out)
	return out
}

func c01JSON(v any) string {
	b, _ := json.Marshal(v)
	return string(b)
}

// diff runs the operation through the gateway and through the monolith; category is empty when they agree
func (sc *c01Scenario) diff(t testing.TB, query, variables string) (category string, report string) {
	want := sc.reference(t, query, variables)
	got := sc.gateway(query, variables)
	var sb strings.Builder
	add := func(cat string, format string, args ...any) {
		if category == "" {
			category = cat
		}
		fmt.Fprintf(&sb, format+"\n", args...)
	}
	if got.execErr != nil {
		msg := got.execErr.Error()
		cat := msg
		if len(cat) > 90 {
			cat = cat[:90]
		}
		add("exec error: "+cat, "gateway failed to execute a valid operation: %v", msg)
	}
	if got.errors != nil {
		add("gateway errors", "gateway reports errors, the monolith does not: %s", c01JSON(got.errors))
	}
	if len(got.violations) > 0 {
		add("subgraph request violation", "subgraph requests violate the subgraph schema / ownership:\n  %s", strings.Join(got.violations, "\n  "))
	}
	if !reflect.DeepEqual(want, got.data) {
		add("data differs", "data differs\nmonolith:  %s\ngateway:   %s", c01JSON(want), c01JSON(got.data))
	}
	if category == "" {
		return "", ""
	}
	fmt.Fprintf(&sb, "query:     %s\nvariables: %s\n", query, variables)
	names := make([]string, 0, len(got.requests))
	for n := range got.requests {
		names = append(names, n)
	}
	sort.Strings(names)
	for _, n := range names {
		for _, r := range got.requests[n] {
			fmt.Fprintf(&sb, "request to %s: %s\n", n, r)
		}
	}
	return category, sb.String()
}

// check fails the test when the gateway and the monolith disagree
func (sc *c01Scenario) check(t *testing.T, query, variables string) (ok bool) {
	t.Helper()
	category, report := sc.diff(t, query, variables)
	if category != "" {
		t.Errorf("[%s]\n%s", category, report)
		return false
	}
	return true
}

// ---------- helpers ----------

func c01Num(v any, path ...string) float64 {
	for _, p := range path {
		switch c := v.(type) {
		case map[string]any:
			v = c[p]
		case *c01Obj:
			if c == nil {
				return -1
			}
			v = c.f[p]
		default:
			return -1
		}
	}
	switch n := v.(type) {
	case float64:
		return n
	case int:
		return float64(n)
	case nil:
		return -1
	}
	return -2
}

// ---------- engine built through FederationEngineConfigFactory from a cosmo RouterConfig ----------

func init() { c01ViaRouterConfig = c01NewScenarioViaRouterConfig }

type c01HostRoundTripper struct {
	byHost map[string]*c01RoundTripper
}

func (rt *c01HostRoundTripper) RoundTrip(req *http.Request) (*http.Response, error) {
	return rt.byHost[req.URL.Host].RoundTrip(req)
}

func c01NewScenarioViaRouterConfig(t *testing.T, supergraphSDL string, universe *c01Universe, subgraphs ...*c01Subgraph) *c01Scenario {
	t.Helper()
	sc := &c01Scenario{supergraphSDL: supergraphSDL, universe: universe, subgraphs: subgraphs}
	sc.super = c01ParseSDL(t, supergraphSDL)

	static := func(s string) *nodev1.ConfigurationVariable {
		return &nodev1.ConfigurationVariable{Kind: nodev1.ConfigurationVariableKind_STATIC_CONFIGURATION_VARIABLE, StaticVariableContent: s}
	}
	engineConfig := &nodev1.EngineConfiguration{
		DefaultFlushInterval: 500,
		GraphqlSchema:        supergraphSDL,
		StringStorage:        map[string]string{},
	}
	for _, fc := range c01FieldConfigurations(supergraphSDL, t) {
		out := &nodev1.FieldConfiguration{TypeName: fc.TypeName, FieldName: fc.FieldName}
		for _, a := range fc.Arguments {
			out.ArgumentsConfiguration = append(out.ArgumentsConfiguration, &nodev1.ArgumentConfiguration{Name: a.Name, SourceType: nodev1.ArgumentSource_FIELD_ARGUMENT})
		}
		engineConfig.FieldConfigurations = append(engineConfig.FieldConfigurations, out)
	}
	rt := &c01HostRoundTripper{byHost: map[string]*c01RoundTripper{}}
	for _, sg := range subgraphs {
		sg.schema = c01ParseSDL(t, sg.sdl)
		rt.byHost[sg.name] = &c01RoundTripper{sc: sc, sg: sg}
		md := sg.metadata(sc.super)
		ds := &nodev1.DataSourceConfiguration{
			Id:   sg.name,
			Kind: nodev1.DataSourceKind_GRAPHQL,
			CustomGraphql: &nodev1.DataSourceCustom_GraphQL{
				Fetch:          &nodev1.FetchConfiguration{Url: static("https://" + sg.name + "/"), Method: nodev1.HTTPMethod_POST},
				Subscription:   &nodev1.GraphQLSubscriptionConfiguration{Url: static("")},
				Federation:     &nodev1.GraphQLFederationConfiguration{Enabled: true, ServiceSdl: sg.sdl},
				UpstreamSchema: &nodev1.InternedString{Key: sg.name},
			},
		}
		engineConfig.StringStorage[sg.name] = sg.sdl
		for _, n := range md.RootNodes {
			ds.RootNodes = append(ds.RootNodes, &nodev1.TypeField{TypeName: n.TypeName, FieldNames: n.FieldNames, ExternalFieldNames: n.ExternalFieldNames})
		}
		for _, n := range md.ChildNodes {
			ds.ChildNodes = append(ds.ChildNodes, &nodev1.TypeField{TypeName: n.TypeName, FieldNames: n.FieldNames, ExternalFieldNames: n.ExternalFieldNames})
		}
		for _, k := range md.FederationMetaData.Keys {
			ds.Keys = append(ds.Keys, &nodev1.RequiredField{TypeName: k.TypeName, SelectionSet: k.SelectionSet, DisableEntityResolver: k.DisableEntityResolver})
		}
		for _, k := range md.FederationMetaData.Requires {
			ds.Requires = append(ds.Requires, &nodev1.RequiredField{TypeName: k.TypeName, FieldName: k.FieldName, SelectionSet: k.SelectionSet})
		}
		for _, k := range md.FederationMetaData.Provides {
			ds.Provides = append(ds.Provides, &nodev1.RequiredField{TypeName: k.TypeName, FieldName: k.FieldName, SelectionSet: k.SelectionSet})
		}
		for _, c := range md.FederationMetaData.EntityInterfaces {
			ds.EntityInterfaces = append(ds.EntityInterfaces, &nodev1.EntityInterfaceConfiguration{InterfaceTypeName: c.InterfaceTypeName, ConcreteTypeNames: c.ConcreteTypeNames})
		}
		for _, c := range md.FederationMetaData.InterfaceObjects {
			ds.InterfaceObjects = append(ds.InterfaceObjects, &nodev1.EntityInterfaceConfiguration{InterfaceTypeName: c.InterfaceTypeName, ConcreteTypeNames: c.ConcreteTypeNames})
		}
		engineConfig.DatasourceConfigurations = append(engineConfig.DatasourceConfigurations, ds)
	}

	client := &http.Client{Transport: rt}
	factory := NewFederationEngineConfigFactory(context.Background(), WithFederationHttpClient(client), WithFederationStreamingClient(client))
	conf, err := factory.BuildEngineConfiguration(&nodev1.RouterConfig{EngineConfig: engineConfig})
	require.NoError(t, err)
	sc.schema = conf.schema
	eng, err := NewExecutionEngine(context.Background(), abstractlogger.Noop{}, conf, resolve.ResolverOptions{MaxConcurrency: 1024})
	require.NoError(t, err)
	sc.engine = eng
	return sc
}
