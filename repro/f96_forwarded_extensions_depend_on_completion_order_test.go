package resolve

// F96 (C08): the forwarded subgraph extensions depended on the completion order of parallel fetches. The loader collected
// the `extensions` object of every subgraph response in merge order — for the children of a Parallel node the completion
// order — and the renderer keeps per key the first (first_write) or last (last_write) collected value:
//   Parallel(s1, s2), s1: "extensions":{"traceId":"s1"}, s2: {"traceId":"s2"}  ->  traceId s1 or s2, whoever answered first.
// Drop into v2/pkg/engine/resolve/ and run
//   cd v2 && go test ./pkg/engine/resolve -run TestF96 -count=1 -v
// Fails before the fix, passes after.

import (
	"bytes"
	"context"
	"net/http"
	"sync"
	"testing"
	"time"

	"github.com/wundergraph/graphql-go-tools/v2/pkg/ast"
	"github.com/wundergraph/graphql-go-tools/v2/pkg/engine/datasource/httpclient"
)

type f96xGates struct {
	mu     sync.Mutex
	merged map[string]chan struct{}
}

func (g *f96xGates) OnLoad(ctx context.Context, _ DataSourceInfo) context.Context { return ctx }

func (g *f96xGates) OnFinished(_ context.Context, ds DataSourceInfo, _ *ResponseInfo) {
	g.mu.Lock()
	defer g.mu.Unlock()
	if ch, ok := g.merged[ds.Name]; ok {
		select {
		case <-ch:
		default:
			close(ch)
		}
	}
}

type f96xSource struct {
	gates   *f96xGates
	waitFor string
	body    string
}

func (s *f96xSource) Load(ctx context.Context, _ http.Header, _ []byte) ([]byte, error) {
	if s.waitFor != "" {
		select {
		case <-s.gates.merged[s.waitFor]:
		case <-time.After(5 * time.Second):
		case <-ctx.Done():
			return nil, ctx.Err()
		}
	}
	return []byte(s.body), nil
}

func (s *f96xSource) LoadWithFiles(ctx context.Context, h http.Header, in []byte, _ []*httpclient.FileUpload) ([]byte, error) {
	return s.Load(ctx, h, in)
}

func f96xRun(t *testing.T, first string, algorithm ExtensionForwardingAlgorithm) string {
	t.Helper()
	gates := &f96xGates{merged: map[string]chan struct{}{"s1": make(chan struct{}), "s2": make(chan struct{})}}
	wait := map[string]string{}
	if first == "s1" {
		wait["s2"] = "s1"
	} else {
		wait["s1"] = "s2"
	}
	root := func(name, field string) *FetchTreeNode {
		return SingleWithPath(&SingleFetch{
			FetchConfiguration: FetchConfiguration{
				DataSource: &f96xSource{gates: gates, waitFor: wait[name], body: `{"data":{"` + field + `":"v"},"extensions":{"traceId":"` + name + `"}}`},
				PostProcessing: PostProcessingConfiguration{
					SelectResponseDataPath:   []string{"data"},
					SelectResponseErrorsPath: []string{"errors"},
				},
			},
			Info: &FetchInfo{DataSourceID: name, DataSourceName: name, OperationType: ast.OperationTypeQuery},
			InputTemplate: InputTemplate{Segments: []TemplateSegment{{
				SegmentType: StaticSegmentType,
				Data:        []byte(`{"method":"POST","url":"http://` + name + `","body":{"query":"{` + field + `}"}}`),
			}}},
		}, "query")
	}
	response := &GraphQLResponse{
		Info:    &GraphQLResponseInfo{OperationType: ast.OperationTypeQuery},
		Fetches: Sequence(Parallel(root("s1", "a"), root("s2", "b"))),
		Data: &Object{Fields: []*Field{
			{Name: []byte("a"), Value: &String{Path: []string{"a"}}},
			{Name: []byte("b"), Value: &String{Path: []string{"b"}}},
		}},
	}
	rCtx, cancel := context.WithCancel(context.Background())
	defer cancel()
	r := New(rCtx, ResolverOptions{
		MaxConcurrency:                 8,
		PropagateSubgraphErrors:        true,
		AllowCustomExtensionProperties: true,
		ResolvableOptions:              ResolvableOptions{ExtensionForwardingAlgorithm: algorithm},
	})
	ctx := NewContext(context.Background())
	ctx.SetEngineLoaderHooks(gates)
	buf := &bytes.Buffer{}
	if _, err := r.ResolveGraphQLResponse(ctx, response, nil, buf); err != nil {
		t.Fatalf("resolve: %v", err)
	}
	return buf.String()
}

func TestF96_ForwardedExtensionsDependOnCompletionOrder(t *testing.T) {
	for _, algorithm := range []ExtensionForwardingAlgorithm{ExtensionForwardingAlgorithmFirstWrite, ExtensionForwardingAlgorithmLastWrite} {
		s1First := f96xRun(t, "s1", algorithm)
		s2First := f96xRun(t, "s2", algorithm)
		t.Logf("%s, s1 completes first: %s", algorithm, s1First)
		t.Logf("%s, s2 completes first: %s", algorithm, s2First)
		if s1First != s2First {
			t.Errorf("%s: response bytes depend on the completion order of two parallel fetches", algorithm)
		}
	}
}
