package astparser

import (
	"strings"
	"testing"

	"github.com/wundergraph/graphql-go-tools/v2/pkg/ast"
	"github.com/wundergraph/graphql-go-tools/v2/pkg/operationreport"
)

func TestF26_FieldsNamedLikeDefinitionKeywordsAreCounted(t *testing.T) {
	for _, tc := range []struct {
		doc        string
		realFields int
	}{
		{`{ a b c d e f }`, 6},
		{`{ query a b c d e }`, 6},
		{`{ x { fragment { b } c d e } }`, 6},
		{`{ mutation ` + strings.Repeat("a ", 200) + `}`, 201},
	} {
		doc := ast.NewSmallDocument()
		doc.Input.ResetInputString(tc.doc)
		report := &operationreport.Report{}
		stats, err := NewParser().ParseWithLimits(TokenizerLimits{MaxFields: 5}, doc, report)
		short := tc.doc
		if len(short) > 40 {
			short = short[:40] + "…"
		}
		t.Logf("%-44s real fields %3d, counted %3d, err=%v", short, tc.realFields, stats.TotalFields, err)
		if err == nil {
			t.Errorf("DEFECT REPRODUCED: a document with %d fields is accepted under MaxFields=5: %s", tc.realFields, short)
		}
	}
}
