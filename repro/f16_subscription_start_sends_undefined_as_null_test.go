package graphql_datasource

import (
	"context"
	"net/http"
	"testing"

	"github.com/wundergraph/graphql-go-tools/v2/pkg/engine/datasource/httpclient"
	"github.com/wundergraph/graphql-go-tools/v2/pkg/engine/resolve"
)

type f16CapturingClient struct {
	got GraphQLSubscriptionOptions
}

func (c *f16CapturingClient) Subscribe(ctx *resolve.Context, options GraphQLSubscriptionOptions, updater resolve.SubscriptionUpdater) error {
	c.got = options
	return nil
}

// The resolver renders a variable the client left undefined as null and lists its name under "undefined"
// (resolve.SetInputUndefinedVariables → httpclient.SetUndefinedVariables). Source.Load removes such variables
// again before it sends the request; SubscriptionSource.Start must do the same.
func TestF16_SubscriptionStartForwardsUndefinedVariablesAsNull(t *testing.T) {
	input := []byte(`{"url":"http://localhost/graphql","body":{"query":"subscription($a: Int, $b: Int){ s(a: $a, b: $b) }","variables":{"a":null,"b":1}}}`)
	input, err := httpclient.SetUndefinedVariables(input, []string{"a"})
	if err != nil {
		t.Fatal(err)
	}

	// what a query sends for the same input
	q := (&Source{}).compactAndUnNullVariables(input)
	t.Logf("query path sends:        %s", q)

	client := &f16CapturingClient{}
	src := &SubscriptionSource{client: client}
	if err := src.Start(resolve.NewContext(context.Background()), http.Header{}, input, nil); err != nil {
		t.Fatal(err)
	}
	t.Logf("subscription path sends: variables=%s", client.got.Body.Variables)
	if string(client.got.Body.Variables) != `{"b":1}` {
		t.Fatalf("DEFECT REPRODUCED: the subscription is started with variables %s: the variable the client omitted reaches the subgraph as an explicit null (the query path sends {\"b\":1})", client.got.Body.Variables)
	}
}
