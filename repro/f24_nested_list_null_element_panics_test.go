package resolve

import (
	"bytes"
	"context"
	"strings"
	"testing"

	"github.com/wundergraph/graphql-go-tools/v2/pkg/ast"
)

// [[Int!]] (nullable inner list, non-null element): a null element must null the inner list (the nearest nullable
// ancestor) and report an error.
func TestF24_NestedListNullElement(t *testing.T) {
	res := NewResolvable(nil, ResolvableOptions{})
	if err := res.Init(&Context{}, []byte(`{"m":[[1,2],[3,null]]}`), ast.OperationTypeQuery); err != nil {
		t.Fatal(err)
	}
	root := &Object{Fields: []*Field{{Name: []byte("m"), Value: &Array{Path: []string{"m"}, Nullable: true, Item: &Array{Nullable: true, Item: &Integer{}}}}}}
	out := &bytes.Buffer{}
	defer func() {
		if p := recover(); p != nil {
			t.Fatalf("DEFECT REPRODUCED: Resolve panicked: %v", p)
		}
	}()
	if err := res.Resolve(context.Background(), root, nil, out); err != nil {
		t.Fatal(err)
	}
	t.Log(out.String())
	if !strings.Contains(out.String(), `"data":{"m":[[1,2],null]}`) || !strings.Contains(out.String(), `"path":["m",1,1]`) {
		t.Fatalf("the inner list (nearest nullable ancestor) must be nulled and the error reported at [m,1,1]: %s", out.String())
	}
}
